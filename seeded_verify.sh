#!/bin/bash
# seeded_verify.sh <ID> <worktree> <package dir> <demo test file name> <demo test regexp>
# Confirms in the scratch worktree: with the change the demo fails and the package's own tests pass; without it the demo passes.
set -u
ID=$1; WT=$2; PKG=$3; DEMO=$4; RE="${5%% *}"; EXTRA=""; case "$5" in *" "*) EXTRA="${5#* }";; esac
export GOFLAGS=-mod=mod GOPROXY=off GOSUMDB=off GOTOOLCHAIN=local
OUT=/verif/seeded/$ID; mkdir -p $OUT
cd $WT || exit 2
git diff > /tmp/seeded-verify-$ID-saved.patch 2>/dev/null   # never git stash: the stash is shared by all worktrees
git checkout -q -- . 2>/dev/null; rm -f $PKG/$DEMO
cp $OUT/$DEMO $PKG/$DEMO
echo "== without change: demo" > $OUT/verify.log
go test -count=1 -run "$RE" ./$PKG/ $EXTRA >> $OUT/verify.log 2>&1; base_demo=$?
git apply $OUT/patch.diff || { echo "patch does not apply" >> $OUT/verify.log; exit 2; }
echo "== with change: build" >> $OUT/verify.log
go build ./$PKG/ >> $OUT/verify.log 2>&1; build=$?
echo "== with change: demo" >> $OUT/verify.log
go test -count=1 -run "$RE" ./$PKG/ $EXTRA >> $OUT/verify.log 2>&1; mut_demo=$?
rm -f $PKG/$DEMO
echo "== with change: package tests (demo removed)" >> $OUT/verify.log
go test -count=1 ./$PKG/ >> $OUT/verify.log 2>&1; mut_pkg=$?
git checkout -q -- .
echo "RESULT base_demo_rc=$base_demo build_rc=$build mutated_demo_rc=$mut_demo mutated_pkg_tests_rc=$mut_pkg" | tee -a $OUT/verify.log
