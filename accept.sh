#!/bin/bash
# accept.sh ID...: runs each check's quick tier; on exit 0 with valid evidence adds the id to ready.txt
cd /verif
for id in "$@"; do
  out=$(VERIF_BUDGET_S=${BUDGET:-240} timeout 1800 ./check $id quick 2>&1); rc=$?
  echo "$out" | grep "^SUMMARY\|^KNOWN\|^VIOLATION\|HARNESS" | cut -c1-260 | head -8
  if [ $rc -eq 0 ]; then
    grep -qw $id ready.txt || sed -i "s/$/ $id/" ready.txt
    echo "ACCEPTED $id"
  else echo "NOT ACCEPTED $id rc=$rc"; fi
done
./gen_manifest.py; ./validate.sh
