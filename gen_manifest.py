#!/usr/bin/env python3
"""Generates MANIFEST.json from checks.tsv + manifest_meta.json (per-check level/notes) + properties.jsonl."""
import json, os, subprocess
vd = os.path.dirname(os.path.abspath(__file__))
props = [json.loads(l) for l in open(os.path.join(vd, "properties.jsonl")) if l.strip()]
meta = json.load(open(os.path.join(vd, "manifest_meta.json")))
import glob
ids = []
for f in sorted(glob.glob(os.path.join(vd, "meta", "C*.json"))):
    i = os.path.basename(f)[:-5]
    ids.append(i)
    meta[i] = json.load(open(f))
ready = set(open(os.path.join(vd, "ready.txt")).read().split())
checks, na = [], []
for p in props:
    i = p["id"]
    m = meta.get(i, {})
    if i in ids and i in ready and m.get("claimed", True):
        checks.append({
            "property_id": i,
            "quick_cmd": "./check %s quick" % i,
            "thorough_cmd": "./check %s thorough" % i,
            "evidence_file": "/verif/evidence/%s.json" % i,
            "replay_cmd_template": "./check %s --replay {path}" % i,
            "engine": m.get("engine", "E-enum"),
            "level_claimed": {"category": m["level"], "text": m["text"], "design_ref": "DESIGN.md section 4, " + i},
            "level_note": m["note"],
            "technique": m["technique"],
        })
    else:
        na.append({"property_id": i, "reason": m.get("na_reason", "check not built yet in this session (work in progress, see DESIGN.md section 8)")})
hook_commits = meta.get("_hooks", {}).get("source_commits", [])
man = {
    "version": 1,
    "setup_cmd": "./check --setup",
    "hooks": {
        "guard": "verif",
        "enable": "go test -tags verif -overlay <generated overlay.json> (overlay only adds harness files/virtual packages; see ./check)",
        "baseline_off_cmd": "for m in $(cat /w/out/gomods.txt); do MF=$(cd /repo/$m && . /w/out/goenv.sh && gomodflag); (cd /repo/$m && go test $MF -json -vet=off -count=1 -timeout 25m ./...); done",
        "source_commits": hook_commits,
        "add_only": True,
    },
    "engines": meta.get("_engines", []),
    "checks": checks,
    "notes": meta.get("_notes", ""),
    "not_applicable": na,
}
json.dump(man, open(os.path.join(vd, "MANIFEST.json"), "w"), indent=1)
print("MANIFEST.json: %d checks, %d not_applicable" % (len(checks), len(na)))
