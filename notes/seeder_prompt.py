#!/usr/bin/env python3
"""prints the adversary prompt for property ID (argv[1]) with test packages argv[2] (space separated, must-pass) and argv[3] (also-run)"""
import json, sys
pid, must, also = sys.argv[1], sys.argv[2], sys.argv[3]
p = [json.loads(l) for l in open('/verif/properties.jsonl') if json.loads(l)['id'] == pid][0]
mech = "; ".join("%s (%s)" % (m['name'], m['where']) for m in p['anchors']['mechanism'])
print(f"""You are helping test a verification effort by playing the adversary. You have your own scratch git worktree of the snapd repository (snapcore/snapd, Go) at /tmp/seed-{pid} — work ONLY there (do not look at or touch /repo or /verif; do not read any directory outside your worktree except the Go toolchain/module cache).

The property under attack (a semantic property of snapd that should always hold):

"{pid} — {p['title']}. {p['statement']}"
It quantifies over: {p['quantifier']['text']}.
The mechanism lives in: {", ".join(p['anchors']['files'])} — {mech}.

Your job: produce ONE realistic change to the snapd source (non-test source files only) that BREAKS this property while (a) everything still compiles (`go build` of the touched packages and their dependants you can afford, `go vet` of the touched package), and (b) the existing tests still pass unedited: `go test -count=1 {must}` must pass fully with your change; also run `go test -count=1 {also}` and report which of those passed before your change and still pass after it (some fail offline even without your change — compare the sets of failing test names against the unmodified tree). The change should look like a plausible maintenance slip or refactoring mistake (off-by-one, dropped/reordered guard, wrong constant or field, early return/continue, comparison on the wrong value, state updated in the wrong order, a case forgotten in a switch), NOT something that ordinary use would expose at once: it must need something specific to manifest — a particular interleaving, a crash or fault at a particular point, a multi-step sequence of operations, an unusual input, or two cooperating sites that each look fine alone. If your first idea is caught by an existing test, pick another.

Also write a demonstration: a Go test (a new _test.go file in a suitable package, written the way that package's own tests are, or a small standalone program) that FAILS with your change and PASSES without it, deterministically (run each 3 times).

Environment: no network. Use `export GOFLAGS=-mod=mod GOPROXY=off GOSUMDB=off GOTOOLCHAIN=local` in every shell command. The machine is heavily loaded; builds and tests are slow and timing-sensitive tests may flake — re-run before concluding. NEVER use `git stash` (the stash is shared between worktrees and other workers use it): to compare with the unmodified tree use `git diff > /tmp/seed-{pid}/out/x.patch; git checkout -- <files>; …; git apply /tmp/seed-{pid}/out/x.patch`.

Deliver in /tmp/seed-{pid}/out/ : patch.diff (`git diff` of the source change only, without the demo), the demo file, and README.md saying: what the change is, why it breaks the property, exactly what is needed for it to manifest, which commands you ran and their results with/without the change, and the exact `go test -run` command + package directory for the demo. Leave the worktree with your change applied and the demo in place. In your final message summarise the same in a few lines.""")
