/* Stub config.h for building snapd's C validators outside autotools (verification harness C24/C28). */
#ifndef VERIF_STUB_CONFIG_H
#define VERIF_STUB_CONFIG_H
#ifndef _GNU_SOURCE
#define _GNU_SOURCE
#endif
#define PACKAGE_VERSION "verif"
#define VERSION "verif"
#define NATIVE_SNAP_MOUNT_DIR "/snap"
#define SNAP_MOUNT_DIR "/snap"
#define LIBEXECDIR "/usr/lib/snapd"
#endif
