/* Stub <sys/capability.h> (libcap-dev is not installed): the kernel header has all that
 * cmd/snap-update-ns/bootstrap.c needs (capget/capset structures and constants). */
#ifndef VERIF_STUB_SYS_CAPABILITY_H
#define VERIF_STUB_SYS_CAPABILITY_H
#include <linux/capability.h>
#include <sys/types.h>
#include <stdint.h>
/* glibc exports these system call wrappers; libcap's header normally declares them */
int capget(cap_user_header_t header, cap_user_data_t data);
int capset(cap_user_header_t header, const cap_user_data_t data);
#endif
