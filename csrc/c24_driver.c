/* C24 driver: evaluates snapd's C name/tag validators on a stream of records read from stdin.
 *
 * Built at check time (by the Go harness) together with
 *   cmd/libsnap-confine-private/{snap,utils,string-utils,error,cleanup-funcs,panic}.c   (snap-confine)
 *   cmd/snap-update-ns/bootstrap.c                                                     (snap-update-ns)
 * taken from the repository's current working tree (or the overlay's replacement).
 *
 * Input: a sequence of records; each record is a kind byte followed by NUL-terminated fields
 * (fields therefore may contain any byte except NUL, including newlines):
 *   'N' <s>                     -> one byte 0x40 | bits:
 *                                    1  sc_snap_name_validate(s)            accepts
 *                                    2  sc_instance_name_validate(s)        accepts
 *                                    4  sc_snap_component_validate(s, NULL) accepts
 *                                    8  validate_snap_name(s) == 0          (snap-update-ns)
 *                                   16  validate_instance_name(s) == 0      (snap-update-ns)
 *   'U' <tag> <instance>        -> '1'/'0': sc_security_tag_validate(tag, instance, NULL)
 *   'T' <tag> <instance> <comp> -> '1'/'0': sc_security_tag_validate(tag, instance, comp)
 *   'C' <snap+comp> <instance>  -> '1'/'0': sc_snap_component_validate(snap+comp, instance) accepts
 * Output: exactly one byte per record, in order. Exit status 0 at EOF; 3 on a malformed stream.
 */
#include "config.h"

#include <stdbool.h>
#include <stdio.h>
#include <stdlib.h>
#include <string.h>

#include "snap.h"
#include "error.h"

/* snap-update-ns (bootstrap.c); validate_snap_name is not in bootstrap.h */
int validate_snap_name(const char *snap_name);
int validate_instance_name(const char *instance_name);

#define MAXF (1 << 16)
static char f1[MAXF], f2[MAXF], f3[MAXF];

static int read_field(char *buf)
{
	size_t n = 0;
	int c;
	while ((c = getc_unlocked(stdin)) != EOF) {
		if (n >= MAXF - 1) {
			fprintf(stderr, "c24_driver: field too long\n");
			exit(3);
		}
		buf[n++] = (char)c;
		if (c == 0)
			return 0;
	}
	fprintf(stderr, "c24_driver: truncated record\n");
	exit(3);
}

static bool ok_and_free(sc_error *err)
{
	bool ok = (err == NULL);
	if (err != NULL)
		sc_error_free(err);
	return ok;
}

int main(void)
{
	static char ibuf[1 << 20], obuf[1 << 20];
	setvbuf(stdin, ibuf, _IOFBF, sizeof ibuf);
	setvbuf(stdout, obuf, _IOFBF, sizeof obuf);
	int kind;
	while ((kind = getc_unlocked(stdin)) != EOF) {
		sc_error *err = NULL;
		switch (kind) {
		case 'N':{
				read_field(f1);
				int bits = 0;
				err = NULL;
				sc_snap_name_validate(f1, &err);
				if (ok_and_free(err))
					bits |= 1;
				err = NULL;
				sc_instance_name_validate(f1, &err);
				if (ok_and_free(err))
					bits |= 2;
				err = NULL;
				sc_snap_component_validate(f1, NULL, &err);
				if (ok_and_free(err))
					bits |= 4;
				if (validate_snap_name(f1) == 0)
					bits |= 8;
				if (validate_instance_name(f1) == 0)
					bits |= 16;
				putc_unlocked(0x40 | bits, stdout);
				break;
			}
		case 'U':
			read_field(f1);
			read_field(f2);
			putc_unlocked(sc_security_tag_validate(f1, f2, NULL) ? '1' : '0', stdout);
			break;
		case 'T':
			read_field(f1);
			read_field(f2);
			read_field(f3);
			putc_unlocked(sc_security_tag_validate(f1, f2, f3) ? '1' : '0', stdout);
			break;
		case 'C':
			read_field(f1);
			read_field(f2);
			err = NULL;
			sc_snap_component_validate(f1, f2, &err);
			putc_unlocked(ok_and_free(err) ? '1' : '0', stdout);
			break;
		default:
			fprintf(stderr, "c24_driver: unknown record kind %d\n", kind);
			return 3;
		}
	}
	fflush(stdout);
	return 0;
}
