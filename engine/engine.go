// Package verifengine is the shared runtime of all /verif checks: tier/seed handling, counters,
// violation artefacts, known-findings, evidence writing, process sharding and in-process fan-out.
// It is stdlib-only and is mounted into the snapd module at github.com/snapcore/snapd/verifengine
// by the build overlay that ./check generates (nothing is written to /repo).
package verifengine

import (
	"bufio"
	"encoding/json"
	"fmt"
	"os"
	"os/exec"
	"path/filepath"
	"runtime"
	"sort"
	"strconv"
	"strings"
	"sync"
	"time"
)

type Violation struct {
	Property string      `json:"property"`
	Key      string      `json:"key"`
	Message  string      `json:"message"`
	Case     interface{} `json:"case,omitempty"`
	Known    bool        `json:"known,omitempty"`
}

type Run struct {
	Prop  string
	Tier  string
	Seed  int
	Level string

	start       time.Time
	budget      time.Duration
	mu          sync.Mutex
	counters    map[string]int64
	info        map[string]interface{}
	samples     []interface{}
	maxSamples  int
	assumptions []string
	violations  []Violation
	vkeys       map[string]bool
	known       map[string]string
	knownSeen   map[string]bool
	capsHit     map[string]interface{}
	exhaustive  bool
	distinct    map[string]map[string]struct{}

	shard, nshards int
	isChild        bool
}

func VerifDir() string {
	if d := os.Getenv("VERIF_DIR"); d != "" {
		return d
	}
	return "/verif"
}

func WorkDir() string {
	if d := os.Getenv("VERIF_WORK"); d != "" {
		return d
	}
	return "/var/tmp/verif-work"
}

// Start begins a run for one property. quickBudget/thoroughBudget are soft wall-clock budgets that
// harnesses poll with TimeUp(); hitting one marks the run non-exhaustive, it is never an oracle.
func Start(prop, level string, quickBudget, thoroughBudget time.Duration) *Run {
	r := &Run{Prop: prop, Level: level, start: time.Now(), counters: map[string]int64{}, info: map[string]interface{}{},
		vkeys: map[string]bool{}, known: map[string]string{}, knownSeen: map[string]bool{}, capsHit: map[string]interface{}{},
		exhaustive: true, maxSamples: 6, distinct: map[string]map[string]struct{}{}}
	r.Tier = os.Getenv("VERIF_TIER")
	if r.Tier != "thorough" {
		r.Tier = "quick"
	}
	r.Seed, _ = strconv.Atoi(os.Getenv("VERIF_SEED"))
	r.budget = quickBudget
	if r.Tier == "thorough" {
		r.budget = thoroughBudget
	}
	if b := os.Getenv("VERIF_BUDGET_S"); b != "" {
		if n, err := strconv.Atoi(b); err == nil {
			r.budget = time.Duration(n) * time.Second
		}
	}
	if s := os.Getenv("VERIF_SHARD"); s != "" {
		fmt.Sscanf(s, "%d/%d", &r.shard, &r.nshards)
		r.isChild = true
	}
	r.loadKnown()
	return r
}

func (r *Run) Quick() bool    { return r.Tier != "thorough" }
func (r *Run) Thorough() bool { return r.Tier == "thorough" }

// Pick returns q for the quick tier and t for the thorough tier.
func (r *Run) Pick(q, t int) int {
	if r.Quick() {
		return q
	}
	return t
}

func (r *Run) Elapsed() time.Duration { return time.Since(r.start) }

// TimeUp reports whether the soft budget is used up. Callers that stop because of it must call Cap.
func (r *Run) TimeUp() bool { return r.budget > 0 && time.Since(r.start) > r.budget }

// Cap records that a cap was hit: the run is then reported exhaustive:false.
func (r *Run) Cap(name string, v interface{}) {
	r.mu.Lock()
	defer r.mu.Unlock()
	r.capsHit[name] = v
	r.exhaustive = false
}

func (r *Run) NotExhaustive() { r.mu.Lock(); r.exhaustive = false; r.mu.Unlock() }

func (r *Run) Add(name string, n int64) {
	r.mu.Lock()
	r.counters[name] += n
	r.mu.Unlock()
}

func (r *Run) Max(name string, n int64) {
	r.mu.Lock()
	if n > r.counters[name] {
		r.counters[name] = n
	}
	r.mu.Unlock()
}

func (r *Run) Count(name string) int64 { r.mu.Lock(); defer r.mu.Unlock(); return r.counters[name] }

// Distinct counts distinct keys per class (e.g. "outcome" -> number of distinct outcomes seen).
// The sets are kept in memory; use for small cardinalities (or hash the key first).
func (r *Run) Distinct(class, key string) bool {
	r.mu.Lock()
	defer r.mu.Unlock()
	m := r.distinct[class]
	if m == nil {
		m = map[string]struct{}{}
		r.distinct[class] = m
	}
	if _, ok := m[key]; ok {
		return false
	}
	m[key] = struct{}{}
	return true
}

func (r *Run) DistinctCount(class string) int {
	r.mu.Lock()
	defer r.mu.Unlock()
	return len(r.distinct[class])
}

func (r *Run) Info(name string, v interface{}) { r.mu.Lock(); r.info[name] = v; r.mu.Unlock() }

func (r *Run) Assume(s ...string) { r.mu.Lock(); r.assumptions = append(r.assumptions, s...); r.mu.Unlock() }

// Sample records an explored case written out in full (the first few are kept).
func (r *Run) Sample(x interface{}) {
	r.mu.Lock()
	if len(r.samples) < r.maxSamples {
		r.samples = append(r.samples, x)
	}
	r.mu.Unlock()
}

func (r *Run) WantSample() bool { r.mu.Lock(); defer r.mu.Unlock(); return len(r.samples) < r.maxSamples }

func (r *Run) loadKnown() {
	f, err := os.Open(filepath.Join(VerifDir(), "known-findings.txt"))
	if err != nil {
		return
	}
	defer f.Close()
	sc := bufio.NewScanner(f)
	sc.Buffer(make([]byte, 1<<20), 1<<20)
	for sc.Scan() {
		line := strings.TrimSpace(sc.Text())
		if !strings.HasPrefix(line, "finding:") {
			continue // "fixed:" entries and comments suppress nothing
		}
		rest := strings.TrimSpace(strings.TrimPrefix(line, "finding:"))
		fields := strings.SplitN(rest, " ", 3)
		if len(fields) < 2 || fields[0] != "property="+r.Prop || !strings.HasPrefix(fields[1], "key=") {
			continue
		}
		desc := ""
		if len(fields) == 3 {
			desc = fields[2]
		}
		r.known[strings.TrimPrefix(fields[1], "key=")] = desc
	}
}

// Violation reports one violation identified by a canonical key (no spaces). Violations with the same
// key are reported once. A key listed in known-findings.txt is printed as KNOWN-FINDING and does not fail the run.
func (r *Run) Violation(key, msg string, cas interface{}) {
	key = strings.ReplaceAll(key, " ", "_")
	r.mu.Lock()
	defer r.mu.Unlock()
	if r.vkeys[key] {
		r.counters["violations_duplicate_key"]++
		return
	}
	r.vkeys[key] = true
	_, known := r.known[key]
	if known {
		r.knownSeen[key] = true
	}
	r.violations = append(r.violations, Violation{Property: r.Prop, Key: key, Message: msg, Case: cas, Known: known})
}

func (r *Run) NumViolations() int {
	r.mu.Lock()
	defer r.mu.Unlock()
	n := 0
	for _, v := range r.violations {
		if !v.Known {
			n++
		}
	}
	return n
}

// ReplayCase returns the case stored in the replay file named by VERIF_REPLAY (nil if not replaying).
func (r *Run) ReplayCase() json.RawMessage {
	p := os.Getenv("VERIF_REPLAY")
	if p == "" {
		return nil
	}
	b, err := os.ReadFile(p)
	if err != nil {
		fmt.Printf("HARNESS-ERROR cannot read replay file: %v\n", err)
		os.Exit(2)
	}
	var v struct {
		Case json.RawMessage `json:"case"`
	}
	if err := json.Unmarshal(b, &v); err != nil {
		fmt.Printf("HARNESS-ERROR cannot parse replay file: %v\n", err)
		os.Exit(2)
	}
	return v.Case
}

type shardResult struct {
	Counters   map[string]int64               `json:"counters"`
	Info       map[string]interface{}         `json:"info"`
	Samples    []interface{}                  `json:"samples"`
	Violations []Violation                    `json:"violations"`
	Caps       map[string]interface{}         `json:"caps"`
	Exhaustive bool                           `json:"exhaustive"`
	Distinct   map[string][]string            `json:"distinct"`
	Assume     []string                       `json:"assume"`
}

// Sharded splits a run over n worker processes (re-executions of this test binary with VERIF_SHARD=i/n).
// In the parent it runs the children, merges their results and returns true: the parent must then only
// call Finish. In a child it returns false; the child enumerates the part selected by Mine().
func (r *Run) Sharded(n int) bool {
	if r.isChild {
		return false
	}
	if os.Getenv("VERIF_REPLAY") != "" || n <= 1 {
		r.shard, r.nshards = 0, 1
		return false
	}
	type res struct {
		i   int
		out []byte
		err error
	}
	ch := make(chan res, n)
	dir := filepath.Join(WorkDir(), "shards", r.Prop)
	os.MkdirAll(dir, 0755)
	for i := 0; i < n; i++ {
		go func(i int) {
			outf := filepath.Join(dir, fmt.Sprintf("shard-%d.json", i))
			os.Remove(outf)
			cmd := exec.Command(os.Args[0], os.Args[1:]...)
			cmd.Env = append(os.Environ(), fmt.Sprintf("VERIF_SHARD=%d/%d", i, n), "VERIF_SHARD_OUT="+outf,
				fmt.Sprintf("VERIF_BUDGET_S=%d", int(r.budget/time.Second)))
			out, err := cmd.CombinedOutput()
			ch <- res{i, out, err}
		}(i)
	}
	for k := 0; k < n; k++ {
		x := <-ch
		outf := filepath.Join(dir, fmt.Sprintf("shard-%d.json", x.i))
		b, rerr := os.ReadFile(outf)
		if rerr != nil {
			// the worker died (panic, fatal error, OOM kill): a crash is reported with what it printed last
			tail := string(x.out)
			if len(tail) > 4000 {
				tail = tail[len(tail)-4000:]
			}
			cur, _ := os.ReadFile(outf + ".current")
			r.Violation(fmt.Sprintf("worker-crash-shard-%d", x.i), "worker process died: "+fmt.Sprint(x.err), map[string]interface{}{"current_case": string(cur), "output_tail": tail})
			continue
		}
		var sr shardResult
		if err := json.Unmarshal(b, &sr); err != nil {
			fmt.Printf("HARNESS-ERROR shard %d result unreadable: %v\n", x.i, err)
			os.Exit(2)
		}
		r.merge(&sr)
		os.Remove(outf)
	}
	r.info["shards"] = n
	return true
}

// NoteCurrent records (for crash reports) the case a shard worker is about to run.
func (r *Run) NoteCurrent(cas string) {
	if out := os.Getenv("VERIF_SHARD_OUT"); out != "" {
		os.WriteFile(out+".current", []byte(cas), 0644)
	}
}

func (r *Run) merge(sr *shardResult) {
	r.mu.Lock()
	defer r.mu.Unlock()
	for k, v := range sr.Counters {
		if strings.HasPrefix(k, "max_") {
			if v > r.counters[k] {
				r.counters[k] = v
			}
		} else {
			r.counters[k] += v
		}
	}
	for k, v := range sr.Info {
		r.info[k] = v
	}
	for _, s := range sr.Samples {
		if len(r.samples) < r.maxSamples {
			r.samples = append(r.samples, s)
		}
	}
	for _, v := range sr.Violations {
		if r.vkeys[v.Key] {
			continue
		}
		r.vkeys[v.Key] = true
		if v.Known {
			r.knownSeen[v.Key] = true
		}
		r.violations = append(r.violations, v)
	}
	for k, v := range sr.Caps {
		r.capsHit[k] = v
	}
	if !sr.Exhaustive {
		r.exhaustive = false
	}
	for c, keys := range sr.Distinct {
		m := r.distinct[c]
		if m == nil {
			m = map[string]struct{}{}
			r.distinct[c] = m
		}
		for _, k := range keys {
			m[k] = struct{}{}
		}
	}
	for _, a := range sr.Assume {
		found := false
		for _, b := range r.assumptions {
			if a == b {
				found = true
			}
		}
		if !found {
			r.assumptions = append(r.assumptions, a)
		}
	}
}

// Mine reports whether work item i belongs to this process (always true when not sharded).
func (r *Run) Mine(i int) bool {
	if r.nshards <= 1 {
		return true
	}
	return i%r.nshards == r.shard
}

func (r *Run) ShardIndex() (int, int) {
	if r.nshards <= 1 {
		return 0, 1
	}
	return r.shard, r.nshards
}

// Finish writes the evidence file (parent) or the shard result (child), prints the verdict and exits.
// nontrivialCounter names the counter holding distinct_nontrivial; evaluationsCounter the evaluations.
// For model_checking level, counters "states" and "transitions" and "traces_validated" are used.
func (r *Run) Finish(rule string) {
	if r.isChild {
		sr := shardResult{Counters: r.counters, Info: r.info, Samples: r.samples, Violations: r.violations, Caps: r.capsHit,
			Exhaustive: r.exhaustive, Distinct: map[string][]string{}, Assume: r.assumptions}
		for c, m := range r.distinct {
			for k := range m {
				sr.Distinct[c] = append(sr.Distinct[c], k)
			}
		}
		b, _ := json.Marshal(sr)
		if out := os.Getenv("VERIF_SHARD_OUT"); out != "" {
			if err := os.WriteFile(out, b, 0644); err != nil {
				fmt.Println("HARNESS-ERROR", err)
				os.Exit(2)
			}
			os.Remove(out + ".current")
		}
		os.Exit(0)
	}
	vd := VerifDir()
	wall := time.Since(r.start).Seconds()
	cov := map[string]interface{}{}
	for k, v := range r.info {
		cov[k] = v
	}
	for k, v := range r.counters {
		cov[k] = v
	}
	for c, m := range r.distinct {
		cov["distinct_"+c] = len(m)
	}
	cov["rule"] = rule
	cov["exhaustive"] = r.exhaustive
	if len(r.capsHit) > 0 {
		cov["caps_hit"] = r.capsHit
	}
	if len(r.samples) == 0 {
		r.samples = append(r.samples, "no sample recorded")
	}
	cov["samples"] = r.samples
	if _, ok := cov["evaluations"]; !ok {
		cov["evaluations"] = r.counters["evaluations"]
	}
	if _, ok := cov["distinct_nontrivial"]; !ok {
		cov["distinct_nontrivial"] = r.counters["distinct_nontrivial"]
	}
	if r.Level == "model_checking" {
		if _, ok := cov["traces_validated_against_impl"]; !ok {
			cov["traces_validated_against_impl"] = r.counters["traces_validated_against_impl"]
		}
	}
	nviol := 0
	replayDir := filepath.Join(vd, "replays", r.Prop)
	sort.Slice(r.violations, func(i, j int) bool { return r.violations[i].Key < r.violations[j].Key })
	var lines []string
	for i, v := range r.violations {
		if v.Known {
			lines = append(lines, fmt.Sprintf("KNOWN-FINDING: property=%s key=%s %s", r.Prop, v.Key, r.known[v.Key]))
			continue
		}
		nviol++
		if nviol > 50 {
			continue
		}
		os.MkdirAll(replayDir, 0755)
		p := filepath.Join(replayDir, fmt.Sprintf("%s-%03d.json", r.Tier, i))
		b, _ := json.MarshalIndent(v, "", " ")
		os.WriteFile(p, b, 0644)
		lines = append(lines, fmt.Sprintf("VIOLATION property=%s replay=%s", r.Prop, p))
		lines = append(lines, fmt.Sprintf("  key=%s %s", v.Key, firstLine(v.Message, 600)))
	}
	// listed findings that did not fire on this run are still listed (they may be outside this tier's bounds)
	for k, d := range r.known {
		if !r.knownSeen[k] {
			cov["known_findings_not_reached"] = appendStr(cov["known_findings_not_reached"], k)
			_ = d
		}
	}
	ev := map[string]interface{}{
		"property_id": r.Prop, "tier": r.Tier, "seed": r.Seed, "level": r.Level, "coverage": cov,
		"assumptions": r.assumptions, "wall_s": wall, "violations": nviol,
	}
	if ev["assumptions"] == nil {
		ev["assumptions"] = []string{}
	}
	if os.Getenv("VERIF_REPLAY") == "" && os.Getenv("VERIF_NO_EVIDENCE") == "" {
		os.MkdirAll(filepath.Join(vd, "evidence"), 0755)
		b, _ := json.MarshalIndent(ev, "", " ")
		evName := r.Prop
		if n := os.Getenv("VERIF_EVIDENCE_NAME"); n != "" {
			evName = n // an extra part of a check (driver: run_all) writes evidence/<ID>.<part>.json
		}
		if err := os.WriteFile(filepath.Join(vd, "evidence", evName+".json"), append(b, '\n'), 0644); err != nil {
			fmt.Println("HARNESS-ERROR", err)
			os.Exit(2)
		}
	}
	for _, l := range lines {
		fmt.Println(l)
	}
	keys := make([]string, 0, len(r.counters))
	for k := range r.counters {
		keys = append(keys, k)
	}
	sort.Strings(keys)
	var sb strings.Builder
	for _, k := range keys {
		fmt.Fprintf(&sb, " %s=%d", k, r.counters[k])
	}
	for c, m := range r.distinct {
		fmt.Fprintf(&sb, " distinct_%s=%d", c, len(m))
	}
	fmt.Printf("SUMMARY property=%s tier=%s exhaustive=%v violations=%d wall_s=%.1f%s\n", r.Prop, r.Tier, r.exhaustive, nviol, wall, sb.String())
	if nviol > 0 {
		os.Exit(1)
	}
	os.Exit(0)
}

func appendStr(v interface{}, s string) []string {
	l, _ := v.([]string)
	return append(l, s)
}

func firstLine(s string, n int) string {
	s = strings.ReplaceAll(s, "\n", " | ")
	if len(s) > n {
		s = s[:n] + "..."
	}
	return s
}

// HarnessError aborts with exit status 2: the machinery (not snapd) is at fault; never a VIOLATION.
func HarnessError(format string, a ...interface{}) {
	fmt.Printf("HARNESS-ERROR "+format+"\n", a...)
	os.Exit(2)
}

// ParallelFor runs f(i) for i in [0,n) on all cores (in-process; f must be safe for concurrent use).
func ParallelFor(n int, f func(i int)) {
	w := runtime.NumCPU()
	if w > n {
		w = n
	}
	if w < 1 {
		w = 1
	}
	var wg sync.WaitGroup
	next := make(chan int, 64)
	for k := 0; k < w; k++ {
		wg.Add(1)
		go func() {
			defer wg.Done()
			for i := range next {
				f(i)
			}
		}()
	}
	for i := 0; i < n; i++ {
		next <- i
	}
	close(next)
	wg.Wait()
}

// JSON is a convenience for building canonical keys and samples.
func JSON(v interface{}) string {
	b, err := json.Marshal(v)
	if err != nil {
		return fmt.Sprintf("%#v", v)
	}
	return string(b)
}
