// C31 — a downloaded snap is only kept if its digest matches.
//
// In-package harness (package store: sets the unexported downloadRetryStrategy and the store's cacher).
// Fault enumeration against the real Store.Download / downloadImpl over real HTTP (httptest server on
// loopback, keep-alives off, one server per worker process):
//
//	every server script (one behaviour per incoming request, then correct service forever) with at most
//	D deviations from correct service  x  every pre-existing .partial state  x  LeavePartialOnError
//	x  retry limit of the (sleep-free) download retry strategy.
//
// Oracle (statement of C31), evaluated after every Download call:
//
//	nil error  => a regular file at the target whose SHA3-384 is the declared one;
//	error      => no file at the target;
//	the download cache is empty after an error and holds only content matching its key after success.
//
// When a failed Download leaves a .partial behind (LeavePartialOnError), a follow-up Download is run against
// the same server (rest of the script, then correct service) and is checked by the same oracle: that is how
// partial files produced by the real code (mixtures of new and stale bytes) are fed back in.
package store

import (
	"context"
	"encoding/hex"
	"encoding/json"
	"fmt"
	"net"
	"net/http"
	"net/http/httptest"
	"os"
	"path/filepath"
	"sort"
	"strconv"
	"strings"
	"sync"
	"testing"
	"time"

	"golang.org/x/crypto/sha3"
	"gopkg.in/retry.v1"

	"github.com/snapcore/snapd/dirs"
	"github.com/snapcore/snapd/snap"
	eng "github.com/snapcore/snapd/verifengine"
)

// ---- server behaviours ----

const (
	verifC31OK          = "ok"                    // correct service: 206 + tail if Range, else 200 + full; 416 if Range start >= size
	verifC31IgnoreRange = "ignore-range"          // 200 + full content whatever was asked
	verifC31DropConn    = "drop-conn"             // connection closed before any response byte
	verifC31Drop0       = "drop-0"                // correct headers (Content-Length), connection closed before the first body byte
	verifC31DropMid     = "drop-mid"              // correct headers, half of the body, connection closed
	verifC31IgnoreDrop  = "ignore-range+drop-mid" // 200 full-content headers, half of the content, connection closed
	verifC31Short       = "short"                 // clean response whose body (and Content-Length) is the first half of the right body
	verifC31Corrupt     = "corrupt"               // right status/length, one body byte flipped
	verifC31Err500      = "500"                   // 500
	verifC31Redirect    = "redirect"              // 302 to the second URL (the redirected request is the next request of the script)
	verifC31Err416      = "416"                   // 416
	verifC31Lie206      = "206-full"              // 206 status (Content-Range 0-) but the body is the full content
	// bodies LONGER than what is left to deliver (status and headers as a correct server would send them: 200 + full content
	// without Range, 206 + rest of the content for a Range request), verifC31Extra bytes too many
	verifC31Over         = "overlong"           // right body followed by extra bytes, Content-Length = what is sent, clean end
	verifC31OverDrop     = "overlong+drop"      // right body followed by extra bytes, a still larger Content-Length announced, connection closed
	verifC31OverJunkDrop = "overlong-junk+drop" // as many junk bytes as overlong+drop sends, a still larger Content-Length announced, connection closed
)

const verifC31Extra = 16

var verifC31OverlongDeviations = []string{verifC31Over, verifC31OverDrop, verifC31OverJunkDrop}

var verifC31Deviations = append([]string{verifC31IgnoreRange, verifC31DropConn, verifC31Drop0, verifC31DropMid, verifC31IgnoreDrop,
	verifC31Short, verifC31Corrupt, verifC31Err500, verifC31Redirect, verifC31Err416, verifC31Lie206}, verifC31OverlongDeviations...)

// ---- pre-existing .partial states ----

var verifC31Partials = []string{"none", "empty", "prefix-ok", "prefix-bad", "prefix-bad-long", "full-ok", "full-bad", "overlong"}

const verifC31Size = 64

func verifC31Content() []byte {
	b := make([]byte, verifC31Size)
	for i := range b {
		b[i] = byte(0x21 + i) // all bytes distinct: any misplaced or stale byte changes the digest
	}
	return b
}

func verifC31ExtraBytes() []byte {
	b := make([]byte, verifC31Extra)
	for i := range b {
		b[i] = byte(0xa1 + i) // distinct from every content byte
	}
	return b
}

func verifC31PartialBytes(state string, content []byte) ([]byte, bool) {
	flip := func(b []byte, i int) []byte {
		c := append([]byte(nil), b...)
		c[i] ^= 0x5a
		return c
	}
	switch state {
	case "none":
		return nil, false
	case "empty":
		return []byte{}, true
	case "prefix-ok":
		return append([]byte(nil), content[:24]...), true
	case "prefix-bad":
		return flip(content[:24], 5), true
	case "prefix-bad-long":
		// longer than what ignore-range+drop-mid delivers: stale bytes survive behind freshly written ones
		return flip(content[:48], 40), true
	case "full-ok":
		return append([]byte(nil), content...), true
	case "full-bad":
		return flip(content, 33), true
	case "overlong":
		return append(append([]byte(nil), content...), []byte("TRAILING")...), true
	}
	panic("unknown partial state " + state)
}

type verifC31Case struct {
	Partial string   `json:"partial"`
	Script  []string `json:"script"`
	Leave   bool     `json:"leave_partial_on_error"`
	Retries int      `json:"retry_limit"`
}

type verifC31Call struct {
	Err        string   `json:"error"`
	ErrClass   string   `json:"error_class"`
	Target     string   `json:"target"`      // "absent" | "ok" | "wrong-digest:<hex of content>" | "not-regular"
	Cache      []string `json:"cache"`       // entries: "<key-ok>" or "<key>:wrong-content"
	PartialLen int      `json:"partial_len"` // -1 = absent
	Served     []string `json:"served"`      // behaviours consumed by this call, with the Range start that was asked
}

type verifC31Result struct {
	Calls      []verifC31Call `json:"calls"`
	Consumed   []string       `json:"consumed"`
	Deviations int            `json:"deviations_consumed"`
}

// ---- scripted server ----

type verifC31Server struct {
	srv     *httptest.Server
	content []byte

	mu     sync.Mutex
	script []string
	n      int
	served []string
	devs   int
	oks    int
}

func verifC31NewServer(content []byte) *verifC31Server {
	s := &verifC31Server{content: content}
	s.srv = httptest.NewUnstartedServer(http.HandlerFunc(s.handle))
	// every attempt of downloadImpl builds a fresh client/transport: do not leave idle connections behind
	s.srv.Config.SetKeepAlivesEnabled(false)
	s.srv.Start()
	return s
}

func (s *verifC31Server) reset(script []string) {
	s.mu.Lock()
	defer s.mu.Unlock()
	s.script, s.n, s.served, s.devs, s.oks = script, 0, nil, 0, 0
}

func (s *verifC31Server) mark() int {
	s.mu.Lock()
	defer s.mu.Unlock()
	return len(s.served)
}

func (s *verifC31Server) next(rng int) string {
	s.mu.Lock()
	defer s.mu.Unlock()
	b := verifC31OK
	if s.n < len(s.script) {
		b = s.script[s.n]
	}
	s.n++
	if b == verifC31OK {
		s.oks++
	} else {
		s.devs++
	}
	s.served = append(s.served, fmt.Sprintf("%s@%d", b, rng))
	return b
}

func verifC31RawReply(w http.ResponseWriter, status int, hdr map[string]string, declaredLen int, body []byte) {
	hj, ok := w.(http.Hijacker)
	if !ok {
		panic("verif C31: response writer cannot be hijacked")
	}
	conn, buf, err := hj.Hijack()
	if err != nil {
		panic(err)
	}
	defer conn.Close()
	if status == 0 {
		return // closed before any response byte
	}
	fmt.Fprintf(buf, "HTTP/1.1 %d %s\r\n", status, http.StatusText(status))
	keys := make([]string, 0, len(hdr))
	for k := range hdr {
		keys = append(keys, k)
	}
	sort.Strings(keys)
	for _, k := range keys {
		fmt.Fprintf(buf, "%s: %s\r\n", k, hdr[k])
	}
	fmt.Fprintf(buf, "Content-Length: %d\r\nConnection: close\r\n\r\n", declaredLen)
	buf.Write(body)
	buf.Flush()
	if tc, ok := conn.(*net.TCPConn); ok {
		// orderly FIN after the bytes written so far: the client sees exactly these bytes, then EOF
		tc.CloseWrite()
	}
}

func (s *verifC31Server) handle(w http.ResponseWriter, r *http.Request) {
	rng := -1
	if h := r.Header.Get("Range"); h != "" {
		if strings.HasPrefix(h, "bytes=") && strings.HasSuffix(h, "-") {
			if n, err := strconv.Atoi(h[len("bytes=") : len(h)-1]); err == nil {
				rng = n
			}
		}
		if rng < 0 {
			panic("verif C31: unexpected Range header " + h)
		}
	}
	b := s.next(rng)
	size := len(s.content)
	// what a correct server would answer
	status, body, hdr := 200, s.content, map[string]string{}
	if rng >= 0 {
		if rng >= size {
			status, body = 416, nil
			hdr["Content-Range"] = fmt.Sprintf("bytes */%d", size)
		} else {
			status, body = 206, s.content[rng:]
			hdr["Content-Range"] = fmt.Sprintf("bytes %d-%d/%d", rng, size-1, size)
		}
	}
	reply := func(status int, hdr map[string]string, body []byte) {
		for k, v := range hdr {
			w.Header().Set(k, v)
		}
		w.Header().Set("Content-Length", strconv.Itoa(len(body)))
		w.WriteHeader(status)
		w.Write(body)
	}
	half := func(b []byte) []byte { return b[:(len(b)+1)/2] }
	switch b {
	case verifC31OK:
		reply(status, hdr, body)
	case verifC31IgnoreRange:
		reply(200, nil, s.content)
	case verifC31DropConn:
		verifC31RawReply(w, 0, nil, 0, nil)
	case verifC31Drop0:
		verifC31RawReply(w, status, hdr, len(body), nil)
	case verifC31DropMid:
		verifC31RawReply(w, status, hdr, len(body), half(body))
	case verifC31IgnoreDrop:
		verifC31RawReply(w, 200, nil, size, half(s.content))
	case verifC31Short:
		reply(status, hdr, half(body))
	case verifC31Corrupt:
		c := append([]byte(nil), body...)
		if len(c) > 0 {
			c[len(c)/2] ^= 0x33
		}
		reply(status, hdr, c)
	case verifC31Err500:
		reply(500, nil, []byte("boom"))
	case verifC31Redirect:
		to := "/alt"
		if r.URL.Path == "/alt" {
			to = "/dl"
		}
		w.Header().Set("Location", to)
		w.WriteHeader(302)
	case verifC31Err416:
		reply(416, map[string]string{"Content-Range": fmt.Sprintf("bytes */%d", size)}, nil)
	case verifC31Lie206:
		reply(206, map[string]string{"Content-Range": fmt.Sprintf("bytes 0-%d/%d", size-1, size)}, s.content)
	case verifC31Over:
		reply(status, hdr, append(append([]byte(nil), body...), verifC31ExtraBytes()...))
	case verifC31OverDrop:
		long := append(append([]byte(nil), body...), verifC31ExtraBytes()...)
		verifC31RawReply(w, status, hdr, len(long)+verifC31Extra, long)
	case verifC31OverJunkDrop:
		junk := []byte(strings.Repeat("Z", len(body)+verifC31Extra))
		verifC31RawReply(w, status, hdr, len(junk)+verifC31Extra, junk)
	default:
		panic("verif C31: unknown behaviour " + b)
	}
}

// ---- one scenario ----

type verifC31Harness struct {
	base    string
	content []byte
	digest  string
	server  *verifC31Server
	sto     *Store
	seq     int
}

func verifC31NewHarness(t *testing.T) *verifC31Harness {
	// scratch space under $VERIF_WORK when set: /tmp is swept by other jobs on this machine, and r.Finish exits the
	// process before t.TempDir's cleanup could run
	base := ""
	if w := os.Getenv("VERIF_WORK"); w != "" {
		if err := os.MkdirAll(filepath.Join(w, "tmp"), 0755); err != nil {
			eng.HarnessError("C31: %v", err)
		}
		d, err := os.MkdirTemp(filepath.Join(w, "tmp"), "c31-")
		if err != nil {
			eng.HarnessError("C31: %v", err)
		}
		base = d
	} else {
		base = t.TempDir()
	}
	h := &verifC31Harness{base: base, content: verifC31Content()}
	sum := sha3.Sum384(h.content)
	h.digest = hex.EncodeToString(sum[:])
	dirs.SetRootDir(filepath.Join(h.base, "root"))
	t.Cleanup(func() { dirs.SetRootDir("") })
	h.server = verifC31NewServer(h.content)
	t.Cleanup(h.server.srv.Close)
	h.sto = New(nil, nil)
	no := false
	h.sto.shouldUseDeltas = &no // no xdelta3 probing; DownloadInfo carries no deltas anyway
	return h
}

func verifC31Digest(b []byte) string {
	sum := sha3.Sum384(b)
	return hex.EncodeToString(sum[:])
}

func verifC31ErrClass(err error) string {
	if err == nil {
		return "nil"
	}
	switch e := err.(type) {
	case HashError:
		return "HashError"
	case *DownloadError:
		return fmt.Sprintf("DownloadError-%d", e.Code)
	}
	msg := err.Error()
	switch {
	case strings.Contains(msg, "unexpected EOF"):
		return "unexpected-EOF"
	case strings.HasSuffix(msg, "EOF"):
		return "EOF"
	case strings.Contains(msg, "connection reset"):
		return "ECONNRESET"
	case strings.Contains(msg, "redirects"):
		return "too-many-redirects"
	}
	return fmt.Sprintf("%T", err)
}

func (h *verifC31Harness) observe(target, cacheDir string, err error, served []string) verifC31Call {
	call := verifC31Call{ErrClass: verifC31ErrClass(err), Served: served, PartialLen: -1}
	if err != nil {
		call.Err = err.Error()
	}
	fi, serr := os.Lstat(target)
	switch {
	case serr != nil && os.IsNotExist(serr):
		call.Target = "absent"
	case serr != nil:
		eng.HarnessError("C31: cannot stat target: %v", serr)
	case !fi.Mode().IsRegular():
		call.Target = "not-regular"
	default:
		b, rerr := os.ReadFile(target)
		if rerr != nil {
			eng.HarnessError("C31: cannot read target: %v", rerr)
		}
		if verifC31Digest(b) == h.digest {
			call.Target = "ok"
		} else {
			call.Target = "wrong-digest:" + hex.EncodeToString(b)
		}
	}
	if fi, serr := os.Lstat(target + ".partial"); serr == nil {
		call.PartialLen = int(fi.Size())
	}
	entries, _ := os.ReadDir(cacheDir)
	for _, e := range entries {
		b, rerr := os.ReadFile(filepath.Join(cacheDir, e.Name()))
		if rerr == nil && verifC31Digest(b) == e.Name() {
			call.Cache = append(call.Cache, "key-ok")
		} else {
			call.Cache = append(call.Cache, e.Name()+":wrong-content")
		}
	}
	return call
}

// verifC31Judge returns the violated clauses of one observed Download call.
func verifC31Judge(call verifC31Call) []string {
	var bad []string
	if call.ErrClass == "nil" {
		switch {
		case call.Target == "absent":
			bad = append(bad, "success-without-file-at-target")
		case call.Target != "ok":
			bad = append(bad, "wrong-digest-kept-at-target")
		}
		for _, c := range call.Cache {
			if c != "key-ok" {
				bad = append(bad, "cache-entry-with-wrong-content")
			}
		}
	} else {
		if call.Target != "absent" {
			if call.Target == "ok" {
				bad = append(bad, "error-but-file-at-target")
			} else {
				bad = append(bad, "error-and-wrong-digest-at-target")
			}
		}
		if len(call.Cache) != 0 {
			bad = append(bad, "cache-populated-on-failure")
		}
	}
	return bad
}

func (h *verifC31Harness) run(c verifC31Case) verifC31Result {
	h.seq++
	dir := filepath.Join(h.base, fmt.Sprintf("s%d", h.seq))
	defer os.RemoveAll(dir)
	target := filepath.Join(dir, "dl", "foo_7.snap")
	cacheDir := filepath.Join(dir, "cache")
	if err := os.MkdirAll(filepath.Dir(target), 0755); err != nil {
		eng.HarnessError("C31: %v", err)
	}
	if b, ok := verifC31PartialBytes(c.Partial, h.content); ok {
		if err := os.WriteFile(target+".partial", b, 0600); err != nil {
			eng.HarnessError("C31: %v", err)
		}
	}
	h.sto.cacher = NewCacheManager(cacheDir, 5)
	old := downloadRetryStrategy
	downloadRetryStrategy = retry.LimitCount(c.Retries, retry.Exponential{Initial: time.Microsecond, Factor: 1})
	defer func() { downloadRetryStrategy = old }()
	h.server.reset(c.Script)

	info := &snap.DownloadInfo{DownloadURL: h.server.srv.URL + "/dl", Size: verifC31Size, Sha3_384: h.digest}
	var res verifC31Result
	opts := &DownloadOptions{LeavePartialOnError: c.Leave}
	for round := 0; round < 3; round++ {
		from := h.server.mark()
		err := h.sto.Download(context.Background(), "foo", target, info, nil, nil, opts)
		h.server.mu.Lock()
		served := append([]string(nil), h.server.served[from:]...)
		h.server.mu.Unlock()
		call := h.observe(target, cacheDir, err, served)
		res.Calls = append(res.Calls, call)
		// a follow-up Download only when the failed one left a partial file behind and nothing is at the target
		if err == nil || call.PartialLen < 0 || call.Target != "absent" {
			break
		}
	}
	h.server.mu.Lock()
	res.Consumed = append([]string(nil), h.server.served...)
	res.Deviations = h.server.devs
	h.server.mu.Unlock()
	return res
}

// ---- enumeration ----

// verifC31Scripts: every behaviour sequence with at most maxDev deviations and at most one interleaved "ok",
// not ending in "ok" (correct service follows every script anyway). A correct response always ends a
// download() call and Download makes at most two such calls, so scripts with a second "ok" before a deviation
// can never have that deviation consumed by the Download under test.
func verifC31Scripts(maxDev int) [][]string {
	var out [][]string
	var rec func(cur []string, devs, oks int)
	rec = func(cur []string, devs, oks int) {
		if len(cur) == 0 || cur[len(cur)-1] != verifC31OK {
			out = append(out, append([]string(nil), cur...))
		}
		if oks == 0 && devs < maxDev {
			rec(append(cur, verifC31OK), devs, 1)
		}
		if devs < maxDev {
			for _, d := range verifC31Deviations {
				rec(append(cur, d), devs+1, oks)
			}
		}
	}
	rec(nil, 0, 0)
	return out
}

func verifC31Devs(script []string) int {
	n := 0
	for _, b := range script {
		if b != verifC31OK {
			n++
		}
	}
	return n
}

func (c verifC31Case) key(consumed []string) string {
	// canonical: the script as far as the code under test consumed it (behaviour names without range offsets)
	var names []string
	for _, s := range consumed {
		names = append(names, s[:strings.LastIndexByte(s, '@')])
	}
	// trailing correct service is implicit
	for len(names) > 0 && names[len(names)-1] == verifC31OK {
		names = names[:len(names)-1]
	}
	return fmt.Sprintf("partial=%s:leave=%v:retries=%d:script=%s", c.Partial, c.Leave, c.Retries, strings.Join(names, ","))
}

func TestC31(t *testing.T) {
	r := eng.Start("C31", "fault_enumeration", 240*time.Second, 16*time.Minute)
	r.Assume("the HTTP server is a model (httptest server scripted per request); its 15 behaviours (correct service + 14 deviations, three of them bodies longer than declared) are the fault alphabet",
		"content is 64 distinct bytes with declared size and SHA3-384; larger bodies (multi-chunk copies) are not covered",
		"retry strategy replaced by a sleep-free LimitCount(n) (n = 7 as in production; n = 2, to reach exhaustion, for scripts with at most 2 deviations)",
		"transfer-speed monitor, rate limiting, deltas, authentication refresh and context cancellation are not exercised",
		"SHA3-384 collisions are ignored")
	maxDev := r.Pick(2, 3)
	rule := "one case = (server script with <= D deviations from correct service, one behaviour per request, then correct service) x pre-existing .partial state x LeavePartialOnError x retry limit; " +
		"every case is run through the real Store.Download over loopback HTTP and each Download call (plus follow-up calls on a left-over partial) is judged; " +
		"non-trivial = distinct (partial, options, consumed script) in which at least one deviating response was served to the code under test"

	if rc := r.ReplayCase(); rc != nil {
		var c verifC31Case
		var crash struct {
			Current string `json:"current_case"`
		}
		if json.Unmarshal(rc, &crash) == nil && crash.Current != "" {
			rc = json.RawMessage(crash.Current) // artefact of a worker crash: the case it was running
		}
		if err := json.Unmarshal(rc, &c); err != nil {
			eng.HarnessError("C31: bad replay case: %v", err)
		}
		h := verifC31NewHarness(t)
		res := h.run(c)
		fmt.Printf("REPLAY case=%s\nresult=%s\n", eng.JSON(c), eng.JSON(res))
		r.Add("evaluations", int64(len(res.Calls)))
		for i, call := range res.Calls {
			for _, bad := range verifC31Judge(call) {
				r.Violation(c.key(res.Consumed)+":"+bad, fmt.Sprintf("call %d: %s (error=%q target=%s cache=%v served=%v)", i+1, bad, call.Err, call.Target, call.Cache, call.Served), c)
			}
		}
		os.RemoveAll(h.base)
		r.Finish("replay")
	}

	scripts := verifC31Scripts(maxDev)
	retries := []int{7, 2}
	total := 0
	for _, sc := range scripts {
		total += len(verifC31Partials) * 2
		if verifC31Devs(sc) <= 2 {
			total += len(verifC31Partials) * 2
		}
	}
	r.Info("bounds", map[string]int{"max_deviations": maxDev, "scripts": len(scripts), "deviating_behaviours": len(verifC31Deviations),
		"overlong_behaviours": len(verifC31OverlongDeviations),
		"partial_states":      len(verifC31Partials), "leave_partial_values": 2, "retry_limits": len(retries), "cases": total, "content_bytes": verifC31Size})

	if r.Sharded(16) {
		r.Add("distinct_nontrivial", int64(r.DistinctCount("nontrivial_case")))
		r.Finish(rule)
	}

	h := verifC31NewHarness(t)

	// control: the harness itself works (no partial, correct service => success after exactly one request)
	ctl := h.run(verifC31Case{Partial: "none", Retries: 7})
	if len(ctl.Calls) != 1 || ctl.Calls[0].ErrClass != "nil" || ctl.Calls[0].Target != "ok" || len(ctl.Consumed) != 1 {
		eng.HarnessError("C31: control download against a correct server did not succeed: %s", eng.JSON(ctl))
	}

	idx := 0
	capped := false
	var last interface{}
	sampled := 0
	done := 0
outer:
	for _, script := range scripts {
		for _, partial := range verifC31Partials {
			for _, leave := range []bool{false, true} {
				for _, nretry := range retries {
					if nretry != 7 && verifC31Devs(script) > 2 {
						// the short retry limit is there to reach retry exhaustion; two deviations do that
						continue
					}
					i := idx
					idx++
					if !r.Mine(i) {
						continue
					}
					if done%64 == 0 && r.TimeUp() {
						capped = true
						break outer
					}
					done++
					c := verifC31Case{Partial: partial, Script: script, Leave: leave, Retries: nretry}
					r.NoteCurrent(eng.JSON(c))
					res := h.run(c)
					r.Add("cases", 1)
					r.Add("evaluations", int64(len(res.Calls)))
					r.Add("requests_served", int64(len(res.Consumed)))
					if len(res.Calls) > 1 {
						r.Add("cases_with_followup_download", 1)
					}
					if len(res.Consumed) >= len(script) {
						r.Add("cases_script_fully_consumed", 1)
					}
					key := c.key(res.Consumed)
					if res.Deviations > 0 {
						r.Distinct("nontrivial_case", key)
					}
					for _, s := range res.Consumed {
						if strings.HasPrefix(s, "overlong") {
							r.Add("cases_with_overlong_response_served", 1)
							break
						}
					}
					for ci, call := range res.Calls {
						r.Distinct("outcome", fmt.Sprintf("%s/target=%s/partial-left=%v", call.ErrClass, strings.SplitN(call.Target, ":", 2)[0], call.PartialLen >= 0))
						oks := 0
						for _, s := range call.Served {
							if strings.HasPrefix(s, verifC31OK+"@") {
								oks++
							}
						}
						r.Max("max_correct_responses_in_one_download", int64(oks))
						r.Max("max_requests_in_one_download", int64(len(call.Served)))
						if call.ErrClass == "nil" {
							r.Add("downloads_succeeded", 1)
						} else {
							r.Add("downloads_failed", 1)
						}
						for _, bad := range verifC31Judge(call) {
							// re-run before believing it
							again := h.run(c)
							stable := len(again.Calls) > ci && strings.Join(verifC31Judge(again.Calls[ci]), ",") == strings.Join(verifC31Judge(call), ",")
							if !stable {
								eng.HarnessError("C31: verdict not reproducible for %s: %s vs %s", eng.JSON(c), eng.JSON(res), eng.JSON(again))
							}
							r.Violation(key+":"+bad, fmt.Sprintf("Download call %d: %s (error=%q target=%s cache=%v requests=%v)", ci+1, bad, call.Err, call.Target, call.Cache, res.Consumed),
								map[string]interface{}{"partial": c.Partial, "script": c.Script, "leave_partial_on_error": c.Leave, "retry_limit": c.Retries, "observed": res})
						}
					}
					last = map[string]interface{}{"case": c, "result": res}
					if sampled < 2 && res.Deviations >= 2 && len(res.Calls) > 1 {
						sampled++
						r.Sample(last)
					}
				}
			}
		}
	}
	if sampled == 0 && last != nil {
		r.Sample(last)
	}
	if capped {
		r.Cap("time", fmt.Sprintf("shard stopped after %d of its cases", done))
	}
	if _, n := r.ShardIndex(); n <= 1 {
		r.Add("distinct_nontrivial", int64(r.DistinctCount("nontrivial_case")))
	}
	os.RemoveAll(h.base)
	r.Finish(rule)
}
