// C36 — accepted quota groups always fit inside their parents.
//
// Bounded exhaustive exploration (breadth first, canonical-state dedup) of every sequence of
// NewGroup / NewSubGroup(parent) / UpdateQuotaLimits(group) requests over small colliding alphabets of
// memory / thread / cpu / cpu-set values, executed on the real snap/quota code. After every request an
// independent reference recomputes, from the exported fields of the groups only, whether every limited
// group still contains its children's effective reservations and whether every cpu-set lies inside the
// nearest ancestor's cpu-set; refused requests must leave the serialized forest untouched.
//
// In-package (package quota_test) because runtime.NumCPU is only mockable through export_test.go.
package quota_test

import (
	"crypto/sha256"
	"encoding/json"
	"fmt"
	"os"
	"runtime/debug"
	"sort"
	"strconv"
	"strings"
	"sync"
	"sync/atomic"
	"testing"
	"time"

	"github.com/snapcore/snapd/gadget/quantity"
	"github.com/snapcore/snapd/snap/quota"
	eng "github.com/snapcore/snapd/verifengine"
)

// ---- alphabets (index 0 = resource not named in the request) ----

var c36Mem = []quantity.Size{0, 1 * quantity.SizeMiB, 2 * quantity.SizeMiB, 4 * quantity.SizeMiB}
var c36Thr = []int{0, 2, 4, 8}
var c36CPU = [][2]int{{0, 0}, {1, 50}, {2, 50}, {0, 50}, {2, 100}} // count, percentage
var c36Set = [][]int{nil, {0}, {0, 1}, {1, 2}}

type c36Req struct {
	Mem int8 `json:"mem"`
	Thr int8 `json:"thr"`
	CPU int8 `json:"cpu"`
	Set int8 `json:"set"`
}

func (q c36Req) String() string {
	var p []string
	if q.Mem != 0 {
		p = append(p, fmt.Sprintf("mem=%dMiB", c36Mem[q.Mem]/quantity.SizeMiB))
	}
	if q.Thr != 0 {
		p = append(p, fmt.Sprintf("thr=%d", c36Thr[q.Thr]))
	}
	if q.CPU != 0 {
		p = append(p, fmt.Sprintf("cpu=%dx%d", c36CPU[q.CPU][0], c36CPU[q.CPU][1]))
	}
	if q.Set != 0 {
		p = append(p, fmt.Sprintf("set=%v", c36Set[q.Set]))
	}
	return strings.Join(p, ",")
}

func (q c36Req) resources() quota.Resources {
	var r quota.Resources
	if q.Mem != 0 {
		r.Memory = &quota.ResourceMemory{Limit: c36Mem[q.Mem]}
	}
	if q.Thr != 0 {
		r.Threads = &quota.ResourceThreads{Limit: c36Thr[q.Thr]}
	}
	if q.CPU != 0 {
		r.CPU = &quota.ResourceCPU{Count: c36CPU[q.CPU][0], Percentage: c36CPU[q.CPU][1]}
	}
	if q.Set != 0 {
		r.CPUSet = &quota.ResourceCPUSet{CPUs: append([]int(nil), c36Set[q.Set]...)}
	}
	return r
}

const (
	c36New = 0 // NewGroup
	c36Sub = 1 // NewSubGroup(T)
	c36Upd = 2 // UpdateQuotaLimits(T)
)

type c36Op struct {
	K int8   `json:"k"`
	T int8   `json:"t"` // index (creation order) of the parent (sub) or the group (upd)
	R c36Req `json:"r"`
}

func (o c36Op) String() string {
	switch o.K {
	case c36New:
		return "new(" + o.R.String() + ")"
	case c36Sub:
		return fmt.Sprintf("sub(g%d;%s)", o.T, o.R.String())
	}
	return fmt.Sprintf("upd(g%d;%s)", o.T, o.R.String())
}

type c36Case struct {
	Proj   string  `json:"projection"`
	NumCPU int     `json:"num_cpu"`
	Path   []c36Op `json:"path"` // all but the last were accepted; the last one is the request being judged
	Trace  string  `json:"trace,omitempty"`
}

// ---- observation: exported fields only ----

type c36Obs struct {
	Name, Parent    string
	Subs            []string
	Mem             uint64
	Thr             int
	HasCPU          bool
	Count, Pct      int
	Set             []int
	Journal, Others bool
}

func c36Observe(gs []*quota.Group) []c36Obs {
	res := make([]c36Obs, len(gs))
	for i, g := range gs {
		o := c36Obs{Name: g.Name, Parent: g.ParentGroup, Subs: append([]string(nil), g.SubGroups...), Mem: uint64(g.MemoryLimit), Thr: g.ThreadLimit}
		if g.CPULimit != nil {
			o.HasCPU = true
			o.Count, o.Pct = g.CPULimit.Count, g.CPULimit.Percentage
			o.Set = append([]int(nil), g.CPULimit.CPUSet...)
		}
		o.Journal = g.JournalLimit != nil
		o.Others = len(g.Snaps) != 0 || len(g.Services) != 0
		res[i] = o
	}
	return res
}

// c36Snap is the serialized forest (all exported fields of all groups, in creation order).
func c36Snap(obs []c36Obs) string {
	var b []byte
	for _, o := range obs {
		b = append(b, o.Name...)
		b = append(b, '<')
		b = append(b, o.Parent...)
		b = append(b, '[')
		for _, s := range o.Subs {
			b = append(b, s...)
			b = append(b, ' ')
		}
		b = append(b, "]m"...)
		b = strconv.AppendUint(b, o.Mem, 10)
		b = append(b, 't')
		b = strconv.AppendInt(b, int64(o.Thr), 10)
		if o.HasCPU {
			b = append(b, 'c')
			b = strconv.AppendInt(b, int64(o.Count), 10)
			b = append(b, 'x')
			b = strconv.AppendInt(b, int64(o.Pct), 10)
			b = append(b, '{')
			for _, c := range o.Set {
				b = strconv.AppendInt(b, int64(c), 10)
				b = append(b, ' ')
			}
			b = append(b, '}')
		}
		if o.Journal {
			b = append(b, 'J')
		}
		if o.Others {
			b = append(b, 'O')
		}
		b = append(b, ';')
	}
	return string(b)
}

// ---- reference: independent recomputation of the property on an observed forest ----

type c36Forest struct {
	obs      []c36Obs
	par      []int
	children [][]int
	numCPU   int
}

func c36Build(obs []c36Obs, numCPU int) (*c36Forest, string) {
	f := &c36Forest{obs: obs, children: make([][]int, len(obs)), numCPU: numCPU, par: make([]int, len(obs))}
	find := func(name string) int {
		for i := range obs {
			if obs[i].Name == name {
				return i
			}
		}
		return -1
	}
	for i, o := range obs {
		if find(o.Name) != i {
			return nil, "duplicate group name " + o.Name
		}
		f.par[i] = -1
		if o.Parent == "" {
			continue
		}
		p := find(o.Parent)
		if p < 0 {
			return nil, fmt.Sprintf("group %s names unknown parent %s", o.Name, o.Parent)
		}
		if p == i {
			return nil, fmt.Sprintf("group %s is its own parent", o.Name)
		}
		f.par[i] = p
		f.children[p] = append(f.children[p], i)
	}
	// parent links and sub-group lists must describe the same tree
	for i, o := range obs {
		if len(f.children[i]) != len(o.Subs) {
			return nil, fmt.Sprintf("group %s lists sub-groups %v but the groups naming it as parent are %v", o.Name, o.Subs, f.children[i])
		}
		for k, s := range o.Subs {
			c := find(s)
			if c < 0 || f.par[c] != i {
				return nil, fmt.Sprintf("group %s lists sub-group %s which does not name it as parent", o.Name, s)
			}
			for _, s2 := range o.Subs[:k] {
				if s2 == s {
					return nil, fmt.Sprintf("group %s lists sub-group %s twice", o.Name, s)
				}
			}
		}
	}
	// no cycles: every parent chain ends
	for i := range obs {
		n := 0
		for j := i; j >= 0; j = f.par[j] {
			if n++; n > len(obs) {
				return nil, fmt.Sprintf("parent chain of %s is cyclic", obs[i].Name)
			}
		}
	}
	return f, ""
}

func (f *c36Forest) parent(i int) int { return f.par[i] }

// allowed returns the cpu-set in force for group i (its own, else the nearest ancestor's), nil if none.
func (f *c36Forest) allowed(i int) []int {
	for j := i; j >= 0; j = f.parent(j) {
		if len(f.obs[j].Set) != 0 {
			return f.obs[j].Set
		}
	}
	return nil
}

// limit returns the group's own limit for resource r (0 memory, 1 threads, 2 cpu percent); 0 = none.
func (f *c36Forest) limit(i, r int) uint64 {
	o := f.obs[i]
	switch r {
	case 0:
		return o.Mem
	case 1:
		if o.Thr < 0 {
			return 0
		}
		return uint64(o.Thr)
	}
	if !o.HasCPU || o.Pct == 0 {
		return 0
	}
	if o.Count != 0 {
		return uint64(o.Count * o.Pct)
	}
	// count 0: the percentage applies to every core the group may run on
	n := f.numCPU
	if a := f.allowed(i); len(a) != 0 && len(a) < n {
		n = len(a)
	}
	return uint64(n * o.Pct)
}

func (f *c36Forest) eff(i, r int) uint64 {
	if l := f.limit(i, r); l != 0 {
		return l
	}
	return f.childSum(i, r)
}

func (f *c36Forest) childSum(i, r int) uint64 {
	var s uint64
	for _, c := range f.children[i] {
		s += f.eff(c, r)
	}
	return s
}

var c36ResName = []string{"memory", "threads", "cpu"}

type c36Clause struct {
	class  string // memory | threads | cpu-plain | cpu-count0 | cpu-setshield | cpu-count0-setshield | cpuset
	detail string
}

// cpuShape describes how the cpu reservations below holder h come about: does any value in the sum (or
// the holder's own limit) have count 0 (its size then depends on the cpu-sets in force), and does a group
// with a cpu-set but without cpu limit sit between the holder and a reserving descendant.
func (f *c36Forest) cpuShape(h int) (count0, shield bool) {
	count0 = f.obs[h].Count == 0
	var walk func(i int, shielded bool)
	walk = func(i int, shielded bool) {
		for _, c := range f.children[i] {
			if f.limit(c, 2) != 0 {
				if f.obs[c].Count == 0 {
					count0 = true
				}
				if shielded {
					shield = true
				}
				continue
			}
			walk(c, shielded || len(f.obs[c].Set) != 0)
		}
	}
	walk(h, false)
	return
}

// broken lists every clause of the property that does not hold in the forest (sorted, canonical).
func (f *c36Forest) broken() []c36Clause {
	var res []c36Clause
	for i := range f.obs {
		for r := 0; r < 3; r++ {
			if l := f.limit(i, r); l != 0 {
				if s := f.childSum(i, r); s > l {
					class := c36ResName[r]
					if r == 2 {
						c0, sh := f.cpuShape(i)
						switch {
						case c0 && sh:
							class = "cpu-count0-setshield"
						case c0:
							class = "cpu-count0"
						case sh:
							class = "cpu-setshield"
						default:
							class = "cpu-plain"
						}
					}
					res = append(res, c36Clause{class, fmt.Sprintf("%s: children of %s reserve %d, over its limit %d", c36ResName[r], f.obs[i].Name, s, l)})
				}
			}
		}
		if own := f.obs[i].Set; len(own) != 0 {
			if p := f.parent(i); p >= 0 {
				if anc := f.allowed(p); len(anc) != 0 {
					for _, c := range own {
						found := false
						for _, a := range anc {
							if a == c {
								found = true
							}
						}
						if !found {
							res = append(res, c36Clause{"cpuset", fmt.Sprintf("cpu-set %v of %s is not within its nearest ancestor cpu-set %v", own, f.obs[i].Name, anc)})
							break
						}
					}
				}
			}
		}
	}
	sort.Slice(res, func(a, b int) bool { return res[a].class+res[a].detail < res[b].class+res[b].detail })
	return res
}

// c36Apply returns the forest the request asks for (only the named resources of the target change).
func c36Apply(obs []c36Obs, op c36Op) []c36Obs {
	res := make([]c36Obs, len(obs), len(obs)+1)
	copy(res, obs)
	t := int(op.T)
	if op.K != c36Upd {
		n := c36Obs{Name: c36Names[len(obs)]}
		if op.K == c36Sub {
			n.Parent = obs[op.T].Name
			p := res[op.T]
			p.Subs = append(append([]string(nil), p.Subs...), n.Name)
			res[op.T] = p
		}
		res = append(res, n)
		t = len(res) - 1
	}
	o := res[t]
	if op.R.Mem != 0 {
		o.Mem = uint64(c36Mem[op.R.Mem])
	}
	if op.R.Thr != 0 {
		o.Thr = c36Thr[op.R.Thr]
	}
	if op.R.CPU != 0 {
		o.HasCPU = true
		o.Count, o.Pct = c36CPU[op.R.CPU][0], c36CPU[op.R.CPU][1]
	}
	if op.R.Set != 0 {
		o.HasCPU = true
		o.Set = append([]int(nil), c36Set[op.R.Set]...)
	}
	res[t] = o
	return res
}

// ---- executing requests on the real code ----

var c36Names = []string{"g0", "g1", "g2", "g3", "g4", "g5", "g6", "g7"}

type c36Inst struct {
	groups []*quota.Group
}

func (in *c36Inst) do(op c36Op) error {
	switch op.K {
	case c36New:
		g, err := quota.NewGroup(c36Names[len(in.groups)], op.R.resources())
		if err != nil {
			return err
		}
		in.groups = append(in.groups, g)
		return nil
	case c36Sub:
		g, err := in.groups[op.T].NewSubGroup(c36Names[len(in.groups)], op.R.resources())
		if err != nil {
			return err
		}
		in.groups = append(in.groups, g)
		return nil
	}
	return in.groups[op.T].UpdateQuotaLimits(op.R.resources())
}

func c36Replay(path []c36Op) (*c36Inst, error) {
	in := &c36Inst{}
	for i, op := range path {
		if err := in.do(op); err != nil {
			return nil, fmt.Errorf("step %d %v refused on replay: %v", i, op, err)
		}
	}
	return in, nil
}

// precheck: the request-shape rules that are not about fitting (limits cannot be removed or decreased,
// memory minimum, cpu percentage vs own cpu-set, ...), taken from the exported validators of the real code.
func c36Precheck(cur quota.Resources, op c36Op) error {
	req := op.R.resources()
	if err := cur.ValidateChange(req); err != nil {
		return err
	}
	if op.K != c36Upd {
		return req.Validate()
	}
	return nil
}

type c36Verdict struct {
	key, msg string
}

type c36Step struct {
	accepted    bool
	nontrivial  bool
	outcome     string
	next        []c36Obs
	violations  []c36Verdict
	fieldDrift  string
	overRefusal bool
}

// c36Judge executes op on inst (whose observed forest is pre) and evaluates the oracle.
func c36Judge(inst *c36Inst, pre []c36Obs, preSnap string, op c36Op, numCPU int) (st c36Step) {
	defer func() {
		if e := recover(); e != nil {
			st.outcome = "panic"
			st.violations = append(st.violations, c36Verdict{"panic:" + c36DriftKind(op), fmt.Sprintf("request %v made the code under test panic: %v", op, e)})
		}
	}()
	return c36Judge1(inst, pre, preSnap, op, numCPU)
}

func c36Judge1(inst *c36Inst, pre []c36Obs, preSnap string, op c36Op, numCPU int) c36Step {
	var st c36Step
	want := c36Apply(pre, op)
	wf, werr := c36Build(want, numCPU)
	if werr != "" {
		eng.HarnessError("reference forest inconsistent: %s", werr)
	}

	// non-trivial: the fit validation has something to compare with — the target has (or gets) a limited
	// ancestor or limited descendants for a resource the request names.
	st.nontrivial = c36Related(wf, op, len(want))

	err := inst.do(op)
	post := c36Observe(inst.groups)
	postSnap := c36Snap(post)
	if err != nil {
		st.accepted = false
		st.outcome = "refused"
		if postSnap != preSnap {
			st.violations = append(st.violations, c36Verdict{"refused-but-changed:" + c36DriftKind(op), fmt.Sprintf("request %v was refused (%v) but the groups changed: before %s after %s", op, err, preSnap, postSnap)})
		}
		// was the refusal called for? (evaluated after the fact: the groups are unchanged, so the target's
		// current resources are still those the request was validated against)
		var cur quota.Resources
		if op.K == c36Upd && postSnap == preSnap {
			cur = inst.groups[op.T].GetQuotaResources()
		}
		preErr := c36Precheck(cur, op)
		wantBroken := wf.broken()
		if preErr == nil && len(wantBroken) == 0 {
			// reference: request is well-formed and the resulting forest satisfies every clause
			if !c36MayRefuse(wf, op, len(want)) {
				st.overRefusal = true
				st.violations = append(st.violations, c36Verdict{"fitting-request-refused:" + c36RefusedShape(op, err), fmt.Sprintf("request %v was refused (%v) although the resulting forest %s satisfies every clause of the property", op, err, c36Snap(want))})
			} else {
				st.outcome = "refused-gray"
			}
		} else if preErr != nil {
			st.outcome = "refused-shape"
		} else {
			st.outcome = "refused-fit"
		}
		return st
	}
	st.accepted = true
	st.outcome = "accepted"
	st.next = post
	pf, perr := c36Build(post, numCPU)
	if perr != "" {
		st.violations = append(st.violations, c36Verdict{"tree-inconsistent:" + c36DriftKind(op), fmt.Sprintf("after accepted %v: %s", op, perr)})
		return st
	}
	if b := pf.broken(); len(b) != 0 {
		var classes, details []string
		for _, c := range b {
			if len(classes) == 0 || classes[len(classes)-1] != c.class {
				classes = append(classes, c.class)
			}
			details = append(details, c.detail)
		}
		st.violations = append(st.violations, c36Verdict{"accepted-but-broken:" + strings.Join(classes, "+") + ":" + c36Shape(op, strings.Join(classes, "+")),
			fmt.Sprintf("request %v was accepted and now %s (forest %s, num_cpu %d)", op, strings.Join(details, "; "), postSnap, numCPU)})
	}
	// the named resources of the target must hold the requested values; everything else is expected to
	// stay as it was (drift in un-named fields is recorded, see c36 meta, but is not part of the statement)
	if len(post) != len(want) {
		st.violations = append(st.violations, c36Verdict{"accepted-not-applied:" + c36DriftKind(op), fmt.Sprintf("request %v accepted but group count is %d, expected %d", op, len(post), len(want))})
		return st
	}
	t := int(op.T)
	if op.K != c36Upd {
		t = len(want) - 1
	}
	if m := c36NamedMismatch(post[t], want[t], op.R); m != "" {
		st.violations = append(st.violations, c36Verdict{"accepted-not-applied:" + c36DriftKind(op), fmt.Sprintf("request %v accepted but %s (forest %s)", op, m, postSnap)})
	}
	if ws := c36Snap(want); ws != postSnap {
		st.fieldDrift = fmt.Sprintf("%v: expected %s got %s", op, ws, postSnap)
	}
	return st
}

func c36NamedMismatch(got, want c36Obs, r c36Req) string {
	if r.Mem != 0 && got.Mem != want.Mem {
		return fmt.Sprintf("memory limit is %d, requested %d", got.Mem, want.Mem)
	}
	if r.Thr != 0 && got.Thr != want.Thr {
		return fmt.Sprintf("thread limit is %d, requested %d", got.Thr, want.Thr)
	}
	if r.CPU != 0 && (!got.HasCPU || got.Count != want.Count || got.Pct != want.Pct) {
		return fmt.Sprintf("cpu limit is %dx%d, requested %dx%d", got.Count, got.Pct, want.Count, want.Pct)
	}
	if r.Set != 0 && fmt.Sprint(got.Set) != fmt.Sprint(want.Set) {
		return fmt.Sprintf("cpu-set is %v, requested %v", got.Set, want.Set)
	}
	if got.Name != want.Name || got.Parent != want.Parent {
		return fmt.Sprintf("group is %s<%s, expected %s<%s", got.Name, got.Parent, want.Name, want.Parent)
	}
	return ""
}

// c36Related: does any ancestor or descendant of the target carry a limit (or cpu-set) of a kind the
// request names? (evaluated on the requested forest wf, target = op.T or the new last group)
func c36Related(wf *c36Forest, op c36Op, n int) bool {
	t := int(op.T)
	if op.K != c36Upd {
		t = n - 1
	}
	names := func(o c36Obs) bool {
		return (op.R.Mem != 0 && o.Mem != 0) || (op.R.Thr != 0 && o.Thr != 0) || (op.R.CPU != 0 && o.HasCPU && (o.Pct != 0 || len(o.Set) != 0)) || (op.R.Set != 0 && o.HasCPU && (len(o.Set) != 0 || (o.Pct != 0 && o.Count == 0)))
	}
	for p := wf.parent(t); p >= 0; p = wf.parent(p) {
		if names(wf.obs[p]) {
			return true
		}
	}
	var desc func(i int) bool
	desc = func(i int) bool {
		for _, c := range wf.children[i] {
			if names(wf.obs[c]) || desc(c) {
				return true
			}
		}
		return false
	}
	return desc(t)
}

// c36MayRefuse: refusal reasons that are legitimate although the requested forest satisfies the clauses of
// the statement (calibrated on the unchanged tree; each is described in meta/C36.json).
func c36MayRefuse(wf *c36Forest, op c36Op, n int) bool {
	t := int(op.T)
	if op.K != c36Upd {
		t = n - 1
	}
	o := wf.obs[t]
	// a count-0 cpu quota requested together with a cpu-set: the implementation sizes the quota with the
	// cpu-set in force before the request (the accept direction of this is reported by the fit clauses)
	if op.R.CPU != 0 && op.R.Set != 0 && c36CPU[op.R.CPU][0] == 0 {
		return true
	}
	// a cpu-set request that resizes count-0 cpu quotas below the target (they inherit the target's cpu-set):
	// the implementation checks the children's reservations at their size before the request
	if op.R.Set != 0 {
		var sized func(i int) bool
		sized = func(i int) bool {
			for _, c := range wf.children[i] {
				oc := wf.obs[c]
				if len(oc.Set) != 0 {
					continue // own cpu-set: nothing below inherits from the target
				}
				if (oc.HasCPU && oc.Pct != 0 && oc.Count == 0) || sized(c) {
					return true
				}
			}
			return false
		}
		if sized(t) {
			return true
		}
	}
	// a cpu quota larger than what the cpu-set in force for the group can ever deliver
	if op.R.CPU != 0 || op.R.Set != 0 {
		if a := wf.allowed(t); len(a) != 0 && o.HasCPU && o.Pct != 0 {
			if wf.limit(t, 2) > uint64(len(a)*100) || (o.Count != 0 && uint64(o.Count*o.Pct) > uint64(len(a)*100)) {
				return true
			}
		}
	}
	return false
}

// ---- exploration ----

type c36Proj struct {
	name               string
	mem, thr, cpu, set []int
	numCPUs            []int
	expandGroups       int // states with more groups than this are terminal (their creation is still judged)
	maxGroups          int
	maxDepth           int // tree depth (levels)
	seqLen             int
}

func (p c36Proj) reqs() []c36Req {
	var res []c36Req
	for _, m := range p.mem {
		for _, t := range p.thr {
			for _, c := range p.cpu {
				for _, s := range p.set {
					if m+t+c+s == 0 {
						continue
					}
					res = append(res, c36Req{int8(m), int8(t), int8(c), int8(s)})
				}
			}
		}
	}
	return res
}

func c36Depth(obs []c36Obs, i int) int {
	d := 1
	for obs[i].Parent != "" && d <= len(obs) {
		for k := range obs {
			if obs[k].Name == obs[i].Parent {
				i = k
				break
			}
		}
		d++
	}
	return d
}

func c36Enabled(p c36Proj, reqs []c36Req, obs []c36Obs) []c36Op {
	var ops []c36Op
	n := len(obs)
	if n < p.maxGroups {
		for _, r := range reqs {
			ops = append(ops, c36Op{K: c36New, R: r})
		}
		for t := 0; t < n; t++ {
			if c36Depth(obs, t)+1 > p.maxDepth {
				continue
			}
			for _, r := range reqs {
				ops = append(ops, c36Op{K: c36Sub, T: int8(t), R: r})
			}
		}
	}
	for t := 0; t < n; t++ {
		for _, r := range reqs {
			ops = append(ops, c36Op{K: c36Upd, T: int8(t), R: r})
		}
	}
	return ops
}

type c36Node struct {
	path []c36Op
}

func c36Trace(path []c36Op) string {
	s := make([]string, len(path))
	for i, o := range path {
		s[i] = o.String()
	}
	return strings.Join(s, " ")
}

// c36Key: violations are keyed by root-cause class (clause broken, what the reserving groups look like, the
// kind of request), not by input: one key stands for every input of the class, and the stored case is the
// shortest (then lexicographically first) trace of that class.
func c36Key(v c36Verdict) string { return v.key }

type c36Witness struct {
	trace string
	msg   string
	cas   c36Case
	count int64
}

const c36Shards = 64

func c36Explore(r *eng.Run, p c36Proj, numCPU int) {
	restore := quota.MockRuntimeNumCPU(func() int { return numCPU })
	defer restore()
	reqs := p.reqs()
	var visited [c36Shards]map[[16]byte]struct{}
	var vmu [c36Shards]sync.Mutex
	for i := range visited {
		visited[i] = map[[16]byte]struct{}{}
	}
	hash := func(s string) [16]byte {
		h := sha256.Sum256([]byte(s))
		var k [16]byte
		copy(k[:], h[:16])
		return k
	}
	k0 := hash("")
	visited[k0[0]%c36Shards][k0] = struct{}{}
	frontier := []c36Node{{}}
	var states int64 = 1
	completedDepth := 0
	for depth := 0; depth < p.seqLen && len(frontier) > 0; depth++ {
		var next []c36Node
		var nmu sync.Mutex
		witness := map[string]*c36Witness{}
		outcomes := map[string]int64{}
		drifts := map[string]string{}
		var trans, accepted, nontriv, nontrivAcc, nontrivRef, drift, terminal int64
		var stop int32
		eng.ParallelFor(len(frontier), func(i int) {
			if atomic.LoadInt32(&stop) != 0 {
				return
			}
			if i%64 == 0 && r.TimeUp() {
				atomic.StoreInt32(&stop, 1)
				return
			}
			node := frontier[i]
			inst, err := c36Replay(node.path)
			if err != nil {
				eng.HarnessError("divergence: %v (path %s)", err, c36Trace(node.path))
			}
			pre := c36Observe(inst.groups)
			preSnap := c36Snap(pre)
			var lt, la, ln, lna, lnr, ld, lterm, lstates int64
			lout := map[string]int64{}
			var found []c36Node
			for _, op := range c36Enabled(p, reqs, pre) {
				st := c36Judge(inst, pre, preSnap, op, numCPU)
				lt++
				if st.nontrivial {
					ln++
					if st.accepted {
						lna++
					} else {
						lnr++
					}
				}
				lout[st.outcome]++
				var full []c36Op
				if len(st.violations) != 0 || st.accepted {
					full = append(append([]c36Op(nil), node.path...), op)
				}
				if len(st.violations) != 0 {
					tr := c36Trace(full)
					nmu.Lock()
					for _, v := range st.violations {
						w := witness[v.key]
						if w == nil {
							w = &c36Witness{}
							witness[v.key] = w
						}
						w.count++
						if w.trace == "" || tr < w.trace {
							w.trace, w.msg = tr, v.msg
							w.cas = c36Case{Proj: p.name, NumCPU: numCPU, Path: full, Trace: tr}
						}
						c36Dump(fmt.Sprintf("%d\t%s\t%d\t%s\t%s\t%s\n", len(full), p.name, numCPU, v.key, tr, v.msg))
					}
					nmu.Unlock()
				}
				if st.fieldDrift != "" {
					ld++
					nmu.Lock()
					if _, ok := drifts[c36DriftKind(op)]; !ok {
						drifts[c36DriftKind(op)] = st.fieldDrift
					}
					nmu.Unlock()
				}
				dirty := st.accepted || len(st.violations) != 0
				if st.accepted {
					la++
					// a state in which the property is already broken is reported and not extended
					if len(st.violations) == 0 {
						if len(st.next) > p.expandGroups {
							// terminal: created by adding the group created last to a distinct expanded state, so
							// distinct (state, request) pairs give distinct terminal states; counted without storing
							lterm++
							lstates++
						} else {
							k := hash(c36Snap(st.next))
							sh := k[0] % c36Shards
							vmu[sh].Lock()
							_, seen := visited[sh][k]
							if !seen {
								visited[sh][k] = struct{}{}
							}
							vmu[sh].Unlock()
							if !seen {
								lstates++
								found = append(found, c36Node{path: full})
								if len(full) >= 3 && st.nontrivial && r.WantSample() {
									r.Sample(c36Case{Proj: p.name, NumCPU: numCPU, Path: full, Trace: c36Trace(full) + " => " + c36Snap(st.next)})
								}
							}
						}
					}
				}
				if dirty {
					inst, err = c36Replay(node.path)
					if err != nil {
						eng.HarnessError("divergence: %v (path %s)", err, c36Trace(node.path))
					}
				}
			}
			atomic.AddInt64(&trans, lt)
			atomic.AddInt64(&accepted, la)
			atomic.AddInt64(&nontriv, ln)
			atomic.AddInt64(&nontrivAcc, lna)
			atomic.AddInt64(&nontrivRef, lnr)
			atomic.AddInt64(&drift, ld)
			atomic.AddInt64(&terminal, lterm)
			atomic.AddInt64(&states, lstates)
			nmu.Lock()
			next = append(next, found...)
			for k, v := range lout {
				outcomes[k] += v
			}
			nmu.Unlock()
		})
		r.Add("transitions", trans)
		r.Add(fmt.Sprintf("transitions_%s_ncpu%d", p.name, numCPU), trans)
		r.Add("evaluations", trans)
		r.Add("traces_validated_against_impl", trans)
		r.Add("requests_accepted", accepted)
		r.Add("distinct_nontrivial", nontriv)
		r.Add("nontrivial_accepted", nontrivAcc)
		r.Add("nontrivial_refused", nontrivRef)
		r.Add("unnamed_field_drift", drift)
		r.Add("terminal_states_not_expanded", terminal)
		for k, v := range outcomes {
			r.Distinct("outcome", k)
			r.Add("outcome_"+k, v)
		}
		for k, v := range drifts {
			if r.Distinct("unnamed_field_drift_kind", k) {
				r.Info("unnamed_field_drift_example_"+k, v)
			}
		}
		keys := make([]string, 0, len(witness))
		for k := range witness {
			keys = append(keys, k)
		}
		sort.Strings(keys)
		for _, k := range keys {
			w := witness[k]
			r.Add("violating_requests", w.count)
			r.Violation(k, fmt.Sprintf("%s [shortest trace of this class: %s; %d requests of this class at sequence length %d in projection %s num_cpu %d]", w.msg, w.trace, w.count, depth+1, p.name, numCPU), w.cas)
		}
		if stop != 0 {
			r.Cap("time", fmt.Sprintf("projection %s num_cpu %d: sequences up to length %d complete, length %d partial", p.name, numCPU, completedDepth, depth+1))
			break
		}
		completedDepth = depth + 1
		// deterministic order of the next frontier (ParallelFor completes in any order)
		sort.Slice(next, func(a, b int) bool { return c36Trace(next[a].path) < c36Trace(next[b].path) })
		frontier = next
	}
	r.Add("states", states)
	r.Add(fmt.Sprintf("states_%s_ncpu%d", p.name, numCPU), states)
	r.Max(fmt.Sprintf("sequence_length_completed_%s_ncpu%d", p.name, numCPU), int64(completedDepth))
}

var c36DumpMu sync.Mutex
var c36DumpF *os.File

// c36Dump: debugging aid (VERIF_C36_DUMP=<file>): every violation as one line.
func c36Dump(line string) {
	p := os.Getenv("VERIF_C36_DUMP")
	if p == "" {
		return
	}
	c36DumpMu.Lock()
	defer c36DumpMu.Unlock()
	if c36DumpF == nil {
		c36DumpF, _ = os.Create(p)
	}
	if c36DumpF != nil {
		c36DumpF.WriteString(line)
	}
}

// c36RefusedShape: kind of request and the resource whose fit check refused it (from the error text, used only
// to name the class).
func c36RefusedShape(op c36Op, err error) string {
	class := "other"
	switch m := err.Error(); {
	case strings.Contains(m, "memory"):
		class = "memory"
	case strings.Contains(m, "thread"):
		class = "threads"
	case strings.Contains(m, "cpu"):
		class = "cpu"
	}
	return class + ":" + c36Shape(op, class)
}

// c36Shape: kind of request and those named resources that matter for the clause class.
func c36Shape(op c36Op, class string) string {
	k := []string{"new", "sub", "upd"}[op.K]
	var n []string
	if op.R.Mem != 0 && strings.Contains(class, "memory") {
		n = append(n, "mem")
	}
	if op.R.Thr != 0 && strings.Contains(class, "threads") {
		n = append(n, "thr")
	}
	if op.R.CPU != 0 && strings.Contains(class, "cpu") {
		n = append(n, "cpu")
	}
	if op.R.Set != 0 && strings.Contains(class, "cpu") {
		n = append(n, "set")
	}
	return k + "_" + strings.Join(n, "_")
}

func c36DriftKind(op c36Op) string {
	k := []string{"new", "sub", "upd"}[op.K]
	var n []string
	if op.R.Mem != 0 {
		n = append(n, "mem")
	}
	if op.R.Thr != 0 {
		n = append(n, "thr")
	}
	if op.R.CPU != 0 {
		n = append(n, "cpu")
	}
	if op.R.Set != 0 {
		n = append(n, "set")
	}
	return k + "_" + strings.Join(n, "_")
}

func TestVerifC36(t *testing.T) {
	debug.SetGCPercent(400)
	r := eng.Start("C36", "model_checking", 100*time.Second, 12*time.Minute)
	r.Assume("reference = independent recomputation from the exported Group fields: eff(g)=own limit if set else sum of eff(children); cpu limit = count*percentage, count 0 meaning every core the group may run on (nearest cpu-set, capped by the number of CPUs)",
		"request-shape rules (no removal/decrease of limits, memory minimum, cpu vs own cpu-set) are taken from the exported Resources.Validate/ValidateChange of the real code and only used to decide whether a refusal is explained by something other than fitting",
		"group names are unique (servicestate guarantees it); runtime.NumCPU mocked through export_test.go")

	if rc := r.ReplayCase(); rc != nil {
		var c c36Case
		if err := json.Unmarshal(rc, &c); err != nil || len(c.Path) == 0 {
			eng.HarnessError("bad replay case: %v", err)
		}
		restore := quota.MockRuntimeNumCPU(func() int { return c.NumCPU })
		defer restore()
		for rep := 0; rep < 5; rep++ {
			inst, err := c36Replay(c.Path[:len(c.Path)-1])
			if err != nil {
				eng.HarnessError("replay prefix diverged: %v", err)
			}
			pre := c36Observe(inst.groups)
			st := c36Judge(inst, pre, c36Snap(pre), c.Path[len(c.Path)-1], c.NumCPU)
			if rep == 0 {
				fmt.Printf("replay: num_cpu=%d trace: %s\n  before: %s\n  outcome: %s\n  after:  %s\n", c.NumCPU, c36Trace(c.Path), c36Snap(pre), st.outcome, c36Snap(c36Observe(inst.groups)))
			}
			for _, v := range st.violations {
				r.Violation(c36Key(v), v.msg, c)
			}
		}
		r.Finish("replay")
	}

	all := func(n int) []int {
		res := make([]int, n)
		for i := range res {
			res[i] = i
		}
		return res
	}
	var projs []c36Proj
	if r.Quick() {
		projs = []c36Proj{
			{name: "mem+threads", mem: all(4), thr: all(4), cpu: []int{0}, set: []int{0}, numCPUs: []int{2}, expandGroups: 3, maxGroups: 4, maxDepth: 3, seqLen: 5},
			{name: "cpu+cpuset", mem: []int{0}, thr: []int{0}, cpu: all(5), set: all(4), numCPUs: []int{2}, expandGroups: 3, maxGroups: 4, maxDepth: 3, seqLen: 5},
			{name: "mixed", mem: []int{0, 1, 2}, thr: []int{0, 1}, cpu: []int{0, 1, 3}, set: []int{0, 1, 2}, numCPUs: []int{2}, expandGroups: 2, maxGroups: 3, maxDepth: 3, seqLen: 4},
			{name: "cpu+cpuset/4cpus", mem: []int{0}, thr: []int{0}, cpu: all(5), set: all(4), numCPUs: []int{4}, expandGroups: 2, maxGroups: 3, maxDepth: 3, seqLen: 4},
		}
	} else {
		projs = []c36Proj{
			{name: "mem+threads", mem: all(4), thr: all(4), cpu: []int{0}, set: []int{0}, numCPUs: []int{2}, expandGroups: 4, maxGroups: 4, maxDepth: 3, seqLen: 6},
			{name: "cpu+cpuset", mem: []int{0}, thr: []int{0}, cpu: all(5), set: all(4), numCPUs: []int{2, 4}, expandGroups: 4, maxGroups: 4, maxDepth: 3, seqLen: 6},
			{name: "mixed", mem: []int{0, 1, 2}, thr: []int{0, 1, 2}, cpu: []int{0, 1, 3}, set: []int{0, 1, 2}, numCPUs: []int{2, 4}, expandGroups: 3, maxGroups: 3, maxDepth: 3, seqLen: 5},
		}
	}
	bounds := map[string]interface{}{}
	for _, p := range projs {
		bounds[p.name] = map[string]interface{}{"requests_per_target": len(p.reqs()), "num_cpus": p.numCPUs, "expand_states_with_groups_up_to": p.expandGroups,
			"max_groups": p.maxGroups, "max_tree_depth": p.maxDepth, "max_sequence_length": p.seqLen}
		for _, n := range p.numCPUs {
			if r.TimeUp() {
				r.Cap("time_skipped", fmt.Sprintf("projection %s num_cpu %d not started", p.name, n))
				continue
			}
			c36Explore(r, p, n)
		}
	}
	r.Info("bounds", bounds)
	r.Info("alphabet", map[string]interface{}{"memory_MiB": []int{1, 2, 4}, "threads": c36Thr[1:], "cpu_count_x_percent": c36CPU[1:], "cpu_set": c36Set[1:]})
	r.Finish("breadth-first over all sequences of NewGroup/NewSubGroup(parent)/UpdateQuotaLimits(group) requests per projection alphabet, deduplicated on the serialized forest; every request executed on a state is one transition (= one evaluation, judged by the reference); distinct_nontrivial = (state, request) pairs in which an ancestor or a descendant of the target carries a limit or cpu-set of a kind the request names, so the fit validation had something to compare with")
}
