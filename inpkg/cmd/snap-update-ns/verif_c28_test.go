// C28 — mount namespace updates transform the current mounts into the desired ones.
//
// Part 1 (histories): breadth-first exploration, deduplicated on the exact state (recorded current
// profile text + complete simulated kernel state), of histories of desired mount profiles applied
// with the real executeMountProfileUpdate: real neededChanges, real Change.Perform (running on the
// simulated kernel of verif_c28_kern_test.go), real profile codec between updates. After every
// update the planned change list and the recorded profile are checked against the statement.
// Part 2 (codec): every mount entry whose fields are drawn from a covering alphabet of
// "difficult" strings is written and read back, alone and inside a profile.
package main

import (
	"encoding/json"
	"fmt"
	"hash/fnv"
	"os"
	"path/filepath"
	"runtime/debug"
	"runtime/pprof"
	"sort"
	"strings"
	"syscall"
	"testing"
	"time"
	"unicode"

	"github.com/snapcore/snapd/osutil"
	"github.com/snapcore/snapd/osutil/sys"
	eng "github.com/snapcore/snapd/verifengine"
)

// ---------------------------------------------------------------------------------------------
// global plumbing: the package's seams point at the current simulated kernel

var (
	c28K       *kern
	c28Root    string // scratch root of this process; all explored paths live below it
	c28Planned []Change
	c28Perf    []c28Rec
	c28Depth   int
	c28Mirror  map[string]string
)

type c28Rec struct {
	Depth  int
	Change Change
	Synth  []Change
	Err    string
}

func copyEntry(e osutil.MountEntry) osutil.MountEntry {
	e.Options = append([]string(nil), e.Options...)
	return e
}

func copyChanges(l []*Change) []Change {
	var res []Change
	for _, c := range l {
		res = append(res, Change{Action: c.Action, Entry: copyEntry(c.Entry)})
	}
	return res
}

func c28Install(root string) {
	c28Root = root
	osLstat = func(n string) (os.FileInfo, error) { return c28K.OsLstat(n) }
	osReadlink = func(n string) (string, error) { return c28K.Readlink(n) }
	osRemove = func(n string) error { return c28K.Remove(n) }
	osReadDir = c28ReadDir
	sysClose = func(fd int) error { return c28K.Close(fd) }
	sysFchown = func(fd int, u sys.UserID, g sys.GroupID) error { return c28K.Fchown(fd, u, g) }
	sysMkdirat = func(fd int, p string, m uint32) error { return c28K.Mkdirat(fd, p, m) }
	sysMount = func(s, t, f string, fl uintptr, d string) error { return c28K.Mount(s, t, f, fl, d) }
	sysOpen = func(p string, fl int, m uint32) (int, error) { return c28K.Open(p, fl, m) }
	sysOpenat = func(fd int, p string, fl int, m uint32) (int, error) { return c28K.Openat(fd, p, fl, m) }
	sysUnmount = func(t string, fl int) error { return c28K.Unmount(t, fl) }
	sysSymlinkat = func(o string, fd int, n string) error { return c28K.Symlinkat(o, fd, n) }
	sysReadlinkat = func(fd int, p string, b []byte) (int, error) { return c28K.Readlinkat(fd, p, b) }
	sysFstat = func(fd int, b *syscall.Stat_t) error { return c28K.Fstat(fd, b) }
	sysFstatfs = func(fd int, b *syscall.Statfs_t) error { return c28K.Fstatfs(fd, b) }
	sysFchdir = func(fd int) error { return c28K.Fchdir(fd) }
	sysLstat = func(n string, b *syscall.Stat_t) error { return c28K.SysLstat(n, b) }
	sysGetuid = func() sys.UserID { return 0 }
	sysGetgid = func() sys.GroupID { return 0 }
	osutil.MockMountInfo("")

	changePerform = func(c *Change, as *Assumptions) ([]*Change, error) {
		prev := c28K.cur
		c28K.cur = c
		idx := len(c28Perf)
		c28Perf = append(c28Perf, c28Rec{Depth: c28Depth, Change: Change{Action: c.Action, Entry: copyEntry(c.Entry)}})
		c28Depth++
		synth, err := changePerformImpl(c, as)
		c28Depth--
		c28K.cur = prev
		c28Perf[idx].Synth = copyChanges(synth)
		if err != nil {
			c28Perf[idx].Err = err.Error()
		}
		return synth, err
	}
	NeededChanges = func(cur, des *osutil.MountProfile) []*Change {
		res := neededChanges(cur, des)
		c28Planned = copyChanges(res)
		return res
	}
}

// ---------------------------------------------------------------------------------------------
// on-disk projection of the visible tree: neededChanges asks the real file system
// (osutil.IsDirectory / FileExists / IsSymlink) whether mount targets exist.

func c28SyncMirror(k *kern) {
	want := k.visible(c28Root)
	if c28Mirror == nil {
		os.RemoveAll(c28Root)
		if err := os.MkdirAll(c28Root, 0755); err != nil {
			c28Fatal("cannot create scratch root: %v", err)
		}
		c28Mirror = map[string]string{}
	}
	var del, add []string
	for p, v := range c28Mirror {
		if want[p] != v {
			del = append(del, p)
		}
	}
	for p, v := range want {
		if c28Mirror[p] != v {
			add = append(add, p)
		}
	}
	sort.Slice(del, func(i, j int) bool { return len(del[i]) > len(del[j]) })
	sort.Slice(add, func(i, j int) bool { return len(add[i]) < len(add[j]) })
	for _, p := range del {
		if err := os.Remove(filepath.Join(c28Root, p)); err != nil {
			c28Fatal("mirror: %v", err)
		}
		delete(c28Mirror, p)
	}
	for _, p := range add {
		full := filepath.Join(c28Root, p)
		var err error
		switch v := want[p]; {
		case v == "d":
			err = os.Mkdir(full, 0755)
		case v == "f":
			err = os.WriteFile(full, nil, 0644)
		default:
			err = os.Symlink(strings.TrimPrefix(v, "l:"), full)
		}
		if err != nil {
			c28Fatal("mirror: %v", err)
		}
		c28Mirror[p] = want[p]
	}
}

// ---------------------------------------------------------------------------------------------
// pre-existing trees

type treeSpec struct {
	Name         string
	Unrestricted bool // $R/r is a place snap-update-ns may write to directly (like /var/snap)
	build        func(k *kern, rdir *knode)
	rMagic       int64
	rRO          bool
}

func c28Trees() []treeSpec {
	return []treeSpec{
		{Name: "ro", rMagic: SquashfsMagic, rRO: true, build: func(k *kern, r *knode) {
			// a read-only base: $R/r/a/{b/{x},f,l->b}; everything else needs a writable mimic
			a := r.add("a", newDir(r.fs))
			b := a.add("b", newDir(r.fs))
			b.add("x", &knode{kind: 'f', fs: r.fs, size: 1})
			a.add("f", &knode{kind: 'f', fs: r.fs, size: 1})
			a.add("l", &knode{kind: 'l', fs: r.fs, link: "b"})
		}},
		{Name: "all", rMagic: Ext4Magic, Unrestricted: true, build: func(k *kern, r *knode) {
			a := r.add("a", newDir(r.fs))
			a.add("b", newDir(r.fs)).add("c", newDir(r.fs))
			a.add("e", newDir(r.fs))
			r.add("d", newDir(r.fs))
			r.add("a2", newDir(r.fs))
			r.add("a-1", newDir(r.fs))
		}},
		{Name: "missing", rMagic: Ext4Magic, Unrestricted: true, build: func(k *kern, r *knode) {}},
		{Name: "host", rMagic: Ext4Magic, build: func(k *kern, r *knode) {
			// writable but off limits (writes would show on the host): trespassing detection must
			// force a mimic although nothing is read-only
			a := r.add("a", newDir(r.fs))
			a.add("b", newDir(r.fs))
			a.add("f", &knode{kind: 'f', fs: r.fs})
		}},
	}
}

func c28Tree(name string) *treeSpec {
	for _, t := range c28Trees() {
		if t.Name == name {
			t := t
			return &t
		}
	}
	return nil
}

func (t *treeSpec) newKern() *kern {
	k := newKern()
	base := k.newFS(SquashfsMagic, true)
	k.rootMnt = &kmount{root: newDir(base), tag: ktag{dir: "/"}}
	k.rootMnt.root.add("tmp", newDir(k.newFS(Ext4Magic, false)))
	rootDir := k.mkdirP(c28Root, base)
	// sources: a read-only snap: $R/s/{1/,2/,f}
	sfs := k.newFS(SquashfsMagic, true)
	s := rootDir.add("s", newDir(sfs))
	s.add("1", newDir(sfs)).add("in1", newDir(sfs))
	s.add("2", newDir(sfs)).add("in2", newDir(sfs))
	s.add("f", &knode{kind: 'f', fs: sfs, size: 1})
	r := rootDir.add("r", newDir(k.newFS(t.rMagic, t.rRO)))
	t.build(k, r)
	return k
}

// ---------------------------------------------------------------------------------------------
// entry shapes and profiles

type espec struct {
	O   string `json:"o"` // layout | overname | content
	K   string `json:"k"` // rbind | bind | tmpfs | symlink | file | ensure-dir
	Alt bool   `json:"alt,omitempty"`
	D   string `json:"d"` // directory below $R, e.g. /r/a/b
}

type pspec []espec

var c28Dirs = []string{"/r/a", "/r/a/b", "/r/a/b/c", "/r/a/e", "/r/d"}

func (e espec) entry() osutil.MountEntry {
	R := c28Root
	var me osutil.MountEntry
	me.Dir = R + e.D
	src := R + "/s/1"
	if e.Alt {
		src = R + "/s/2"
	}
	switch e.K {
	case "rbind":
		me.Name, me.Options = src, []string{"rbind", "rw"}
	case "bind":
		me.Name, me.Options = src, []string{"bind", "ro"}
	case "tmpfs":
		me.Name, me.Type, me.Options = "tmpfs", "tmpfs", []string{"rw"}
	case "symlink":
		me.Options = []string{osutil.XSnapdKindSymlink(), osutil.XSnapdSymlink(src)}
	case "file":
		me.Name, me.Options = R+"/s/f", []string{"bind", "rw", osutil.XSnapdKindFile()}
	case "ensure-dir":
		me.Options = []string{osutil.XSnapdKindEnsureDir(), osutil.XSnapdMustExistDir(R + "/r")}
	default:
		panic("bad kind " + e.K)
	}
	switch e.O {
	case "layout":
		me.Options = append(me.Options, osutil.XSnapdOriginLayout())
	case "overname":
		me.Options = append(me.Options, osutil.XSnapdOriginOvername())
	}
	return me
}

func (e espec) short() string {
	s := strings.ToUpper(e.O[:1]) + "-" + e.K + "@" + e.D
	if e.Alt {
		s += "~2"
	}
	return s
}

func (p pspec) short() string {
	var l []string
	for _, e := range p {
		l = append(l, e.short())
	}
	return "{" + strings.Join(l, ",") + "}"
}

func (p pspec) text() string {
	var mp osutil.MountProfile
	for _, e := range p {
		mp.Entries = append(mp.Entries, e.entry())
	}
	s, err := osutil.SaveMountProfileText(&mp)
	if err != nil {
		c28Fatal("cannot render profile: %v", err)
	}
	return s
}

func beneath(p, anc string) bool { return strings.HasPrefix(p, strings.TrimSuffix(anc, "/")+"/") }

// c28Shapes: the per-directory menu. full = kinds x origins (+ an alternative source for the layout rbind);
// the reduced menu keeps the combinations snapd itself generates.
func c28Shapes(full bool) []espec {
	var res []espec
	if full {
		for _, o := range []string{"layout", "overname", "content"} {
			for _, k := range []string{"rbind", "bind", "tmpfs", "symlink", "file", "ensure-dir"} {
				res = append(res, espec{O: o, K: k})
			}
		}
		res = append(res, espec{O: "layout", K: "rbind", Alt: true})
		return res
	}
	return []espec{
		{O: "layout", K: "rbind"}, {O: "layout", K: "rbind", Alt: true}, {O: "layout", K: "tmpfs"}, {O: "layout", K: "symlink"},
		{O: "layout", K: "file"}, {O: "overname", K: "rbind"}, {O: "content", K: "bind"}, {O: "content", K: "ensure-dir"},
	}
}

// c28Profiles enumerates every profile of at most maxEntries entries with pairwise different
// directories (directories in menu order: neededChanges sorts the desired profile itself).
// A profile with an entry beneath a file or symlink entry of the same profile is not a possible
// file system layout and is left out.
func c28Profiles(shapes []espec, maxEntries int) []pspec {
	res := []pspec{{}}
	var rec func(start int, cur pspec)
	rec = func(start int, cur pspec) {
		if len(cur) == maxEntries {
			return
		}
		for di := start; di < len(c28Dirs); di++ {
		shape:
			for _, sh := range shapes {
				e := sh
				e.D = c28Dirs[di]
				for _, o := range cur {
					if (o.K == "file" || o.K == "symlink") && beneath(e.D, o.D) {
						continue shape
					}
					if (e.K == "file" || e.K == "symlink") && beneath(o.D, e.D) {
						continue shape
					}
				}
				next := append(append(pspec(nil), cur...), e)
				res = append(res, next)
				rec(di+1, next)
			}
		}
	}
	rec(0, nil)
	return res
}

// Sibling sub-family: directories next to c28SibBase whose NAME extends the base's name, by a character
// sorting after '/' ("a2": /r/a/ < /r/a/b/ < /r/a2/) and by one sorting before it ("a-1": /r/a-1/ < /r/a/).
// They are not beneath the base, but a string-prefix test without the separating slash takes them for
// children. To keep the space near its size they do not join the full directory alphabet: a sibling
// entry (2 shapes) appears alone or together with one entry (every shape of the menu) at the base.
const c28SibBase = "/r/a"

var c28SibDirs = []string{"/r/a2", "/r/a-1"}

func c28SibShapes() []espec {
	return []espec{{O: "layout", K: "rbind"}, {O: "layout", K: "tmpfs"}}
}

// c28SiblingProfiles: {sibling} and, if maxEntries allows, {base entry, sibling} for every sibling
// directory, sibling shape and base shape of the menu.
func c28SiblingProfiles(shapes []espec, maxEntries int) []pspec {
	var res []pspec
	for _, d := range c28SibDirs {
		for _, ss := range c28SibShapes() {
			s := ss
			s.D = d
			if maxEntries >= 1 {
				res = append(res, pspec{s})
			}
			if maxEntries >= 2 {
				for _, bs := range shapes {
					b := bs
					b.D = c28SibBase
					res = append(res, pspec{b, s})
				}
			}
		}
	}
	return res
}

// c28Menu: the profiles of one level = all profiles over the directory alphabet + the sibling sub-family
func c28Menu(shapes []espec, maxEntries int) []pspec {
	return append(c28Profiles(shapes, maxEntries), c28SiblingProfiles(shapes, maxEntries)...)
}

// ---------------------------------------------------------------------------------------------
// one update

type c28Ctx struct {
	tree    *treeSpec
	cur     string
	desired string
	saved   bool
}

func (c *c28Ctx) Lock() (func(), error) { return func() {}, nil }
func (c *c28Ctx) Assumptions() *Assumptions {
	as := &Assumptions{}
	as.AddUnrestrictedPaths("/tmp")
	if c.tree.Unrestricted {
		as.AddUnrestrictedPaths(c28Root + "/r")
	}
	return as
}
func (c *c28Ctx) LoadDesiredProfile() (*osutil.MountProfile, error) {
	return osutil.LoadMountProfileText(c.desired)
}
func (c *c28Ctx) LoadCurrentProfile() (*osutil.MountProfile, error) {
	return osutil.LoadMountProfileText(c.cur)
}
func (c *c28Ctx) SaveCurrentProfile(p *osutil.MountProfile) error {
	s, err := osutil.SaveMountProfileText(p)
	if err != nil {
		return err
	}
	c.cur = s
	c.saved = true
	return nil
}

type updObs struct {
	Before, Desired, After *osutil.MountProfile
	BeforeText, AfterText  string
	Planned                []Change
	Perf                   []c28Rec
	Err                    string
	Panic                  string
	K                      *kern
}

// runUpdate applies one desired profile to (k, cur); k is modified in place.
func runUpdate(tree *treeSpec, k *kern, cur, desired string) *updObs {
	c28K = k
	c28Planned, c28Perf, c28Depth = nil, nil, 0
	c28SyncMirror(k)
	o := &updObs{BeforeText: cur, K: k}
	var err error
	if o.Before, err = osutil.LoadMountProfileText(cur); err != nil {
		c28Fatal("recorded profile does not load: %v\n%s", err, cur)
	}
	if o.Desired, err = osutil.LoadMountProfileText(desired); err != nil {
		c28Fatal("desired profile does not load: %v\n%s", err, desired)
	}
	ctx := &c28Ctx{tree: tree, cur: cur, desired: desired}
	func() {
		defer func() {
			if p := recover(); p != nil {
				o.Panic = fmt.Sprint(p)
			}
		}()
		if err := executeMountProfileUpdate(ctx); err != nil {
			o.Err = err.Error()
		}
	}()
	o.Planned, o.Perf = c28Planned, c28Perf
	o.AfterText = ctx.cur
	if o.Err == "" && o.Panic == "" {
		if !ctx.saved {
			c28Fatal("update succeeded without saving the profile")
		}
		if o.After, err = osutil.LoadMountProfileText(ctx.cur); err != nil {
			o.Panic = "recorded profile does not load back: " + err.Error()
		}
	}
	k.cur = nil
	return o
}

// ---------------------------------------------------------------------------------------------
// oracle

type viol struct{ Class, Key, Msg string }

func rel(s string) string { return strings.ReplaceAll(s, c28Root, "$R") }

func eShort(e *osutil.MountEntry) string {
	o := "C"
	switch e.XSnapdOrigin() {
	case "layout":
		o = "L"
	case "overname":
		o = "O"
	case "rootfs":
		o = "R"
	}
	k := e.XSnapdKind()
	switch {
	case e.Type == "tmpfs":
		k = "tmpfs"
	case k != "":
	case e.OptBool("rbind"):
		k = "rbind"
	case e.OptBool("bind"):
		k = "bind"
	default:
		k = "plain"
	}
	s := o + "-" + k + "@" + rel(e.Dir)
	if (k == "rbind" || k == "bind") && e.Name != e.Dir {
		s += "<" + rel(e.Name)
	}
	if e.XSnapdSynthetic() {
		s += "!syn(" + rel(e.XSnapdNeededBy()) + ")"
	}
	return strings.ReplaceAll(s, " ", "_")
}

func findEqual(l []osutil.MountEntry, used []bool, e *osutil.MountEntry) int {
	for i := range l {
		if (used == nil || !used[i]) && l[i].Equal(e) {
			return i
		}
	}
	return -1
}

// sameModuloDetach: planned unmounts carry a copy of the current entry with x-snapd.detach possibly appended
func sameModuloDetach(planned, cur *osutil.MountEntry) bool {
	if planned.Equal(cur) {
		return true
	}
	n := len(planned.Options)
	if n == len(cur.Options)+1 && planned.Options[n-1] == osutil.XSnapdDetach() {
		c := *planned
		c.Options = planned.Options[:n-1]
		return c.Equal(cur)
	}
	return false
}

func checkUpdate(o *updObs) []viol {
	var vs []viol
	add := func(class, key, msg string) { vs = append(vs, viol{class, class + ":" + key, msg}) }
	if o.Panic != "" {
		add("panic", strings.ReplaceAll(rel(o.Panic), " ", "_"), "update panicked: "+rel(o.Panic))
		return vs
	}
	before := make([]osutil.MountEntry, len(o.Before.Entries))
	for i, e := range o.Before.Entries {
		before[i] = copyEntry(e)
		before[i].Dir = filepath.Clean(e.Dir)
	}
	desired := make([]osutil.MountEntry, len(o.Desired.Entries))
	desiredIDs := map[string]bool{}
	for i, e := range o.Desired.Entries {
		desired[i] = copyEntry(e)
		desired[i].Dir = filepath.Clean(e.Dir)
		desiredIDs[desired[i].XSnapdEntryID()] = true
	}
	planned := o.Planned

	// --- the planned change list ---------------------------------------------------------------
	// every current entry is either kept or unmounted, exactly once (match greedily)
	planOf := make([]int, len(before))
	usedPlan := make([]bool, len(planned))
	for i := range before {
		planOf[i] = -1
		// identical entries (a profile can hold the same helper entry twice) are paired the way a
		// correct plan orders them: the first one of the profile with the last matching change
		for p := len(planned) - 1; p >= 0; p-- {
			if usedPlan[p] || planned[p].Action == Mount {
				continue
			}
			if sameModuloDetach(&planned[p].Entry, &before[i]) {
				planOf[i], usedPlan[p] = p, true
				break
			}
		}
		if planOf[i] < 0 {
			add("current-entry-neither-kept-nor-unmounted", eShort(&before[i]), fmt.Sprintf("current entry %q has neither a keep nor an unmount change", rel(before[i].String())))
		}
	}
	for p := range planned {
		if planned[p].Action != Mount && !usedPlan[p] {
			add("change-for-unknown-entry", string(planned[p].Action)+":"+eShort(&planned[p].Entry), fmt.Sprintf("change %s refers to nothing in the current profile", rel(planned[p].String())))
		}
	}
	changed := func(c *osutil.MountEntry) bool {
		if c.XSnapdOrigin() == "rootfs" {
			return false
		}
		if c.XSnapdSynthetic() && desiredIDs[c.XSnapdNeededBy()] {
			return false
		}
		return findEqual(desired, nil, c) < 0
	}
	// Root-cause signatures of defects found on the unchanged tree (notes/C28-finding.md). A violation
	// that carries such a signature gets the canonical key of the defect instead of a per-input key.
	keptHelper := func(b *osutil.MountEntry) bool {
		return b.XSnapdSynthetic() && desiredIDs[b.XSnapdNeededBy()]
	}
	// sharesDirAndType: the current profile holds a reusable helper entry with the directory and file
	// system type of e (neededChanges' reuse map is keyed by exactly that pair)
	sharesDirAndType := func(e *osutil.MountEntry) bool {
		for i := range before {
			b := &before[i]
			if (b.XSnapdSynthetic() || e.XSnapdSynthetic()) && b.Dir == filepath.Clean(e.Dir) && b.Type == e.Type && !b.Equal(e) {
				return true
			}
		}
		return false
	}
	_ = keptHelper
	conflated := func(class string, e *osutil.MountEntry, msg string) {
		if sharesDirAndType(e) {
			vs = append(vs, viol{class, "entries-sharing-dir-and-fstype-conflated:fstype=" + e.Type, class + ": " + msg})
			return
		}
		add(class, eShort(e), msg)
	}
	// clause: every unchanged entry that is not beneath a changed one is kept
	for i := range before {
		e := &before[i]
		if e.XSnapdSynthetic() || e.XSnapdOrigin() == "rootfs" || findEqual(desired, nil, e) < 0 {
			continue
		}
		exempt := ""
		for j := range before {
			// "beneath" in the mount tree: in a directory below, or stacked on the same mount point later
			if j != i && changed(&before[j]) && (beneath(e.Dir, before[j].Dir) || (e.Dir == before[j].Dir && j < i)) {
				exempt = "beneath changed " + eShort(&before[j])
			}
		}
		for j := range desired {
			// an entry that is added (or replaces another one) above e also counts as a changed one
			if findEqual(before, nil, &desired[j]) < 0 && beneath(e.Dir, desired[j].Dir) {
				exempt = "beneath new " + eShort(&desired[j])
			}
		}
		if exempt != "" {
			continue
		}
		if planOf[i] < 0 || planned[planOf[i]].Action != Keep {
			add("unchanged-entry-not-kept", eShort(e), fmt.Sprintf("entry %q is unchanged and not beneath a changed entry but is not kept (plan: %s)", rel(e.String()), planStr(planned)))
		}
	}
	// clause: never unmount an entry before the entries mounted beneath it after it
	for i := range before {
		p := planOf[i]
		if p < 0 || planned[p].Action != Unmount {
			continue
		}
		for j := i + 1; j < len(before); j++ {
			if !beneath(before[j].Dir, before[i].Dir) && before[j].Dir != before[i].Dir {
				continue
			}
			q := planOf[j]
			if q >= 0 && planned[q].Action == Unmount && q < p {
				continue
			}
			what := "is unmounted only afterwards"
			if q >= 0 && planned[q].Action == Keep {
				what = "is kept"
			}
			msg := fmt.Sprintf("%q is unmounted but %q, mounted beneath it later, %s (plan: %s)", rel(before[i].String()), rel(before[j].String()), what, planStr(planned))
			sameDirKept := false
			for z := range before {
				if z != i && before[z].Dir == before[i].Dir && planOf[z] >= 0 && planned[planOf[z]].Action == Keep {
					sameDirKept = true
				}
			}
			switch {
			case what == "is kept" && changed(&before[j]) && sharesDirAndType(&before[j]):
				// the entry beneath is itself kept only because another entry with its directory and type is reusable
				vs = append(vs, viol{"unmount-before-entry-beneath", "entries-sharing-dir-and-fstype-conflated:fstype=" + before[j].Type, "unmount-before-entry-beneath: " + msg})
			case what == "is kept" && sameDirKept:
				vs = append(vs, viol{"unmount-before-entry-beneath", "entries-beneath-unmounted-entry-kept:another-entry-at-its-directory-is-kept", msg})
			case what == "is kept" && before[j].XSnapdOrigin() == "overname" && before[i].XSnapdOrigin() != "overname":
				vs = append(vs, viol{"unmount-before-entry-beneath", "overname-entry-kept-beneath-unmounted-entry", msg})
			default:
				add("unmount-before-entry-beneath", eShort(&before[i])+"/"+eShort(&before[j]), msg)
			}
		}
	}
	// clause: among entries of one origin never mount an entry before the entries whose directories contain it
	for p := range planned {
		if planned[p].Action != Mount {
			continue
		}
		for q := p + 1; q < len(planned); q++ {
			if planned[q].Action != Mount {
				continue
			}
			x, y := &planned[p].Entry, &planned[q].Entry
			if x.XSnapdOrigin() == y.XSnapdOrigin() && beneath(filepath.Clean(x.Dir), filepath.Clean(y.Dir)) {
				msg := fmt.Sprintf("%q is mounted before %q of the same origin whose directory contains it (plan: %s)", rel(x.String()), rel(y.String()), planStr(planned))
				if x.XSnapdKind() == "ensure-dir" {
					vs = append(vs, viol{"mount-before-containing-entry", "ensure-dir-mounted-before-containing-entry-of-same-origin", msg})
				} else {
					add("mount-before-containing-entry", eShort(x)+"/"+eShort(y), msg)
				}
			}
		}
	}
	// every desired entry that is not kept gets mounted, nothing else is
	for j := range desired {
		n := 0
		for p := range planned {
			if (planned[p].Action == Mount || planned[p].Action == Keep) && planned[p].Entry.Equal(&desired[j]) {
				n++
			}
		}
		if n != 1 {
			conflated("desired-entry-planned-"+fmt.Sprint(n)+"-times", &desired[j], fmt.Sprintf("desired entry %q has %d keep/mount changes (plan: %s)", rel(desired[j].String()), n, planStr(planned)))
		}
	}

	if o.Err != "" {
		// a layout/overname change failed: the update is abandoned, nothing is recorded
		if o.AfterText != o.BeforeText {
			add("failed-update-recorded", "x", "a failed update changed the recorded profile")
		}
		return vs
	}

	// --- the recorded profile --------------------------------------------------------------------
	after := o.After.Entries
	failed := map[string]bool{}
	var synthNow []osutil.MountEntry
	for _, r := range o.Perf {
		if r.Depth != 0 {
			continue
		}
		if r.Err != "" {
			failed[r.Change.Entry.String()] = true
		}
		for _, s := range r.Synth {
			if s.Action == Mount || s.Action == Keep {
				// as it will read back from the profile (empty type and name become "none")
				n, err := osutil.ParseMountEntry(s.Entry.String())
				if err != nil {
					add("helper-entry-unparsable", eShort(&s.Entry), err.Error())
					continue
				}
				synthNow = append(synthNow, n)
			}
		}
	}
	used := make([]bool, len(after))
	for j := range desired {
		i := findEqual(after, used, &desired[j])
		if i >= 0 {
			used[i] = true
			continue
		}
		if !failed[desired[j].String()] {
			conflated("desired-entry-not-recorded", &desired[j], fmt.Sprintf("desired entry %q is missing from the recorded profile although no change for it failed\nrecorded:\n%s", rel(desired[j].String()), rel(o.AfterText)))
		}
	}
	usedBefore := make([]bool, len(before))
	findKept := func(a *osutil.MountEntry) int {
		for j := range before {
			if !usedBefore[j] && planOf[j] >= 0 && planned[planOf[j]].Action == Keep && before[j].Equal(a) {
				return j
			}
		}
		return -1
	}
	usedNow := make([]bool, len(synthNow))
	for i := range after {
		if used[i] {
			continue
		}
		a := &after[i]
		switch {
		case !a.XSnapdSynthetic():
			conflated("recorded-entry-not-desired", a, fmt.Sprintf("recorded entry %q is neither desired nor a helper entry\ndesired:\n%s", rel(a.String()), rel(o.Desired2Text())))
		case !desiredIDs[a.XSnapdNeededBy()]:
			conflated("helper-entry-without-desired-owner", a, fmt.Sprintf("recorded helper entry %q supports %q which is not desired", rel(a.String()), rel(a.XSnapdNeededBy())))
		default:
			if j := findKept(a); j >= 0 {
				usedBefore[j] = true
			} else if j := findEqual(synthNow, usedNow, a); j >= 0 {
				usedNow[j] = true
			} else {
				add("helper-entry-of-unknown-provenance", eShort(a), fmt.Sprintf("recorded helper entry %q was neither kept from the current profile nor reported by a change of this update", rel(a.String())))
			}
		}
	}
	for j := range synthNow {
		if !usedNow[j] {
			add("helper-entry-not-recorded", eShort(&synthNow[j]), fmt.Sprintf("helper entry %q was created by this update but is not in the recorded profile", rel(synthNow[j].String())))
		}
	}
	return vs
}

func (o *updObs) Desired2Text() string {
	s, _ := osutil.SaveMountProfileText(o.Desired)
	return s
}

func planStr(l []Change) string {
	var s []string
	for _, c := range l {
		s = append(s, string(c.Action)+" "+eShort(&c.Entry))
	}
	return rel("[" + strings.Join(s, "; ") + "]")
}

// nsDivergence compares the recorded profile with the simulated namespace (informational: the
// statement speaks about the change list and the recorded profile, not about the kernel).
func nsDivergence(o *updObs) []string {
	if o.After == nil {
		return nil
	}
	var res []string
	k := o.K
	type key struct {
		dir   string
		tmpfs bool
	}
	want := map[key]int{}
	for i := range o.After.Entries {
		e := &o.After.Entries[i]
		dir := filepath.Clean(e.Dir)
		switch e.XSnapdKind() {
		case "symlink":
			_, n, err := k.walk(dir)
			if err != nil || n.kind != 'l' || n.link != e.XSnapdSymlink() {
				res = append(res, "symlink-not-visible:"+eShort(e))
			}
		case "ensure-dir":
			_, n, err := k.walk(dir)
			if err != nil || n.kind != 'd' {
				res = append(res, "ensured-dir-not-visible:"+eShort(e))
			}
		default:
			kk := key{dir, e.Type == "tmpfs"}
			want[kk]++
			found := false
			for _, m := range k.mountStackAt(dir) {
				if m.tag.dir == dir && m.tag.tmpfs == kk.tmpfs {
					found = true
				}
			}
			if !found {
				live := false
				for _, m := range k.mounts {
					if !m.clone && m.tag.dir == dir && m.tag.tmpfs == kk.tmpfs {
						live = true
					}
				}
				if live {
					res = append(res, "recorded-mount-hidden:"+eShort(e))
				} else {
					res = append(res, "recorded-mount-absent:"+eShort(e))
				}
			}
		}
	}
	have := map[key]int{}
	for _, m := range k.mounts {
		if !m.clone {
			have[key{m.tag.dir, m.tag.tmpfs}]++
		}
	}
	for kk, n := range have {
		if n > want[kk] {
			res = append(res, fmt.Sprintf("mount-not-recorded:%s,tmpfs=%v", rel(kk.dir), kk.tmpfs))
		}
	}
	if len(k.fds) != 0 {
		res = append(res, "fd-leak")
	}
	sort.Strings(res)
	return res
}

// ---------------------------------------------------------------------------------------------
// exploration

type c28Case struct {
	Part  string     `json:"part"` // "history" | "codec"
	Tree  string     `json:"tree,omitempty"`
	Hist  []pspec    `json:"hist,omitempty"`
	Entry *codecCase `json:"entry,omitempty"`
}

type c28State struct {
	k    *kern
	cur  string
	hist []int // indices into the profile list of each level
	key  string
}

func stateKey(k *kern, cur string) string { return rel(cur) + "\x00" + k.canon(c28Root) }

func h64(s string) uint64 {
	h := fnv.New64a()
	h.Write([]byte(s))
	return h.Sum64()
}

type c28Explorer struct {
	r                  *eng.Run
	tree               *treeSpec
	evals, nontriv     int64
	transitions        int64
	fatal, partial     int64
	withMimic          int64
	nsDiv              int64
	sysCalls           int64
	maxPlan            int64
	reported           map[string]bool
}

// expand runs one update from st with profile p; returns the successor (nil if the update was abandoned).
func (x *c28Explorer) expand(st *c28State, p pspec, histSpecs []pspec) *c28State {
	k := st.k.clone()
	o := runUpdate(x.tree, k, st.cur, p.text())
	x.evals++
	x.transitions++
	x.sysCalls += k.nsys
	vs := checkUpdate(o)
	if len(vs) > 0 {
		cas := c28Case{Part: "history", Tree: x.tree.Name, Hist: append(append([]pspec(nil), histSpecs...), p)}
		for _, v := range vs {
			x.report(v, cas)
		}
	}
	var nUn, nKeep, nMount int
	for _, c := range o.Planned {
		switch c.Action {
		case Unmount:
			nUn++
		case Keep:
			nKeep++
		case Mount:
			nMount++
		}
	}
	if int64(len(o.Planned)) > x.maxPlan {
		x.maxPlan = int64(len(o.Planned))
	}
	if nUn+nKeep > 0 && nMount > 0 {
		x.nontriv++
	}
	outcome := "ok"
	switch {
	case o.Panic != "":
		outcome = "panic"
	case o.Err != "":
		outcome = "abandoned"
		x.fatal++
	default:
		for _, r := range o.Perf {
			if r.Depth == 0 && r.Err != "" {
				outcome = "partial"
			}
			if r.Depth == 0 && len(r.Synth) > 0 {
				outcome += "+mimic"
				x.withMimic++
				break
			}
		}
		if strings.HasPrefix(outcome, "partial") {
			x.partial++
		}
	}
	x.r.Distinct("outcome", fmt.Sprintf("%s/u%d/k%d/m%d", outcome, min(nUn, 3), min(nKeep, 3), min(nMount, 3)))
	if div := nsDivergence(o); len(div) > 0 {
		x.nsDiv++
		for _, d := range div {
			cls := d
			if i := strings.IndexByte(d, ':'); i > 0 {
				cls = d[:i]
			}
			if x.r.Distinct("ns_divergence_class", cls) {
				x.r.Info("ns_divergence_example_"+cls, map[string]interface{}{"tree": x.tree.Name, "history": histShort(append(append([]pspec(nil), histSpecs...), p)), "what": d, "recorded": rel(o.AfterText)})
			}
		}
	}
	if x.r.WantSample() && nUn > 0 && nKeep > 0 && nMount > 0 {
		x.r.Sample(map[string]interface{}{"tree": x.tree.Name, "history": histShort(append(append([]pspec(nil), histSpecs...), p)), "plan": planStr(o.Planned), "recorded": rel(o.AfterText)})
	}
	if o.Err != "" || o.Panic != "" {
		return nil
	}
	return &c28State{k: k, cur: o.AfterText, key: stateKey(k, o.AfterText)}
}

func histShort(h []pspec) string {
	var l []string
	for _, p := range h {
		l = append(l, p.short())
	}
	return strings.Join(l, " -> ")
}

// report re-runs the whole history twice from scratch before a violation is believed.
func (x *c28Explorer) report(v viol, cas c28Case) {
	if x.reported == nil {
		x.reported = map[string]bool{}
	}
	if x.reported[v.Key] {
		x.r.Add("violations_duplicate_key", 1)
		return
	}
	x.reported[v.Key] = true
	for i := 0; i < 2; i++ {
		again := replayHistory(cas, false)
		found := false
		for _, w := range again {
			if w.Key == v.Key {
				found = true
			}
		}
		if !found {
			c28Fatal("violation %s did not reproduce when replaying %s on tree %s", v.Key, histShort(cas.Hist), cas.Tree)
		}
	}
	x.r.Violation(v.Key, v.Msg+"\nhistory: "+histShort(cas.Hist)+" on tree "+cas.Tree, cas)
}

// replayHistory runs a history from the initial tree and returns the violations of its last update.
func replayHistory(cas c28Case, verbose bool) []viol {
	tree := c28Tree(cas.Tree)
	if tree == nil {
		c28Fatal("unknown tree %q", cas.Tree)
	}
	k := tree.newKern()
	cur := ""
	var vs []viol
	for i, p := range cas.Hist {
		o := runUpdate(tree, k, cur, p.text())
		vs = checkUpdate(o)
		if verbose {
			fmt.Printf("--- update %d on tree %s: desired %s\n%s", i+1, tree.Name, p.short(), rel(p.text()))
			fmt.Printf("plan: %s\n", planStr(o.Planned))
			for _, r := range o.Perf {
				fmt.Printf("  %sperform %s %s -> %d helper entries, err=%q\n", strings.Repeat("  ", r.Depth), r.Change.Action, eShort(&r.Change.Entry), len(r.Synth), rel(r.Err))
			}
			fmt.Printf("error=%q panic=%q\nrecorded profile:\n%s", rel(o.Err), rel(o.Panic), rel(o.AfterText))
			fmt.Printf("namespace divergence (informational): %v\n", nsDivergence(o))
			for _, v := range vs {
				fmt.Printf("VIOLATED %s: %s\n", v.Key, v.Msg)
			}
		}
		if o.Err != "" || o.Panic != "" {
			break
		}
		cur = o.AfterText
	}
	return vs
}

type s2rec struct {
	Tree string `json:"t"`
	Hist []int  `json:"h"`
	Key  uint64 `json:"k"`
}

func workDir() string { return filepath.Join(eng.WorkDir(), "c28") }

// workerHarnessError: a worker process that dies is reported by the engine as a violation (crash of
// the code under test); a problem of the harness itself must not look like one. The worker leaves a
// marker, finishes normally, and the parent turns the marker into exit status 2.
func workerHarnessError(r *eng.Run, format string, a ...interface{}) {
	msg := fmt.Sprintf(format, a...)
	os.MkdirAll(workDir(), 0755)
	os.WriteFile(filepath.Join(workDir(), fmt.Sprintf("harness-error-%d", os.Getpid())), []byte(msg), 0644)
	r.Finish("")
}

var c28Run *eng.Run

func c28Fatal(format string, a ...interface{}) {
	if os.Getenv("VERIF_SHARD") != "" && c28Run != nil {
		workerHarnessError(c28Run, format, a...)
	}
	eng.HarnessError(format, a...)
}

func parentCheckHarnessErrors() {
	l, _ := filepath.Glob(filepath.Join(workDir(), "harness-error-*"))
	if len(l) > 0 {
		b, _ := os.ReadFile(l[0])
		os.RemoveAll(workDir())
		eng.HarnessError("%d worker(s) reported a harness problem, e.g.: %s", len(l), b)
	}
}

func TestVerifC28(t *testing.T) {
	r := eng.Start("C28", "model_checking", 150*time.Second, 15*time.Minute)
	c28Run = r
	debug.SetGCPercent(400) // many short-lived kernels and profiles; the heap stays small
	r.Assume("the kernel is simulated (verif_c28_kern_test.go): VFS + mount tree with bind/rbind/tmpfs/remount-ro/umount(detach), kernel error precedence, no mount propagation; real Change.Perform runs on it",
		"neededChanges looks at the real file system for target existence: the visible simulated tree is projected to a scratch directory before every update",
		"alphabets: 5 nested directories + 2 siblings of /r/a whose names extend its name (a2, a-1; sub-family: alone or with one entry at /r/a), kinds x origins menu, 4 pre-existing trees; codec atoms cover space, tab, newline, CR, backslash, literal octal escapes, '#', non-ASCII and NBSP")
	shard, nshards := 0, 1
	if s := os.Getenv("VERIF_SHARD"); s != "" {
		fmt.Sscanf(s, "%d/%d", &shard, &nshards)
	}
	c28Install(filepath.Join(workDir(), fmt.Sprintf("p%d", shard), "R"))
	defer os.RemoveAll(filepath.Join(workDir(), fmt.Sprintf("p%d", shard)))

	if rc := r.ReplayCase(); rc != nil {
		var c c28Case
		if err := json.Unmarshal(rc, &c); err != nil {
			c28Fatal("bad replay case: %v", err)
		}
		if c.Part == "codec" {
			for _, v := range checkCodec(c.Entry) {
				fmt.Printf("VIOLATED %s: %s\n", v.Key, v.Msg)
				r.Violation(v.Key, v.Msg, c)
			}
		} else {
			for _, v := range replayHistory(c, true) {
				r.Violation(v.Key, v.Msg, c)
			}
		}
		os.RemoveAll(filepath.Join(workDir(), fmt.Sprintf("p%d", shard)))
		r.Finish("replay")
	}

	// bounds per tier: the profile menu of each level; level 3 starts from the states reached by a
	// second profile of at most l3From entries
	var levels [][]pspec
	var trees []string
	var boundsText string
	const l3From = 1
	if r.Quick() {
		trees = []string{"ro", "all", "missing"}
		q := c28Shapes(false)
		levels = [][]pspec{c28Menu(q, 2), c28Menu(q, 2), c28Menu(q, 1)}
		boundsText = "reduced menu (8 shapes per directory); |P1|<=2, |P2|<=2, |P3|<=1 after |P2|<=1; + sibling sub-family at every level"
	} else {
		trees = []string{"ro", "all", "missing", "host"}
		q, f := c28Shapes(false), c28Shapes(true)
		levels = [][]pspec{c28Menu(f, 2), unionProfiles(c28Menu(q, 2), c28Menu(f, 1)), c28Menu(f, 1)}
		boundsText = "full menu (kinds x origins + alternative source = 19 shapes per directory); |P1|<=2 full menu, P2 in (reduced menu |P2|<=2) + (full menu |P2|<=1), |P3|<=1 full menu after |P2|<=1; + sibling sub-family at every level"
	}
	if os.Getenv("VERIF_C28_PROBE") != "" {
		c28Probe(levels)
	}
	phase := os.Getenv("VERIF_C28_PHASE")
	s2file := filepath.Join(workDir(), "s2-all.json")

	if os.Getenv("VERIF_SHARD") == "" {
		// parent: phase A (levels 1+2, codec), exchange of level-2 states, phase B (level 3)
		os.MkdirAll(workDir(), 0755)
		os.Setenv("VERIF_C28_PHASE", "A")
		r.Sharded(16)
		parentCheckHarnessErrors()
		var all []s2rec
		seen := map[uint64]bool{}
		for i := 0; i < 16; i++ {
			f := filepath.Join(workDir(), fmt.Sprintf("s2-%d.json", i))
			b, err := os.ReadFile(f)
			if err != nil {
				continue // the shard died; the engine has reported that
			}
			var l []s2rec
			if err := json.Unmarshal(b, &l); err != nil {
				c28Fatal("bad state file %s: %v", f, err)
			}
			for _, s := range l {
				if !seen[s.Key] {
					seen[s.Key] = true
					all = append(all, s)
				}
			}
			os.Remove(f)
		}
		sort.Slice(all, func(i, j int) bool { return all[i].Key < all[j].Key })
		b, _ := json.Marshal(all)
		if err := os.WriteFile(s2file, b, 0644); err != nil {
			c28Fatal("%v", err)
		}
		r.Info("level2_states_expanded_at_level3", len(all))
		os.Setenv("VERIF_C28_PHASE", "B")
		if earlyStop(r) {
			os.RemoveAll(workDir())
			r.Finish("stopped after phase A: violation found in a run that writes no evidence")
		}
		r.Sharded(16)
		parentCheckHarnessErrors()
		os.Remove(s2file)
		os.RemoveAll(workDir())
		r.Add("states", int64(r.DistinctCount("state_level2")+r.DistinctCount("state_level3")))
		r.Info("bounds", map[string]interface{}{"dirs": c28Dirs, "sibling_dirs": c28SibDirs, "sibling_base": c28SibBase, "menu": boundsText, "trees": trees,
			"profiles_level1": len(levels[0]), "profiles_level2": len(levels[1]), "profiles_level3": len(levels[2]), "history_length": 3})
		r.Finish("histories: breadth-first over (tree, desired profile 1, 2, 3) with successors deduplicated on the exact state (recorded profile text + canonical simulated kernel state); every profile of the level's menu is applied in every distinct state of the previous level. distinct_nontrivial = transitions from distinct states whose plan both removes/keeps something and mounts something. codec: every entry with two fields ranging over all atom strings up to the length bound (others plain) and all four fields over single atoms, alone and in two-entry profiles")
	}

	// ---- worker ----
	switch phase {
	case "A":
		if shard == 0 {
			runCodec(r)
		}
		var out []s2rec
		var nS2 int64
		for ti, tn := range trees {
			x := &c28Explorer{r: r, tree: c28Tree(tn)}
			k0 := x.tree.newKern()
			s0 := &c28State{k: k0, cur: "", key: stateKey(k0, "")}
			seen := map[uint64]bool{h64(s0.key): true}
			// level 1: every shard computes all of it (cheap), only shard 0 counts and reports it
			var s1 []*c28State
			quiet := *x
			for pi, p := range levels[0] {
				y := x
				if shard != 0 {
					y = &quiet
				}
				st := y.expandQuiet(s0, p, nil, shard != 0)
				if st == nil {
					continue
				}
				if h := h64(st.key); !seen[h] {
					seen[h] = true
					st.hist = []int{pi}
					s1 = append(s1, st)
				}
			}
			if shard == 0 {
				r.Add("states", int64(1+len(s1)))
			}
			// level 2: level-1 states are partitioned by their key
			for _, st := range s1 {
				if h64(st.key)%uint64(nshards) != uint64(shard) {
					continue
				}
				r.NoteCurrent(fmt.Sprintf("tree %s after %s", tn, levels[0][st.hist[0]].short()))
				for pi, p := range levels[1] {
					nst := x.expand(st, p, []pspec{levels[0][st.hist[0]]})
					if nst == nil {
						continue
					}
					if h := h64(nst.key); !seen[h] {
						seen[h] = true
						nS2++
						r.Distinct("state_level2", fmt.Sprintf("%x", h))
						if len(p) <= l3From {
							out = append(out, s2rec{Tree: tn, Hist: []int{st.hist[0], pi}, Key: h})
						}
					}
				}
				if earlyStop(r) {
					break
				}
				if phaseTimeUp(r, 0.6) {
					r.Cap("time", fmt.Sprintf("level 2 stopped in tree %d/%d (%s)", ti+1, len(trees), tn))
					break
				}
			}
			x.flush()
		}
		r.Add("level2_new_states_seen_per_shard_sum", nS2)
		b, _ := json.Marshal(out)
		if err := os.WriteFile(filepath.Join(workDir(), fmt.Sprintf("s2-%d.json", shard)), b, 0644); err != nil {
			c28Fatal("%v", err)
		}
		r.Finish("")
	case "B":
		b, err := os.ReadFile(s2file)
		if err != nil {
			c28Fatal("%v", err)
		}
		var all []s2rec
		if err := json.Unmarshal(b, &all); err != nil {
			c28Fatal("%v", err)
		}
		xs := map[string]*c28Explorer{}
		var validated int64
		for i, s := range all {
			if i%nshards != shard {
				continue
			}
			x := xs[s.Tree]
			if x == nil {
				x = &c28Explorer{r: r, tree: c28Tree(s.Tree)}
				xs[s.Tree] = x
			}
			// rebuild the state by replaying its history on a fresh kernel; it must be the recorded state
			k := x.tree.newKern()
			cur := ""
			hs := []pspec{levels[0][s.Hist[0]], levels[1][s.Hist[1]]}
			for _, p := range hs {
				o := runUpdate(x.tree, k, cur, p.text())
				if o.Err != "" || o.Panic != "" {
					c28Fatal("replay of %s diverged: %s %s", histShort(hs), o.Err, o.Panic)
				}
				cur = o.AfterText
			}
			st := &c28State{k: k, cur: cur, key: stateKey(k, cur)}
			if h64(st.key) != s.Key {
				c28Fatal("replay of %s on tree %s reached a different state", histShort(hs), s.Tree)
			}
			validated++
			r.NoteCurrent(fmt.Sprintf("tree %s after %s", s.Tree, histShort(hs)))
			for _, p := range levels[2] {
				nst := x.expand(st, p, hs)
				if nst != nil {
					r.Distinct("state_level3", fmt.Sprintf("%x", h64(nst.key)))
				}
			}
			if earlyStop(r) {
				break
			}
			if phaseTimeUp(r, 0.4) {
				r.Cap("time", fmt.Sprintf("level 3 stopped after %d of this shard's states", validated))
				break
			}
		}
		for _, x := range xs {
			x.flush()
		}
		r.Add("traces_validated_against_impl", validated)
		r.Finish("")
	default:
		c28Fatal("worker started without a phase")
	}
}

// expandQuiet is expand, optionally without counting/reporting (used where all shards repeat the same work).
func (x *c28Explorer) expandQuiet(st *c28State, p pspec, hist []pspec, quiet bool) *c28State {
	if !quiet {
		return x.expand(st, p, hist)
	}
	k := st.k.clone()
	o := runUpdate(x.tree, k, st.cur, p.text())
	if o.Err != "" || o.Panic != "" {
		return nil
	}
	return &c28State{k: k, cur: o.AfterText, key: stateKey(k, o.AfterText)}
}

// earlyStop: in --mutants / --patch runs (no evidence is written) one new violation is all that is asked for
func earlyStop(r *eng.Run) bool {
	return os.Getenv("VERIF_NO_EVIDENCE") != "" && r.NumViolations() > 0
}

// phaseTimeUp: the soft budget is split between the two phases (each worker process has its own clock)
func phaseTimeUp(r *eng.Run, frac float64) bool {
	budget := 150.0
	if r.Thorough() {
		budget = 900
	}
	if b := os.Getenv("VERIF_BUDGET_S"); b != "" {
		fmt.Sscanf(b, "%f", &budget)
	}
	return budget > 0 && r.Elapsed().Seconds() > frac*budget
}

func unionProfiles(a, b []pspec) []pspec {
	seen := map[string]bool{}
	var res []pspec
	for _, l := range [][]pspec{a, b} {
		for _, p := range l {
			if k := p.short(); !seen[k] {
				seen[k] = true
				res = append(res, p)
			}
		}
	}
	return res
}

func (x *c28Explorer) flush() {
	r := x.r
	r.Add("evaluations", x.evals)
	r.Add("update_evaluations", x.evals)
	r.Add("transitions", x.transitions)
	r.Add("distinct_nontrivial", x.nontriv)
	r.Add("updates_abandoned_on_layout_error", x.fatal)
	r.Add("updates_with_skipped_entry", x.partial)
	r.Add("updates_creating_a_mimic", x.withMimic)
	r.Add("updates_with_namespace_divergence_informational", x.nsDiv)
	r.Add("simulated_syscalls", x.sysCalls)
	r.Max("max_plan_length", x.maxPlan)
}

func min(a, b int) int {
	if a < b {
		return a
	}
	return b
}

// ---------------------------------------------------------------------------------------------
// codec

type codecCase struct {
	Name string   `json:"name"`
	Dir  string   `json:"dir"`
	Type string   `json:"type"`
	Opts []string `json:"opts"`
	// Second: optional second entry of the profile (profile-level round trip)
	Second *codecCase `json:"second,omitempty"`
}

func (c *codecCase) entry() osutil.MountEntry {
	return osutil.MountEntry{Name: c.Name, Dir: c.Dir, Type: c.Type, Options: append([]string(nil), c.Opts...)}
}

var codecAtoms = []string{"a", " ", "\t", "\n", "\r", "\\", `\040`, `\134`, "#", "0", "é", "\u00a0"}

func codecValues(maxAtoms int) []string {
	res := []string{}
	prev := []string{""}
	for l := 1; l <= maxAtoms; l++ {
		var cur []string
		for _, p := range prev {
			for _, a := range codecAtoms {
				cur = append(cur, p+a)
			}
		}
		for _, s := range cur {
			if !strings.HasPrefix(s, "#") {
				res = append(res, s)
			}
		}
		prev = cur
	}
	return res
}

func describeRunes(s string) string { return fmt.Sprintf("%+q", s) }

// checkCodec: entry -> String -> ParseMountEntry and profile -> text -> profile must be the identity.
func checkCodec(c *codecCase) []viol {
	var vs []viol
	e := c.entry()
	line := e.String()
	back, err := osutil.ParseMountEntry(line)
	if err != nil || !back.Equal(&e) {
		vs = append(vs, viol{"codec-entry", "codec-entry:" + codecKey(c), fmt.Sprintf("entry %+q -> %+q -> %+q (err=%v)", fmt.Sprint(e.Name, "|", e.Dir, "|", e.Type, "|", e.Options), line, fmt.Sprint(back.Name, "|", back.Dir, "|", back.Type, "|", back.Options), err)})
	}
	p := osutil.MountProfile{Entries: []osutil.MountEntry{e}}
	if c.Second != nil {
		p.Entries = append(p.Entries, c.Second.entry())
	}
	text, err := osutil.SaveMountProfileText(&p)
	if err != nil {
		vs = append(vs, viol{"codec-profile", "codec-profile-save:" + codecKey(c), err.Error()})
		return vs
	}
	p2, err := osutil.LoadMountProfileText(text)
	ok := err == nil && len(p2.Entries) == len(p.Entries)
	if ok {
		for i := range p.Entries {
			if !p.Entries[i].Equal(&p2.Entries[i]) {
				ok = false
			}
		}
	}
	if !ok && len(vs) == 0 {
		got := "<error>"
		if err == nil {
			got = fmt.Sprintf("%+q", p2.Entries)
		}
		key := "codec-profile:" + codecKey(c)
		for _, cc := range []*codecCase{c, c.Second} {
			if cc == nil || cc.Name == "" {
				continue
			}
			if first := []rune(cc.Name)[0]; unicode.IsSpace(first) && first != ' ' && first != '\t' && first != '\n' {
				// root cause signature (notes/C28-finding.md): ReadMountProfile trims every line with
				// strings.TrimSpace, escape() only protects space, tab, newline and backslash
				key = fmt.Sprintf("codec-profile:line-starts-with-unescaped-whitespace:U+%04X", first)
				break
			}
		}
		vs = append(vs, viol{"codec-profile", key, fmt.Sprintf("profile %+q -> text %+q -> %s (err=%v)", p.Entries, text, got, err)})
	}
	return vs
}

// codecKey: the canonical identity of a failing codec input is the field and the offending character
// class, not the whole entry: which field is special, and its first and last character.
func codecKey(c *codecCase) string {
	var parts []string
	f := func(name, v string) {
		if v == "a" || v == "" {
			return
		}
		rs := []rune(v)
		parts = append(parts, fmt.Sprintf("%s[first=%+q,last=%+q,len=%d]", name, string(rs[0]), string(rs[len(rs)-1]), len(rs)))
	}
	f("name", c.Name)
	f("dir", c.Dir)
	f("type", c.Type)
	for i, o := range c.Opts {
		f(fmt.Sprintf("opt%d", i), o)
	}
	if c.Second != nil {
		parts = append(parts, "second:"+codecKey(c.Second))
	}
	return strings.Join(parts, ";")
}

func runCodec(r *eng.Run) {
	vals := codecValues(r.Pick(2, 3))
	single := codecValues(1)
	var evals, nontriv int64
	try := func(c *codecCase) {
		evals++
		e := c.entry()
		if strings.ContainsAny(e.String(), "\\") {
			nontriv++ // something had to be escaped
		}
		for _, v := range checkCodec(c) {
			r.Violation(v.Key, v.Msg, c28Case{Part: "codec", Entry: c})
		}
	}
	get := func(f int, c *codecCase) *string {
		switch f {
		case 0:
			return &c.Name
		case 1:
			return &c.Dir
		case 2:
			return &c.Type
		case 3:
			return &c.Opts[0]
		}
		return &c.Opts[1]
	}
	// two fields at a time over all values (5 slots: name, dir, type, first option, second option)
	for f1 := 0; f1 < 5; f1++ {
		for f2 := f1 + 1; f2 < 5; f2++ {
			for _, v1 := range vals {
				for _, v2 := range vals {
					c := &codecCase{Name: "a", Dir: "a", Type: "a", Opts: []string{"a", "a"}}
					*get(f1, c) = v1
					*get(f2, c) = v2
					try(c)
				}
			}
		}
	}
	// all four fields (one option) over single atoms; and with one option only
	for _, a := range single {
		for _, b := range single {
			for _, c3 := range single {
				for _, d := range single {
					try(&codecCase{Name: a, Dir: b, Type: c3, Opts: []string{d}})
				}
			}
		}
	}
	// two-entry profiles: the line structure must survive every pair of (name of first, name of second) and (last option of first, name of second)
	for _, v1 := range vals {
		for _, v2 := range single {
			try(&codecCase{Name: v1, Dir: "a", Type: "a", Opts: []string{"a"}, Second: &codecCase{Name: v2, Dir: "a", Type: "a", Opts: []string{"a"}}})
			try(&codecCase{Name: "a", Dir: "a", Type: "a", Opts: []string{v1}, Second: &codecCase{Name: v2, Dir: "a", Type: "a", Opts: []string{"a"}}})
		}
	}
	r.Add("codec_evaluations", evals)
	r.Add("codec_entries_needing_escapes", nontriv)
	r.Add("evaluations", evals)
	r.Add("distinct_nontrivial", nontriv)
	r.Info("codec_values_per_field", len(vals))
	r.Sample(map[string]interface{}{"codec_entry": describeRunes(" \t\\"), "line": (&codecCase{Name: " \t\\", Dir: `\040`, Type: "a#", Opts: []string{"é", "\u00a0"}}).entryString()})
}

func (c *codecCase) entryString() string { e := c.entry(); return e.String() }

func c28ReadDir(d string) ([]os.DirEntry, error)         { return c28K.ReadDir(d) }

// c28Probe is a development aid (VERIF_C28_PROBE=<tree>[,<max level-1 states>]): one process, levels 1 and 2
// of one tree, a histogram of violation classes with one example each, timing. It decides nothing.
func c28Probe(levels [][]pspec) {
	arg := strings.Split(os.Getenv("VERIF_C28_PROBE"), ",")
	limit := 1 << 30
	if len(arg) > 1 {
		fmt.Sscanf(arg[1], "%d", &limit)
	}
	tree := c28Tree(arg[0])
	type ex struct {
		n    int
		hist string
		msg  string
	}
	classes := map[string]*ex{}
	keys := map[string]bool{}
	note := func(vs []viol, hist []pspec) {
		for _, v := range vs {
			if !keys[v.Key] && !strings.Contains(v.Key, "-conflated") && !strings.HasPrefix(v.Key, "ensure-dir-") && !strings.HasPrefix(v.Key, "entries-beneath") {
				fmt.Printf("EXAMPLE %s\n  history: %s\n  %s\n", v.Key, histShort(hist), v.Msg)
			}
			keys[v.Key] = true
			e := classes[v.Class]
			if e == nil {
				e = &ex{hist: histShort(hist), msg: v.Msg}
				classes[v.Class] = e
			}
			e.n++
		}
	}
	start := time.Now()
	k0 := tree.newKern()
	s0 := &c28State{k: k0, cur: ""}
	seen := map[uint64]bool{}
	var s1 []*c28State
	n := 0
	for pi, p := range levels[0] {
		k := s0.k.clone()
		o := runUpdate(tree, k, "", p.text())
		n++
		note(checkUpdate(o), []pspec{p})
		if o.Err != "" || o.Panic != "" {
			continue
		}
		key := stateKey(k, o.AfterText)
		if !seen[h64(key)] {
			seen[h64(key)] = true
			s1 = append(s1, &c28State{k: k, cur: o.AfterText, hist: []int{pi}})
		}
	}
	fmt.Printf("probe: tree %s level 1: %d updates, %d states, %v\n", tree.Name, n, len(s1), time.Since(start))
	start = time.Now()
	n = 0
	var sys int64
	s2 := 0
	for i, st := range s1 {
		if i >= limit {
			break
		}
		for _, p := range levels[1] {
			k := st.k.clone()
			o := runUpdate(tree, k, st.cur, p.text())
			n++
			sys += k.nsys
			note(checkUpdate(o), []pspec{levels[0][st.hist[0]], p})
			if o.Err == "" && o.Panic == "" {
				if h := h64(stateKey(k, o.AfterText)); !seen[h] {
					seen[h] = true
					s2++
				}
			}
		}
	}
	el := time.Since(start)
	fmt.Printf("probe: level 2: %d updates, %d new states, %v (%.0f us/update, %d syscalls/update)\n", n, s2, el, float64(el.Microseconds())/float64(n+1), sys/int64(n+1))
	var cl []string
	for c := range classes {
		cl = append(cl, c)
	}
	sort.Strings(cl)
	fmt.Printf("probe: %d distinct violation keys\n", len(keys))
	var kl []string
	for k := range keys {
		kl = append(kl, k)
	}
	sort.Strings(kl)
	for _, k := range kl {
		fmt.Printf("KEY %s\n", k)
	}
	for _, c := range cl {
		fmt.Printf("CLASS %s x%d\n  history: %s\n  %s\n", c, classes[c].n, classes[c].hist, classes[c].msg)
	}
	os.RemoveAll(workDir())
	pprof.StopCPUProfile()
	os.Exit(0)
}
