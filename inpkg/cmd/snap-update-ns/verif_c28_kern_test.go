// C28 — simulated kernel for cmd/snap-update-ns.
//
// An in-memory VFS with a mount tree, sitting behind the package's own system call seams
// (osLstat, sysOpen, sysOpenat, sysMkdirat, sysMount, sysUnmount, ...). The REAL Change.Perform
// (changePerformImpl: ensureTarget/ensureSource/createPath, secure MkdirAll & co, trespassing
// checks, planWritableMimic/execWritableMimic, BindMount, lowLevelPerform incl. the mount point
// clean-up) runs on top of it. Semantics modelled: path walk with mount crossing at every
// component, one mount per (parent mount, dentry), bind / rbind (sub-mounts are cloned), tmpfs,
// bind-remount read-only, umount2 with and without MNT_DETACH (EBUSY / EINVAL), EROFS / EEXIST /
// ENOENT / ENOTDIR / ENOTEMPTY / ELOOP with the kernel's precedence, O_PATH / O_NOFOLLOW /
// O_DIRECTORY / O_CREAT|O_EXCL, /proc/self/fd/N as mount source and target. Not modelled: mount
// propagation (all private), permissions/ownership, anything outside what snap-update-ns calls.
package main

import (
	"fmt"
	"io/fs"
	"os"
	"path/filepath"
	"sort"
	"strconv"
	"strings"
	"syscall"
	"time"

	"github.com/snapcore/snapd/osutil/sys"
)

type kfs struct {
	dev   uint64
	magic int64
	ro    bool
}

type knode struct {
	kind   byte // 'd', 'f', 'l'
	link   string
	size   int64
	fs     *kfs
	parent *knode
	name   string
	kids   map[string]*knode
}

// ktag says which mount change created a mount (oracle bookkeeping only; the kernel ignores it)
type ktag struct {
	dir   string
	tmpfs bool
}

type kmount struct {
	parent *kmount
	at     *knode
	root   *knode
	ro     bool
	clone  bool
	tag    ktag
}

type kfd struct {
	m *kmount
	n *knode
}

type kern struct {
	rootMnt *kmount
	mounts  []*kmount // live mounts except rootMnt, in creation order
	fds     map[int]kfd
	nextFd  int
	nextDev uint64
	cur     *Change // innermost change being performed (for tagging)
	nsys    int64
}

func newKern() *kern {
	k := &kern{fds: map[int]kfd{}, nextFd: 3, nextDev: 100}
	return k
}

func (k *kern) newFS(magic int64, ro bool) *kfs {
	k.nextDev++
	return &kfs{dev: k.nextDev, magic: magic, ro: ro}
}

func newDir(f *kfs) *knode { return &knode{kind: 'd', fs: f, kids: map[string]*knode{}} }

func (n *knode) add(name string, c *knode) *knode {
	c.parent = n
	c.name = name
	n.kids[name] = c
	return c
}

// mkdirP creates (base tree construction only) the directory chain for an absolute path; new
// directories get file system f.
func (k *kern) mkdirP(path string, f *kfs) *knode {
	n := k.rootMnt.root
	for _, seg := range splitPath(path) {
		c := n.kids[seg]
		if c == nil {
			c = n.add(seg, newDir(f))
		}
		n = c
	}
	return n
}

func splitPath(p string) []string {
	p = filepath.Clean(p)
	if p == "/" {
		return nil
	}
	return strings.Split(strings.TrimPrefix(p, "/"), "/")
}

func (k *kern) child(m *kmount, n *knode) *kmount {
	for _, c := range k.mounts {
		if c.parent == m && c.at == n {
			return c
		}
	}
	return nil
}

func (k *kern) follow(m *kmount, n *knode) (*kmount, *knode) {
	for {
		c := k.child(m, n)
		if c == nil {
			return m, n
		}
		m, n = c, c.root
	}
}

// step looks up one component below (m,n) and crosses mounts.
func (k *kern) step(m *kmount, n *knode, name string) (*kmount, *knode, error) {
	if n.kind == 'l' {
		return nil, nil, syscall.ELOOP
	}
	if n.kind != 'd' {
		return nil, nil, syscall.ENOTDIR
	}
	if name == "" || name == "." || name == ".." || strings.Contains(name, "/") {
		panic(fmt.Sprintf("c28 kernel: unsupported path component %q", name))
	}
	c := n.kids[name]
	if c == nil {
		return nil, nil, syscall.ENOENT
	}
	m, c = k.follow(m, c)
	return m, c, nil
}

// walk resolves an absolute path, crossing mounts at every component (also the last); symbolic links
// are never followed (a symlink as the last component is returned as such, in the middle it is ELOOP).
func (k *kern) walk(path string) (*kmount, *knode, error) {
	if !filepath.IsAbs(path) {
		panic("c28 kernel: relative path " + path)
	}
	m, n := k.follow(k.rootMnt, k.rootMnt.root)
	var err error
	for _, seg := range splitPath(path) {
		m, n, err = k.step(m, n, seg)
		if err != nil {
			return nil, nil, err
		}
	}
	return m, n, nil
}

const procFd = "/proc/self/fd/"

// locate resolves a path or a /proc/self/fd/N magic link (then crossing mounts stacked on it).
func (k *kern) locate(path string) (*kmount, *knode, error) {
	if strings.HasPrefix(path, procFd) {
		fd, err := strconv.Atoi(strings.TrimPrefix(path, procFd))
		if err != nil {
			return nil, nil, syscall.ENOENT
		}
		d, ok := k.fds[fd]
		if !ok {
			return nil, nil, syscall.ENOENT
		}
		m, n := k.follow(d.m, d.n)
		return m, n, nil
	}
	return k.walk(path)
}

func (k *kern) readOnly(m *kmount, n *knode) bool { return m.ro || n.fs.ro }

func (k *kern) newFd(m *kmount, n *knode) int {
	fd := k.nextFd
	k.nextFd++
	k.fds[fd] = kfd{m, n}
	return fd
}

func within(n, under *knode) bool {
	for ; n != nil; n = n.parent {
		if n == under {
			return true
		}
	}
	return false
}

func (k *kern) descendants(m *kmount) []*kmount {
	var res []*kmount
	for _, c := range k.mounts {
		for p := c.parent; p != nil; p = p.parent {
			if p == m {
				res = append(res, c)
				break
			}
		}
	}
	return res
}

func (k *kern) dropMounts(drop map[*kmount]bool) {
	var keep []*kmount
	for _, c := range k.mounts {
		if !drop[c] {
			keep = append(keep, c)
		}
	}
	k.mounts = keep
}

func (k *kern) tagNow(tmpfs bool) ktag {
	if k.cur == nil {
		return ktag{dir: "?"}
	}
	return ktag{dir: filepath.Clean(k.cur.Entry.Dir), tmpfs: tmpfs}
}

// ---- the system call surface (signatures of the package's mockable variables) ----

func (k *kern) Open(path string, flags int, mode uint32) (int, error) {
	k.nsys++
	m, n, err := k.walk(path)
	if err != nil {
		return -1, err
	}
	if n.kind == 'l' && flags&sys.O_PATH == 0 {
		return -1, syscall.ELOOP
	}
	if flags&syscall.O_DIRECTORY != 0 && n.kind != 'd' {
		return -1, syscall.ENOTDIR
	}
	return k.newFd(m, n), nil
}

func (k *kern) Openat(dirfd int, name string, flags int, mode uint32) (int, error) {
	k.nsys++
	d, ok := k.fds[dirfd]
	if !ok {
		return -1, syscall.EBADF
	}
	if d.n.kind != 'd' {
		return -1, syscall.ENOTDIR
	}
	if strings.Contains(name, "/") || name == "" {
		panic(fmt.Sprintf("c28 kernel: openat with name %q", name))
	}
	c := d.n.kids[name]
	if flags&syscall.O_CREAT != 0 {
		if c != nil {
			if flags&syscall.O_EXCL != 0 {
				return -1, syscall.EEXIST
			}
		} else {
			if k.readOnly(d.m, d.n) {
				return -1, syscall.EROFS
			}
			c = d.n.add(name, &knode{kind: 'f', fs: d.n.fs})
			return k.newFd(d.m, c), nil
		}
	}
	if c == nil {
		return -1, syscall.ENOENT
	}
	m, n := k.follow(d.m, c)
	if n.kind == 'l' {
		if flags&syscall.O_NOFOLLOW == 0 {
			panic("c28 kernel: openat following a symlink is not modelled")
		}
		if flags&sys.O_PATH == 0 {
			if flags&syscall.O_DIRECTORY != 0 {
				return -1, syscall.ENOTDIR
			}
			return -1, syscall.ELOOP
		}
	}
	if flags&syscall.O_DIRECTORY != 0 && n.kind != 'd' {
		return -1, syscall.ENOTDIR
	}
	return k.newFd(m, n), nil
}

func (k *kern) Close(fd int) error {
	k.nsys++
	if _, ok := k.fds[fd]; !ok {
		return syscall.EBADF
	}
	delete(k.fds, fd)
	return nil
}

func (k *kern) Fchdir(fd int) error                                { return nil }
func (k *kern) Fchown(fd int, uid sys.UserID, gid sys.GroupID) error { k.nsys++; return nil }

func (k *kern) Mkdirat(dirfd int, name string, mode uint32) error {
	k.nsys++
	d, ok := k.fds[dirfd]
	if !ok {
		return syscall.EBADF
	}
	if d.n.kind != 'd' {
		return syscall.ENOTDIR
	}
	if d.n.kids[name] != nil {
		return syscall.EEXIST
	}
	if k.readOnly(d.m, d.n) {
		return syscall.EROFS
	}
	d.n.add(name, newDir(d.n.fs))
	return nil
}

func (k *kern) Symlinkat(oldname string, dirfd int, name string) error {
	k.nsys++
	d, ok := k.fds[dirfd]
	if !ok {
		return syscall.EBADF
	}
	if d.n.kind != 'd' {
		return syscall.ENOTDIR
	}
	if d.n.kids[name] != nil {
		return syscall.EEXIST
	}
	if k.readOnly(d.m, d.n) {
		return syscall.EROFS
	}
	d.n.add(name, &knode{kind: 'l', link: oldname, fs: d.n.fs})
	return nil
}

func (k *kern) Readlinkat(dirfd int, path string, buf []byte) (int, error) {
	k.nsys++
	d, ok := k.fds[dirfd]
	if !ok {
		return 0, syscall.EBADF
	}
	if path != "" {
		panic("c28 kernel: readlinkat with a path is not modelled")
	}
	if d.n.kind != 'l' {
		return 0, syscall.EINVAL
	}
	return copy(buf, d.n.link), nil
}

func fillStat(n *knode, buf *syscall.Stat_t) {
	*buf = syscall.Stat_t{}
	switch n.kind {
	case 'd':
		buf.Mode = syscall.S_IFDIR | 0755
	case 'f':
		buf.Mode = syscall.S_IFREG | 0644
	case 'l':
		buf.Mode = syscall.S_IFLNK | 0777
	}
	buf.Dev = n.fs.dev
	buf.Size = n.size
	buf.Nlink = 1
}

func (k *kern) Fstat(fd int, buf *syscall.Stat_t) error {
	k.nsys++
	d, ok := k.fds[fd]
	if !ok {
		return syscall.EBADF
	}
	fillStat(d.n, buf)
	return nil
}

func (k *kern) Fstatfs(fd int, buf *syscall.Statfs_t) error {
	k.nsys++
	d, ok := k.fds[fd]
	if !ok {
		return syscall.EBADF
	}
	*buf = syscall.Statfs_t{Type: d.n.fs.magic}
	if k.readOnly(d.m, d.n) {
		buf.Flags |= StReadOnly
	}
	return nil
}

func (k *kern) SysLstat(name string, buf *syscall.Stat_t) error {
	k.nsys++
	_, n, err := k.walk(name)
	if err != nil {
		return err
	}
	fillStat(n, buf)
	return nil
}

type kFileInfo struct {
	name string
	n    *knode
}

func kmode(n *knode) os.FileMode {
	switch n.kind {
	case 'd':
		return os.ModeDir | 0755
	case 'l':
		return os.ModeSymlink | 0777
	}
	return 0644
}
func (fi kFileInfo) Name() string       { return fi.name }
func (fi kFileInfo) Size() int64        { return fi.n.size }
func (fi kFileInfo) Mode() os.FileMode  { return kmode(fi.n) }
func (fi kFileInfo) ModTime() time.Time { return time.Time{} }
func (fi kFileInfo) IsDir() bool        { return fi.n.kind == 'd' }
func (fi kFileInfo) Sys() interface{}   { return nil }

func (fi kFileInfo) Type() fs.FileMode          { return kmode(fi.n).Type() }
func (fi kFileInfo) Info() (fs.FileInfo, error) { return fi, nil }

func (k *kern) OsLstat(name string) (os.FileInfo, error) {
	k.nsys++
	_, n, err := k.walk(name)
	if err != nil {
		return nil, &os.PathError{Op: "lstat", Path: name, Err: err}
	}
	return kFileInfo{filepath.Base(name), n}, nil
}

func (k *kern) ReadDir(dirname string) ([]fs.DirEntry, error) {
	k.nsys++
	_, n, err := k.walk(dirname)
	if err != nil {
		return nil, &os.PathError{Op: "open", Path: dirname, Err: err}
	}
	if n.kind != 'd' {
		return nil, &os.PathError{Op: "readdir", Path: dirname, Err: syscall.ENOTDIR}
	}
	names := make([]string, 0, len(n.kids))
	for name := range n.kids {
		names = append(names, name)
	}
	sort.Strings(names)
	var res []fs.DirEntry
	for _, name := range names {
		res = append(res, kFileInfo{name, n.kids[name]})
	}
	return res, nil
}

// Readlink is os.Readlink: the path is walked without following symlinks in the middle (the only
// caller reads a directory entry of a directory it has just listed).
func (k *kern) Readlink(name string) (string, error) {
	k.nsys++
	_, n, err := k.walk(name)
	if err != nil {
		return "", &os.PathError{Op: "readlink", Path: name, Err: err}
	}
	if n.kind != 'l' {
		return "", &os.PathError{Op: "readlink", Path: name, Err: syscall.EINVAL}
	}
	return n.link, nil
}

// Remove is os.Remove (unlink, or rmdir for directories).
func (k *kern) Remove(name string) error {
	k.nsys++
	perr := func(e error) error { return &os.PathError{Op: "remove", Path: name, Err: e} }
	segs := splitPath(name)
	if len(segs) == 0 {
		return perr(syscall.EBUSY)
	}
	pm, pn, err := k.walk("/" + strings.Join(segs[:len(segs)-1], "/"))
	if err != nil {
		return perr(err)
	}
	if pn.kind != 'd' {
		return perr(syscall.ENOTDIR)
	}
	// mnt_want_write() comes before the look-up of the victim
	if k.readOnly(pm, pn) {
		return perr(syscall.EROFS)
	}
	c := pn.kids[segs[len(segs)-1]]
	if c == nil {
		return perr(syscall.ENOENT)
	}
	// a dentry that is a mount point in this namespace cannot be removed
	for _, m := range k.mounts {
		if m.at == c {
			return perr(syscall.EBUSY)
		}
	}
	if c.kind == 'd' && len(c.kids) != 0 {
		return perr(syscall.ENOTEMPTY)
	}
	delete(pn.kids, c.name)
	c.parent = nil
	return nil
}

func (k *kern) cloneSubmounts(src *kmount, under *knode, dst *kmount, snapshot []*kmount) {
	for _, c := range snapshot {
		if c.parent == src && within(c.at, under) {
			c2 := &kmount{parent: dst, at: c.at, root: c.root, ro: c.ro, clone: true, tag: c.tag}
			k.mounts = append(k.mounts, c2)
			k.cloneSubmounts(c, c.root, c2, snapshot)
		}
	}
}

func (k *kern) Mount(source string, target string, fstype string, flags uintptr, data string) error {
	k.nsys++
	tm, tn, err := k.locate(target)
	if err != nil {
		return err
	}
	const propagation = syscall.MS_SHARED | syscall.MS_SLAVE | syscall.MS_PRIVATE | syscall.MS_UNBINDABLE
	switch {
	case flags&syscall.MS_REMOUNT != 0:
		if tn != tm.root {
			return syscall.EINVAL
		}
		tm.ro = flags&syscall.MS_RDONLY != 0
		return nil
	case flags&syscall.MS_BIND != 0:
		sm, sn, err := k.locate(source)
		if err != nil {
			return err
		}
		if sn.kind == 'l' || tn.kind == 'l' {
			return syscall.EINVAL
		}
		if (sn.kind == 'd') != (tn.kind == 'd') {
			return syscall.ENOTDIR
		}
		snapshot := append([]*kmount(nil), k.mounts...)
		nm := &kmount{parent: tm, at: tn, root: sn, ro: sm.ro, tag: k.tagNow(false)}
		k.mounts = append(k.mounts, nm)
		if flags&syscall.MS_REC != 0 {
			k.cloneSubmounts(sm, sn, nm, snapshot)
		}
		return nil
	case flags&propagation != 0:
		// change of propagation type: only valid on a mount point; nothing else is modelled
		if tn != tm.root {
			return syscall.EINVAL
		}
		return nil
	}
	if tn.kind != 'd' {
		return syscall.ENOTDIR
	}
	magic := int64(Ext4Magic)
	if fstype == "tmpfs" {
		magic = TmpfsMagic
	}
	f := k.newFS(magic, false)
	nm := &kmount{parent: tm, at: tn, root: newDir(f), ro: flags&syscall.MS_RDONLY != 0, tag: k.tagNow(fstype == "tmpfs")}
	k.mounts = append(k.mounts, nm)
	return nil
}

func (k *kern) Unmount(target string, flags int) error {
	k.nsys++
	m, n, err := k.locate(target)
	if err != nil {
		return err
	}
	if m == k.rootMnt || n != m.root {
		return syscall.EINVAL
	}
	desc := k.descendants(m)
	if len(desc) != 0 && flags&syscall.MNT_DETACH == 0 {
		return syscall.EBUSY
	}
	for _, d := range k.fds {
		if d.m == m && flags&syscall.MNT_DETACH == 0 {
			return syscall.EBUSY
		}
	}
	drop := map[*kmount]bool{m: true}
	for _, c := range desc {
		drop[c] = true
	}
	k.dropMounts(drop)
	return nil
}

// ---- cloning and canonical form ----

func top(n *knode) *knode {
	for n.parent != nil {
		n = n.parent
	}
	return n
}

func (k *kern) clone() *kern {
	nk := &kern{fds: map[int]kfd{}, nextFd: 3, nextDev: k.nextDev}
	fsMap := map[*kfs]*kfs{}
	nodeMap := map[*knode]*knode{}
	var cp func(n, parent *knode) *knode
	cp = func(n, parent *knode) *knode {
		f := fsMap[n.fs]
		if f == nil {
			c := *n.fs
			f = &c
			fsMap[n.fs] = f
		}
		nn := &knode{kind: n.kind, link: n.link, size: n.size, fs: f, parent: parent, name: n.name}
		nodeMap[n] = nn
		if n.kids != nil {
			nn.kids = make(map[string]*knode, len(n.kids))
			for name, c := range n.kids {
				nn.kids[name] = cp(c, nn)
			}
		}
		return nn
	}
	get := func(n *knode) *knode {
		if nn := nodeMap[n]; nn != nil {
			return nn
		}
		cp(top(n), nil)
		return nodeMap[n]
	}
	mntMap := map[*kmount]*kmount{}
	nk.rootMnt = &kmount{root: get(k.rootMnt.root), tag: k.rootMnt.tag}
	mntMap[k.rootMnt] = nk.rootMnt
	for _, m := range k.mounts { // parents are always created before their children
		nm := &kmount{parent: mntMap[m.parent], at: get(m.at), root: get(m.root), ro: m.ro, clone: m.clone, tag: m.tag}
		mntMap[m] = nm
		nk.mounts = append(nk.mounts, nm)
	}
	return nk
}

// canon renders the complete kernel state in a canonical textual form: node and file system
// identities are numbered in order of a deterministic traversal; the mount tree is listed depth
// first with siblings ordered by the number of the dentry they cover. strip is removed from symlink
// targets and tags (the per-process scratch root).
func (k *kern) canon(strip string) string {
	var sb strings.Builder
	fsID := map[*kfs]int{}
	nodeID := map[*knode]int{}
	chain := map[*knode]bool{}
	procName := filepath.Base(filepath.Dir(strip)) // .../c28/p<N>/R
	if strip != "" {
		n := k.rootMnt.root
		for _, seg := range splitPath(strip) {
			if n = n.kids[seg]; n == nil {
				break
			}
			chain[n] = true
		}
	}
	var dump func(n *knode)
	dump = func(n *knode) {
		id := len(nodeID) + 1
		nodeID[n] = id
		f, ok := fsID[n.fs]
		if !ok {
			f = len(fsID) + 1
			fsID[n.fs] = f
			fmt.Fprintf(&sb, "[fs%d %x ro=%v]", f, n.fs.magic, n.fs.ro)
		}
		name := n.name
		if chain[n] || name == procName {
			name = "$" // a component of the per-process scratch root (also below /tmp/.snap)
		}
		fmt.Fprintf(&sb, "(%d%c%d %s", id, n.kind, f, name)
		if n.kind == 'l' {
			fmt.Fprintf(&sb, "->%s", strings.ReplaceAll(n.link, strip, "$R"))
		}
		if n.size != 0 {
			fmt.Fprintf(&sb, " s%d", n.size)
		}
		names := make([]string, 0, len(n.kids))
		for name := range n.kids {
			names = append(names, name)
		}
		sort.Strings(names)
		for _, name := range names {
			dump(n.kids[name])
		}
		sb.WriteByte(')')
	}
	see := func(n *knode) int {
		if _, ok := nodeID[n]; !ok {
			sb.WriteString("T")
			dump(top(n))
		}
		return nodeID[n]
	}
	var dumpMnt func(m *kmount)
	dumpMnt = func(m *kmount) {
		var kids []*kmount
		for _, c := range k.mounts {
			if c.parent == m {
				kids = append(kids, c)
			}
		}
		sort.Slice(kids, func(i, j int) bool { return nodeID[kids[i].at] < nodeID[kids[j].at] })
		for _, c := range kids {
			fmt.Fprintf(&sb, "{M at=%d root=%d ro=%v cl=%v tag=%s,%v", nodeID[c.at], see(c.root), c.ro, c.clone, strings.ReplaceAll(c.tag.dir, strip, "$R"), c.tag.tmpfs)
			dumpMnt(c)
			sb.WriteByte('}')
		}
	}
	see(k.rootMnt.root)
	dumpMnt(k.rootMnt)
	return sb.String()
}

// visible lists what a process would see below root (mounts crossed): relative path -> "d" | "f" | "l:<target>"
func (k *kern) visible(root string) map[string]string {
	res := map[string]string{}
	m, n, err := k.walk(root)
	if err != nil {
		return res
	}
	var rec func(m *kmount, n *knode, rel string, depth int)
	rec = func(m *kmount, n *knode, rel string, depth int) {
		if depth > 8 {
			return
		}
		names := make([]string, 0, len(n.kids))
		for name := range n.kids {
			names = append(names, name)
		}
		for _, name := range names {
			cm, c := k.follow(m, n.kids[name])
			p := filepath.Join(rel, name)
			switch c.kind {
			case 'd':
				res[p] = "d"
				rec(cm, c, p, depth+1)
			case 'f':
				res[p] = "f"
			case 'l':
				res[p] = "l:" + c.link
			}
		}
	}
	if n.kind == 'd' {
		rec(m, n, "", 0)
	}
	return res
}

// mountStackAt returns the mounts stacked at path, topmost first (nil if the path is not a mount point).
func (k *kern) mountStackAt(path string) []*kmount {
	m, n, err := k.walk(path)
	if err != nil {
		return nil
	}
	var res []*kmount
	for m != k.rootMnt && n == m.root {
		res = append(res, m)
		m, n = m.parent, m.at
	}
	return res
}
