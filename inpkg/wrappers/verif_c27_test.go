// C27 — generated desktop files can only launch the snap's own apps.
//
// In-package harness (needs the unexported sanitizeDesktopFile). Exhaustive enumeration of desktop
// files built from a line alphabet (headers, allow-listed and other keys, locale suffixes, Exec
// commands x argument tails, Icon values as token sequences with ${SNAP}), for snaps with and without
// an instance key, with several apps whose names collide by prefix. The oracle reads the *output* the
// way a desktop launcher does and checks the statement's four clauses on every output line, plus
// provenance (every output line is explained by an input line, in order).
package wrappers

import (
	"encoding/json"
	"fmt"
	"os"
	"path/filepath"
	"strings"
	"sync"
	"sync/atomic"
	"testing"
	"time"

	"github.com/snapcore/snapd/dirs"
	"github.com/snapcore/snapd/snap"
	eng "github.com/snapcore/snapd/verifengine"
)

type verifC27Case struct {
	Key         string   `json:"instance_key"`
	DesktopBase string   `json:"desktop_file_base"`
	Lines       []string `json:"lines"`
}

func (c verifC27Case) key() string {
	return fmt.Sprintf("key=%q:file=%q:lines=%q", c.Key, c.DesktopBase, c.Lines)
}

var verifC27AppNames = []string{"app", "ap", "foo", "app-2"}

func verifC27Snap(key string) *snap.Info {
	info := &snap.Info{SuggestedName: "foo", InstanceKey: key}
	info.Revision = snap.R(12)
	info.Apps = map[string]*snap.AppInfo{}
	for _, n := range verifC27AppNames {
		info.Apps[n] = &snap.AppInfo{Snap: info, Name: n, Command: "bin/" + n}
	}
	return info
}

// ---- reading the output like a launcher ----

var verifC27PlainKeys = []string{"Type", "Version", "NoDisplay", "Icon", "Hidden", "OnlyShowIn", "NotShowIn", "Exec", "Terminal", "Actions", "MimeType", "Categories",
	"StartupNotify", "StartupWMClass", "PrefersNonDefaultGPU", "SingleMainWindow", "X-Ayatana-Desktop-Shortcuts", "TargetEnvironment"}
var verifC27LocaleKeys = []string{"Name", "GenericName", "Comment", "Keywords"}

func verifC27IsSpace(b byte) bool {
	return b == ' ' || b == '\t' || b == '\n' || b == '\f' || b == '\r'
}

func verifC27All(s string, ok func(b byte) bool) bool {
	for i := 0; i < len(s); i++ {
		if !ok(s[i]) {
			return false
		}
	}
	return true
}

func verifC27Lower(b byte) bool { return b >= 'a' && b <= 'z' }
func verifC27Upper(b byte) bool { return b >= 'A' && b <= 'Z' }
func verifC27Digit(b byte) bool { return b >= '0' && b <= '9' }

// verifC27Locale: lang(_COUNTRY)?(.ENCODING)?(@modifier)? with the character classes of the statement's allow list
func verifC27Locale(s string) bool {
	i := 0
	n := 0
	for i < len(s) && verifC27Lower(s[i]) {
		i++
		n++
	}
	if n == 0 {
		return false
	}
	if i < len(s) && s[i] == '_' {
		i++
		n = 0
		for i < len(s) && verifC27Upper(s[i]) {
			i++
			n++
		}
		if n == 0 {
			return false
		}
	}
	if i < len(s) && s[i] == '.' {
		i++
		n = 0
		for i < len(s) && (verifC27Digit(s[i]) || verifC27Upper(s[i]) || s[i] == '-') {
			i++
			n++
		}
		if n == 0 {
			return false
		}
	}
	if i < len(s) && s[i] == '@' {
		i++
		n = 0
		for i < len(s) && verifC27Lower(s[i]) {
			i++
			n++
		}
		if n == 0 {
			return false
		}
	}
	return i == len(s)
}

// verifC27Classify says what an output line is: "blank", "comment", "header-entry", "header-action",
// "header-shortcut", "key:<Key>", "tag", or "" (not allow-listed).
func verifC27Classify(line string) string {
	if verifC27All(line, verifC27IsSpace) {
		return "blank"
	}
	if t := strings.TrimLeft(line, " \t\n\f\r"); strings.HasPrefix(t, "#") {
		return "comment"
	}
	alnumDash := func(b byte) bool { return verifC27Lower(b) || verifC27Upper(b) || verifC27Digit(b) || b == '-' }
	if line == "[Desktop Entry]" {
		return "header-entry"
	}
	if strings.HasPrefix(line, "[Desktop Action ") && strings.HasSuffix(line, "]") {
		id := line[len("[Desktop Action ") : len(line)-1]
		if len(id) > 0 && verifC27All(id, alnumDash) {
			return "header-action"
		}
	}
	if strings.HasPrefix(line, "[") && strings.HasSuffix(line, " Shortcut Group]") {
		id := line[1 : len(line)-len(" Shortcut Group]")]
		if len(id) > 0 && verifC27All(id, alnumDash) {
			return "header-shortcut"
		}
	}
	if strings.HasPrefix(line, "X-SnapInstanceName=") {
		return "tag"
	}
	eq := strings.IndexByte(line, '=')
	if eq < 0 {
		return ""
	}
	k := line[:eq]
	for _, p := range verifC27PlainKeys {
		if k == p {
			return "key:" + p
		}
	}
	for _, p := range verifC27LocaleKeys {
		if k == p {
			return "key:" + p
		}
		if strings.HasPrefix(k, p+"[") && strings.HasSuffix(k, "]") && verifC27Locale(k[len(p)+1:len(k)-1]) {
			return "key:" + p
		}
	}
	return ""
}

// verifC27Argv splits an Exec value the way the Desktop Entry specification / g_shell_parse_argv do
// (space separated, double and single quotes, backslash escapes). ok=false: not launchable at all.
func verifC27Argv(v string) (argv []string, ok bool) {
	var cur strings.Builder
	in := false
	i := 0
	for i < len(v) {
		c := v[i]
		switch {
		case c == ' ' || c == '\t' || c == '\n':
			if in {
				argv = append(argv, cur.String())
				cur.Reset()
				in = false
			}
			i++
		case c == '"':
			in = true
			i++
			closed := false
			for i < len(v) {
				if v[i] == '\\' && i+1 < len(v) {
					cur.WriteByte(v[i+1])
					i += 2
					continue
				}
				if v[i] == '"' {
					closed = true
					i++
					break
				}
				cur.WriteByte(v[i])
				i++
			}
			if !closed {
				return nil, false
			}
		case c == '\'':
			in = true
			i++
			j := strings.IndexByte(v[i:], '\'')
			if j < 0 {
				return nil, false
			}
			cur.WriteString(v[i : i+j])
			i += j + 1
		case c == '\\':
			in = true
			if i+1 < len(v) {
				cur.WriteByte(v[i+1])
				i += 2
			} else {
				return nil, false
			}
		default:
			in = true
			cur.WriteByte(c)
			i++
		}
	}
	if in {
		argv = append(argv, cur.String())
	}
	return argv, true
}

type verifC27Env struct {
	info        *snap.Info
	desktopFile string
	mountDir    string
	wrappers    map[string]bool
	validCmds   map[string]string // command as written in the source desktop file -> wrapper path
}

func verifC27NewEnv(key, base string) *verifC27Env {
	info := verifC27Snap(key)
	e := &verifC27Env{info: info, mountDir: info.MountDir(), wrappers: map[string]bool{}, validCmds: map[string]string{}}
	e.desktopFile = filepath.Join(dirs.SnapDesktopFilesDir, fmt.Sprintf("%s_%s", info.DesktopPrefix(), base))
	for _, n := range verifC27AppNames {
		w := filepath.Join(dirs.SnapBinariesDir, snap.JoinSnapApp(info.InstanceName(), n))
		e.wrappers[w] = true
		e.validCmds[snap.JoinSnapApp("foo", n)] = w
	}
	return e
}

func (e *verifC27Env) subst(s string) string { return strings.ReplaceAll(s, "${SNAP}", e.mountDir) }

// explains: can output line out be the sanitised form of input line in?
func (e *verifC27Env) explains(in, out string) bool {
	in = strings.TrimSuffix(in, "\r")
	if out == e.subst(in) {
		return true
	}
	if strings.HasPrefix(in, "Exec=") && strings.HasPrefix(out, "Exec=") {
		pre := "Exec=env BAMF_DESKTOP_FILE_HINT=" + e.desktopFile + " "
		if !strings.HasPrefix(out, pre) {
			return false
		}
		rest := out[len(pre):]
		cmd := in[len("Exec="):]
		for vc, w := range e.validCmds {
			if cmd == vc && rest == w {
				return true
			}
			if strings.HasPrefix(cmd, vc+" ") && rest == w+e.subst(cmd[len(vc):]) {
				return true
			}
		}
		// fallback documented in the code: the app named like the desktop file, without arguments
		return e.wrappers[rest]
	}
	if p := "Icon=snap.foo."; strings.HasPrefix(in, p) {
		return out == "Icon=snap."+e.info.InstanceName()+"."+e.subst(in[len(p):])
	}
	return false
}

// verifC27Check applies the oracle to one sanitised output; returns a list of problems.
func (e *verifC27Env) check(lines []string, output string) (problems []string, facts map[string]int) {
	facts = map[string]int{}
	if output != "" && !strings.HasSuffix(output, "\n") {
		problems = append(problems, "output does not end with a newline")
	}
	outLines := strings.Split(strings.TrimSuffix(output, "\n"), "\n")
	if output == "" {
		outLines = nil
	}
	inIdx := 0
	for oi := 0; oi < len(outLines); oi++ {
		ol := outLines[oi]
		class := verifC27Classify(ol)
		if class == "" {
			problems = append(problems, fmt.Sprintf("output line %q is not an allow-listed key or section header", ol))
			continue
		}
		facts[class]++
		if class == "tag" {
			if oi == 0 || outLines[oi-1] != "[Desktop Entry]" {
				problems = append(problems, fmt.Sprintf("X-SnapInstanceName line %q does not directly follow a [Desktop Entry] header", ol))
			}
			if ol != "X-SnapInstanceName="+e.info.InstanceName() {
				problems = append(problems, fmt.Sprintf("tag line %q does not name the instance %q", ol, e.info.InstanceName()))
			}
			continue
		}
		if class == "header-entry" {
			if oi+1 >= len(outLines) || outLines[oi+1] != "X-SnapInstanceName="+e.info.InstanceName() {
				problems = append(problems, "[Desktop Entry] header is not followed by X-SnapInstanceName="+e.info.InstanceName())
			}
		}
		// provenance: consume input lines until one explains this output line
		found := false
		for inIdx < len(lines) {
			in := lines[inIdx]
			inIdx++
			if e.explains(in, ol) {
				found = true
				break
			}
		}
		if !found {
			problems = append(problems, fmt.Sprintf("output line %q is not the sanitised form of any remaining input line", ol))
		}
		switch class {
		case "key:Exec":
			v := ol[len("Exec="):]
			pre := "env BAMF_DESKTOP_FILE_HINT=" + e.desktopFile + " "
			okLiteral := false
			if strings.HasPrefix(v, pre) {
				rest := v[len(pre):]
				for w := range e.wrappers {
					if rest == w || strings.HasPrefix(rest, w+" ") {
						okLiteral = true
					}
				}
			}
			if !okLiteral {
				problems = append(problems, fmt.Sprintf("Exec value %q is not 'env BAMF_DESKTOP_FILE_HINT=<installed file> <own wrapper>[ args]'", v))
			}
			argv, launchable := verifC27Argv(v)
			if launchable {
				if len(argv) < 3 || argv[0] != "env" || !strings.HasPrefix(argv[1], "BAMF_DESKTOP_FILE_HINT=") || !e.wrappers[argv[2]] {
					problems = append(problems, fmt.Sprintf("Exec value %q launches %q, not a wrapper of the snap's own apps", v, argv))
				} else {
					facts["exec-launches-own-wrapper"]++
					if len(argv) > 3 {
						facts["exec-with-args"]++
					}
				}
			} else {
				facts["exec-unparsable-quotes"]++
			}
		case "key:Icon":
			v := ol[len("Icon="):]
			if strings.Contains(v, "/") {
				cl := filepath.Clean(v)
				if !filepath.IsAbs(v) || !(cl == e.mountDir || strings.HasPrefix(cl, e.mountDir+"/")) {
					problems = append(problems, fmt.Sprintf("%sIcon path %q (clean: %q) does not lie inside the snap (%s)", verifC27IconMark, v, cl, e.mountDir))
				} else {
					facts["icon-path-inside"]++
				}
			} else {
				facts["icon-themed-name"]++
			}
		}
	}
	return problems, facts
}

const verifC27IconMark = "ICON-OUTSIDE: "

// verifC27IconClass is the canonical key of the one failure class with a common root cause: the
// sanitiser validates the Icon value BEFORE it expands ${SNAP}, so a ${SNAP} that is not the leading
// path element ("${SNAP}x", "x${SNAP}", "${SNAP}/..${SNAP}") yields a path outside the snap.
const verifC27IconClass = "icon:snap-variable-expanded-after-validation"

func verifC27Suspect(line string) bool {
	if !strings.HasPrefix(line, "Icon=") {
		return false
	}
	v := line[len("Icon="):]
	if strings.HasPrefix(v, "${SNAP}/") {
		return strings.Contains(v[len("${SNAP}/"):], "${SNAP}") // passes as a path, a later ${SNAP} is expanded afterwards
	}
	return !strings.Contains(v, "/") && strings.Contains(v, "${SNAP}") // passes as a theme name, ${SNAP} is expanded afterwards
}

// verifC27Class attributes a failing file to the class iff all its problems are icon-outside problems
// and they all disappear when the suspect Icon lines are taken out of the input (delta attribution).
// Everything else is keyed by the complete input.
func (e *verifC27Env) classOf(c verifC27Case, probs []string) string {
	for _, p := range probs {
		if !strings.HasPrefix(p, verifC27IconMark) {
			return ""
		}
	}
	var reduced []string
	for _, l := range c.Lines {
		if !verifC27Suspect(l) {
			reduced = append(reduced, l)
		}
	}
	if len(reduced) == len(c.Lines) {
		return ""
	}
	raw := ""
	if len(reduced) > 0 {
		raw = strings.Join(reduced, "\n") + "\n"
	}
	out := string(sanitizeDesktopFile(e.info, e.desktopFile, []byte(raw)))
	if rest, _ := e.check(reduced, out); len(rest) > 0 {
		return ""
	}
	return verifC27IconClass
}

type verifC27ClassRep struct {
	c     verifC27Case
	msg   string
	count int64
}

func verifC27Size(c verifC27Case) int {
	n := len(c.Key)*1000 + len(c.Lines)*100000
	for _, l := range c.Lines {
		n += len(l)
	}
	return n
}

// ---- the line alphabets ----

func verifC27ExecLines() []string {
	cmds := []string{"foo.app", "foo.ap", "foo", "foo.app-2", "foo.apple", "foo.app-evil", "foo-evil", "foo.", "foo.bar", "bar.app", "foo_key.app", "foo+key.app", "FOO.APP", "/bin/sh", "env", "sh -c foo.app",
		"${SNAP}/bin/app", "/snap/bin/foo.app", "snap run foo.app", "env X=Y foo.app", "", " foo.app", "=foo.app", "\"foo.app\"", "foo.app\\"}
	tails := []string{"", " ", " %U", " --opt=${SNAP}/x", " ; rm -rf /", "\tevil", " \"quoted arg", " a\\nb", "\r", " x\rExec=evil", "\x00evil", " \x1b[0m", "=x"}
	var res []string
	for _, c := range cmds {
		for _, t := range tails {
			res = append(res, "Exec="+c+t)
		}
	}
	return res
}

func verifC27IconLines(maxTokens int) []string {
	toks := []string{"${SNAP}", "/", "..", "x", ".png", "snap.foo.", "snap.bar.", "snap.foo_key."}
	var res []string
	var rec func(cur string, left int)
	rec = func(cur string, left int) {
		res = append(res, "Icon="+cur)
		if left == 0 {
			return
		}
		for _, t := range toks {
			rec(cur+t, left-1)
		}
	}
	rec("", maxTokens)
	res = append(res, "Icon=${SNAP}/meta/gui/icon.png", "Icon=/usr/share/icons/x.png", "Icon=${SNAP}/a/./b.png", "Icon=${SNAP}//x.png", "Icon=${SNAP}/x.png/", "Icon=${SNAP}/a/../../../etc/x.png",
		"Icon=${SNAP}/x.png\r", "Icon=$SNAP/x.png", "Icon=${SNAP_DATA}/x.png", "Icon=~/x.png", "Icon=file:///etc/x.png", "Icon=snap.foo", "Icon=snap.", "Icon=snap.foobar.x", "Icon=Snap.bar.x", "Icon[en]=/etc/x.png", "Icon =/etc/x.png")
	return res
}

func verifC27OtherLines() []string {
	return []string{
		"[Desktop Entry]", "[Desktop Action foo-1]", "[x-1 Shortcut Group]", "[Desktop Entry] ", " [Desktop Entry]", "[Desktop  Entry]", "[Desktop Entry]x", "[desktop entry]", "[Desktop Action ../x]",
		"[Desktop Action ]", "[Desktop Action a b]", "[ Shortcut Group]", "[Other]", "[Desktop Entry", "[Desktop Entry]\r", "[Desktop Entry]\rExec=evil", "[${SNAP} Shortcut Group]",
		"Name=x", "Name[en_GB.UTF-8@latin]=x", "Name[en]=${SNAP}/x", "Name[en_GB]x=y", "Name[=x", "Name[en]]=x", "Name[]=x", "Name[EN]=x", "Name[en_gb]=x", "Name[en][de]=x", "Name[en\x00]=x", "NameX=x", "Name =x", " Name=x", "Name",
		"Comment[de]=${SNAP}/x", "Comment[de@euro]=x", "Keywords[x_Y]=a;b", "GenericName=x", "GenericName[sr@latin]=x", "Type=Application", "Version=1.0", "NoDisplay=true", "Hidden=false", "Hidden",
		"OnlyShowIn=GNOME;", "NotShowIn=KDE;", "Terminal=false", "Actions=a;", "MimeType=x/y", "Categories=x", "StartupNotify=true", "StartupWMClass=x", "PrefersNonDefaultGPU=1", "SingleMainWindow=1",
		"X-Ayatana-Desktop-Shortcuts=x", "TargetEnvironment=x",
		"X-Foo-Exec=evil", "TryExec=/bin/sh", "Exec[en]=evil", "exec=evil", "EXEC=evil", "XExec=evil", "DBusActivatable=true", "X-SnapInstanceName=evil", "X-SnapInstanceName=foo", "Path=/tmp", "URL=x",
		"X-GNOME-Autostart-enabled=true", "Implements=x", "X-Icon=/etc/x", "MyIcon=/etc/x", "Type[en]=x",
		"#comment Exec=evil", "  # c", "#", "", "   ", "\t", "\tExec=evil", "x # Exec", "\r", "\x0b", "\xc2\xa0", "Exec",
	}
}

func TestC27(t *testing.T) {
	r := eng.Start("C27", "exploration", 90*time.Second, 14*time.Minute)
	r.Assume("the oracle reads the output the way a launcher does: key = text before the first '=', Exec value split with the Desktop Entry quoting rules (g_shell_parse_argv subset)",
		"the allow list in the oracle is a hand-written transcription of the list in the statement's mechanism (wrappers/desktop.go), matched without regular expressions",
		"lines are what bufio.Scanner yields (split at \\n, one trailing \\r removed); files longer than 4 lines are not generated",
		"the name of the installed desktop file is <prefix>_<source base name>; source base names are restricted to [A-Za-z0-9.-] (see design_deviations)")

	if rc := r.ReplayCase(); rc != nil {
		var c verifC27Case
		if err := json.Unmarshal(rc, &c); err != nil {
			eng.HarnessError("replay: %v", err)
		}
		e := verifC27NewEnv(c.Key, c.DesktopBase)
		out := string(sanitizeDesktopFile(e.info, e.desktopFile, []byte(strings.Join(c.Lines, "\n")+"\n")))
		fmt.Printf("replay instance=%q installed file=%q\n  input lines: %q\n  output: %q\n", e.info.InstanceName(), e.desktopFile, c.Lines, out)
		probs, _ := e.check(c.Lines, out)
		for _, p := range probs {
			fmt.Printf("  PROBLEM: %s\n", p)
		}
		if len(probs) > 0 {
			k := e.classOf(c, probs)
			if k == "" {
				k = c.key()
			}
			r.Violation(k, strings.Join(probs, "; "), c)
		}
		r.Finish("replay")
	}

	iconTokens := r.Pick(4, 5)
	execLines := verifC27ExecLines()
	iconLines := verifC27IconLines(iconTokens)
	otherLines := verifC27OtherLines()
	var full []string
	full = append(full, otherLines...)
	full = append(full, execLines...)
	full = append(full, iconLines...)

	// reduced alphabets for multi-line files
	pick := func(src []string, every int) []string {
		var res []string
		for i := 0; i < len(src); i += every {
			res = append(res, src[i])
		}
		return res
	}
	medium := append(append(append([]string{}, otherLines...), pick(execLines, r.Pick(3, 1))...), pick(iconLines, r.Pick(31, 41))...)
	small := []string{"[Desktop Entry]", "[Desktop Action a]", "[Other]", "Name[en]=${SNAP}", "X-Foo-Exec=evil", "X-SnapInstanceName=evil", "Exec=foo.app %U", "Exec=foo.app-evil", "Exec=/bin/sh",
		"Icon=${SNAP}/x.png", "Icon=${SNAP}/../x.png", "Icon=/etc/x.png", "# c", ""}
	small = append(small, "Exec=foo", "Exec=foo.ap x", "Icon=snap.foo.x", "Icon=snap.bar.x", "TryExec=x", "[Desktop Entry]\r")
	if r.Thorough() {
		small = append(small, "Exec=foo.app\tevil", "Exec=foo_key.app", "Icon=${SNAP}x", "Icon=x", "Name=x", " [Desktop Entry]", "Exec=foo.app \"q", "Icon=${SNAP}/a/../x")
	}

	keys := []string{"", "key"}
	bases := []string{"app.desktop", "other-1.desktop"}

	var cases [][]string
	for _, l := range full {
		cases = append(cases, []string{l})
	}
	for _, a := range medium {
		for _, b := range medium {
			cases = append(cases, []string{a, b})
		}
	}
	for _, a := range small {
		for _, b := range small {
			for _, c := range small {
				cases = append(cases, []string{a, b, c})
				for _, d := range small {
					cases = append(cases, []string{a, b, c, d})
				}
			}
		}
	}
	r.Info("bounds", map[string]interface{}{"line_alphabet_full": len(full), "exec_lines": len(execLines), "icon_lines": len(iconLines), "icon_max_tokens": iconTokens, "other_lines": len(otherLines),
		"two_line_alphabet": len(medium), "three_four_line_alphabet": len(small), "files": len(cases), "snap_variants": keys, "desktop_file_bases": bases, "apps": verifC27AppNames})

	var evals, nontrivial, suppressed int64
	var classMu sync.Mutex
	classes := map[string]*verifC27ClassRep{}
	factTotals := map[string]*int64{}
	for _, f := range []string{"key:Exec", "key:Icon", "tag", "header-entry", "header-action", "header-shortcut", "blank", "comment", "exec-launches-own-wrapper", "exec-with-args", "exec-unparsable-quotes", "icon-path-inside", "icon-themed-name", "dropped-lines", "kept-lines"} {
		factTotals[f] = new(int64)
	}
	envs := map[string]*verifC27Env{}
	for _, k := range keys {
		for _, b := range bases {
			envs[k+"|"+b] = verifC27NewEnv(k, b)
		}
	}
	chunk := 2000
	nchunks := (len(cases) + chunk - 1) / chunk
	eng.ParallelFor(nchunks, func(ci int) {
		if r.TimeUp() {
			r.Cap("time", "stopped early")
			return
		}
		if r.NumViolations() >= 60 {
			r.Cap("violations", "enumeration stopped after 60 recorded violations")
			return
		}
		lo, hi := ci*chunk, (ci+1)*chunk
		if hi > len(cases) {
			hi = len(cases)
		}
		local := map[string]int64{}
		var ev, nt int64
		for _, lines := range cases[lo:hi] {
			raw := []byte(strings.Join(lines, "\n") + "\n")
			for _, k := range keys {
				for _, b := range bases {
					e := envs[k+"|"+b]
					// a fresh Info per call is not needed: sanitizeDesktopFile only reads it
					out := string(sanitizeDesktopFile(e.info, e.desktopFile, raw))
					ev++
					probs, facts := e.check(lines, out)
					if len(probs) > 0 {
						c := verifC27Case{Key: k, DesktopBase: b, Lines: lines}
						if ck := e.classOf(c, probs); ck != "" {
							classMu.Lock()
							rep := classes[ck]
							if rep == nil {
								rep = &verifC27ClassRep{c: c, msg: strings.Join(probs, "; ")}
								classes[ck] = rep
							} else if verifC27Size(c) < verifC27Size(rep.c) || (verifC27Size(c) == verifC27Size(rep.c) && c.key() < rep.c.key()) {
								rep.c, rep.msg = c, strings.Join(probs, "; ")
							}
							rep.count++
							classMu.Unlock()
						} else if r.NumViolations() >= 60 {
							atomic.AddInt64(&suppressed, 1)
						} else {
							r.Violation(c.key(), strings.Join(probs, "; "), c)
						}
					}
					interesting := false
					kept := 0
					for f, n := range facts {
						local[f] += int64(n)
						if f != "tag" {
							kept += n
						}
						if f == "key:Exec" || f == "key:Icon" || f == "tag" {
							interesting = true
						}
					}
					local["kept-lines"] += int64(kept)
					local["dropped-lines"] += int64(len(lines) - kept)
					if interesting || kept < len(lines) {
						nt++
					}
				}
			}
		}
		atomic.AddInt64(&evals, ev)
		atomic.AddInt64(&nontrivial, nt)
		for f, n := range local {
			if p := factTotals[f]; p != nil {
				atomic.AddInt64(p, n)
			}
		}
	})
	for ck, rep := range classes {
		r.Add("class_"+strings.NewReplacer(":", "_", "-", "_").Replace(ck)+"_instances", rep.count)
		if os.Getenv("VERIF_C27_SKIP_ICON_CLASS") != "" {
			continue // only for validating mutants while the finding is not yet listed in known-findings.txt
		}
		r.Violation(ck, fmt.Sprintf("%d inputs of this class; smallest: %s", rep.count, rep.msg), rep.c)
	}
	r.Add("evaluations", evals)
	r.Add("distinct_nontrivial", nontrivial)
	for f, p := range factTotals {
		r.Add("out_"+strings.NewReplacer(":", "_", "-", "_").Replace(f), *p)
		if *p > 0 {
			r.Distinct("output_fact", f)
		}
	}
	if suppressed > 0 {
		r.Add("violations_suppressed_after_60", suppressed)
	}
	r.Sample(verifC27Case{Key: "key", DesktopBase: "app.desktop", Lines: []string{"[Desktop Entry]", "Exec=foo.app %U", "Icon=${SNAP}/x.png", "X-Foo-Exec=evil"}})
	r.Sample(verifC27Case{Key: "", DesktopBase: "other-1.desktop", Lines: cases[len(cases)/2]})
	r.Sample(verifC27Case{Key: "key", DesktopBase: "app.desktop", Lines: cases[len(full)+len(medium)*3+5]})
	r.Finish("every 1-line file over the full line alphabet, every 2-line file over the medium alphabet, every 3- and 4-line file over the small alphabet, each for 2 snaps (with/without instance key) x 2 desktop file names; distinct_nontrivial = (file, snap, name) evaluations in which a line was dropped or an Exec/Icon/[Desktop Entry] line reached the output")
}
