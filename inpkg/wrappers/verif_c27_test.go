// C27 — generated desktop files can only launch the snap's own apps.
//
// In-package harness (needs the unexported sanitizeDesktopFile and deriveDesktopFilesContent).
// Exhaustive enumeration of desktop files built from a line alphabet (headers, allow-listed and other
// keys, locale suffixes, Exec commands x argument tails, Icon values as token sequences with ${SNAP}),
// for snaps with and without an instance key, with several apps whose names collide by prefix, and of
// the base NAME of the desktop file in meta/gui (plain, blank, tab, newline, quotes, backslash, %, =,
// $ and backtick, ;, #, ${SNAP}, non-ASCII), which the snap chooses and which ends up in every Exec
// line. The sanitizer is called directly and through files created in a temporary mount dir's meta/gui
// and the real deriveDesktopFilesContent. The oracle reads the *output* the way a desktop launcher does
// (Exec values with a reference reader of the Desktop Entry Specification's Exec syntax) and checks the
// statement's four clauses on every output line, plus provenance (every output line is explained by an
// input line, in order).
package wrappers

import (
	"encoding/json"
	"fmt"
	"os"
	"path/filepath"
	"strings"
	"sync"
	"sync/atomic"
	"testing"
	"time"

	"github.com/snapcore/snapd/dirs"
	"github.com/snapcore/snapd/osutil"
	"github.com/snapcore/snapd/snap"
	eng "github.com/snapcore/snapd/verifengine"
)

type verifC27Case struct {
	Key         string   `json:"instance_key"`
	DesktopBase string   `json:"desktop_file_base"`
	Lines       []string `json:"lines"`
	// Via: "" = sanitizeDesktopFile called directly with the installed name <prefix>_<base>;
	// "derive" = a file meta/gui/<base> created under a temporary mount dir and read by deriveDesktopFilesContent.
	Via string `json:"via,omitempty"`
}

func (c verifC27Case) key() string {
	if c.Via != "" {
		return fmt.Sprintf("via=%s:key=%q:file=%q:lines=%q", c.Via, c.Key, c.DesktopBase, c.Lines)
	}
	return fmt.Sprintf("key=%q:file=%q:lines=%q", c.Key, c.DesktopBase, c.Lines)
}

// The base name of the desktop file shipped in meta/gui is chosen by the snap and is copied into the
// installed file's name, and from there into every Exec line. It is a dimension of its own.
type verifC27Name struct{ Tag, Base string }

var verifC27Names = []verifC27Name{
	{"plain", "app.desktop"},
	{"plain-2", "other-1.desktop"},
	{"blank", "a sh -c id .desktop"},
	{"tab", "a\tsh.desktop"},
	{"newline", "a\nExec=sh -c id .desktop"},
	{"double-quote", "a\"b.desktop"},
	{"single-quote", "a'b.desktop"},
	{"backslash", "a\\ssh\\s-c\\sid\\s.desktop"}, // \s is the string-type escape for a blank
	{"percent", "a%fb%.desktop"},
	{"equals", "a=b.desktop"},
	{"dollar-backtick", "a$(id)`id`.desktop"},
	{"semicolon", "a;id;.desktop"},
	{"hash", "a#b.desktop"},
	{"snap-variable", "a${SNAP}b.desktop"}, // the sanitizer expands ${SNAP} in whole lines
	{"non-ascii", "a\u00f1\u65e5\u672c-\u00df.desktop"},
	{"mixed", "a \"b\\c$d`e%f;g#h'i\tj.desktop"},
}

func verifC27NameTag(base string) string {
	for _, n := range verifC27Names {
		if n.Base == base {
			return n.Tag
		}
	}
	return "other"
}

const verifC27NameClassPrefix = "exec:desktop-file-name-not-quoted:"

var verifC27AppNames = []string{"app", "ap", "foo", "app-2"}

func verifC27Snap(key string) *snap.Info { return verifC27SnapRev(key, 12) }

func verifC27SnapRev(key string, rev int) *snap.Info {
	info := &snap.Info{SuggestedName: "foo", InstanceKey: key}
	info.Revision = snap.R(rev)
	info.Apps = map[string]*snap.AppInfo{}
	for _, n := range verifC27AppNames {
		info.Apps[n] = &snap.AppInfo{Snap: info, Name: n, Command: "bin/" + n}
	}
	return info
}

// ---- reading the output like a launcher ----

var verifC27PlainKeys = []string{"Type", "Version", "NoDisplay", "Icon", "Hidden", "OnlyShowIn", "NotShowIn", "Exec", "Terminal", "Actions", "MimeType", "Categories",
	"StartupNotify", "StartupWMClass", "PrefersNonDefaultGPU", "SingleMainWindow", "X-Ayatana-Desktop-Shortcuts", "TargetEnvironment"}
var verifC27LocaleKeys = []string{"Name", "GenericName", "Comment", "Keywords"}

func verifC27IsSpace(b byte) bool {
	return b == ' ' || b == '\t' || b == '\n' || b == '\f' || b == '\r'
}

func verifC27All(s string, ok func(b byte) bool) bool {
	for i := 0; i < len(s); i++ {
		if !ok(s[i]) {
			return false
		}
	}
	return true
}

func verifC27Lower(b byte) bool { return b >= 'a' && b <= 'z' }
func verifC27Upper(b byte) bool { return b >= 'A' && b <= 'Z' }
func verifC27Digit(b byte) bool { return b >= '0' && b <= '9' }

// verifC27Locale: lang(_COUNTRY)?(.ENCODING)?(@modifier)? with the character classes of the statement's allow list
func verifC27Locale(s string) bool {
	i := 0
	n := 0
	for i < len(s) && verifC27Lower(s[i]) {
		i++
		n++
	}
	if n == 0 {
		return false
	}
	if i < len(s) && s[i] == '_' {
		i++
		n = 0
		for i < len(s) && verifC27Upper(s[i]) {
			i++
			n++
		}
		if n == 0 {
			return false
		}
	}
	if i < len(s) && s[i] == '.' {
		i++
		n = 0
		for i < len(s) && (verifC27Digit(s[i]) || verifC27Upper(s[i]) || s[i] == '-') {
			i++
			n++
		}
		if n == 0 {
			return false
		}
	}
	if i < len(s) && s[i] == '@' {
		i++
		n = 0
		for i < len(s) && verifC27Lower(s[i]) {
			i++
			n++
		}
		if n == 0 {
			return false
		}
	}
	return i == len(s)
}

// verifC27Classify says what an output line is: "blank", "comment", "header-entry", "header-action",
// "header-shortcut", "key:<Key>", "tag", or "" (not allow-listed).
func verifC27Classify(line string) string {
	if verifC27All(line, verifC27IsSpace) {
		return "blank"
	}
	if t := strings.TrimLeft(line, " \t\n\f\r"); strings.HasPrefix(t, "#") {
		return "comment"
	}
	alnumDash := func(b byte) bool { return verifC27Lower(b) || verifC27Upper(b) || verifC27Digit(b) || b == '-' }
	if line == "[Desktop Entry]" {
		return "header-entry"
	}
	if strings.HasPrefix(line, "[Desktop Action ") && strings.HasSuffix(line, "]") {
		id := line[len("[Desktop Action ") : len(line)-1]
		if len(id) > 0 && verifC27All(id, alnumDash) {
			return "header-action"
		}
	}
	if strings.HasPrefix(line, "[") && strings.HasSuffix(line, " Shortcut Group]") {
		id := line[1 : len(line)-len(" Shortcut Group]")]
		if len(id) > 0 && verifC27All(id, alnumDash) {
			return "header-shortcut"
		}
	}
	if strings.HasPrefix(line, "X-SnapInstanceName=") {
		return "tag"
	}
	eq := strings.IndexByte(line, '=')
	if eq < 0 {
		return ""
	}
	k := line[:eq]
	for _, p := range verifC27PlainKeys {
		if k == p {
			return "key:" + p
		}
	}
	for _, p := range verifC27LocaleKeys {
		if k == p {
			return "key:" + p
		}
		if strings.HasPrefix(k, p+"[") && strings.HasSuffix(k, "]") && verifC27Locale(k[len(p)+1:len(k)-1]) {
			return "key:" + p
		}
	}
	return ""
}

// verifC27Argv splits an Exec value the way the Desktop Entry specification / g_shell_parse_argv do
// (space separated, double and single quotes, backslash escapes). ok=false: not launchable at all.
func verifC27Argv(v string) (argv []string, ok bool) {
	var cur strings.Builder
	in := false
	i := 0
	for i < len(v) {
		c := v[i]
		switch {
		case c == ' ' || c == '\t' || c == '\n':
			if in {
				argv = append(argv, cur.String())
				cur.Reset()
				in = false
			}
			i++
		case c == '"':
			in = true
			i++
			closed := false
			for i < len(v) {
				if v[i] == '\\' && i+1 < len(v) {
					cur.WriteByte(v[i+1])
					i += 2
					continue
				}
				if v[i] == '"' {
					closed = true
					i++
					break
				}
				cur.WriteByte(v[i])
				i++
			}
			if !closed {
				return nil, false
			}
		case c == '\'':
			in = true
			i++
			j := strings.IndexByte(v[i:], '\'')
			if j < 0 {
				return nil, false
			}
			cur.WriteString(v[i : i+j])
			i += j + 1
		case c == '\\':
			in = true
			if i+1 < len(v) {
				cur.WriteByte(v[i+1])
				i += 2
			} else {
				return nil, false
			}
		default:
			in = true
			cur.WriteByte(c)
			i++
		}
	}
	if in {
		argv = append(argv, cur.String())
	}
	return argv, true
}

// ---- reference reader of the Exec key (Desktop Entry Specification, "Value types" and "The Exec key") ----
//
// 1. Exec is of type string: the escape sequences \s \n \t \r \\ stand for blank, newline, tab, CR and
//    backslash; this pass runs BEFORE the quoting rules.
// 2. The command line is split into arguments at blanks (the reader also splits at tab and newline, as
//    GLib does). An argument may be quoted in whole with double quotes; inside, \" \` \$ \\ stand for
//    the second character. An argument that contains a reserved character (blank tab newline " ' \ > < ~
//    | & ; $ * ? # ( ) `) must be quoted.
// 3. After the quoting is undone: %% is a literal percent sign, %f %F %u %U %i %c %k (and the
//    deprecated %d %D %n %N %v %m) are field codes; field codes inside a quoted argument are undefined.
//
// Where the specification leaves the result undefined the reader goes on (a reserved character is kept
// as it is) and records a flaw on the argument; the oracle accepts no flaw in the arguments the
// sanitizer generates itself (env, the assignment, the wrapper) and ignores flaws in the arguments the
// snap supplied (the statement allows arbitrary arguments).

const verifC27Reserved = " \t\n\"'\\><~|&;$*?#()`"

type verifC27Word struct {
	Text     string   // what the program receives: quoting undone, %% -> %, field codes taken out
	Quoted   bool     // quoted in whole
	RawStart int      // extent of the argument in the raw value
	RawEnd   int      //
	Flaws    []string // departures from the specification
	Codes    []string // field codes found in it
}

type verifC27ExecLine struct {
	Words []verifC27Word
	Fatal string // the value cannot be split at all (unterminated quote in the last word)
}

type verifC27Ch struct {
	c      byte
	rawEnd int // offset in the raw value just behind the bytes that stand for c
}

func verifC27StringPass(v string) []verifC27Ch {
	res := make([]verifC27Ch, 0, len(v))
	for i := 0; i < len(v); i++ {
		if v[i] == '\\' && i+1 < len(v) {
			m := byte(0)
			switch v[i+1] {
			case 's':
				m = ' '
			case 'n':
				m = '\n'
			case 't':
				m = '\t'
			case 'r':
				m = '\r'
			case '\\':
				m = '\\'
			}
			if m != 0 {
				res = append(res, verifC27Ch{m, i + 2})
				i++
				continue
			}
			// undefined escape sequence: both characters are kept (GLib does the same)
		}
		res = append(res, verifC27Ch{v[i], i + 1})
	}
	return res
}

func verifC27Unescaped(v string) string {
	cs := verifC27StringPass(v)
	b := make([]byte, len(cs))
	for i, c := range cs {
		b[i] = c.c
	}
	return string(b)
}

func verifC27ParseExec(v string) verifC27ExecLine {
	s := verifC27StringPass(v)
	sep := func(c byte) bool { return c == ' ' || c == '\t' || c == '\n' }
	rawStart := func(i int) int {
		if i == 0 {
			return 0
		}
		return s[i-1].rawEnd
	}
	var res verifC27ExecLine
	i := 0
	for {
		for i < len(s) && sep(s[i].c) {
			i++
		}
		if i >= len(s) {
			return res
		}
		w := verifC27Word{RawStart: rawStart(i)}
		flaw := func(f string) {
			for _, x := range w.Flaws {
				if x == f {
					return
				}
			}
			w.Flaws = append(w.Flaws, f)
		}
		var text []byte
		var quoted []bool
		first := true
		for i < len(s) && !sep(s[i].c) {
			c := s[i].c
			if c == '"' {
				if first {
					w.Quoted = true
				} else {
					w.Quoted = false
					flaw("a double quote inside an argument (arguments may only be quoted in whole)")
				}
				first = false
				i++
				closed := false
				for i < len(s) {
					c = s[i].c
					if c == '\\' {
						if i+1 < len(s) && strings.IndexByte("\"`$\\", s[i+1].c) >= 0 {
							text, quoted = append(text, s[i+1].c), append(quoted, true)
							i += 2
							continue
						}
						flaw("a backslash in a quoted argument that does not escape one of \" ` $ \\")
					} else if c == '"' {
						closed = true
						i++
						break
					} else if c == '`' || c == '$' {
						flaw(fmt.Sprintf("an unescaped %q in a quoted argument", string(c)))
					}
					text, quoted = append(text, c), append(quoted, true)
					i++
				}
				if !closed {
					flaw("unterminated double quote")
					w.Text, w.RawEnd = string(text), len(v)
					res.Words = append(res.Words, w)
					res.Fatal = "unterminated double quote"
					return res
				}
				if i < len(s) && !sep(s[i].c) {
					w.Quoted = false
					flaw("characters follow the closing quote (arguments may only be quoted in whole)")
				}
				continue
			}
			first = false
			if strings.IndexByte(verifC27Reserved, c) >= 0 {
				flaw(fmt.Sprintf("the reserved character %q outside quotes", string(c)))
			}
			text, quoted = append(text, c), append(quoted, false)
			i++
		}
		w.RawEnd = rawStart(i)
		// field codes, after the quoting has been undone
		var out []byte
		for j := 0; j < len(text); j++ {
			if text[j] != '%' {
				out = append(out, text[j])
				continue
			}
			if j+1 < len(text) && text[j+1] == '%' {
				out = append(out, '%')
				j++
				continue
			}
			if j+1 < len(text) && strings.IndexByte("fFuUickdDnNvm", text[j+1]) >= 0 {
				w.Codes = append(w.Codes, string(text[j:j+2]))
				if quoted[j] {
					flaw("a field code inside a quoted argument")
				}
				j++
				continue
			}
			flaw("a percent sign that is neither %% nor a field code")
			out = append(out, '%')
		}
		w.Text = string(out)
		res.Words = append(res.Words, w)
	}
}

func verifC27Texts(ws []verifC27Word) []string {
	res := make([]string, len(ws))
	for i, w := range ws {
		res[i] = w.Text
	}
	return res
}

// verifC27PlainArg: the argument can stand in an Exec value as it is.
func verifC27PlainArg(a string) bool {
	for i := 0; i < len(a); i++ {
		if a[i] < 0x20 || a[i] == 0x7f || a[i] == '%' || strings.IndexByte(verifC27Reserved, a[i]) >= 0 {
			return false
		}
	}
	return true
}

func verifC27IsAssignment(w verifC27Word) bool {
	return strings.IndexByte(w.Text, '=') > 0 && w.Text[0] != '-'
}

// judgeExec reads an Exec value of the output with the reference reader: env, then exactly one
// assignment BAMF_DESKTOP_FILE_HINT=<installed file>, then the program, which must be the wrapper of
// one of the snap's own apps; none of these generated arguments may have a flaw or a field code.
func (e *verifC27Env) judgeExec(v string) (problems []string, facts []string) {
	p := verifC27ParseExec(v)
	bad := func(format string, a ...interface{}) { problems = append(problems, fmt.Sprintf(format, a...)) }
	argv := verifC27Texts(p.Words)
	if len(p.Words) == 0 {
		bad("Exec value %q names no program", v)
		return
	}
	generated := func(w verifC27Word, what string) {
		if len(w.Flaws) > 0 {
			bad("Exec value %q: the generated argument %s (%q) does not follow the Exec syntax: %s", v, what, v[w.RawStart:w.RawEnd], strings.Join(w.Flaws, "; "))
		}
		if len(w.Codes) > 0 {
			bad("Exec value %q: the generated argument %s (%q) contains the field codes %q, which the launcher replaces", v, what, v[w.RawStart:w.RawEnd], w.Codes)
		}
	}
	incomplete := func(i int) bool { return p.Fatal != "" && i == len(p.Words)-1 }
	if w := p.Words[0]; w.Text != "env" || v[w.RawStart:w.RawEnd] != "env" || incomplete(0) {
		bad("Exec value %q does not start with the word env (argv %q)", v, argv)
		return
	}
	i := 1
	var assigns []string
	for i < len(p.Words) && !incomplete(i) && verifC27IsAssignment(p.Words[i]) {
		generated(p.Words[i], "environment assignment")
		assigns = append(assigns, p.Words[i].Text)
		i++
	}
	hint := "BAMF_DESKTOP_FILE_HINT=" + e.desktopFile
	if len(assigns) != 1 || assigns[0] != hint {
		bad("Exec value %q: the environment assignments are %q, not exactly %q", v, assigns, hint)
	}
	if i >= len(p.Words) {
		bad("Exec value %q names no program for env to start (argv %q)", v, argv)
		return
	}
	if incomplete(i) {
		bad("Exec value %q cannot be split into arguments (%s) before a program is named (argv so far %q)", v, p.Fatal, argv)
		return
	}
	prog := p.Words[i]
	if !e.wrappers[prog.Text] {
		bad("Exec value %q starts the program %q (argv %q), not the wrapper of one of the snap's own apps", v, prog.Text, argv)
		return
	}
	generated(prog, "program")
	if p.Fatal != "" {
		facts = append(facts, "exec-unparsable-quotes")
	}
	if len(problems) == 0 {
		facts = append(facts, "exec-launches-own-wrapper")
		if len(p.Words) > i+1 {
			facts = append(facts, "exec-with-args")
		}
		if p.Words[1].Quoted {
			facts = append(facts, "exec-hint-quoted")
		}
	}
	return
}

type verifC27Env struct {
	info        *snap.Info
	base        string
	ref         *verifC27Env // same snap, plain file name (nil for the plain name itself)
	desktopFile string
	mountDir    string
	wrappers    map[string]bool
	validCmds   map[string]string // command as written in the source desktop file -> wrapper path
}

func verifC27NewEnv(key, base string) *verifC27Env { return verifC27NewEnvRev(key, base, 12) }

func verifC27NewEnvRev(key, base string, rev int) *verifC27Env {
	info := verifC27SnapRev(key, rev)
	e := &verifC27Env{info: info, base: base, mountDir: info.MountDir(), wrappers: map[string]bool{}, validCmds: map[string]string{}}
	e.desktopFile = filepath.Join(dirs.SnapDesktopFilesDir, fmt.Sprintf("%s_%s", info.DesktopPrefix(), base))
	if base != verifC27Names[0].Base {
		e.ref = verifC27NewEnvRev(key, verifC27Names[0].Base, rev)
	}
	for _, n := range verifC27AppNames {
		w := filepath.Join(dirs.SnapBinariesDir, snap.JoinSnapApp(info.InstanceName(), n))
		e.wrappers[w] = true
		e.validCmds[snap.JoinSnapApp("foo", n)] = w
	}
	return e
}

func (e *verifC27Env) subst(s string) string { return strings.ReplaceAll(s, "${SNAP}", e.mountDir) }

// explains: can output line out be the sanitised form of input line in?
func (e *verifC27Env) explains(in, out string) bool {
	in = strings.TrimSuffix(in, "\r")
	if out == e.subst(in) {
		return true
	}
	if strings.HasPrefix(in, "Exec=") && strings.HasPrefix(out, "Exec=") {
		// "env <the hint assignment, as one well-formed argument> <wrapper>" + the input's arguments
		v := out[len("Exec="):]
		p := verifC27ParseExec(v)
		if len(p.Words) < 3 {
			return false
		}
		w1, w2 := p.Words[1], p.Words[2]
		hint := "BAMF_DESKTOP_FILE_HINT=" + e.desktopFile
		if v[:w1.RawStart] != "env " || v[w1.RawEnd:w2.RawStart] != " " || w1.Text != hint || len(w1.Flaws) > 0 || len(w1.Codes) > 0 {
			return false
		}
		if verifC27PlainArg(hint) && v[w1.RawStart:w1.RawEnd] != hint {
			return false // a name that needs no quoting is written as it is (the literal prefix of the first version of this check)
		}
		wrapper, rest := v[w2.RawStart:w2.RawEnd], v[w2.RawEnd:]
		cmd := in[len("Exec="):]
		for vc, w := range e.validCmds {
			if wrapper != w {
				continue
			}
			if cmd == vc && rest == "" {
				return true
			}
			if strings.HasPrefix(cmd, vc+" ") && rest == e.subst(cmd[len(vc):]) {
				return true
			}
		}
		// fallback documented in the code: the app named like the desktop file, without arguments
		return e.wrappers[wrapper] && rest == ""
	}
	if p := "Icon=snap.foo."; strings.HasPrefix(in, p) {
		return out == "Icon=snap."+e.info.InstanceName()+"."+e.subst(in[len(p):])
	}
	return false
}

// verifC27Check applies the oracle to one sanitised output; returns a list of problems.
func (e *verifC27Env) check(lines []string, output string) (problems []string, facts map[string]int) {
	facts = map[string]int{}
	if output != "" && !strings.HasSuffix(output, "\n") {
		problems = append(problems, "output does not end with a newline")
	}
	outLines := strings.Split(strings.TrimSuffix(output, "\n"), "\n")
	if output == "" {
		outLines = nil
	}
	inIdx := 0
	for oi := 0; oi < len(outLines); oi++ {
		ol := outLines[oi]
		class := verifC27Classify(ol)
		if class == "" {
			problems = append(problems, fmt.Sprintf("output line %q is not an allow-listed key or section header", ol))
			continue
		}
		facts[class]++
		if class == "tag" {
			if oi == 0 || outLines[oi-1] != "[Desktop Entry]" {
				problems = append(problems, fmt.Sprintf("X-SnapInstanceName line %q does not directly follow a [Desktop Entry] header", ol))
			}
			if ol != "X-SnapInstanceName="+e.info.InstanceName() {
				problems = append(problems, fmt.Sprintf("tag line %q does not name the instance %q", ol, e.info.InstanceName()))
			}
			continue
		}
		if class == "header-entry" {
			if oi+1 >= len(outLines) || outLines[oi+1] != "X-SnapInstanceName="+e.info.InstanceName() {
				problems = append(problems, "[Desktop Entry] header is not followed by X-SnapInstanceName="+e.info.InstanceName())
			}
		}
		// provenance: consume input lines until one explains this output line
		found := false
		for inIdx < len(lines) {
			in := lines[inIdx]
			inIdx++
			if e.explains(in, ol) {
				found = true
				break
			}
		}
		if !found {
			problems = append(problems, fmt.Sprintf("output line %q is not the sanitised form of any remaining input line", ol))
		}
		switch class {
		case "key:Exec":
			v := ol[len("Exec="):]
			// (1) the reference reader of the Exec syntax
			probs, fs := e.judgeExec(v)
			problems = append(problems, probs...)
			for _, f := range fs {
				facts[f]++
			}
			// (2) a name that needs no quoting appears literally (first version of this check)
			if hint := "BAMF_DESKTOP_FILE_HINT=" + e.desktopFile; verifC27PlainArg(hint) {
				pre := "env " + hint + " "
				okLiteral := false
				if strings.HasPrefix(v, pre) {
					rest := v[len(pre):]
					for w := range e.wrappers {
						if rest == w || strings.HasPrefix(rest, w+" ") {
							okLiteral = true
						}
					}
				}
				if !okLiteral {
					problems = append(problems, fmt.Sprintf("Exec value %q is not 'env BAMF_DESKTOP_FILE_HINT=<installed file> <own wrapper>[ args]'", v))
				}
			}
			// (3) second opinion: a shell-like splitter (g_shell_parse_argv subset: also single quotes and
			// backslash outside quotes) on the value after the string-type escapes have been undone
			argv, launchable := verifC27Argv(verifC27Unescaped(v))
			if launchable {
				if len(argv) < 3 || argv[0] != "env" || !strings.HasPrefix(argv[1], "BAMF_DESKTOP_FILE_HINT=") || !e.wrappers[argv[2]] {
					problems = append(problems, fmt.Sprintf("Exec value %q launches %q for a shell-like splitter, not a wrapper of the snap's own apps", v, argv))
				}
			} else if len(probs) == 0 && facts["exec-unparsable-quotes"] == 0 {
				facts["exec-unparsable-for-shell-like-splitter"]++
			}
		case "key:Icon":
			v := ol[len("Icon="):]
			if strings.Contains(v, "/") {
				cl := filepath.Clean(v)
				if !filepath.IsAbs(v) || !(cl == e.mountDir || strings.HasPrefix(cl, e.mountDir+"/")) {
					problems = append(problems, fmt.Sprintf("%sIcon path %q (clean: %q) does not lie inside the snap (%s)", verifC27IconMark, v, cl, e.mountDir))
				} else {
					facts["icon-path-inside"]++
				}
			} else {
				facts["icon-themed-name"]++
			}
		}
	}
	return problems, facts
}

const verifC27IconMark = "ICON-OUTSIDE: "

// verifC27IconClass is the canonical key of the one failure class with a common root cause: the
// sanitiser validates the Icon value BEFORE it expands ${SNAP}, so a ${SNAP} that is not the leading
// path element ("${SNAP}x", "x${SNAP}", "${SNAP}/..${SNAP}") yields a path outside the snap.
const verifC27IconClass = "icon:snap-variable-expanded-after-validation"

func verifC27Suspect(line string) bool {
	if !strings.HasPrefix(line, "Icon=") {
		return false
	}
	v := line[len("Icon="):]
	if strings.HasPrefix(v, "${SNAP}/") {
		return strings.Contains(v[len("${SNAP}/"):], "${SNAP}") // passes as a path, a later ${SNAP} is expanded afterwards
	}
	return !strings.Contains(v, "/") && strings.Contains(v, "${SNAP}") // passes as a theme name, ${SNAP} is expanded afterwards
}

// verifC27Class attributes a failing file to the class iff all its problems are icon-outside problems
// and they all disappear when the suspect Icon lines are taken out of the input (delta attribution).
// Everything else is keyed by the complete input.
func (e *verifC27Env) classOf(c verifC27Case, probs []string) string {
	for _, p := range probs {
		if !strings.HasPrefix(p, verifC27IconMark) {
			return ""
		}
	}
	var reduced []string
	for _, l := range c.Lines {
		if !verifC27Suspect(l) {
			reduced = append(reduced, l)
		}
	}
	if len(reduced) == len(c.Lines) {
		return ""
	}
	raw := ""
	if len(reduced) > 0 {
		raw = strings.Join(reduced, "\n") + "\n"
	}
	out := string(sanitizeDesktopFile(e.info, e.desktopFile, []byte(raw)))
	if rest, _ := e.check(reduced, out); len(rest) > 0 {
		return ""
	}
	return verifC27IconClass
}

// nameClassOf attributes a failing (file content, file name) to the class of its file name iff the very
// same content under the plain name "app.desktop" has no problem at all (delta attribution): then the
// name is what broke it. One canonical key per name of the alphabet.
func (e *verifC27Env) nameClassOf(c verifC27Case, probs []string) string {
	tag := verifC27NameTag(c.DesktopBase)
	if e.ref == nil || tag == "other" || strings.HasPrefix(tag, "plain") {
		return ""
	}
	raw := ""
	if len(c.Lines) > 0 {
		raw = strings.Join(c.Lines, "\n") + "\n"
	}
	out := string(sanitizeDesktopFile(e.ref.info, e.ref.desktopFile, []byte(raw)))
	if rest, _ := e.ref.check(c.Lines, out); len(rest) > 0 {
		return ""
	}
	return verifC27NameClassPrefix + tag
}

type verifC27ClassRep struct {
	c     verifC27Case
	msg   string
	count int64
}

func verifC27Size(c verifC27Case) int {
	n := len(c.Key)*1000 + len(c.Lines)*100000 + len(c.Via)*10000
	for _, l := range c.Lines {
		n += len(l)
	}
	return n
}

// verifC27Derive creates meta/gui/<base> for every base under the snap's mount dir (below the current
// dirs root) with the given content and returns what the real deriveDesktopFilesContent makes of them:
// installed base name -> content.
func verifC27Derive(info *snap.Info, bases []string, raw []byte) (map[string]string, error) {
	gui := filepath.Join(info.MountDir(), "meta", "gui")
	if err := os.MkdirAll(gui, 0755); err != nil {
		return nil, err
	}
	for _, b := range bases {
		if err := os.WriteFile(filepath.Join(gui, b), raw, 0644); err != nil {
			return nil, err
		}
	}
	content, err := deriveDesktopFilesContent(info)
	if err != nil {
		return nil, fmt.Errorf("deriveDesktopFilesContent: %v", err)
	}
	res := map[string]string{}
	for name, fs := range content {
		m, ok := fs.(*osutil.MemoryFileState)
		if !ok {
			return nil, fmt.Errorf("deriveDesktopFilesContent: %q is a %T", name, fs)
		}
		res[name] = string(m.Content)
	}
	return res, nil
}

// ---- the line alphabets ----

var verifC27ExecCmds = []string{"foo.app", "foo.ap", "foo", "foo.app-2", "foo.apple", "foo.app-evil", "foo-evil", "foo.", "foo.bar", "bar.app", "foo_key.app", "foo+key.app", "FOO.APP", "/bin/sh", "env", "sh -c foo.app",
	"${SNAP}/bin/app", "/snap/bin/foo.app", "snap run foo.app", "env X=Y foo.app", "", " foo.app", "=foo.app", "\"foo.app\"", "foo.app\\"}

func verifC27ExecLines() []string { return verifC27ExecLinesFor(verifC27ExecCmds) }

func verifC27ExecLinesFor(cmds []string) []string {
	tails := []string{"", " ", " %U", " --opt=${SNAP}/x", " ; rm -rf /", "\tevil", " \"quoted arg", " a\\nb", "\r", " x\rExec=evil", "\x00evil", " \x1b[0m", "=x"}
	var res []string
	for _, c := range cmds {
		for _, t := range tails {
			res = append(res, "Exec="+c+t)
		}
	}
	return res
}

func verifC27IconLines(maxTokens int) []string {
	toks := []string{"${SNAP}", "/", "..", "x", ".png", "snap.foo.", "snap.bar.", "snap.foo_key."}
	var res []string
	var rec func(cur string, left int)
	rec = func(cur string, left int) {
		res = append(res, "Icon="+cur)
		if left == 0 {
			return
		}
		for _, t := range toks {
			rec(cur+t, left-1)
		}
	}
	rec("", maxTokens)
	res = append(res, "Icon=${SNAP}/meta/gui/icon.png", "Icon=/usr/share/icons/x.png", "Icon=${SNAP}/a/./b.png", "Icon=${SNAP}//x.png", "Icon=${SNAP}/x.png/", "Icon=${SNAP}/a/../../../etc/x.png",
		"Icon=${SNAP}/x.png\r", "Icon=$SNAP/x.png", "Icon=${SNAP_DATA}/x.png", "Icon=~/x.png", "Icon=file:///etc/x.png", "Icon=snap.foo", "Icon=snap.", "Icon=snap.foobar.x", "Icon=Snap.bar.x", "Icon[en]=/etc/x.png", "Icon =/etc/x.png")
	return res
}

func verifC27OtherLines() []string {
	return []string{
		"[Desktop Entry]", "[Desktop Action foo-1]", "[x-1 Shortcut Group]", "[Desktop Entry] ", " [Desktop Entry]", "[Desktop  Entry]", "[Desktop Entry]x", "[desktop entry]", "[Desktop Action ../x]",
		"[Desktop Action ]", "[Desktop Action a b]", "[ Shortcut Group]", "[Other]", "[Desktop Entry", "[Desktop Entry]\r", "[Desktop Entry]\rExec=evil", "[${SNAP} Shortcut Group]",
		"Name=x", "Name[en_GB.UTF-8@latin]=x", "Name[en]=${SNAP}/x", "Name[en_GB]x=y", "Name[=x", "Name[en]]=x", "Name[]=x", "Name[EN]=x", "Name[en_gb]=x", "Name[en][de]=x", "Name[en\x00]=x", "NameX=x", "Name =x", " Name=x", "Name",
		"Comment[de]=${SNAP}/x", "Comment[de@euro]=x", "Keywords[x_Y]=a;b", "GenericName=x", "GenericName[sr@latin]=x", "Type=Application", "Version=1.0", "NoDisplay=true", "Hidden=false", "Hidden",
		"OnlyShowIn=GNOME;", "NotShowIn=KDE;", "Terminal=false", "Actions=a;", "MimeType=x/y", "Categories=x", "StartupNotify=true", "StartupWMClass=x", "PrefersNonDefaultGPU=1", "SingleMainWindow=1",
		"X-Ayatana-Desktop-Shortcuts=x", "TargetEnvironment=x",
		"X-Foo-Exec=evil", "TryExec=/bin/sh", "Exec[en]=evil", "exec=evil", "EXEC=evil", "XExec=evil", "DBusActivatable=true", "X-SnapInstanceName=evil", "X-SnapInstanceName=foo", "Path=/tmp", "URL=x",
		"X-GNOME-Autostart-enabled=true", "Implements=x", "X-Icon=/etc/x", "MyIcon=/etc/x", "Type[en]=x",
		"#comment Exec=evil", "  # c", "#", "", "   ", "\t", "\tExec=evil", "x # Exec", "\r", "\x0b", "\xc2\xa0", "Exec",
	}
}

func verifC27Raw(lines []string) []byte { return []byte(strings.Join(lines, "\n") + "\n") }

type verifC27Item struct {
	lines []string
	names int // 0: the two plain names; 1: every name; 2: every name but the two plain ones
}

func TestC27(t *testing.T) {
	r := eng.Start("C27", "exploration", 90*time.Second, 14*time.Minute)
	r.Assume("the oracle reads the output the way a launcher does: key = text before the first '=', Exec value read by a reference reader of the Desktop Entry Specification's Exec syntax written for this check (string-type escapes, then splitting at blanks with double-quote quoting and reserved characters, then %% and field codes), and a second time by a shell-like splitter (g_shell_parse_argv subset)",
		"the allow list in the oracle is a hand-written transcription of the list in the statement's mechanism (wrappers/desktop.go), matched without regular expressions",
		"lines are what bufio.Scanner yields (split at \\n, one trailing \\r removed); files longer than 4 lines are not generated",
		"the name of the installed desktop file is <prefix>_<source base name>; source base names come from a 16-name alphabet (no '/' or NUL, which a file name cannot contain)",
		"env starts the first argument that is not NAME=value and does not start with '-'")

	allBases := make([]string, len(verifC27Names))
	for i, n := range verifC27Names {
		allBases[i] = n.Base
	}

	if rc := r.ReplayCase(); rc != nil {
		var c verifC27Case
		if err := json.Unmarshal(rc, &c); err != nil {
			eng.HarnessError("replay: %v", err)
		}
		var e *verifC27Env
		var out string
		if c.Via == "derive" {
			dirs.SetRootDir(t.TempDir())
			e = verifC27NewEnvRev(c.Key, c.DesktopBase, 100)
			got, err := verifC27Derive(e.info, []string{c.DesktopBase}, verifC27Raw(c.Lines))
			if err != nil {
				eng.HarnessError("replay: %v", err)
			}
			var ok bool
			if out, ok = got[filepath.Base(e.desktopFile)]; !ok || len(got) != 1 {
				eng.HarnessError("replay: deriveDesktopFilesContent returned %q, expected the one file %q", got, filepath.Base(e.desktopFile))
			}
		} else {
			e = verifC27NewEnv(c.Key, c.DesktopBase)
			out = string(sanitizeDesktopFile(e.info, e.desktopFile, verifC27Raw(c.Lines)))
		}
		fmt.Printf("replay instance=%q installed file=%q\n  input lines: %q\n  output: %q\n", e.info.InstanceName(), e.desktopFile, c.Lines, out)
		for _, ol := range strings.Split(strings.TrimSuffix(out, "\n"), "\n") {
			if strings.HasPrefix(ol, "Exec=") {
				p := verifC27ParseExec(ol[len("Exec="):])
				fmt.Printf("  %q\n    argv (Desktop Entry Specification): %q", ol, verifC27Texts(p.Words))
				if p.Fatal != "" {
					fmt.Printf(" [%s]", p.Fatal)
				}
				argv, ok := verifC27Argv(verifC27Unescaped(ol[len("Exec="):]))
				fmt.Printf("\n    argv (shell-like splitter): %q launchable=%v\n", argv, ok)
			}
		}
		probs, _ := e.check(c.Lines, out)
		for _, p := range probs {
			fmt.Printf("  PROBLEM: %s\n", p)
		}
		if len(probs) > 0 {
			k := e.classOf(c, probs)
			if k == "" {
				k = e.nameClassOf(c, probs)
			}
			if k == "" {
				k = c.key()
			}
			r.Violation(k, strings.Join(probs, "; "), c)
		}
		r.Finish("replay")
	}

	iconTokens := r.Pick(4, 5)
	execLines := verifC27ExecLines()
	iconLines := verifC27IconLines(iconTokens)
	otherLines := verifC27OtherLines()
	var full []string
	full = append(full, otherLines...)
	full = append(full, execLines...)
	full = append(full, iconLines...)

	// reduced alphabets for multi-line files
	pick := func(src []string, every int) []string {
		var res []string
		for i := 0; i < len(src); i += every {
			res = append(res, src[i])
		}
		return res
	}
	medium := append(append(append([]string{}, otherLines...), pick(execLines, r.Pick(3, 1))...), pick(iconLines, r.Pick(31, 41))...)
	small := []string{"[Desktop Entry]", "[Desktop Action a]", "[Other]", "Name[en]=${SNAP}", "X-Foo-Exec=evil", "X-SnapInstanceName=evil", "Exec=foo.app %U", "Exec=foo.app-evil", "Exec=/bin/sh",
		"Icon=${SNAP}/x.png", "Icon=${SNAP}/../x.png", "Icon=/etc/x.png", "# c", ""}
	small = append(small, "Exec=foo", "Exec=foo.ap x", "Icon=snap.foo.x", "Icon=snap.bar.x", "TryExec=x", "[Desktop Entry]\r")
	if r.Thorough() {
		small = append(small, "Exec=foo.app\tevil", "Exec=foo_key.app", "Icon=${SNAP}x", "Icon=x", "Name=x", " [Desktop Entry]", "Exec=foo.app \"q", "Icon=${SNAP}/a/../x")
	}
	// alphabets for the multi-line files that are run under every file name: the Exec lines of a few
	// commands (thorough: of all) with every argument tail, and a few lines of the other kinds
	nameLines := []string{"[Desktop Entry]", "[Desktop Action a]", "Name=x", "# c", "", "X-Foo-Exec=evil", "Icon=${SNAP}/x.png", "Exec=/bin/sh"}
	if r.Thorough() {
		nameLines = append(nameLines, execLines...)
	} else {
		nameLines = append(nameLines, verifC27ExecLinesFor([]string{"foo.app", "foo", "foo.app-evil", "foo_key.app"})...)
	}
	tiny := []string{"[Desktop Entry]", "Exec=foo.app %U", "Exec=foo \"q", "Exec=/bin/sh", "Icon=${SNAP}/x.png", "# c", "Exec=foo.ap --opt=${SNAP}/x", "X-Foo-Exec=evil"}
	if r.Thorough() {
		tiny = append(tiny, "Exec=foo_key.app", "Exec=foo.app\tevil", "", "Exec=foo.app a\\nb")
	}

	keys := []string{"", "key"}

	// order: what runs under every name first, so that a time cap on a loaded machine cuts the plain-name bulk
	var cases []verifC27Item
	for _, l := range full {
		cases = append(cases, verifC27Item{[]string{l}, 1})
	}
	for _, a := range nameLines {
		for _, b := range nameLines {
			cases = append(cases, verifC27Item{[]string{a, b}, 2})
		}
	}
	for _, a := range tiny {
		for _, b := range tiny {
			for _, c := range tiny {
				cases = append(cases, verifC27Item{[]string{a, b, c}, 2})
			}
		}
	}
	legacyStart := len(cases)
	for _, a := range medium {
		for _, b := range medium {
			cases = append(cases, verifC27Item{[]string{a, b}, 0})
		}
	}
	for _, a := range small {
		for _, b := range small {
			for _, c := range small {
				cases = append(cases, verifC27Item{[]string{a, b, c}, 0})
				for _, d := range small {
					cases = append(cases, verifC27Item{[]string{a, b, c, d}, 0})
				}
			}
		}
	}
	legacyFiles := len(cases) - legacyStart
	// files that go through meta/gui and deriveDesktopFilesContent, each under every name at once
	var derived [][]string
	for _, l := range otherLines {
		derived = append(derived, []string{l})
	}
	for _, l := range execLines {
		derived = append(derived, []string{l})
	}
	for _, a := range tiny {
		for _, b := range tiny {
			derived = append(derived, []string{a, b})
			for _, c := range tiny {
				derived = append(derived, []string{a, b, c})
			}
		}
	}
	r.Info("bounds", map[string]interface{}{"line_alphabet_full": len(full), "exec_lines": len(execLines), "icon_lines": len(iconLines), "icon_max_tokens": iconTokens, "other_lines": len(otherLines),
		"two_line_alphabet": len(medium), "three_four_line_alphabet": len(small), "two_line_alphabet_every_name": len(nameLines), "three_line_alphabet_every_name": len(tiny),
		"files": len(cases), "files_under_plain_names_only": legacyFiles, "files_through_meta_gui": len(derived), "snap_variants": keys, "desktop_file_names": verifC27Names, "apps": verifC27AppNames})

	var evals, nontrivial, suppressed, unsafeNameExec int64
	var classMu sync.Mutex
	classes := map[string]*verifC27ClassRep{}
	factTotals := map[string]*int64{}
	for _, f := range []string{"key:Exec", "key:Icon", "tag", "header-entry", "header-action", "header-shortcut", "blank", "comment", "exec-launches-own-wrapper", "exec-with-args", "exec-unparsable-quotes", "exec-hint-quoted",
		"exec-unparsable-for-shell-like-splitter", "icon-path-inside", "icon-themed-name", "dropped-lines", "kept-lines"} {
		factTotals[f] = new(int64)
	}
	// record: classify and report one failing evaluation
	record := func(e *verifC27Env, c verifC27Case, probs []string) {
		ck := e.classOf(c, probs)
		if ck == "" {
			ck = e.nameClassOf(c, probs)
		}
		if ck != "" {
			classMu.Lock()
			rep := classes[ck]
			if rep == nil {
				rep = &verifC27ClassRep{c: c, msg: strings.Join(probs, "; ")}
				classes[ck] = rep
			} else if verifC27Size(c) < verifC27Size(rep.c) || (verifC27Size(c) == verifC27Size(rep.c) && c.key() < rep.c.key()) {
				rep.c, rep.msg = c, strings.Join(probs, "; ")
			}
			rep.count++
			classMu.Unlock()
		} else if r.NumViolations() >= 60 {
			atomic.AddInt64(&suppressed, 1)
		} else {
			r.Violation(c.key(), strings.Join(probs, "; "), c)
		}
	}
	// tally: counters of one evaluation; returns whether it was non-trivial
	tally := func(local map[string]int64, e *verifC27Env, nlines int, facts map[string]int) bool {
		interesting := false
		kept := 0
		for f, n := range facts {
			local[f] += int64(n)
			if f != "tag" && (strings.HasPrefix(f, "key:") || strings.HasPrefix(f, "header-") || f == "blank" || f == "comment") {
				kept += n
			}
			if f == "key:Exec" || f == "key:Icon" || f == "tag" {
				interesting = true
			}
		}
		if facts["key:Exec"] > 0 && !verifC27PlainArg(e.desktopFile) {
			local["unsafe-name-exec"]++
		}
		local["kept-lines"] += int64(kept)
		local["dropped-lines"] += int64(nlines - kept)
		return interesting || kept < nlines
	}
	flush := func(local map[string]int64) {
		for f, n := range local {
			if f == "unsafe-name-exec" {
				atomic.AddInt64(&unsafeNameExec, n)
			} else if p := factTotals[f]; p != nil {
				atomic.AddInt64(p, n)
			}
		}
	}

	// ---- part 1 (small, runs first): files in <mount dir>/meta/gui read by the real deriveDesktopFilesContent,
	// under a temporary dirs root; every worker has a snap revision (= mount dir) of its own ----
	var derivedFiles, derivedCalls int64
	dirs.SetRootDir(t.TempDir())
	const workers = 16
	eng.ParallelFor(workers, func(wi int) {
		local := map[string]int64{}
		var ev, nt, calls int64
		for _, k := range keys {
			wenvs := make([]*verifC27Env, len(allBases))
			for i, b := range allBases {
				wenvs[i] = verifC27NewEnvRev(k, b, 100+wi)
			}
			info := wenvs[0].info
			for ci := wi; ci < len(derived); ci += workers {
				if r.TimeUp() {
					r.Cap("time", "stopped early (meta/gui part)")
					return
				}
				lines := derived[ci]
				raw := verifC27Raw(lines)
				got, err := verifC27Derive(info, allBases, raw)
				if err != nil {
					eng.HarnessError("meta/gui part: %v", err)
				}
				calls++
				expected := map[string]bool{}
				for _, e := range wenvs {
					expected[filepath.Base(e.desktopFile)] = true
				}
				for name := range got {
					if !expected[name] {
						r.Violation(fmt.Sprintf("derive:unexpected-installed-name:%q", name), fmt.Sprintf("deriveDesktopFilesContent returned a file %q for meta/gui files %q of %s", name, allBases, info.InstanceName()), verifC27Case{Key: k, Lines: lines, Via: "derive"})
					}
				}
				for _, e := range wenvs {
					c := verifC27Case{Key: k, DesktopBase: e.base, Lines: lines, Via: "derive"}
					out, ok := got[filepath.Base(e.desktopFile)]
					if !ok {
						r.Violation(fmt.Sprintf("derive:missing-installed-name:%s", verifC27NameTag(e.base)), fmt.Sprintf("deriveDesktopFilesContent returned no file %q for meta/gui/%q", filepath.Base(e.desktopFile), e.base), c)
						continue
					}
					ev++
					if direct := string(sanitizeDesktopFile(e.info, e.desktopFile, raw)); direct != out {
						r.Violation(fmt.Sprintf("derive:differs-from-sanitize:%s", verifC27NameTag(e.base)), fmt.Sprintf("deriveDesktopFilesContent gives %q, sanitizeDesktopFile(%q) gives %q", out, e.desktopFile, direct), c)
					}
					probs, facts := e.check(lines, out)
					if len(probs) > 0 {
						record(e, c, probs)
					}
					if tally(local, e, len(lines), facts) {
						nt++
					}
				}
			}
		}
		atomic.AddInt64(&evals, ev)
		atomic.AddInt64(&derivedFiles, ev)
		atomic.AddInt64(&derivedCalls, calls)
		atomic.AddInt64(&nontrivial, nt)
		flush(local)
	})
	dirs.SetRootDir("/")

	// ---- part 2: sanitizeDesktopFile called directly, dirs root "/" ----
	envs := map[string]*verifC27Env{}
	for _, k := range keys {
		for _, b := range allBases {
			envs[k+"|"+b] = verifC27NewEnv(k, b)
		}
	}
	nameSets := [][]string{allBases[:2], allBases, allBases[2:]}
	chunk := 2000
	nchunks := (len(cases) + chunk - 1) / chunk
	eng.ParallelFor(nchunks, func(ci int) {
		if r.TimeUp() {
			r.Cap("time", "stopped early")
			return
		}
		if r.NumViolations() >= 60 {
			r.Cap("violations", "enumeration stopped after 60 recorded violations")
			return
		}
		lo, hi := ci*chunk, (ci+1)*chunk
		if hi > len(cases) {
			hi = len(cases)
		}
		local := map[string]int64{}
		var ev, nt int64
		for _, it := range cases[lo:hi] {
			lines := it.lines
			raw := verifC27Raw(lines)
			for _, k := range keys {
				for _, b := range nameSets[it.names] {
					e := envs[k+"|"+b]
					// a fresh Info per call is not needed: sanitizeDesktopFile only reads it
					out := string(sanitizeDesktopFile(e.info, e.desktopFile, raw))
					ev++
					probs, facts := e.check(lines, out)
					if len(probs) > 0 {
						record(e, verifC27Case{Key: k, DesktopBase: b, Lines: lines}, probs)
					}
					if tally(local, e, len(lines), facts) {
						nt++
					}
				}
			}
		}
		atomic.AddInt64(&evals, ev)
		atomic.AddInt64(&nontrivial, nt)
		flush(local)
	})

	for ck, rep := range classes {
		r.Add("class_"+strings.NewReplacer(":", "_", "-", "_").Replace(ck)+"_instances", rep.count)
		if ck == verifC27IconClass && os.Getenv("VERIF_C27_SKIP_ICON_CLASS") != "" {
			continue // only for validating mutants while the finding is not yet listed in known-findings.txt
		}
		r.Violation(ck, fmt.Sprintf("%d inputs of this class; smallest: %s", rep.count, rep.msg), rep.c)
	}
	r.Add("evaluations", evals)
	r.Add("distinct_nontrivial", nontrivial)
	r.Add("evaluations_through_meta_gui", derivedFiles)
	r.Add("derive_desktop_files_content_calls", derivedCalls)
	r.Add("exec_lines_under_names_that_need_quoting", unsafeNameExec)
	for f, p := range factTotals {
		r.Add("out_"+strings.NewReplacer(":", "_", "-", "_").Replace(f), *p)
		if *p > 0 {
			r.Distinct("output_fact", f)
		}
	}
	if suppressed > 0 {
		r.Add("violations_suppressed_after_60", suppressed)
	}
	r.Sample(verifC27Case{Key: "key", DesktopBase: "app.desktop", Lines: []string{"[Desktop Entry]", "Exec=foo.app %U", "Icon=${SNAP}/x.png", "X-Foo-Exec=evil"}})
	r.Sample(verifC27Case{Key: "", DesktopBase: "other-1.desktop", Lines: cases[legacyStart+legacyFiles/2].lines})
	r.Sample(verifC27Case{Key: "key", DesktopBase: "app.desktop", Lines: cases[legacyStart+len(medium)*3+5].lines})
	r.Sample(verifC27Case{Key: "key", DesktopBase: verifC27Names[2].Base, Lines: []string{"[Desktop Entry]", "Exec=foo.app %U"}, Via: "derive"})
	r.Finish("every 1-line file over the full line alphabet under each of the 16 desktop file names; every 2-line file over the medium alphabet and every 3- and 4-line file over the small alphabet under the 2 plain names; every 2-line file over the Exec-centred alphabet and every 3-line file over the tiny alphabet under the 14 other names; each for 2 snaps (with/without instance key), sanitizeDesktopFile called directly; plus every 1-line header/key/Exec file and every 2- and 3-line file over the tiny alphabet written to meta/gui under all 16 names and read by deriveDesktopFilesContent; distinct_nontrivial = (file, snap, name) evaluations in which a line was dropped or an Exec/Icon/[Desktop Entry] line reached the output")
}
