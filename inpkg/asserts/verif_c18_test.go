// C18 — only correctly signed, currently valid assertions are accepted.
//
// Part 1 (matrix): every combination of assertion type x signer x clock point x earliest-time mode x
// assertion timestamp point is built with real signing code, given to Database.Check and Database.Add,
// and compared with a small reference predicate transcribed from the property statement.
// Part 2 (edits): for every valid encoded assertion of a pool, every single-byte substitution, deletion,
// insertion, truncation, header-line swap/duplication, body byte transposition, signature splice,
// signature re-encoding and every edit of the *decoded* signature bytes is given to Decode+Check+Add.
// Oracle: accepted => the signed content bytes and the decoded signature are those of the validly
// signed original.
// Part 3 (key history, verif_c18_hist_test.go): the signing account-key is stored and then superseded by 0..2 newer
// revisions (validity moved, constraints added / lifted / no longer admitting) in memory and filesystem backstores and
// in stacked databases; the verdict must be the one implied by the newest stored revision of the key.
//
// In-package (package asserts_test) because the clock seam asserts.MockTimeNow lives in export_test.go.
package asserts_test

import (
	"bytes"
	"crypto"
	"crypto/rsa"
	"crypto/x509"
	"encoding/base64"
	"encoding/json"
	"fmt"
	"os"
	"regexp"
	"strings"
	"sync"
	"sync/atomic"
	"testing"
	"time"

	"golang.org/x/crypto/openpgp/packet"

	"github.com/snapcore/snapd/asserts"
	eng "github.com/snapcore/snapd/verifengine"
)

// ---- time points ----

var (
	c18S      = time.Date(2020, 3, 1, 0, 0, 0, 0, time.UTC) // "since" of every key
	c18U      = time.Date(2021, 3, 1, 0, 0, 0, 0, time.UTC) // "until" of the bounded keys
	c18Mid    = c18S.Add(30 * 24 * time.Hour)
	c18Points = []time.Time{c18S.Add(-time.Second), c18S, c18Mid, c18U.Add(-time.Second), c18U, c18U.Add(time.Second)}
	c18PNames = []string{"before-since", "at-since", "inside", "last-second", "at-until", "after-until"}
	// value the mocked system clock holds while the database is in earliest-time mode: it must not be consulted
	c18Decoy = time.Date(1999, 1, 1, 0, 0, 0, 0, time.UTC)
)

func c18T(t time.Time) string { return t.Format(time.RFC3339) }

// ---- keys ----

const (
	c18kRoot = iota
	c18kOpen
	c18kWindow
	c18kCMatch
	c18kCNoMatch
	c18kOther
	c18kUnknown
	c18kPredef
	c18kDevice
	c18kNew
	// keys whose account-key constraints contain an entry naming an assertion type this snapd does not know
	c18kUOnly    // [unknown type]
	c18kUNoMatch // [unknown type, known type that does not match]
	c18kUMatch   // [unknown type, known type that matches]
	c18kMatchU   // [known type that matches, unknown type]
)

const c18Authority = "canonical"

// c18UnknownType is an assertion type name outside the set of types this snapd knows (checked by the fixture): what an
// account-key issued for a later snapd may name in its constraints.
const c18UnknownType = "some-future-type"

// c18Con is one entry of an account-key's constraints as the harness describes it: the entry admits an assertion iff the
// assertion's type is Type and its x-tag header matches the anchored regular expression Tag.
type c18Con struct{ Type, Tag string }

// c18ConsAdmit is the statement's reading of a constrained key, computed without snapd code: the signature is acceptable
// only if at least one constraint entry matches the assertion. An entry naming a type the assertion is not of (a type
// unknown to this snapd included) matches nothing.
func c18ConsAdmit(cons []c18Con, typ, tag string) bool {
	for _, con := range cons {
		if con.Type == typ && regexp.MustCompile("^(?:"+con.Tag+")$").MatchString(tag) {
			return true
		}
	}
	return false
}

func c18ConsHeader(cons []c18Con) []interface{} {
	var l []interface{}
	for _, con := range cons {
		l = append(l, map[string]interface{}{"headers": map[string]interface{}{"type": con.Type, "x-tag": con.Tag}})
	}
	return l
}

var c18Types = []string{"account", "account-key", "snap-declaration", "snap-revision", "model", "serial", "validation-set", "system-user"}

type c18Fx struct {
	priv    []asserts.PrivateKey
	rsaKeys []*rsa.PrivateKey
	signDB  *asserts.Database

	trusted, predefined, stored []asserts.Assertion
}

func (fx *c18Fx) id(k int) string { return fx.priv[k].PublicKey().ID() }

func (fx *c18Fx) sign(t *asserts.AssertionType, h map[string]interface{}, body []byte, k int) asserts.Assertion {
	a, err := fx.signDB.Sign(t, h, body, fx.id(k))
	if err != nil {
		eng.HarnessError("C18 fixture: cannot sign %s: %v", t.Name, err)
	}
	return a
}

func (fx *c18Fx) pubBody(k int) []byte {
	b, err := asserts.EncodePublicKey(fx.priv[k].PublicKey())
	if err != nil {
		eng.HarnessError("C18 fixture: %v", err)
	}
	return b
}

func (fx *c18Fx) accountKey(account, name string, k int, bounded bool, constraints interface{}, signer int) asserts.Assertion {
	h := map[string]interface{}{
		"authority-id":        c18Authority,
		"account-id":          account,
		"name":                name,
		"public-key-sha3-384": fx.id(k),
		"since":               c18T(c18S),
	}
	if bounded {
		h["until"] = c18T(c18U)
	}
	if constraints != nil {
		h["format"] = "1"
		h["constraints"] = constraints
	}
	return fx.sign(asserts.AccountKeyType, h, fx.pubBody(k), signer)
}

func (fx *c18Fx) account(id string, signer int) asserts.Assertion {
	return fx.sign(asserts.AccountType, map[string]interface{}{
		"authority-id": c18Authority,
		"account-id":   id,
		"display-name": "Account " + id,
		"username":     id,
		"validation":   "verified",
		"timestamp":    c18T(c18S),
	}, nil, signer)
}

const (
	c18SnapID1 = "snapidsnapidsnapidsnapidsnapid01"
	c18SnapID2 = "snapidsnapidsnapidsnapidsnapid02"
)

func c18NewFixture() *c18Fx {
	fx := &c18Fx{}
	db, err := asserts.OpenDatabase(&asserts.DatabaseConfig{})
	if err != nil {
		eng.HarnessError("C18 fixture: %v", err)
	}
	fx.signDB = db
	for _, s := range verifC18KeysB64 {
		der, err := base64.StdEncoding.DecodeString(s)
		if err != nil {
			eng.HarnessError("C18 fixture key: %v", err)
		}
		k, err := x509.ParsePKCS1PrivateKey(der)
		if err != nil {
			eng.HarnessError("C18 fixture key: %v", err)
		}
		pk := asserts.RSAPrivateKey(k)
		fx.rsaKeys = append(fx.rsaKeys, k)
		fx.priv = append(fx.priv, pk)
		if err := db.ImportKey(pk); err != nil {
			eng.HarnessError("C18 fixture key import: %v", err)
		}
	}
	var matchC, noMatchC []interface{}
	noMatchC = append(noMatchC, map[string]interface{}{"headers": map[string]interface{}{"type": "store"}})
	for _, t := range c18Types {
		matchC = append(matchC, map[string]interface{}{"headers": map[string]interface{}{"type": t, "x-tag": "o[a-k]"}})
		noMatchC = append(noMatchC, map[string]interface{}{"headers": map[string]interface{}{"type": t, "x-tag": "nope"}})
	}
	fx.trusted = []asserts.Assertion{
		fx.account(c18Authority, c18kRoot),
		fx.accountKey(c18Authority, "root", c18kRoot, false, nil, c18kRoot),
	}
	fx.predefined = []asserts.Assertion{
		fx.accountKey(c18Authority, "predef", c18kPredef, true, nil, c18kRoot),
	}
	fx.stored = []asserts.Assertion{
		fx.account("dev1", c18kRoot),
		fx.account("other", c18kRoot),
		fx.accountKey(c18Authority, "open", c18kOpen, false, nil, c18kRoot),
		fx.accountKey(c18Authority, "window", c18kWindow, true, nil, c18kRoot),
		fx.accountKey(c18Authority, "cmatch", c18kCMatch, true, matchC, c18kRoot),
		fx.accountKey(c18Authority, "cnomatch", c18kCNoMatch, true, noMatchC, c18kRoot),
		fx.accountKey("other", "otherkey", c18kOther, false, nil, c18kRoot),
		fx.sign(asserts.SnapDeclarationType, map[string]interface{}{
			"authority-id": c18Authority, "series": "16", "snap-id": c18SnapID1, "snap-name": "foo",
			"publisher-id": "dev1", "timestamp": c18T(c18S),
		}, nil, c18kRoot),
	}
	// account-keys of the signers described by a constraint list (entries naming an unknown assertion type)
	if asserts.Type(c18UnknownType) != nil {
		eng.HarnessError("C18 fixture: %q is a known assertion type, the harness needs an unknown one", c18UnknownType)
	}
	haveKey := map[int]string{}
	for _, s := range c18Signers {
		if s.Cons == nil {
			continue
		}
		if have, ok := haveKey[s.Claim]; ok {
			if have != fmt.Sprint(s.Cons) {
				eng.HarnessError("C18 fixture: signers sharing key %d describe different constraints", s.Claim)
			}
			continue
		}
		haveKey[s.Claim] = fmt.Sprint(s.Cons)
		fx.stored = append(fx.stored, fx.accountKey(c18Authority, fmt.Sprintf("cons%d", s.Claim), s.Claim, true, c18ConsHeader(s.Cons), c18kRoot))
	}
	return fx
}

func c18Encs(as []asserts.Assertion) []string {
	var r []string
	for _, a := range as {
		r = append(r, base64.StdEncoding.EncodeToString(asserts.Encode(a)))
	}
	return r
}

func c18Decs(l []string) []asserts.Assertion {
	var r []asserts.Assertion
	for _, s := range l {
		b, err := base64.StdEncoding.DecodeString(s)
		if err != nil {
			eng.HarnessError("C18 replay fixture: %v", err)
		}
		a, err := asserts.Decode(b)
		if err != nil {
			eng.HarnessError("C18 replay fixture: %v", err)
		}
		r = append(r, a)
	}
	return r
}

// c18Open builds the database under test: trusted + predefined sets and the stored assertions, added
// through the real Add while the clock is inside every key's validity.
func c18Open(trusted, predefined, stored []asserts.Assertion) *asserts.Database {
	restore := asserts.MockTimeNow(c18Mid)
	defer restore()
	db, err := asserts.OpenDatabase(&asserts.DatabaseConfig{Backstore: asserts.NewMemoryBackstore(), Trusted: trusted, OtherPredefined: predefined})
	if err != nil {
		eng.HarnessError("C18 fixture: OpenDatabase: %v", err)
	}
	for _, a := range stored {
		if err := db.Add(a); err != nil {
			eng.HarnessError("C18 fixture: cannot add %s: %v (a mutation that rejects valid prerequisite assertions cannot be examined)", a.Ref(), err)
		}
	}
	return db
}

// headersFor returns a complete, consistent header set of the given type with the given timestamp.
func (fx *c18Fx) headersFor(typ string, ts time.Time) (*asserts.AssertionType, map[string]interface{}, []byte, bool) {
	h := map[string]interface{}{"authority-id": c18Authority, "x-tag": "ok", "timestamp": c18T(ts)}
	var body []byte
	hasTS := true
	switch typ {
	case "account":
		h["account-id"] = "newacct"
		h["display-name"] = "New"
		h["username"] = "newacct"
		h["validation"] = "unproven"
	case "account-key":
		delete(h, "timestamp")
		hasTS = false
		h["account-id"] = "dev1"
		h["name"] = "second"
		h["public-key-sha3-384"] = fx.id(c18kNew)
		h["since"] = c18T(c18S)
		body = fx.pubBody(c18kNew)
	case "snap-declaration":
		h["series"] = "16"
		h["snap-id"] = c18SnapID2
		h["snap-name"] = "bar"
		h["publisher-id"] = "dev1"
	case "snap-revision":
		h["snap-sha3-384"] = "QlqR0uAWEAWF5Nwnzj5kqmmwFslYPu1IL16MKtLKhwhv0kpBv5wKZ_axf_nf_2cL"
		h["snap-size"] = "123"
		h["snap-id"] = c18SnapID1
		h["snap-revision"] = "7"
		h["developer-id"] = "dev1"
	case "model":
		h["series"] = "16"
		h["brand-id"] = c18Authority
		h["model"] = "m1"
		h["classic"] = "true"
	case "serial":
		h["brand-id"] = c18Authority
		h["model"] = "m1"
		h["serial"] = "s-0001"
		h["device-key"] = string(fx.pubBody(c18kDevice))
		h["device-key-sha3-384"] = fx.id(c18kDevice)
	case "validation-set":
		h["series"] = "16"
		h["account-id"] = c18Authority
		h["name"] = "vs1"
		h["sequence"] = "1"
		h["snaps"] = []interface{}{map[string]interface{}{"name": "foo", "id": c18SnapID1, "presence": "required"}}
	case "system-user":
		delete(h, "timestamp")
		hasTS = false
		h["brand-id"] = c18Authority
		h["email"] = "user@example.com"
		h["series"] = []interface{}{"16"}
		h["models"] = []interface{}{"m1"}
		h["name"] = "User Name"
		h["username"] = "user1"
		h["password"] = "$6$salt$hash"
		h["since"] = c18T(c18S)
		h["until"] = c18T(c18S.Add(200 * 24 * time.Hour))
	default:
		eng.HarnessError("C18: unknown type %q", typ)
	}
	return asserts.Type(typ), h, body, hasTS
}

// ---- independent helpers: encoding split, base64 layer, raw OpenPGP signing ----

var c18nlnl = []byte("\n\n")

func c18Split(enc []byte) (content, sig []byte, ok bool) {
	i := bytes.LastIndex(enc, c18nlnl)
	if i < 0 {
		return nil, nil, false
	}
	return enc[:i], enc[i+2:], true
}

// c18SigBytes returns the bytes the base64 layer of an encoded signature stands for (line breaks are not data).
func c18SigBytes(sig []byte) ([]byte, bool) {
	flat := make([]byte, 0, len(sig))
	for _, c := range sig {
		if c != '\n' && c != '\r' {
			flat = append(flat, c)
		}
	}
	out, err := base64.StdEncoding.DecodeString(string(flat))
	if err != nil || len(out) == 0 {
		return nil, false
	}
	return out, true
}

// c18Sig is the harness' own reading of a decoded v1 signature: an OpenPGP v4 signature packet.
// sem holds every field of the signature; framing holds the transport-only octets (packet header
// format/length, MPI bit count) which are not part of the signature value.
type c18Sig struct {
	sem     string
	hdr     string
	mpiBits int
}

func c18ParseSig(raw []byte) (*c18Sig, bool) {
	if len(raw) < 3 || raw[0] != 0x01 {
		return nil, false
	}
	b := raw[1:]
	tag := b[0]
	if tag&0x80 == 0 {
		return nil, false
	}
	var body []byte
	var ptype byte
	if tag&0x40 == 0 { // old format
		ptype = (tag & 0x3f) >> 2
		n := map[byte]int{0: 1, 1: 2, 2: 4, 3: 0}[tag&3]
		if len(b) < 1+n {
			return nil, false
		}
		body = b[1+n:]
		b = b[:1+n]
	} else { // new format
		ptype = tag & 0x3f
		hdr := []byte{tag}
		i := 1
		for {
			if i >= len(b) {
				return nil, false
			}
			o := b[i]
			n := 0
			switch {
			case o < 192:
				n = 1
			case o < 224:
				n = 2
			case o == 255:
				n = 5
			}
			if n > 0 { // final length: everything after it is taken as body, whatever the length says
				if i+n > len(b) {
					return nil, false
				}
				hdr = append(hdr, b[i:i+n]...)
				body = append(body, b[i+n:]...)
				break
			}
			// partial body length: a chunk of 2^k bytes follows, then another length
			c := 1 << (o & 0x1f)
			hdr = append(hdr, o)
			i++
			if i+c > len(b) { // overstated chunk length: what is there is the body (as for overstated final lengths)
				body = append(body, b[i:]...)
				break
			}
			body = append(body, b[i:i+c]...)
			i += c
		}
		b = hdr
	}
	if ptype != 2 || len(body) < 6 || body[0] != 4 {
		return nil, false
	}
	p := 4
	hl := int(body[p])<<8 | int(body[p+1])
	p += 2
	if p+hl+2 > len(body) {
		return nil, false
	}
	hashed := body[p : p+hl]
	p += hl
	ul := int(body[p])<<8 | int(body[p+1])
	p += 2
	if p+ul+4 > len(body) {
		return nil, false
	}
	unhashed := body[p : p+ul]
	p += ul
	hashTag := body[p : p+2]
	p += 2
	bits := int(body[p])<<8 | int(body[p+1])
	p += 2
	n := (bits + 7) / 8
	if p+n != len(body) {
		return nil, false
	}
	mpi := bytes.TrimLeft(body[p:], "\x00")
	return &c18Sig{
		sem:     fmt.Sprintf("v4 type=%d pk=%d hash=%d hashed=%x unhashed=%x tag=%x sig=%x", body[1], body[2], body[3], hashed, unhashed, hashTag, mpi),
		hdr:     fmt.Sprintf("%x", b),
		mpiBits: bits,
	}, true
}

func c18EncodeSig(raw []byte, width int, eol string) []byte {
	flat := base64.StdEncoding.EncodeToString(raw)
	var b bytes.Buffer
	for off := 0; off < len(flat); off += width {
		end := off + width
		if end > len(flat) {
			end = len(flat)
		}
		if off > 0 {
			b.WriteString(eol)
		}
		b.WriteString(flat[off:end])
	}
	b.WriteString("\n")
	return b.Bytes()
}

// c18RawSign produces an encoded snapd v1 signature of content with the given RSA key, not using snapd code.
func c18RawSign(content []byte, k *rsa.PrivateKey) []byte {
	privk := packet.NewRSAPrivateKey(time.Date(2016, 1, 1, 0, 0, 0, 0, time.UTC), k)
	cfg := &packet.Config{DefaultHash: crypto.SHA512}
	sig := &packet.Signature{PubKeyAlgo: privk.PubKeyAlgo, Hash: crypto.SHA512, CreationTime: c18Mid}
	h := crypto.SHA512.New()
	h.Write(content)
	if err := sig.Sign(h, privk, cfg); err != nil {
		eng.HarnessError("C18 raw sign: %v", err)
	}
	var buf bytes.Buffer
	buf.WriteByte(0x1)
	if err := sig.Serialize(&buf); err != nil {
		eng.HarnessError("C18 raw sign: %v", err)
	}
	return c18EncodeSig(buf.Bytes(), 76, "\n")
}

func c18Join(content, sig []byte) []byte {
	out := make([]byte, 0, len(content)+2+len(sig))
	out = append(out, content...)
	out = append(out, c18nlnl...)
	return append(out, sig...)
}

// ---- evaluation against the real code ----

type c18Verdict struct {
	decoded  asserts.Assertion
	decErr   error
	checkErr error
	addErr   error
	panicked string
}

// panicKey: canonical violation key of a crash: one key per panic message (many inputs reach the same crash).
func (v *c18Verdict) panicKey() string {
	return "panic:" + strings.Map(func(r rune) rune {
		if r == ' ' || r == '\n' {
			return '_'
		}
		return r
	}, v.panicked)
}

func (v *c18Verdict) accepted() bool {
	return v.panicked == "" && v.decErr == nil && (v.checkErr == nil || v.addErr == nil)
}

var c18reQuoted = regexp.MustCompile(`"[^"]*"|[0-9]+`)

func (v *c18Verdict) class() string {
	if v.panicked != "" {
		return "PANIC: " + v.panicked
	}
	if v.decErr != nil {
		return "decode-error"
	}
	if v.checkErr == nil && v.addErr == nil {
		return "accepted"
	}
	if v.checkErr == nil || v.addErr == nil {
		return fmt.Sprintf("check/add-disagree:check=%v:add=%v", v.checkErr, v.addErr)
	}
	s := v.checkErr.Error()
	for _, k := range []string{"no matching public key", "error finding matching public key", "expired public key", "does not match signing constraints",
		"failed signature verification", "outside of signing key validity", "cannot decode signature", "unsupported signature format", "spurious trailing data",
		"expected signature, got instead", "does not match public key from", "not signed by a directly trusted authority"} {
		if strings.Contains(s, k) {
			return k
		}
	}
	s = c18reQuoted.ReplaceAllString(s, "_")
	if len(s) > 70 {
		s = s[:70]
	}
	return "other: " + s
}

// c18Eval gives the encoded candidate to Decode, then to Check of db and to Add of a database stacked on
// db (so that db itself stays unchanged). With earliest != nil the databases are in earliest-time mode.
func c18Eval(db *asserts.Database, enc []byte, earliest *time.Time) (v *c18Verdict) {
	v = &c18Verdict{}
	defer func() {
		if p := recover(); p != nil {
			// a crash is neither an acceptance nor a rejection: reported as a violation by the callers
			v.panicked = fmt.Sprint(p)
			v.checkErr = fmt.Errorf("PANIC: %v", p)
			v.addErr = v.checkErr
		}
	}()
	v.decoded, v.decErr = asserts.Decode(enc)
	if v.decErr != nil {
		return v
	}
	v.checkErr = db.Check(v.decoded)
	sdb := db.WithStackedBackstore(asserts.NewMemoryBackstore())
	if earliest != nil {
		sdb.SetEarliestTime(*earliest)
	}
	v.addErr = sdb.Add(v.decoded)
	return v
}

// ---- part 1: the matrix ----

type c18Signer struct {
	Name      string
	Key       int  // key that produces the signature
	Claim     int  // key named in sign-key-sha3-384 (differs from Key only for the forger)
	Raw       bool // signature made by the harness' own OpenPGP signer
	Bounded   bool // claimed key has an until
	Known     bool // an account-key for the claimed key is in the database
	Mine      bool // ... and it belongs to the declared authority
	Admits    bool // its constraints admit the assertion (signers without Cons)
	// Cons != nil: the account-key of the claimed key (added to the fixture from this description) carries exactly these
	// constraint entries, and whether they admit the assertion is computed per case by c18ConsAdmit, not stated here
	Cons      []c18Con
	Tag       string // x-tag header of the candidate ("" = "ok")
	SigByHeld bool // signature made by the claimed key
}

var c18Signers = []c18Signer{
	{Name: "trusted-root", Key: c18kRoot, Claim: c18kRoot, Known: true, Mine: true, Admits: true, SigByHeld: true},
	{Name: "stored-open", Key: c18kOpen, Claim: c18kOpen, Known: true, Mine: true, Admits: true, SigByHeld: true},
	{Name: "stored-window", Key: c18kWindow, Claim: c18kWindow, Bounded: true, Known: true, Mine: true, Admits: true, SigByHeld: true},
	{Name: "predefined-window", Key: c18kPredef, Claim: c18kPredef, Bounded: true, Known: true, Mine: true, Admits: true, SigByHeld: true},
	{Name: "constrained-matching", Key: c18kCMatch, Claim: c18kCMatch, Bounded: true, Known: true, Mine: true, Admits: true, SigByHeld: true},
	{Name: "constrained-tag-not-matching", Key: c18kCMatch, Claim: c18kCMatch, Bounded: true, Known: true, Mine: true, Admits: false, Tag: "om", SigByHeld: true},
	{Name: "constrained-not-matching", Key: c18kCNoMatch, Claim: c18kCNoMatch, Bounded: true, Known: true, Mine: true, Admits: false, SigByHeld: true},
	{Name: "other-authority-key", Key: c18kOther, Claim: c18kOther, Known: true, Mine: false, Admits: true, SigByHeld: true},
	{Name: "unknown-key", Key: c18kUnknown, Claim: c18kUnknown, Known: false, SigByHeld: true},
	{Name: "raw-signed-right-key", Key: c18kOpen, Claim: c18kOpen, Raw: true, Known: true, Mine: true, Admits: true, SigByHeld: true},
	{Name: "forged-with-foreign-key", Key: c18kUnknown, Claim: c18kOpen, Raw: true, Known: true, Mine: true, Admits: true, SigByHeld: false},
	{Name: "forged-with-other-trusted-accounts-key", Key: c18kRoot, Claim: c18kOpen, Raw: true, Known: true, Mine: true, Admits: true, SigByHeld: false},
	// constraint lists with an entry naming an assertion type this snapd does not know (such an entry matches nothing); the
	// known-type entry is about models, so for the 7 other types it is a non-matching entry by type, for models by header value
	{Name: "constrained-unknown-type-only", Key: c18kUOnly, Claim: c18kUOnly, Bounded: true, Known: true, Mine: true, SigByHeld: true,
		Cons: []c18Con{{c18UnknownType, "o[a-k]"}}},
	{Name: "constrained-unknown-type-and-known-not-matching", Key: c18kUNoMatch, Claim: c18kUNoMatch, Bounded: true, Known: true, Mine: true, SigByHeld: true,
		Cons: []c18Con{{c18UnknownType, "o[a-k]"}, {"model", "nope"}}},
	{Name: "constrained-unknown-type-and-known-matching", Key: c18kUMatch, Claim: c18kUMatch, Bounded: true, Known: true, Mine: true, SigByHeld: true,
		Cons: []c18Con{{c18UnknownType, "o[a-k]"}, {"model", "o[a-k]"}}},
	{Name: "constrained-unknown-type-and-known-tag-not-matching", Key: c18kUMatch, Claim: c18kUMatch, Bounded: true, Known: true, Mine: true, SigByHeld: true, Tag: "om",
		Cons: []c18Con{{c18UnknownType, "o[a-k]"}, {"model", "o[a-k]"}}},
	{Name: "constrained-known-matching-and-unknown-type", Key: c18kMatchU, Claim: c18kMatchU, Bounded: true, Known: true, Mine: true, SigByHeld: true,
		Cons: []c18Con{{"model", "o[a-k]"}, {c18UnknownType, "o[a-k]"}}},
}

type c18Cfg struct {
	Type     string `json:"type"`
	Signer   string `json:"signer"`
	Clock    int    `json:"clock_point"`
	Earliest bool   `json:"earliest_mode"`
	TS       int    `json:"timestamp_point"`
}

func (c c18Cfg) key() string {
	return fmt.Sprintf("matrix:%s:%s:clock=%s:earliest=%v:ts=%s", c.Type, c.Signer, c18PNames[c.Clock], c.Earliest, c18PNames[c.TS])
}

func c18SignerByName(n string) *c18Signer {
	for i := range c18Signers {
		if c18Signers[i].Name == n {
			return &c18Signers[i]
		}
	}
	eng.HarnessError("C18: unknown signer %q", n)
	return nil
}

// c18Ref is the reference predicate, transcribed from the statement: signed by a key of the declared
// authority, key valid at the current time and at the assertion's timestamp, constraints admit, signature by that key.
// In earliest-time mode "the current time" is only known to be >= earliest, and a key is taken as valid if it
// can be valid at some such time (documented semantics of SetEarliestTime).
func c18Ref(c c18Cfg, hasTS bool) (bool, string) {
	s := c18SignerByName(c.Signer)
	if !s.Known {
		return false, "no account-key for the signing key"
	}
	if !s.Mine {
		return false, "signing key belongs to another account"
	}
	now := c18Points[c.Clock]
	if !c.Earliest && now.Before(c18S) {
		return false, "key not yet valid at the current time"
	}
	if s.Bounded && !now.Before(c18U) {
		return false, "key expired at the current time"
	}
	if hasTS {
		ts := c18Points[c.TS]
		if ts.Before(c18S) || (s.Bounded && !ts.Before(c18U)) {
			return false, "assertion timestamp outside the key validity"
		}
	}
	admits := s.Admits
	if s.Cons != nil {
		tag := s.Tag
		if tag == "" {
			tag = "ok"
		}
		admits = c18ConsAdmit(s.Cons, c.Type, tag)
	}
	if !admits {
		return false, "key constraints do not admit the assertion (no constraint entry matches it)"
	}
	if !s.SigByHeld {
		return false, "signature not made by the named key"
	}
	return true, ""
}

func (fx *c18Fx) buildMatrixCase(c c18Cfg) (enc []byte, hasTS bool) {
	s := c18SignerByName(c.Signer)
	t, h, body, hasTS := fx.headersFor(c.Type, c18Points[c.TS])
	if s.Tag != "" {
		h["x-tag"] = s.Tag
	}
	a := fx.sign(t, h, body, s.Claim)
	if !s.Raw {
		return asserts.Encode(a), hasTS
	}
	content, _ := a.Signature()
	return c18Join(content, c18RawSign(content, fx.rsaKeys[s.Key])), hasTS
}

type c18Case struct {
	Kind       string       `json:"kind"` // matrix | edit | history
	Cfg        *c18Cfg      `json:"cfg,omitempty"`
	Hist       *c18HistCase `json:"history,omitempty"`
	Orig       string       `json:"orig,omitempty"`
	Edit       string       `json:"edit,omitempty"`
	Candidate  string       `json:"candidate_b64"`
	Original   string       `json:"original_b64,omitempty"`
	Trusted    []string     `json:"trusted_b64"`
	Predefined []string     `json:"predefined_b64"`
	Stored     []string     `json:"stored_b64"`
}

func c18RunMatrixCase(db *asserts.Database, c c18Cfg, enc []byte, hasTS bool) (v *c18Verdict, want bool, why string) {
	var earliest *time.Time
	clock := c18Points[c.Clock]
	if c.Earliest {
		earliest = &clock
		db.SetEarliestTime(clock)
		defer db.SetEarliestTime(time.Time{})
		defer asserts.MockTimeNow(c18Decoy)()
	} else {
		defer asserts.MockTimeNow(clock)()
	}
	want, why = c18Ref(c, hasTS)
	return c18Eval(db, enc, earliest), want, why
}

// ---- part 2: edits ----

type c18Orig struct {
	Name    string
	Enc     []byte
	content []byte
	sig     []byte
	sigRaw  []byte
	parsed  *c18Sig
}

type c18Judgement struct {
	v       *c18Verdict
	benign  bool   // accepted; signed content and decoded signature bytes identical to the original's
	framing string // accepted; content identical, every signature field identical, only transport framing octets differ: which
	msg     string // violation
}

// c18Strict makes accepted framing-only variants of the decoded signature violations (byte-level reading of
// "changing the decoded signature"); see meta design_deviations and notes/C18-finding.md.
var c18Strict = os.Getenv("VERIF_C18_STRICT") != ""

// c18Judge runs one edited encoding. It is a violation if the edit is accepted although its signed content or
// its decoded signature are not those of the original.
func c18Judge(db *asserts.Database, o *c18Orig, m []byte) (j c18Judgement) {
	v := c18Eval(db, m, nil)
	j.v = v
	if v.panicked != "" {
		j.msg = "Decode/Check/Add panicked instead of rejecting: " + v.panicked
		return j
	}
	if !v.accepted() {
		return j
	}
	mc, ms, ok := c18Split(m)
	sameContent := ok && bytes.Equal(mc, o.content)
	md, dok := c18SigBytes(ms)
	sameSigBytes := dok && bytes.Equal(md, o.sigRaw)
	if ic, _ := v.decoded.Signature(); !bytes.Equal(ic, mc) {
		j.msg = "accepted, and the content the decoded assertion reports as signed is not the content part of the encoding"
		return j
	}
	if sameContent && sameSigBytes {
		j.benign = true
		return j
	}
	sameSigFields := false
	if dok {
		if ps, ok := c18ParseSig(md); ok && ps.sem == o.parsed.sem {
			sameSigFields = true
			switch {
			case !sameContent || sameSigBytes:
				// not a framing-only variant
			case ps.hdr != o.parsed.hdr && ps.mpiBits != o.parsed.mpiBits:
				j.framing = "packet-header+mpi-bit-count"
			case ps.hdr != o.parsed.hdr:
				j.framing = "packet-header-length-octets"
			default:
				j.framing = "mpi-bit-count"
			}
		}
	}
	if sameContent && sameSigFields && !c18Strict {
		return j
	}
	j.msg = fmt.Sprintf("accepted (check err=%v, add err=%v) although signed-content-unchanged=%v decoded-signature-bytes-unchanged=%v signature-fields-unchanged=%v (framing difference: %q)", v.checkErr, v.addErr, sameContent, sameSigBytes, sameSigFields, j.framing)
	return j
}

func c18QuickValues(orig byte) []byte {
	// every single-bit flip plus characters with a role in the format (separators, base64 alphabet edges, UTF-8 lead/continuation, controls)
	cands := []byte{'\n', '\r', ' ', ':', '-', '=', '/', '+', '_', 'A', 'a', 'z', '0', '9', '\t', ',', 0x00, 0x7f, 0x80, 0xc3, 0xff}
	for b := uint(0); b < 8; b++ {
		cands = append(cands, orig^(1<<b))
	}
	var out []byte
	seen := map[byte]bool{orig: true}
	for _, c := range cands {
		if !seen[c] {
			seen[c] = true
			out = append(out, c)
		}
	}
	return out
}

func c18AllValues(orig byte) []byte {
	out := make([]byte, 0, 255)
	for v := 0; v < 256; v++ {
		if byte(v) != orig {
			out = append(out, byte(v))
		}
	}
	return out
}

type c18EditCase struct {
	desc string
	enc  []byte
}

func c18Set(b []byte, pos int, v byte) []byte {
	m := append([]byte(nil), b...)
	m[pos] = v
	return m
}

// c18EditsAt lists every edit anchored at byte position pos of the original encoding.
func c18EditsAt(o *c18Orig, pos int, thorough bool) []c18EditCase {
	var out []c18EditCase
	enc := o.Enc
	vals := c18QuickValues(enc[pos])
	if thorough {
		vals = c18AllValues(enc[pos])
	}
	for _, v := range vals {
		out = append(out, c18EditCase{fmt.Sprintf("set:%d:0x%02x", pos, v), c18Set(enc, pos, v)})
	}
	// deletion of the byte
	out = append(out, c18EditCase{fmt.Sprintf("del:%d", pos), append(append([]byte(nil), enc[:pos]...), enc[pos+1:]...)})
	// truncation before the byte
	out = append(out, c18EditCase{fmt.Sprintf("trunc:%d", pos), append([]byte(nil), enc[:pos]...)})
	// insertion before the byte
	ins := []byte{'\n', ' ', 'A', enc[pos]}
	if thorough {
		ins = []byte{'\n', '\r', ' ', ':', '-', 'A', 'a', '0', '=', '/', 0x00, 0xc3, enc[pos]}
	}
	for _, v := range ins {
		m := make([]byte, 0, len(enc)+1)
		m = append(m, enc[:pos]...)
		m = append(m, v)
		m = append(m, enc[pos:]...)
		out = append(out, c18EditCase{fmt.Sprintf("ins:%d:0x%02x", pos, v), m})
	}
	if pos == len(enc)-1 { // bytes appended after the end
		for _, v := range []string{"\n", "\r", " ", "A", "=", "\n\n", "\nA", "\n\nA"} {
			out = append(out, c18EditCase{fmt.Sprintf("append:%q", v), append(append([]byte(nil), enc...), v...)})
		}
	}
	// transposition with the next byte (covers "move a body byte")
	if pos+1 < len(enc) && enc[pos] != enc[pos+1] {
		m := append([]byte(nil), enc...)
		m[pos], m[pos+1] = m[pos+1], m[pos]
		out = append(out, c18EditCase{fmt.Sprintf("swapbytes:%d", pos), m})
	}
	return out
}

// c18LineEdits: swap every pair of lines of the header part, duplicate every line, drop every line.
func c18LineEdits(o *c18Orig) []c18EditCase {
	var out []c18EditCase
	head := o.content
	rest := []byte(nil)
	if i := bytes.Index(o.content, c18nlnl); i >= 0 {
		head = o.content[:i]
		rest = o.content[i:]
	}
	lines := strings.Split(string(head), "\n")
	build := func(ls []string) []byte {
		c := append([]byte(strings.Join(ls, "\n")), rest...)
		return c18Join(c, o.sig)
	}
	for i := 0; i < len(lines); i++ {
		for j := i + 1; j < len(lines); j++ {
			if lines[i] == lines[j] {
				continue
			}
			ls := append([]string(nil), lines...)
			ls[i], ls[j] = ls[j], ls[i]
			out = append(out, c18EditCase{fmt.Sprintf("swaplines:%d:%d", i, j), build(ls)})
		}
		ls := append([]string(nil), lines[:i+1]...)
		ls = append(ls, lines[i:]...)
		out = append(out, c18EditCase{fmt.Sprintf("duplines:%d", i), build(ls)})
		ls = append([]string(nil), lines[:i]...)
		ls = append(ls, lines[i+1:]...)
		out = append(out, c18EditCase{fmt.Sprintf("droplines:%d", i), build(ls)})
	}
	return out
}

// c18ReencodeEdits: same content, same decoded signature, different base64 line structure: expected to stay accepted.
func c18ReencodeEdits(o *c18Orig) []c18EditCase {
	var out []c18EditCase
	for _, w := range []int{4, 19, 64, 76, 77, 100000} {
		for _, eol := range []string{"\n", "\r\n"} {
			out = append(out, c18EditCase{fmt.Sprintf("reencode:width=%d:eol=%q", w, eol), c18Join(o.content, c18EncodeSig(o.sigRaw, w, eol))})
		}
	}
	return out
}

// c18SigRawEdits: every edit of the decoded signature bytes (position x bit flips, or x every value), canonically re-encoded.
func c18SigRawEdits(o *c18Orig, pos int, thorough bool) []c18EditCase {
	var out []c18EditCase
	raw := o.sigRaw
	var vals []byte
	if thorough {
		vals = c18AllValues(raw[pos])
	} else {
		seen := map[byte]bool{raw[pos]: true}
		add := func(v byte) {
			if !seen[v] {
				seen[v] = true
				vals = append(vals, v)
			}
		}
		for b := uint(0); b < 8; b++ {
			add(raw[pos] ^ (1 << b))
		}
		// OpenPGP versions, signature types, algorithm identifiers and subpacket types are small numbers
		for v := 0; v < 32; v++ {
			add(byte(v))
		}
		add(0xff)
	}
	for _, v := range vals {
		out = append(out, c18EditCase{fmt.Sprintf("sigraw-set:%d:0x%02x", pos, v), c18Join(o.content, c18EncodeSig(c18Set(raw, pos, v), 76, "\n"))})
	}
	del := append(append([]byte(nil), raw[:pos]...), raw[pos+1:]...)
	out = append(out, c18EditCase{fmt.Sprintf("sigraw-del:%d", pos), c18Join(o.content, c18EncodeSig(del, 76, "\n"))})
	for _, v := range []byte{0x00, 0x01, 0xff, raw[pos]} {
		m := append(append(append([]byte(nil), raw[:pos]...), v), raw[pos:]...)
		out = append(out, c18EditCase{fmt.Sprintf("sigraw-ins:%d:0x%02x", pos, v), c18Join(o.content, c18EncodeSig(m, 76, "\n"))})
	}
	if pos == len(raw)-1 { // trailing data after the signature packet
		for _, v := range [][]byte{{0x00}, {0x01}, {0xff}, {raw[pos]}, {0x00, 0x00, 0x00}, raw[1:]} {
			m := append(append([]byte(nil), raw...), v...)
			out = append(out, c18EditCase{fmt.Sprintf("sigraw-append:%x", v), c18Join(o.content, c18EncodeSig(m, 76, "\n"))})
		}
	}
	return out
}

func (fx *c18Fx) originals() []*c18Orig {
	// signer per type: the trusted root key, an unconstrained stored key and a constrained stored key are all used
	signer := map[string]int{"account": c18kRoot, "account-key": c18kRoot, "snap-declaration": c18kRoot, "snap-revision": c18kOpen,
		"model": c18kOpen, "serial": c18kWindow, "validation-set": c18kCMatch, "system-user": c18kCMatch}
	var out []*c18Orig
	for _, typ := range c18Types {
		t, h, body, _ := fx.headersFor(typ, c18Mid)
		a := fx.sign(t, h, body, signer[typ])
		out = append(out, c18MakeOrig(typ, asserts.Encode(a)))
	}
	return out
}

func c18MakeOrig(name string, enc []byte) *c18Orig {
	o := &c18Orig{Name: name, Enc: enc}
	var ok bool
	o.content, o.sig, ok = c18Split(enc)
	if !ok {
		eng.HarnessError("C18: original %s has no content/signature separator", name)
	}
	o.sigRaw, ok = c18SigBytes(o.sig)
	if !ok {
		eng.HarnessError("C18: original %s: signature is not base64", name)
	}
	o.parsed, ok = c18ParseSig(o.sigRaw)
	if !ok {
		eng.HarnessError("C18: original %s: the harness cannot parse the signature packet %x", name, o.sigRaw)
	}
	return o
}

// ---- the test ----

func TestVerifC18(t *testing.T) {
	c18EnsureTestBinaryName()
	// soft budgets: the quick tier is sized by CPU cost (about 4 CPU-minutes, 15-30 s on 16 free cores); the budget is generous
	// because the shared machine is often several times oversubscribed
	r := eng.Start("C18", "exploration", 300*time.Second, 14*time.Minute)
	r.Assume("reference predicate c18Ref transcribed from the statement (earliest-time mode: a key is acceptable if it can be valid at some time >= earliest)",
		"the harness' own splitter (last blank line), base64 layer and raw OpenPGP signer (golang.org/x/crypto/openpgp/packet) define 'signed content' and 'decoded signature'",
		"key history: reference c18HistRef computed from the menu entry (validity window, constraints) of the newest stored revision of the signing account-key; every revision is added through the real Database.Add at a time inside every validity",
		"fixed 1024-bit RSA test keys; fixture prerequisites (accounts, account-keys, snap-declaration) satisfy every cross-consistency check so that only signature/validity/constraints decide")

	if rc := r.ReplayCase(); rc != nil {
		var c c18Case
		if err := json.Unmarshal(rc, &c); err != nil {
			eng.HarnessError("C18 replay: %v", err)
		}
		if c.Kind == "history" {
			if c.Hist == nil {
				eng.HarnessError("C18 replay: history case without history")
			}
			c18ReplayHistory(r, *c.Hist, c)
			r.Finish("replay")
		}
		db := c18Open(c18Decs(c.Trusted), c18Decs(c.Predefined), c18Decs(c.Stored))
		cand, _ := base64.StdEncoding.DecodeString(c.Candidate)
		for i := 0; i < 5; i++ {
			switch c.Kind {
			case "matrix":
				_, _, _, hasTS := c18NewFixture().headersFor(c.Cfg.Type, c18Mid)
				v, want, why := c18RunMatrixCase(db, *c.Cfg, cand, hasTS)
				fmt.Printf("replay %s: decode err=%v check err=%v add err=%v; reference accepts=%v %s\n", c.Cfg.key(), v.decErr, v.checkErr, v.addErr, want, why)
				if v.panicked != "" {
					r.Violation(v.panicKey(), "Decode/Check/Add panicked: "+v.panicked, c)
				}
				if v.accepted() && !want {
					r.Violation(c.Cfg.key(), "accepted although: "+why, c)
				}
			case "edit":
				ob, _ := base64.StdEncoding.DecodeString(c.Original)
				restore := asserts.MockTimeNow(c18Mid)
				j := c18Judge(db, c18MakeOrig(c.Orig, ob), cand)
				restore()
				fmt.Printf("replay edit %s/%s: decode err=%v check err=%v add err=%v benign=%v framing-only=%q %s\n", c.Orig, c.Edit, j.v.decErr, j.v.checkErr, j.v.addErr, j.benign, j.framing, j.msg)
				if j.msg != "" {
					r.Violation(c18EditKey(c.Orig, c.Edit, j), j.msg, c)
				}
			default:
				eng.HarnessError("C18 replay: unknown kind %q", c.Kind)
			}
		}
		r.Finish("replay")
	}

	fx := c18NewFixture()
	db := c18Open(fx.trusted, fx.predefined, fx.stored)
	mkCase := func(kind string) c18Case {
		return c18Case{Kind: kind, Trusted: c18Encs(fx.trusted), Predefined: c18Encs(fx.predefined), Stored: c18Encs(fx.stored)}
	}
	var overReject []string

	// ---- part 1: matrix (sequential: the clock mock is process global) ----
	var matrixCases, matrixAccepted, matrixRejectWanted, matrixUnknownCons, matrixUnknownConsAccepted int64
	for _, typ := range c18Types {
		for _, s := range c18Signers {
			for ts := range c18Points {
				_, _, _, hasTS := fx.headersFor(typ, c18Mid)
				if !hasTS && ts != 2 {
					continue // the type has no timestamp: one representative
				}
				// the candidate does not depend on clock / mode: sign once
				base := c18Cfg{Type: typ, Signer: s.Name, TS: ts}
				enc, _ := fx.buildMatrixCase(base)
				for clock := range c18Points {
					for _, earliest := range []bool{false, true} {
						c := base
						c.Clock, c.Earliest = clock, earliest
						v, want, why := c18RunMatrixCase(db, c, enc, hasTS)
						matrixCases++
						r.Distinct("matrix_outcome", v.class())
						if v.accepted() {
							matrixAccepted++
						}
						if s.Cons != nil {
							matrixUnknownCons++
							if v.accepted() {
								matrixUnknownConsAccepted++
							}
						}
						if !want {
							matrixRejectWanted++
						}
						cas := mkCase("matrix")
						cas.Cfg = &c
						cas.Candidate = base64.StdEncoding.EncodeToString(enc)
						if v.panicked != "" {
							r.Violation(v.panicKey(), "Decode/Check/Add panicked: "+v.panicked, cas)
						}
						if v.accepted() && !want {
							r.Violation(c.key(), fmt.Sprintf("accepted (check err=%v, add err=%v) although: %s", v.checkErr, v.addErr, why), cas)
						}
						if !v.accepted() && want {
							overReject = append(overReject, fmt.Sprintf("%s: decode err=%v check err=%v add err=%v", c.key(), v.decErr, v.checkErr, v.addErr))
						}
						if matrixCases == 1 || (v.accepted() && matrixAccepted == 1) {
							r.Sample(map[string]interface{}{"cfg": c, "reference_accepts": want, "outcome": v.class()})
						}
					}
				}
			}
		}
	}
	r.Add("matrix_cases", matrixCases)
	r.Add("matrix_accepted", matrixAccepted)
	r.Add("matrix_reference_rejects", matrixRejectWanted)
	r.Add("matrix_cases_key_constraints_naming_unknown_type", matrixUnknownCons)
	r.Add("matrix_accepted_key_constraints_naming_unknown_type", matrixUnknownConsAccepted)

	// ---- part 2: edits (parallel; fixed clock inside every validity) ----
	restore := asserts.MockTimeNow(c18Mid)
	defer restore()
	origs := fx.originals()
	var editCases, editAccepted, editRejected, editFraming, sigRawCases int64
	var mu sync.Mutex
	run := func(o *c18Orig, cases []c18EditCase, expectAccept bool) {
		var n, acc, fr int64
		for _, ec := range cases {
			j := c18Judge(db, o, ec.enc)
			v, benign, msg := j.v, j.benign, j.msg
			n++
			r.Distinct("edit_outcome", v.class())
			if j.framing != "" {
				fr++
				r.Distinct("accepted_signature_framing_variant_kinds", j.framing)
			}
			if msg != "" {
				cas := mkCase("edit")
				cas.Orig, cas.Edit = o.Name, ec.desc
				cas.Candidate = base64.StdEncoding.EncodeToString(ec.enc)
				cas.Original = base64.StdEncoding.EncodeToString(o.Enc)
				r.Violation(c18EditKey(o.Name, ec.desc, j), msg, cas)
			}
			if benign {
				acc++
				r.Add("benign_accepted_"+strings.SplitN(ec.desc, ":", 2)[0], 1)
			}
			if expectAccept && !v.accepted() {
				mu.Lock()
				overReject = append(overReject, fmt.Sprintf("edit %s/%s: decode err=%v check err=%v add err=%v", o.Name, ec.desc, v.decErr, v.checkErr, v.addErr))
				mu.Unlock()
			}
		}
		atomic.AddInt64(&editCases, n)
		atomic.AddInt64(&editAccepted, acc)
		atomic.AddInt64(&editRejected, n-acc-fr)
		atomic.AddInt64(&editFraming, fr)
	}
	bounds := map[string]int{"matrix_types": len(c18Types), "matrix_signers": len(c18Signers), "clock_points": len(c18Points), "timestamp_points": len(c18Points), "originals": len(origs)}
	var capped int32
	for _, o := range origs {
		bounds["bytes_"+o.Name] = len(o.Enc)
		// the untouched original must be accepted, else nothing below means anything
		if v := c18Eval(db, o.Enc, nil); !v.accepted() || v.checkErr != nil || v.addErr != nil {
			overReject = append(overReject, fmt.Sprintf("original %s: decode err=%v check err=%v add err=%v", o.Name, v.decErr, v.checkErr, v.addErr))
			continue
		}
		o := o
		eng.ParallelFor(len(o.Enc), func(pos int) {
			if r.TimeUp() {
				atomic.StoreInt32(&capped, 1)
				return
			}
			run(o, c18EditsAt(o, pos, r.Thorough()), false)
		})
		eng.ParallelFor(len(o.sigRaw), func(pos int) {
			if r.TimeUp() {
				atomic.StoreInt32(&capped, 1)
				return
			}
			cs := c18SigRawEdits(o, pos, r.Thorough())
			atomic.AddInt64(&sigRawCases, int64(len(cs)))
			run(o, cs, false)
		})
		run(o, c18LineEdits(o), false)
		run(o, c18ReencodeEdits(o), true)
		// signature splices: this content with the valid signature of every other original, and with a raw signature by every other key
		var sp []c18EditCase
		for _, p := range origs {
			if p != o {
				sp = append(sp, c18EditCase{"splice-sig-of:" + p.Name, c18Join(o.content, p.sig)})
			}
		}
		claimed := v1SignKeyID(o.content)
		for k := range fx.rsaKeys {
			if fx.id(k) != claimed {
				sp = append(sp, c18EditCase{fmt.Sprintf("rawsign-with-key:%d", k), c18Join(o.content, c18RawSign(o.content, fx.rsaKeys[k]))})
			}
		}
		run(o, sp, false)
		if r.WantSample() {
			r.Sample(map[string]interface{}{"original": o.Name, "encoded": string(o.Enc)})
		}
	}
	if atomic.LoadInt32(&capped) != 0 {
		r.Cap("time", "edit enumeration stopped early; counts say what was done")
	}
	// ---- part 3: key history (see verif_c18_hist_test.go; parallel over databases, one clock point at a time) ----
	hst := c18RunHistories(r, fx, &overReject)

	r.Add("edit_cases", editCases)
	r.Add("edit_cases_on_decoded_signature", sigRawCases)
	r.Add("edits_accepted_benign", editAccepted)
	r.Add("edits_rejected", editRejected)
	r.Add("edits_accepted_signature_framing_only", editFraming)
	r.Add("evaluations", matrixCases+editCases+hst.cases)
	// non-trivial: matrix cases the reference rejects (each must be refused by the real code) + edits that change
	// signed content or decoded signature (each must be refused)
	// + key history cases the newest stored revision of the key rejects
	r.Add("distinct_nontrivial", matrixRejectWanted+editRejected+hst.refRejects)
	r.Info("bounds", bounds)

	if r.NumViolations() == 0 && len(overReject) > 0 {
		n := len(overReject)
		if n > 5 {
			overReject = overReject[:5]
		}
		eng.HarnessError("C18: %d cases that the reference accepts were rejected (the property is 'accepted only if', so this is not a violation, but the check would be vacuous): %s", n, strings.Join(overReject, " || "))
	}
	r.Finish("matrix: every (type, signer, timestamp point, clock point, earliest mode); key history: every sequence of 1..3 revisions of the signing account-key (each revision: validity shape x constraints shape) x backstore kind x placement of the newest revision x clock point x mode x candidate (type, timestamp point); edits: for every original, every byte position x {substitution values, deletion, truncation, insertions, transposition}, every decoded-signature byte x {bit flips | all values, deletion, insertions}, every header line swap/duplication/drop, signature re-encodings, splices; distinct_nontrivial = matrix cases the reference rejects + key history cases the newest key revision rejects + edit cases refused because content or decoded signature changed")
}

var c18reSignKey = regexp.MustCompile(`(?m)^sign-key-sha3-384: (.*)$`)

func v1SignKeyID(content []byte) string {
	m := c18reSignKey.FindSubmatch(content)
	if m == nil {
		return ""
	}
	return string(m[1])
}

// c18EditKey: canonical violation key. Framing-only variants (strict mode) collapse to one key per kind.
func c18EditKey(orig, edit string, j c18Judgement) string {
	if j.v != nil && j.v.panicked != "" {
		return j.v.panicKey()
	}
	if j.framing != "" {
		return "sig-framing:" + j.framing
	}
	return "edit:" + orig + ":" + edit
}
