// C18 part 3 — key history.
//
// The signing account-key does not exist in one stored revision only: it is stored, then 0..2 newer
// revisions of the same account-key (same key id, revisions 0 < 9 < 10) are added before the assertion
// under test is checked. Every revision is drawn from the full menu validity x constraints:
//
//	validity    : window [S,U) | retired [S,U1) ("until moved into the past") | postponed [S1,U) ("since moved
//	              into the future") | open [S,∞) (thorough tier)
//	constraints : none (format 0) | admitting the assertion (format 1) | not admitting it (format 1)
//
// so that "same validity", "until moved into the past", "since moved into the future", "constraints added",
// "constraints lifted" and "constraints that no longer admit the assertion" are all sequences of the
// enumeration, in every order and combination. Every history is stored in a database over the memory
// backstore, over the filesystem backstore (fresh directory under the engine's work dir) and over the same
// directory opened a second time; and, for histories with a newer revision, also with the newest revision
// in a memory backstore stacked on those databases (the way snapd cross-checks batches of fetched
// assertions). Every database is crossed with every clock point x {system clock, earliest-time mode} x
// assertion type x timestamp point, the points being the boundary values of all three windows.
//
// Oracle: the property. The verdict must be the one implied by the NEWEST stored revision of the signing
// key; the reference is computed from the menu entry of that revision, never by asking the database.
package asserts_test

import (
	"fmt"
	"os"
	"path/filepath"
	"strings"
	"sync"
	"sync/atomic"
	"syscall"
	"time"

	"github.com/snapcore/snapd/asserts"
	"github.com/snapcore/snapd/osutil"
	eng "github.com/snapcore/snapd/verifengine"
)

// c18EnsureTestBinaryName: osutil only skips the fsync of every atomic file write (as it does in snapd's own unit
// tests) when argv[0] looks like a go test binary (.../go-build.../x.test); the driver runs $VERIF_WORK/bin/C18.test.
// Thousands of filesystem backstores are written in part 3: re-execute through a symlink with such a name.
func c18EnsureTestBinaryName() {
	if osutil.IsTestBinary() {
		return
	}
	if os.Getenv("C18_REEXEC") != "" {
		eng.HarnessError("re-executed but argv[0]=%q is still not recognised as a test binary", os.Args[0])
	}
	exe, err := os.Executable()
	if err != nil {
		eng.HarnessError("%v", err)
	}
	dir := filepath.Join(eng.WorkDir(), "go-build-verif")
	if err := os.MkdirAll(dir, 0755); err != nil {
		eng.HarnessError("%v", err)
	}
	link := filepath.Join(dir, strings.TrimSuffix(filepath.Base(exe), ".test")+".test")
	if cur, err := os.Readlink(link); err != nil || cur != exe {
		tmp := fmt.Sprintf("%s.%d", link, os.Getpid())
		os.Remove(tmp)
		if err := os.Symlink(exe, tmp); err != nil {
			eng.HarnessError("%v", err)
		}
		if err := os.Rename(tmp, link); err != nil {
			eng.HarnessError("%v", err)
		}
	}
	err = syscall.Exec(link, append([]string{link}, os.Args[1:]...), append(os.Environ(), "C18_REEXEC=1"))
	eng.HarnessError("cannot re-execute as %s: %v", link, err)
}

// the key of part 3: in the databases of part 3 (and only there) this key has an account-key
const c18kHist = c18kUnknown

var (
	c18U1 = c18S.Add(60 * 24 * time.Hour)  // until of a retired key
	c18S1 = c18S.Add(120 * 24 * time.Hour) // since of a postponed key

	// boundary values of the windows [S,U) [S,U1) [S1,U), in time order
	c18HPoints = []time.Time{c18S.Add(-time.Second), c18S, c18Mid, c18U1.Add(-time.Second), c18U1, c18S1.Add(-time.Second), c18S1, c18U.Add(-time.Second), c18U}
	c18HPNames = []string{"before-since", "at-since", "inside", "retired-until-1s", "at-retired-until", "postponed-since-1s", "at-postponed-since", "last-second", "at-until"}

	c18HValidity = []struct {
		name         string
		since, until time.Time
	}{
		{"window", c18S, c18U},
		{"retired", c18S, c18U1},
		{"postponed", c18S1, c18U},
		{"open", c18S, time.Time{}},
	}
	c18HConstraints = []string{"none", "admitting", "not-admitting"}
	// revision numbers of the 1st, 2nd, 3rd stored revision: increasing as numbers, not as strings
	c18HRevNo = []int{0, 9, 10}
)

const c18HNotAdmitting = 2

// c18HPointIdx: the clock / timestamp points a tier enumerates (indices into c18HPoints). Quick: the boundary values;
// "inside" implies the same verdict as "at-since" for every validity shape and is left to the thorough tier.
func c18HPointIdx(thorough bool) []int {
	var out []int
	for i := range c18HPoints {
		if thorough || c18HPNames[i] != "inside" {
			out = append(out, i)
		}
	}
	return out
}

// c18Rev is one menu entry: the shape of one revision of the signing account-key.
type c18Rev struct {
	V int `json:"validity"`
	C int `json:"constraints"`
}

func (s c18Rev) String() string { return c18HValidity[s.V].name + "/" + c18HConstraints[s.C] }

func c18HistString(h []c18Rev) string {
	var l []string
	for _, s := range h {
		l = append(l, s.String())
	}
	return strings.Join(l, ">")
}

// c18HistRef: the verdict the property implies when the signing key is as described by shape s.
// (earliest-time mode: the current time is only known to be >= earliest, a key is acceptable if it can be valid at such a time.)
func c18HistRef(s c18Rev, clock time.Time, earliest bool, hasTS bool, ts time.Time) (bool, string) {
	w := c18HValidity[s.V]
	if !earliest && clock.Before(w.since) {
		return false, "key not yet valid at the current time according to its newest stored revision"
	}
	if !w.until.IsZero() && !clock.Before(w.until) {
		return false, "key expired at the current time according to its newest stored revision"
	}
	if hasTS && (ts.Before(w.since) || (!w.until.IsZero() && !ts.Before(w.until))) {
		return false, "assertion timestamp outside the key validity of the newest stored revision"
	}
	if s.C == c18HNotAdmitting {
		return false, "constraints of the newest stored revision of the key do not admit the assertion"
	}
	return true, ""
}

type c18HistCand struct {
	Type  string
	TS    int // index into c18HPoints; -1: the type has no timestamp
	hasTS bool
	a     asserts.Assertion
}

type c18HistPool struct {
	fx     *c18Fx
	shapes []c18Rev
	// revs[i][shape]: the account-key revision c18HRevNo[i] of the history key with that shape
	revs  []map[c18Rev]asserts.Assertion
	cands []c18HistCand
}

// histKeyRevision signs revision c18HRevNo[i] of the history key's account-key with shape s. Constraints list one
// entry per candidate type (every entry costs two regexp compilations each time snapd decodes the key).
func (fx *c18Fx) histKeyRevision(i int, s c18Rev, types []string) asserts.Assertion {
	w := c18HValidity[s.V]
	h := map[string]interface{}{
		"authority-id":        c18Authority,
		"account-id":          c18Authority,
		"name":                "hist",
		"public-key-sha3-384": fx.id(c18kHist),
		"since":               c18T(w.since),
	}
	if !w.until.IsZero() {
		h["until"] = c18T(w.until)
	}
	if c18HRevNo[i] != 0 {
		h["revision"] = fmt.Sprint(c18HRevNo[i])
	}
	if s.C != 0 {
		var cs []interface{}
		for _, t := range types {
			tag := "o[a-k]"
			if s.C == c18HNotAdmitting {
				tag = "nope"
			}
			cs = append(cs, map[string]interface{}{"headers": map[string]interface{}{"type": t, "x-tag": tag}})
		}
		h["format"] = "1"
		h["constraints"] = cs
	}
	a := fx.sign(asserts.AccountKeyType, h, fx.pubBody(c18kHist), c18kRoot)
	wantFormat := 0
	if s.C != 0 {
		wantFormat = 1
	}
	if a.Format() != wantFormat || a.Revision() != c18HRevNo[i] {
		eng.HarnessError("C18 key history: revision %d shape %s came out with format %d revision %d", c18HRevNo[i], s, a.Format(), a.Revision())
	}
	return a
}

func (fx *c18Fx) newHistPool(validities int, types []string, points []int) *c18HistPool {
	hp := &c18HistPool{fx: fx}
	for v := 0; v < validities; v++ {
		for c := range c18HConstraints {
			hp.shapes = append(hp.shapes, c18Rev{V: v, C: c})
		}
	}
	for i := range c18HRevNo {
		m := map[c18Rev]asserts.Assertion{}
		for _, s := range hp.shapes {
			m[s] = fx.histKeyRevision(i, s, types)
		}
		hp.revs = append(hp.revs, m)
	}
	for _, typ := range types {
		for n, ts := range points {
			t, h, body, hasTS := fx.headersFor(typ, c18HPoints[ts])
			if !hasTS && n != 0 {
				break
			}
			signed := fx.sign(t, h, body, c18kHist)
			// the candidate goes through the real decoder, as in parts 1 and 2 (once: decoded assertions are immutable)
			a, err := asserts.Decode(asserts.Encode(signed))
			if err != nil {
				eng.HarnessError("C18 key history: cannot decode candidate %s: %v", typ, err)
			}
			c := c18HistCand{Type: typ, TS: ts, hasTS: hasTS, a: a}
			if !hasTS {
				c.TS = -1
			}
			hp.cands = append(hp.cands, c)
		}
	}
	return hp
}

// histories: every sequence of 1..maxLen shapes (oldest revision first).
func (hp *c18HistPool) histories(maxLen int) [][]c18Rev {
	var out [][]c18Rev
	var rec func(cur []c18Rev)
	rec = func(cur []c18Rev) {
		if len(cur) > 0 {
			out = append(out, append([]c18Rev(nil), cur...))
		}
		if len(cur) == maxLen {
			return
		}
		for _, s := range hp.shapes {
			rec(append(cur, s))
		}
	}
	rec(nil)
	return out
}

var c18HBackstores = []string{"memory", "filesystem", "filesystem-reopened"}

type c18HistVariant struct {
	hist      []c18Rev
	backstore string
	placement string // base: every revision in the database's own backstore | stacked-newest: newest revision in a memory backstore stacked on it
	chk       *asserts.Database
	reported  bool
}

// c18OpenOn builds a database over bs holding the fixture's stored assertions and then the given account-key
// revisions, through the real Add. The (global) clock must be mocked inside every fixture key validity by the caller.
func (fx *c18Fx) c18OpenOn(bs asserts.Backstore, more []asserts.Assertion) *asserts.Database {
	db, err := asserts.OpenDatabase(&asserts.DatabaseConfig{Backstore: bs, Trusted: fx.trusted, OtherPredefined: fx.predefined})
	if err != nil {
		eng.HarnessError("C18 key history: OpenDatabase: %v", err)
	}
	for _, l := range [][]asserts.Assertion{fx.histStored(), more} {
		for _, a := range l {
			if err := db.Add(a); err != nil {
				eng.HarnessError("C18 key history: cannot add %s revision %d: %v (a mutation that rejects valid prerequisite assertions cannot be examined)", a.Ref(), a.Revision(), err)
			}
		}
	}
	return db
}

// histStored: the prerequisites of the candidates of part 3 (account dev1, snap-declaration foo). The other account-keys
// of the fixture are left out: every Add of an account-key searches and decodes all stored account-keys.
func (fx *c18Fx) histStored() []asserts.Assertion {
	var out []asserts.Assertion
	for _, a := range fx.stored {
		if (a.Type() == asserts.AccountType && a.HeaderString("account-id") == "dev1") || a.Type() == asserts.SnapDeclarationType {
			out = append(out, a)
		}
	}
	if len(out) != 2 {
		eng.HarnessError("C18 key history: fixture prerequisites not found")
	}
	return out
}

func c18OpenFS(dir string) asserts.Backstore {
	bs, err := asserts.OpenFSBackstore(dir)
	if err != nil {
		eng.HarnessError("C18 key history: OpenFSBackstore(%s): %v", dir, err)
	}
	return bs
}

// buildVariants stores one history in every kind of database. dir: private directory of this history.
func (hp *c18HistPool) buildVariants(hist []c18Rev, dir string) []*c18HistVariant {
	fx := hp.fx
	var revs []asserts.Assertion
	for i, s := range hist {
		revs = append(revs, hp.revs[i][s])
	}
	var out []*c18HistVariant
	for _, placement := range []string{"base", "stacked-newest"} {
		inBase := revs
		var newest asserts.Assertion
		if placement == "stacked-newest" {
			if len(revs) < 2 {
				continue
			}
			inBase, newest = revs[:len(revs)-1], revs[len(revs)-1]
		}
		fsdir := filepath.Join(dir, placement)
		dbs := []*asserts.Database{
			fx.c18OpenOn(asserts.NewMemoryBackstore(), inBase),
			fx.c18OpenOn(c18OpenFS(fsdir), inBase),
		}
		// the same directory opened again, after everything was written (nothing is added through this one)
		reopened, err := asserts.OpenDatabase(&asserts.DatabaseConfig{Backstore: c18OpenFS(fsdir), Trusted: fx.trusted, OtherPredefined: fx.predefined})
		if err != nil {
			eng.HarnessError("C18 key history: OpenDatabase: %v", err)
		}
		dbs = append(dbs, reopened)
		for k, db := range dbs {
			chk := db
			if newest != nil {
				chk = db.WithStackedBackstore(asserts.NewMemoryBackstore())
				if err := chk.Add(newest); err != nil {
					eng.HarnessError("C18 key history: cannot add %s revision %d to the stacked database: %v", newest.Ref(), newest.Revision(), err)
				}
			}
			out = append(out, &c18HistVariant{hist: hist, backstore: c18HBackstores[k], placement: placement, chk: chk})
		}
	}
	return out
}

// c18HistCase identifies one case of part 3 (replayable: everything else is rebuilt from the fixed keys).
type c18HistCase struct {
	Revisions   []c18Rev `json:"key_revisions_oldest_first"`
	Described   string   `json:"key_revisions_described"`
	RevisionNos []int    `json:"key_revision_numbers"`
	Backstore   string   `json:"backstore"`
	Placement   string   `json:"placement"`
	Type        string   `json:"type"`
	TS          int      `json:"timestamp_point"`
	Clock       int      `json:"clock_point"`
	Earliest    bool     `json:"earliest_mode"`
}

func (c c18HistCase) key() string {
	ts := "none"
	if c.TS >= 0 {
		ts = c18HPNames[c.TS]
	}
	return fmt.Sprintf("history:%s:%s:%s:%s:clock=%s:earliest=%v:ts=%s", c.Backstore, c.Placement, c18HistString(c.Revisions), c.Type, c18HPNames[c.Clock], c.Earliest, ts)
}

// c18HistEval: Check on the database holding the history and Add on a database stacked on it.
func c18HistEval(chk *asserts.Database, a asserts.Assertion, earliest *time.Time) (v *c18Verdict) {
	v = &c18Verdict{decoded: a}
	defer func() {
		if p := recover(); p != nil {
			v.panicked = fmt.Sprint(p)
			v.checkErr = fmt.Errorf("PANIC: %v", p)
			v.addErr = v.checkErr
		}
	}()
	v.checkErr = chk.Check(a)
	sdb := chk.WithStackedBackstore(asserts.NewMemoryBackstore())
	if earliest != nil {
		sdb.SetEarliestTime(*earliest)
	}
	v.addErr = sdb.Add(a)
	return v
}

type c18HistStats struct {
	cases, accepted, refRejects, distinguishing, violating int64
}

// c18HistRunPhase evaluates every candidate on one database at one clock point / mode. The global clock mock is
// set by the caller (the same for all databases evaluated concurrently).
func (hp *c18HistPool) runPhase(r *eng.Run, va *c18HistVariant, clock int, earliest bool, st *c18HistStats, overReject *[]string, mu *sync.Mutex) {
	now := c18HPoints[clock]
	var ep *time.Time
	if earliest {
		ep = &now
		va.chk.SetEarliestTime(now)
	} else {
		va.chk.SetEarliestTime(time.Time{})
	}
	newest := va.hist[len(va.hist)-1]
	classes := map[string]bool{}
	var n, acc, rej, dist, viol int64
	for _, cd := range hp.cands {
		var ts time.Time
		if cd.hasTS {
			ts = c18HPoints[cd.TS]
		}
		want, why := c18HistRef(newest, now, earliest, cd.hasTS, ts)
		v := c18HistEval(va.chk, cd.a, ep)
		n++
		classes[v.class()] = true
		if v.accepted() {
			acc++
		}
		if !want {
			rej++
		}
		for _, old := range va.hist[:len(va.hist)-1] {
			if w, _ := c18HistRef(old, now, earliest, cd.hasTS, ts); w != want {
				dist++
				break
			}
		}
		bad := v.panicked != "" || (v.accepted() && !want)
		if bad {
			viol++
		}
		if (bad && !va.reported) || (!v.accepted() && want) {
			c := c18HistCase{Revisions: va.hist, Described: c18HistString(va.hist), RevisionNos: c18HRevNo[:len(va.hist)], Backstore: va.backstore, Placement: va.placement,
				Type: cd.Type, TS: cd.TS, Clock: clock, Earliest: earliest}
			switch {
			case v.panicked != "":
				va.reported = true
				r.Violation(v.panicKey(), "Check/Add panicked: "+v.panicked, c18Case{Kind: "history", Hist: &c})
			case bad:
				// one violation per database: the first failing case in enumeration order
				va.reported = true
				r.Violation(c.key(), fmt.Sprintf("accepted (check err=%v, add err=%v) although: %s", v.checkErr, v.addErr, why), c18Case{Kind: "history", Hist: &c})
			default:
				mu.Lock()
				*overReject = append(*overReject, fmt.Sprintf("%s: check err=%v add err=%v", c.key(), v.checkErr, v.addErr))
				mu.Unlock()
			}
		}
	}
	for c := range classes {
		r.Distinct("history_outcome", c)
	}
	atomic.AddInt64(&st.cases, n)
	atomic.AddInt64(&st.accepted, acc)
	atomic.AddInt64(&st.refRejects, rej)
	atomic.AddInt64(&st.distinguishing, dist)
	atomic.AddInt64(&st.violating, viol)
}

func c18HistTypes(thorough bool) []string {
	if thorough {
		// one type with a timestamp, the two types without (account-key: its own consistency check searches the account-keys)
		return []string{"model", "account-key", "system-user"}
	}
	// one type with a timestamp (crossed with every timestamp point), one without
	return []string{"model", "system-user"}
}

// c18RunHistories is part 3. It returns the counters; overReject collects cases the reference accepts and the code refuses.
func c18RunHistories(r *eng.Run, fx *c18Fx, overReject *[]string) *c18HistStats {
	st := &c18HistStats{}
	validities := 3
	if r.Thorough() {
		validities = len(c18HValidity)
	}
	points := c18HPointIdx(r.Thorough())
	hp := fx.newHistPool(validities, c18HistTypes(r.Thorough()), points)
	hists := hp.histories(len(c18HRevNo))
	root := filepath.Join(eng.WorkDir(), fmt.Sprintf("c18-keyhist-%d", os.Getpid()))
	os.RemoveAll(root)
	defer os.RemoveAll(root)
	var mu sync.Mutex
	var nvariants, done int64
	const chunk = 96
	for start := 0; start < len(hists); start += chunk {
		if r.TimeUp() {
			r.Cap("time", fmt.Sprintf("key history enumeration stopped after %d of %d histories", done, len(hists)))
			break
		}
		end := start + chunk
		if end > len(hists) {
			end = len(hists)
		}
		built := make([][]*c18HistVariant, end-start)
		restore := asserts.MockTimeNow(c18Mid)
		eng.ParallelFor(end-start, func(i int) {
			built[i] = hp.buildVariants(hists[start+i], filepath.Join(root, fmt.Sprintf("h%06d", start+i)))
		})
		restore()
		var flat []*c18HistVariant
		for _, b := range built {
			flat = append(flat, b...)
		}
		nvariants += int64(len(flat))
		for _, clock := range points {
			clock := clock
			for _, earliest := range []bool{false, true} {
				earliest := earliest
				// earliest-time mode: the system clock holds a decoy that must not be consulted
				t := c18HPoints[clock]
				if earliest {
					t = c18Decoy
				}
				restore := asserts.MockTimeNow(t)
				eng.ParallelFor(len(flat), func(i int) {
					hp.runPhase(r, flat[i], clock, earliest, st, overReject, &mu)
				})
				restore()
			}
		}
		if start == 0 && len(flat) > 0 {
			va := flat[len(flat)-1]
			r.Sample(map[string]interface{}{"part": "key history", "key_revisions_oldest_first": c18HistString(va.hist), "revision_numbers": c18HRevNo[:len(va.hist)],
				"backstore": va.backstore, "placement": va.placement, "crossed_with": "every clock point x mode x candidate"})
		}
		done += int64(end - start)
		os.RemoveAll(root)
	}
	r.Add("history_key_histories", done)
	r.Add("history_databases", nvariants)
	r.Add("history_cases", st.cases)
	r.Add("history_accepted", st.accepted)
	r.Add("history_reference_rejects", st.refRejects)
	r.Add("history_cases_where_an_older_revision_implies_another_verdict", st.distinguishing)
	if st.violating > 0 {
		r.Add("history_violating_cases", st.violating)
	}
	r.Info("key_history_bounds", map[string]int{"revision_shapes": len(hp.shapes), "max_revisions": len(c18HRevNo), "backstore_kinds": len(c18HBackstores), "placements": 2,
		"clock_points": len(points), "timestamp_points": len(points), "modes": 2, "candidates": len(hp.cands), "types": len(c18HistTypes(r.Thorough()))})
	return st
}

// c18ReplayHistory rebuilds the one database of a part 3 case and runs the case.
func c18ReplayHistory(r *eng.Run, c c18HistCase, full c18Case) {
	fx := c18NewFixture()
	hp := fx.newHistPool(len(c18HValidity), []string{c.Type}, c18HPointIdx(true))
	root := filepath.Join(eng.WorkDir(), fmt.Sprintf("c18-keyhist-replay-%d", os.Getpid()))
	os.RemoveAll(root)
	defer os.RemoveAll(root)
	restore := asserts.MockTimeNow(c18Mid)
	vs := hp.buildVariants(c.Revisions, root)
	restore()
	var va *c18HistVariant
	for _, v := range vs {
		if v.backstore == c.Backstore && v.placement == c.Placement {
			va = v
		}
	}
	var cd *c18HistCand
	for i := range hp.cands {
		if hp.cands[i].TS == c.TS {
			cd = &hp.cands[i]
		}
	}
	if va == nil || cd == nil {
		eng.HarnessError("C18 replay: no such key history case: %s", c.key())
	}
	now := c18HPoints[c.Clock]
	var ts time.Time
	if cd.hasTS {
		ts = c18HPoints[cd.TS]
	}
	want, why := c18HistRef(c.Revisions[len(c.Revisions)-1], now, c.Earliest, cd.hasTS, ts)
	for i := 0; i < 5; i++ {
		var ep *time.Time
		t := now
		if c.Earliest {
			ep = &now
			va.chk.SetEarliestTime(now)
			t = c18Decoy
		}
		restore := asserts.MockTimeNow(t)
		v := c18HistEval(va.chk, cd.a, ep)
		restore()
		fmt.Printf("replay %s: check err=%v add err=%v; reference accepts=%v %s\n", c.key(), v.checkErr, v.addErr, want, why)
		if v.panicked != "" {
			r.Violation(v.panicKey(), "Check/Add panicked: "+v.panicked, full)
		}
		if v.accepted() && !want {
			r.Violation(c.key(), "accepted although: "+why, full)
		}
	}
}
