//go:build verif

// Overlay-mounted (never written to /repo) export for the C06 crash-state check: gives a NON-test
// program access to the unexported state backend the overlord installs for state.json, so that the
// traced Checkpoint is the real one (overlord/backend.go) reached through a real state.State unlock.
package overlord

import (
	"time"

	"github.com/snapcore/snapd/overlord/state"
)

// VerifC06StateBackend returns the real overlordStateBackend for path.
func VerifC06StateBackend(path string) state.Backend {
	return &overlordStateBackend{path: path, ensureBefore: func(time.Duration) {}}
}
