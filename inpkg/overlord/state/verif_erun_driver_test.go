package state

import (
	"fmt"
	"sort"
	"strings"
	"time"

	"gopkg.in/tomb.v2"
)

// ---- driver steps (each returns only when the world is quiescent again) ----

// collectStarts waits until every goroutine the runner has a tomb for is parked.
func (w *world) collectStarts() {
	for {
		w.r.mu.Lock()
		n := len(w.r.tombs)
		w.r.mu.Unlock()
		if len(w.parked) >= n {
			if len(w.parked) > n {
				panic(fmt.Sprintf("harness: %d parked handlers but %d tombs", len(w.parked), n))
			}
			return
		}
		select {
		case ev := <-w.startCh:
			if _, dup := w.parked[ev.i]; dup {
				w.problem("handler of t%d started while a handler of the same task is still running", ev.i)
			}
			w.parked[ev.i] = &parkedH{phase: ev.phase, tb: ev.tb, release: ev.rel}
			w.st.Lock()
			stt := w.tasks[ev.i].Status()
			w.st.Unlock()
			w.starts = append(w.starts, fmt.Sprintf("t%d/%s", ev.i, ev.phase))
			if w.obs != nil {
				w.obs.handlerStart(w, ev.i, ev.phase, stt)
			}
		case <-time.After(3 * time.Minute): // generous: only a real deadlock should trip this, never machine load
			panic("harness: handler goroutine did not park within 3 minutes (deadlock in runner?)")
		}
	}
}

func (w *world) ensure(perm []int) {
	w.activate()
	rank := map[string]int{}
	for k, i := range perm {
		rank[w.tasks[i].ID()] = k + 1000
	}
	VerifOrderTasks = func(ts []*Task) {
		sort.SliceStable(ts, func(a, b int) bool {
			ra, oka := rank[ts[a].ID()]
			rb, okb := rank[ts[b].ID()]
			if !oka {
				ra = w.idx[ts[a].ID()]
			}
			if !okb {
				rb = w.idx[ts[b].ID()]
			}
			return ra < rb
		})
	}
	w.inEnsure = true
	w.r.Ensure()
	w.inEnsure = false
	VerifOrderTasks = nil
	w.collectStarts()
}

func (w *world) complete(i int) {
	w.activate()
	p := w.parked[i]
	if p == nil {
		panic(fmt.Sprintf("harness: complete(t%d) but not parked", i))
	}
	delete(w.parked, i)
	if co, ok := w.obs.(completeObs); ok {
		co.preComplete(w, i, p.phase)
	}
	close(p.release)
	p.tb.Wait() // returns after the completion section released both locks
	if co, ok := w.obs.(completeObs); ok {
		co.postComplete(w, i, p.phase)
	}
	w.collectStarts()
}

// completeObs is an optional extension of observer: called (without the state lock) right before a parked
// handler is released and right after its completion section has finished.
type completeObs interface {
	preComplete(w *world, i int, phase string)
	postComplete(w *world, i int, phase string)
}

func (w *world) resolveWait(i int) {
	w.activate()
	w.st.Lock()
	t := w.tasks[i]
	if t.Status() != WaitStatus {
		w.st.Unlock()
		panic("harness: resolveWait on non-waiting task")
	}
	t.SetStatus(t.WaitedStatus()) // what overlord/restart does when the restart happened
	w.st.Unlock()
}

func (w *world) userAbort() {
	w.activate()
	w.st.Lock()
	if w.chg.IsReady() {
		w.st.Unlock()
		panic("harness: abort on ready change")
	}
	func() {
		defer func() {
			if e := recover(); e != nil {
				w.problem("panic: Change.Abort() on an unready change panicked: %v", e)
			}
		}()
		w.chg.Abort() // daemon/api_general.go:abortChange
	}()
	w.st.Unlock()
}

func (w *world) advance() {
	w.activate()
	w.st.Lock()
	var next time.Time
	for _, t := range w.tasks {
		at := t.AtTime()
		if !at.IsZero() && at.After(w.now) && (next.IsZero() || at.Before(next)) {
			next = at
		}
	}
	w.st.Unlock()
	if next.IsZero() {
		panic("harness: advance without pending schedule")
	}
	w.now = next
}

// dispose releases every parked handler of a world that will not be used any more and waits for them.
func (w *world) dispose() {
	w.dead = true
	w.activate()
	for i, p := range w.parked {
		delete(w.parked, i)
		close(p.release)
		p.tb.Wait()
	}
	// handlers started by completion sections of a dead world cannot exist: nothing calls Ensure any more
}

// ---- state key ----

func (w *world) key() string {
	w.st.Lock()
	defer w.st.Unlock()
	var sb strings.Builder
	for i, t := range w.tasks {
		s := t.Status()
		fmt.Fprintf(&sb, "%d:%d", i, int(s))
		if s == WaitStatus {
			fmt.Fprintf(&sb, "w%d", int(t.WaitedStatus()))
		}
		if t.IsClean() {
			sb.WriteByte('c')
		}
		if p := w.parked[i]; p != nil {
			sb.WriteString("P" + p.phase[:1])
			if p.tb.Err() != tomb.ErrStillAlive {
				sb.WriteByte('!')
			}
		}
		if w.retries[i] > 0 {
			fmt.Fprintf(&sb, "r%d", w.retries[i])
		}
		if at := t.AtTime(); !at.IsZero() {
			if at.After(w.now) {
				sb.WriteString("@f")
			} else {
				sb.WriteString("@p")
			}
		}
		sb.WriteByte(' ')
	}
	if w.chg.IsReady() {
		sb.WriteString("R")
	}
	if w.chg.IsClean() {
		sb.WriteString("C")
	}
	if w.crashes > 0 {
		fmt.Fprintf(&sb, "K%d", w.crashes)
	}
	return sb.String()
}

func (w *world) statuses() []Status {
	w.st.Lock()
	defer w.st.Unlock()
	res := make([]Status, len(w.tasks))
	for i, t := range w.tasks {
		res[i] = t.Status()
	}
	return res
}

func (w *world) describe() string {
	w.st.Lock()
	defer w.st.Unlock()
	var parts []string
	for i, t := range w.tasks {
		p := ""
		if w.parked[i] != nil {
			p = "*"
		}
		parts = append(parts, fmt.Sprintf("t%d=%s%s", i, t.Status(), p))
	}
	return strings.Join(parts, " ") + fmt.Sprintf(" chg=%s ready=%v", w.chg.Status(), w.chg.IsReady())
}

// ---- enabled events ----

type alphabet struct {
	resolve bool
	abort   int // max user aborts per path
	advance bool
	crash   int // max crashes (restart from the last checkpoint) per path
}

func permutations(xs []int) [][]int {
	if len(xs) <= 1 {
		return [][]int{append([]int(nil), xs...)}
	}
	var res [][]int
	for i := range xs {
		rest := append(append([]int(nil), xs[:i]...), xs[i+1:]...)
		for _, p := range permutations(rest) {
			res = append(res, append([]int{xs[i]}, p...))
		}
	}
	return res
}

// ensurePerms: visiting orders of the candidates of a pass (tasks without a goroutine that the pass can act on),
// reduced by trace equivalence: two adjacent candidates without a direct wait edge commute (processing one does not
// change what mustWait/tryUndo see for the other), so only orders with no adjacent independent inversion are kept
// (a superset of one representative per equivalence class).
func (w *world) ensurePerms() [][]int {
	w.st.Lock()
	var cand []int
	for i, t := range w.tasks {
		if w.parked[i] != nil {
			continue
		}
		switch t.Status() {
		case DoStatus, UndoStatus, AbortStatus, DoingStatus, UndoingStatus:
			cand = append(cand, i)
		}
	}
	w.st.Unlock()
	var res [][]int
	for _, p := range permutations(cand) {
		ok := true
		for k := 0; k+1 < len(p); k++ {
			if p[k] > p[k+1] && !w.cfg.dependent(p[k], p[k+1]) {
				ok = false
				break
			}
		}
		if ok {
			res = append(res, p)
		}
	}
	return res
}

func (w *world) enabled(al alphabet, abortsUsed int) []erEvent {
	var evs []erEvent
	var parkedIdx []int
	for i := range w.parked {
		parkedIdx = append(parkedIdx, i)
	}
	sort.Ints(parkedIdx)
	for _, i := range parkedIdx {
		evs = append(evs, erEvent{Kind: "complete", T: i})
		if w.cfg.AbortMix && w.cfg.AbortResp != 2 && w.parked[i].tb.Err() != tomb.ErrStillAlive {
			evs = append(evs, erEvent{Kind: "completeR", T: i})
		}
	}
	for _, p := range w.ensurePerms() {
		evs = append(evs, erEvent{Kind: "ensure", Perm: p})
	}
	w.st.Lock()
	ready := w.chg.IsReady()
	var waiting []int
	future := false
	for i, t := range w.tasks {
		if t.Status() == WaitStatus {
			waiting = append(waiting, i)
		}
		if at := t.AtTime(); !at.IsZero() && at.After(w.now) {
			future = true
		}
	}
	w.st.Unlock()
	if al.resolve {
		for _, i := range waiting {
			evs = append(evs, erEvent{Kind: "resolve", T: i})
		}
	}
	if al.advance && future {
		evs = append(evs, erEvent{Kind: "advance"})
	}
	if al.abort > abortsUsed && !ready {
		evs = append(evs, erEvent{Kind: "abort"})
	}
	if al.crash > w.crashes {
		evs = append(evs, erEvent{Kind: "crash"})
	}
	return evs
}

func (w *world) apply(ev erEvent) {
	switch ev.Kind {
	case "ensure":
		w.ensure(ev.Perm)
	case "complete":
		w.complete(ev.T)
	case "completeR":
		if w.forceRetry == nil {
			w.forceRetry = map[int]bool{}
		}
		w.forceRetry[ev.T] = true
		w.complete(ev.T)
	case "resolve":
		w.resolveWait(ev.T)
	case "abort":
		w.userAbort()
	case "advance":
		w.advance()
	case "crash":
		w.crash()
	default:
		panic("harness: unknown event " + ev.Kind)
	}
	if so, ok := w.obs.(stepObs); ok {
		so.afterStep(w)
	}
}

// stepObs is an optional extension of observer: called after every driver step (also while replaying a prefix).
type stepObs interface{ afterStep(w *world) }

// ---- exploration of one configuration ----

type explorer struct {
	cfg       *erConfig
	al        alphabet
	newObs    func() observer
	keepCP    bool
	seen      map[string]bool
	states    int
	trans     int
	terminals map[string]bool
	maxDepth  int
	maxParked int
	// callbacks
	onState    func(w *world, path []erEvent)                     // every new state
	onTerminal func(w *world, path []erEvent)                     // every terminal state
	onProblem  func(path []erEvent, msg string)                   // a violation
	onDone     func()                                             // after the whole configuration was explored
	onStep     func(w *world, path []erEvent, ev erEvent, pre string) // after each transition (new or not)
}

func (x *explorer) build(path []erEvent) *world {
	w := newWorld(x.cfg, x.newObs(), x.keepCP)
	for _, ev := range path {
		w.apply(ev)
	}
	w.problems = nil // problems on the prefix were reported when first seen
	return w
}

func countAborts(path []erEvent) int {
	n := 0
	for _, e := range path {
		if e.Kind == "abort" {
			n++
		}
	}
	return n
}

func (x *explorer) run() {
	x.seen = map[string]bool{}
	x.terminals = map[string]bool{}
	w := x.build(nil)
	x.seen[w.key()] = true
	x.states = 1
	if x.onState != nil {
		x.onState(w, nil)
	}
	x.dfs(nil, w)
	if x.onDone != nil {
		x.onDone()
	}
}

// dfs takes ownership of w (live at path) and disposes it.
func (x *explorer) dfs(path []erEvent, w *world) {
	if len(path) > x.maxDepth {
		x.maxDepth = len(path)
	}
	if len(w.parked) > x.maxParked {
		x.maxParked = len(w.parked)
	}
	preKey := w.key()
	evs := w.enabled(x.al, countAborts(path))
	progress := false
	for k, ev := range evs {
		var w2 *world
		if k == len(evs)-1 {
			w2 = w
			w = nil
		} else {
			w2 = x.build(path)
			if got := w2.key(); got != preKey {
				panic(fmt.Sprintf("harness: replay diverged on %s: path %v: %q vs %q", x.cfg, path, got, preKey))
			}
		}
		w2.apply(ev)
		x.trans++
		npath := append(append([]erEvent(nil), path...), ev)
		for _, p := range w2.problems {
			x.onProblem(npath, p)
		}
		w2.problems = nil
		if x.onStep != nil {
			x.onStep(w2, npath, ev, preKey)
		}
		key := w2.key()
		if key != preKey && ev.Kind != "crash" { // a crash is not progress of the change: terminal states are judged without it
			progress = true
		}
		if x.seen[key] {
			w2.dispose()
			continue
		}
		x.seen[key] = true
		x.states++
		if x.onState != nil {
			x.onState(w2, npath)
		}
		x.dfs(npath, w2)
	}
	if !progress {
		// terminal: nothing parked, every Ensure order is a no-op, nothing to resolve/advance
		if !x.terminals[preKey] {
			x.terminals[preKey] = true
			if x.onTerminal != nil {
				tw := w
				if tw == nil {
					tw = x.build(path)
					defer tw.dispose()
				}
				x.onTerminal(tw, path)
			}
		}
	}
	if w != nil {
		w.dispose()
	}
}
