// C08 — notices are delivered exactly once, in order, only to their owner; waiters are woken.
//
// In-package harness (package state): needs the unexported Notice fields to observe poll results without a
// JSON round trip per notice, the settable clock `timeNow`, and State.noticeCond to observe the wait queue.
//
// Part 1 (seq): every history of AddNotice calls over a small colliding alphabet up to a depth bound; after
//   every prefix, every client filter polls Notices(After: cursor) from every cursor value any client
//   with that filter could hold (i.e. all poll patterns at once; polls are read-only so clients are
//   independent). A reference model over logical event indices says what each poll must return.
// Part 2a (wait-seq): the same exploration (smaller bound) where the client step is WaitNotices with an
//   already-cancelled / already-expired context (operation-level atomic step).
// Part 2b (sched): waiters really block inside WaitNotices (sync.Cond.Wait) on their own goroutines; the
//   driver enumerates every add sequence x every grouping of the adds into lock sections x waiter sets x
//   waiter entry points, and checks after every section that exactly the waiters with a matching notice
//   are signalled (read from the Cond's wait/notify tickets under the state lock), that they return the
//   reference list, and that the others stay parked.
package state

import (
	"bytes"
	"context"
	"encoding/json"
	"errors"
	"fmt"
	"os"
	"reflect"
	"runtime"
	"strconv"
	"strings"
	"testing"
	"time"

	eng "github.com/snapcore/snapd/verifengine"
)

const c08Tick = time.Second

var (
	c08Base       = time.Date(2100, 1, 1, 0, 0, 0, 0, time.UTC) // far future: the 7-day expiry (real clock) never triggers
	c08Clock      time.Time
	c08Types      = []NoticeType{ChangeUpdateNotice, WarningNotice}
	c08Keys       = []string{"a", "b"}
	c08OwnerUIDs  = []int64{-1, 0, 1000}       // -1: public notice
	c08FilterUIDs = []int64{-1, 0, 1000, 1001} // -1: no user filter (admin asking for all users)
)

const c08NFilters = 4 * 3 * 3

// c08Add is one AddNotice event.
type c08Add struct {
	U       int  `json:"u"`  // index into c08OwnerUIDs
	T       int  `json:"t"`  // index into c08Types
	K       int  `json:"k"`  // index into c08Keys
	RA      int  `json:"ra"` // repeat-after in ticks
	Dt      int  `json:"dt"` // clock step before the add: 0 none, 1 = 1ns, 2 = 1 tick
	Restart bool `json:"restart,omitempty"`
}

func (a c08Add) String() string {
	u := "pub"
	if c08OwnerUIDs[a.U] >= 0 {
		u = strconv.FormatInt(c08OwnerUIDs[a.U], 10)
	}
	dt := []string{"+0", "+1ns", "+1T"}[a.Dt]
	s := fmt.Sprintf("%s:%s:%s:ra%d:%s", u, []string{"T1", "T2"}[a.T], c08Keys[a.K], a.RA, dt)
	if a.Restart {
		s = "restart," + s
	}
	return s
}

func c08HistString(h []c08Add) string {
	var sb strings.Builder
	for i, a := range h {
		if i > 0 {
			sb.WriteByte(';')
		}
		sb.WriteString(a.String())
	}
	return sb.String()
}

func c08FilterString(f int) string {
	fu, ft, fk := f/9, (f/3)%3, f%3
	u := "anyuser"
	if fu > 0 {
		u = "uid" + strconv.FormatInt(c08FilterUIDs[fu], 10)
	}
	return fmt.Sprintf("%s/%s/%s", u, []string{"anytype", "T1", "T2"}[ft], []string{"anykey", "a", "b"}[fk])
}

var c08TypeLists = [][]NoticeType{nil, {ChangeUpdateNotice}, {WarningNotice}}
var c08KeyLists = [][]string{nil, {"a"}, {"b"}}

func c08MakeFilter(f int, after time.Time) *NoticeFilter {
	fu, ft, fk := f/9, (f/3)%3, f%3
	nf := &NoticeFilter{Types: c08TypeLists[ft], Keys: c08KeyLists[fk], After: after}
	if fu > 0 {
		u := uint32(c08FilterUIDs[fu])
		nf.UserID = &u
	}
	return nf
}

// ---- reference model: notices over logical event indices ----
type c08RefNotice struct {
	u, t, k int
	id      string
	first   int // event index (1-based) of first occurrence
	lastOcc int
	lastRep int
	occ     int
	data    map[string]string
	ra      time.Duration
}

func c08Visible(f int, n *c08RefNotice) bool {
	fu, ft, fk := f/9, (f/3)%3, f%3
	if fu > 0 {
		owner := c08OwnerUIDs[n.u]
		if owner >= 0 && owner != c08FilterUIDs[fu] {
			return false
		}
	}
	if ft > 0 && n.t != ft-1 {
		return false
	}
	if fk > 0 && n.k != fk-1 {
		return false
	}
	return true
}

type c08World struct {
	st      *State
	clock   time.Time
	ts      []time.Time // ts[i]: observed occurrence time of event i; ts[0] is the zero time (no cursor)
	ref     []*c08RefNotice
	byIdent map[[3]int]*c08RefNotice
	outcome []byte // per add: N new, R repeated, S suppressed (inside repeat-after window); lower case when the clock had not advanced past the previous notice
	maxT    int
	maxK    int
}

func c08NewWorld() *c08World {
	w := &c08World{st: New(nil), clock: c08Base, ts: []time.Time{{}}, byIdent: map[[3]int]*c08RefNotice{}, maxT: -1, maxK: -1}
	c08Clock = w.clock
	return w
}

type c08Problem struct{ class, msg string }

func c08Data(step int) map[string]string {
	if step%2 == 0 {
		return nil
	}
	return map[string]string{"n": strconv.Itoa(step)}
}

// add performs one AddNotice on the implementation and on the reference and checks the add-time clauses.
// If locked, the caller holds the state lock (and Restart is not allowed).
func (w *c08World) add(ev c08Add, locked bool, check bool) (probs []c08Problem) {
	bad := func(class, f string, a ...interface{}) {
		if check {
			probs = append(probs, c08Problem{class, fmt.Sprintf(f, a...)})
		}
	}
	step := len(w.ts) // event index of this add
	if ev.Restart {
		if locked {
			eng.HarnessError("C08: restart inside a lock section")
		}
		w.st.Lock()
		data, err := json.Marshal(w.st)
		w.st.Unlock()
		if err != nil {
			eng.HarnessError("C08: cannot marshal state: %v", err)
		}
		st2, err := ReadState(nil, bytes.NewReader(data))
		if err != nil {
			eng.HarnessError("C08: cannot reload state: %v", err)
		}
		w.st = st2
	}
	switch ev.Dt {
	case 1:
		w.clock = w.clock.Add(time.Nanosecond)
	case 2:
		w.clock = w.clock.Add(c08Tick)
	}
	c08Clock = w.clock
	var uidp *uint32
	if o := c08OwnerUIDs[ev.U]; o >= 0 {
		u := uint32(o)
		uidp = &u
	}
	data := c08Data(step)
	ra := time.Duration(ev.RA) * c08Tick
	if !locked {
		w.st.Lock()
		defer w.st.Unlock()
	}
	id, err := w.st.AddNotice(uidp, c08Types[ev.T], c08Keys[ev.K], &AddNoticeOptions{Data: data, RepeatAfter: ra})
	if err != nil {
		bad("add-error", "AddNotice(%s) failed: %v", ev, err)
		w.ts = append(w.ts, w.ts[step-1].Add(time.Nanosecond))
		return probs
	}
	n := w.st.Notice(id)
	if n == nil {
		bad("add-lost", "AddNotice(%s) returned id %q but Notice(id) is nil", ev, id)
		w.ts = append(w.ts, w.ts[step-1].Add(time.Nanosecond))
		return probs
	}
	now := n.lastOccurred
	prev := w.ts[step-1]
	bumped := !w.clock.After(prev)
	if !now.After(prev) {
		bad("timestamp-not-increasing", "event %d (%s): occurrence time %s is not after the previous notice time %s (same-tick additions must get distinct, increasing timestamps)", step, ev, now.Format(time.RFC3339Nano), prev.Format(time.RFC3339Nano))
	}
	if !bumped && !now.Equal(w.clock) {
		bad("timestamp-not-clock", "event %d (%s): clock %s is after the previous notice but the occurrence time is %s", step, ev, w.clock.Format(time.RFC3339Nano), now.Format(time.RFC3339Nano))
	}
	w.ts = append(w.ts, now)
	key := [3]int{ev.U, ev.T, ev.K}
	rn := w.byIdent[key]
	oc := byte('N')
	if rn == nil {
		for _, o := range w.ref {
			if o.id == id {
				bad("id-reused", "event %d (%s): new notice got id %q which already belongs to another notice", step, ev, id)
			}
		}
		rn = &c08RefNotice{u: ev.U, t: ev.T, k: ev.K, id: id, first: step, lastRep: step, occ: 1}
		w.ref = append(w.ref, rn)
		w.byIdent[key] = rn
	} else {
		if rn.id != id {
			bad("id-changed", "event %d (%s): reoccurrence returned id %q, the notice had id %q", step, ev, id, rn.id)
		}
		rn.occ++
		// statement of AddNoticeOptions.RepeatAfter: repeats once more than RepeatAfter has passed since it last repeated
		if ra == 0 || now.After(w.ts[rn.lastRep].Add(ra)) {
			rn.lastRep = step
			oc = 'R'
		} else {
			oc = 'S'
		}
	}
	rn.lastOcc = step
	rn.data = data
	rn.ra = ra
	if bumped {
		oc += 'a' - 'A'
	}
	w.outcome = append(w.outcome, oc)
	if ev.T > w.maxT {
		w.maxT = ev.T
	}
	if ev.K > w.maxK {
		w.maxK = ev.K
	}
	if check {
		// every stored notice agrees with the reference in every field
		all := w.st.Notices(nil)
		if len(all) != len(w.ref) {
			bad("notice-set", "after event %d (%s): %d notices stored, reference has %d", step, ev, len(all), len(w.ref))
		}
		for _, r := range w.ref {
			g := w.st.Notice(r.id)
			if g == nil {
				bad("notice-set", "after event %d (%s): notice id %s missing", step, ev, r.id)
				continue
			}
			gu, gset := g.UserID()
			wantOwner := c08OwnerUIDs[r.u]
			if gset != (wantOwner >= 0) || (gset && int64(gu) != wantOwner) || g.noticeType != c08Types[r.t] || g.key != c08Keys[r.k] {
				bad("notice-identity", "after event %d (%s): notice id %s is %s, reference says owner=%d type=%s key=%s", step, ev, r.id, g, wantOwner, c08Types[r.t], c08Keys[r.k])
			}
			if !g.firstOccurred.Equal(w.ts[r.first]) || !g.lastOccurred.Equal(w.ts[r.lastOcc]) || !g.lastRepeated.Equal(w.ts[r.lastRep]) || g.occurrences != r.occ {
				bad("notice-fields", "after event %d (%s): %s has first=%s last=%s repeated=%s occurrences=%d; reference: first=ev%d last=ev%d repeated=ev%d occurrences=%d", step, ev, g,
					c08Rel(g.firstOccurred), c08Rel(g.lastOccurred), c08Rel(g.lastRepeated), g.occurrences, r.first, r.lastOcc, r.lastRep, r.occ)
			}
			if g.repeatAfter != r.ra || !reflect.DeepEqual(g.lastData, r.data) {
				bad("notice-data", "after event %d (%s): %s has repeat-after=%s data=%v; reference: %s %v", step, ev, g, g.repeatAfter, g.lastData, r.ra, r.data)
			}
		}
		// the cursor a real client uses comes out of the JSON form: it must round-trip exactly
		b, err := json.Marshal(n)
		var jn struct {
			LastRepeated time.Time `json:"last-repeated"`
		}
		if err == nil {
			err = json.Unmarshal(b, &jn)
		}
		if err != nil || !jn.LastRepeated.Equal(n.lastRepeated) {
			bad("json-cursor-roundtrip", "event %d (%s): last-repeated %s does not survive the JSON form (%s, %v)", step, ev, n.lastRepeated.Format(time.RFC3339Nano), b, err)
		}
	}
	return probs
}

func c08Rel(t time.Time) string { return "T0+" + t.Sub(c08Base).String() }

// expect returns what a poll with filter f and cursor (event index; 0 = none) must return.
func (w *c08World) expect(f, cursor int, buf []*c08RefNotice) []*c08RefNotice {
	buf = buf[:0]
	for _, n := range w.ref {
		if n.lastRep > cursor && c08Visible(f, n) {
			// insertion sort by lastRep
			i := len(buf)
			buf = append(buf, n)
			for i > 0 && buf[i-1].lastRep > n.lastRep {
				buf[i] = buf[i-1]
				i--
			}
			buf[i] = n
		}
	}
	return buf
}

// maxVisible returns the largest lastRep among the notices visible to f (0 if none): the cursor after any poll.
func (w *c08World) maxVisible(f int) (m int) {
	for _, n := range w.ref {
		if c08Visible(f, n) && n.lastRep > m {
			m = n.lastRep
		}
	}
	return m
}

// c08Fingerprint summarises everything notice-related in the state (order-free): polls must not change it.
func c08Fingerprint(st *State) (h uint64) {
	h = uint64(len(st.notices))*1000003 + uint64(st.lastNoticeId)*10007 + uint64(st.lastNoticeTimestamp.UnixNano())
	for _, n := range st.notices {
		h += uint64(n.lastRepeated.UnixNano())*3 + uint64(n.lastOccurred.UnixNano())*5 + uint64(n.firstOccurred.UnixNano())*7 +
			uint64(n.occurrences)*11 + uint64(len(n.lastData))*13 + uint64(n.repeatAfter)*17 + uint64(len(n.id))*19
	}
	return h
}

func (w *c08World) describe(got []*Notice) string {
	var p []string
	for _, g := range got {
		p = append(p, fmt.Sprintf("%s@%s", g, c08Rel(g.lastRepeated)))
	}
	return "[" + strings.Join(p, ", ") + "]"
}

func (w *c08World) describeRef(exp []*c08RefNotice) string {
	var p []string
	for _, r := range exp {
		p = append(p, fmt.Sprintf("id%s(repeated at ev%d)", r.id, r.lastRep))
	}
	return "[" + strings.Join(p, ", ") + "]"
}

// compare checks a returned list against the expected one; "" if equal.
func (w *c08World) compare(f, cursor int, got []*Notice, exp []*c08RefNotice) (class, msg string) {
	same := len(got) == len(exp)
	if same {
		for i := range got {
			if got[i].id != exp[i].id || !got[i].lastRepeated.Equal(w.ts[exp[i].lastRep]) {
				same = false
				break
			}
		}
	}
	if same {
		return "", ""
	}
	expIDs := map[string]*c08RefNotice{}
	for _, e := range exp {
		expIDs[e.id] = e
	}
	gotIDs := map[string]bool{}
	class = "order"
	for _, g := range got {
		if gotIDs[g.id] {
			class = "duplicate-in-list"
		}
		gotIDs[g.id] = true
	}
	for _, e := range exp {
		if !gotIDs[e.id] {
			class = "missed"
		}
	}
	for _, g := range got {
		if expIDs[g.id] != nil {
			continue
		}
		var r *c08RefNotice
		for _, x := range w.ref {
			if x.id == g.id {
				r = x
			}
		}
		switch {
		case r == nil:
			class = "unknown-notice"
		case !c08Visible(f, r):
			fu := f / 9
			if fu > 0 && c08OwnerUIDs[r.u] >= 0 && c08OwnerUIDs[r.u] != c08FilterUIDs[fu] {
				class = "owner-leak"
			} else {
				class = "filter-leak"
			}
		default:
			class = "redelivered"
		}
	}
	return class, fmt.Sprintf("client %s with cursor ev%d (After=%s) got %s, must get %s", c08FilterString(f), cursor, c08Rel(w.ts[cursor]), w.describe(got), w.describeRef(exp))
}

// ---------------------------------------------------------------------------------------------------
// Part 1 / 2a explorer

type c08Family struct {
	Name     string
	MaxAdds  int
	Owners   []int
	NTypes   int
	NKeys    int
	RAs      []int
	Dts      []int
	Restarts int
	WaitOps  bool // Part 2a: the client step is WaitNotices with an already-cancelled / already-expired context
}

type c08Case struct {
	Part    string          `json:"part"` // seq | wait-seq | sched
	Adds    []c08Add        `json:"adds"`
	Cuts    uint            `json:"cuts,omitempty"`
	Waiters []c08WaiterSpec `json:"waiters,omitempty"`
	Class   string          `json:"class,omitempty"`
	Msg     string          `json:"msg,omitempty"`
}

type c08Explorer struct {
	r        *eng.Run
	fam      c08Family
	split    int
	item     int
	nodes    int64
	adds     int64
	polls    int64
	ntPolls  int64
	ntNodes  int64
	clientSt int64
	waitOps  int64
	nviol    int
	stop     bool
	longest  []c08Add
	verbose  bool
	noConfirm bool
}

const c08MaxViolations = 12

func (x *c08Explorer) part() string {
	if x.fam.WaitOps {
		return "wait-seq"
	}
	return "seq"
}

func (x *c08Explorer) build(hist []c08Add, checkLast bool) (*c08World, []c08Problem) {
	w := c08NewWorld()
	var probs []c08Problem
	for i, ev := range hist {
		p := w.add(ev, false, checkLast && i == len(hist)-1)
		probs = append(probs, p...)
	}
	return w, probs
}

var (
	c08CancelledCtx context.Context
	c08ExpiredCtx   context.Context
)

func init() {
	ctx, cancel := context.WithCancel(context.Background())
	cancel()
	c08CancelledCtx = ctx
	ctx2, cancel2 := context.WithDeadline(context.Background(), time.Unix(1, 0))
	_ = cancel2
	c08ExpiredCtx = ctx2
}

// checkNode runs every client step enabled at the state reached by hist and returns the problems found.
func (x *c08Explorer) checkNode(w *c08World, hist []c08Add, cur *[c08NFilters][]int, count bool) (probs []c08Problem) {
	var ebuf [16]*c08RefNotice
	nontrivial := false
	w.st.Lock()
	defer w.st.Unlock()
	fp0 := c08Fingerprint(w.st)
	one := func(f, c int, repoll bool) {
		exp := w.expect(f, c, ebuf[:0])
		flt := c08MakeFilter(f, w.ts[c])
		got := w.st.Notices(flt)
		if count {
			x.polls++
		}
		if x.verbose {
			fmt.Printf("    poll %-22s cursor ev%d -> %s\n", c08FilterString(f), c, w.describe(got))
		}
		class, msg := w.compare(f, c, got, exp)
		if class != "" {
			if repoll && class == "redelivered" {
				msg = "second poll right after a poll that returned everything: " + msg
			}
			probs = append(probs, c08Problem{class, msg})
		}
		if c > 0 && len(exp) > 0 {
			for _, n := range w.ref {
				if c08Visible(f, n) && n.lastRep <= c {
					if count {
						x.ntPolls++
					}
					nontrivial = true
					break
				}
			}
		}
		if x.fam.WaitOps {
			for vi, ctx := range []context.Context{c08CancelledCtx, c08ExpiredCtx} {
				wantErr := []error{context.Canceled, context.DeadlineExceeded}[vi]
				wgot, err := w.st.WaitNotices(ctx, flt)
				if count {
					x.waitOps++
				}
				if len(exp) > 0 {
					if err != nil {
						probs = append(probs, c08Problem{"wait-error", fmt.Sprintf("WaitNotices (done context) of client %s cursor ev%d returned error %v although matching notices exist: %s", c08FilterString(f), c, err, w.describeRef(exp))})
					} else if cl, m := w.compare(f, c, wgot, exp); cl != "" {
						probs = append(probs, c08Problem{"wait-" + cl, "WaitNotices: " + m})
					}
				} else if !errors.Is(err, wantErr) || len(wgot) != 0 {
					cl := "wait-no-error"
					if len(wgot) > 0 {
						cl = "wait-redelivered"
					}
					probs = append(probs, c08Problem{cl, fmt.Sprintf("WaitNotices (context already done: %v) of client %s cursor ev%d returned %s, err=%v; nothing matches, must return the context error", wantErr, c08FilterString(f), c, w.describe(wgot), err)})
				}
			}
		}
	}
	for f := 0; f < c08NFilters; f++ {
		for _, c := range cur[f] {
			one(f, c, false)
			if count {
				x.clientSt++
			}
		}
		// a second poll right after a poll (cursor = the last notice just returned) must return nothing
		m := w.maxVisible(f)
		if m > 0 {
			one(f, m, true)
		}
	}
	if c08Fingerprint(w.st) != fp0 {
		probs = append(probs, c08Problem{"poll-modified-state", "the notices stored in the state changed while clients were only reading (Notices/WaitNotices must be read-only)"})
	}
	if count && nontrivial {
		x.ntNodes++
	}
	return probs
}

func c08NextCursors(w *c08World, cur *[c08NFilters][]int) *[c08NFilters][]int {
	var next [c08NFilters][]int
	for f := 0; f < c08NFilters; f++ {
		m := w.maxVisible(f)
		found := false
		for _, c := range cur[f] {
			if c == m {
				found = true
			}
		}
		if found {
			next[f] = cur[f]
		} else {
			next[f] = append(append(make([]int, 0, len(cur[f])+1), cur[f]...), m)
		}
	}
	return &next
}

func (x *c08Explorer) report(hist []c08Add, p c08Problem) {
	cas := c08Case{Part: x.part(), Adds: append([]c08Add(nil), hist...), Class: p.class, Msg: p.msg}
	if !x.noConfirm {
		// reproduce 5x from the recorded path before believing it
		for k := 0; k < 5; k++ {
			if !c08ReplaySeq(cas, x.fam.WaitOps, false)[p.class] {
				eng.HarnessError("C08: problem %s on %s did not reproduce on re-run %d", p.class, c08HistString(hist), k)
			}
		}
	}
	x.r.Violation(p.class+"|"+c08HistString(hist), p.msg+" [history: "+c08HistString(hist)+"]", cas)
	x.nviol++
	if x.nviol >= c08MaxViolations {
		x.stop = true
	}
}

// c08ReplaySeq re-runs every prefix of a history with all client steps; returns the problem classes seen at the last prefix.
func c08ReplaySeq(c c08Case, waitOps bool, verbose bool) map[string]bool {
	x := &c08Explorer{fam: c08Family{WaitOps: waitOps}, verbose: verbose, noConfirm: true}
	var cur [c08NFilters][]int
	for f := range cur {
		cur[f] = []int{0}
	}
	pc := &cur
	seen := map[string]bool{}
	for j := 1; j <= len(c.Adds); j++ {
		w, probs := x.build(c.Adds[:j], true)
		if verbose {
			fmt.Printf("  add %s -> outcome %c, time %s\n", c.Adds[j-1], w.outcome[j-1], c08Rel(w.ts[j]))
		}
		probs = append(probs, x.checkNode(w, c.Adds[:j], pc, false)...)
		if j == len(c.Adds) {
			for _, p := range probs {
				seen[p.class] = true
				if verbose {
					fmt.Printf("   PROBLEM %s: %s\n", p.class, p.msg)
				}
			}
		}
		pc = c08NextCursors(w, pc)
	}
	return seen
}

func (x *c08Explorer) children(w *c08World, hist []c08Add) []c08Add {
	var evs []c08Add
	restartsUsed := 0
	for _, a := range hist {
		if a.Restart {
			restartsUsed++
		}
	}
	for _, u := range x.fam.Owners {
		for t := 0; t < x.fam.NTypes && t <= w.maxT+1; t++ {
			for k := 0; k < x.fam.NKeys && k <= w.maxK+1; k++ {
				ras := x.fam.RAs
				if w.byIdent[[3]int{u, t, k}] == nil {
					// first occurrence: repeat-after is only stored (checked), it decides nothing
					ras = []int{x.fam.RAs[len(hist)%len(x.fam.RAs)]}
				}
				dts := x.fam.Dts
				if len(hist) == 0 {
					dts = []int{2}
				}
				for _, ra := range ras {
					for _, dt := range dts {
						evs = append(evs, c08Add{U: u, T: t, K: k, RA: ra, Dt: dt})
						if len(hist) > 0 && restartsUsed < x.fam.Restarts {
							evs = append(evs, c08Add{U: u, T: t, K: k, RA: ra, Dt: dt, Restart: true})
						}
					}
				}
			}
		}
	}
	return evs
}

func (x *c08Explorer) dfs(hist []c08Add, cur *[c08NFilters][]int) {
	if x.stop {
		return
	}
	own := true
	if len(hist) < x.split {
		s, _ := x.r.ShardIndex()
		own = s == 0
	} else if len(hist) == x.split {
		x.item++
		if !x.r.Mine(x.item) {
			return
		}
		if x.r.TimeUp() {
			x.r.Cap("time_"+x.fam.Name, fmt.Sprintf("family %s: stopped before subtree %d", x.fam.Name, x.item))
			x.stop = true
			return
		}
		x.r.NoteCurrent(x.part() + " " + c08HistString(hist))
	}
	w, probs := x.build(hist, own)
	next := cur
	if len(hist) > 0 {
		if own {
			x.nodes++
			x.adds++
			probs = append(probs, x.checkNode(w, hist, cur, true)...)
			seen := map[string]bool{}
			for _, p := range probs {
				if !seen[p.class] {
					seen[p.class] = true
					x.report(hist, p)
				}
			}
			if len(hist) <= 6 {
				x.r.Distinct("add_outcomes_"+x.part(), string(w.outcome))
			}
			if len(hist) > len(x.longest) {
				x.longest = append([]c08Add(nil), hist...)
			}
			if len(probs) > 0 {
				return // do not explore beyond a broken state
			}
		}
		next = c08NextCursors(w, cur)
	}
	if len(hist) >= x.fam.MaxAdds {
		return
	}
	for _, ev := range x.children(w, hist) {
		x.dfs(append(hist[:len(hist):len(hist)], ev), next)
		if x.stop {
			return
		}
	}
}

func (x *c08Explorer) run() {
	x.split = 3
	if x.fam.MaxAdds-1 < x.split {
		x.split = x.fam.MaxAdds - 1
	}
	if x.split < 1 {
		x.split = 1
	}
	var cur [c08NFilters][]int
	for f := range cur {
		cur[f] = []int{0}
	}
	x.dfs(nil, &cur)
	pre := "p1_"
	if x.fam.WaitOps {
		pre = "p2a_"
	}
	r := x.r
	r.Add(pre+"histories", x.nodes)
	r.Add(pre+"add_transitions", x.adds)
	r.Add(pre+"poll_transitions", x.polls)
	r.Add(pre+"waitnotices_calls", x.waitOps)
	r.Add(pre+"client_states", x.clientSt)
	r.Add(pre+"nontrivial_polls", x.ntPolls)
	r.Add(pre+"nontrivial_histories", x.ntNodes)
	r.Add(pre+"histories_"+x.fam.Name, x.nodes)
	r.Add("states", x.nodes+x.clientSt)
	r.Add("transitions", x.adds+x.polls+x.waitOps)
	r.Add("traces_validated_against_impl", x.adds+x.polls+x.waitOps)
	r.Add("evaluations", x.adds+x.polls+x.waitOps)
	r.Add("distinct_nontrivial", x.ntNodes)
	if s, _ := r.ShardIndex(); s == 0 && len(x.longest) > 0 {
		r.Sample(map[string]interface{}{"part": x.part(), "family": x.fam.Name, "history": c08HistString(x.longest)})
	}
}

// ---------------------------------------------------------------------------------------------------
// Part 2b: waiters really blocked in WaitNotices

type c08WaiterSpec struct {
	Filter  int `json:"filter"`
	StartAt int `json:"start_at"` // enters WaitNotices for the first time before this lock section
}

type c08View struct {
	id      string
	lastRep time.Time
}

type c08Waiter struct {
	spec    c08WaiterSpec
	idx     int
	cursor  int
	ctx     context.Context
	cancel  context.CancelFunc
	locked  chan struct{}
	doneCh  chan struct{}
	done    bool // written by the waiter goroutine under the state lock
	res     []*Notice
	err     error
	parked  bool
	tMin    uint32 // ticket range in the Cond's notify list
	tMax    uint32
	dead    bool
	blocked int // how often it really parked
	woken   int // how often it returned after having parked
}

func c08CondCounters(st *State) (wait, notify uint32) {
	defer func() {
		if e := recover(); e != nil {
			eng.HarnessError("C08: cannot read sync.Cond ticket counters by reflection (Go runtime layout changed?): %v", e)
		}
	}()
	v := reflect.ValueOf(st.noticeCond).Elem().FieldByName("notify")
	return uint32(v.FieldByName("wait").Uint()), uint32(v.FieldByName("notify").Uint())
}

var c08Deadline = 30 * time.Second

type c08Timeout struct{ what string }

type c08SchedRun struct {
	w       *c08World
	waiters []*c08Waiter
	probs   []c08Problem
	timeout *c08Timeout
	trace   []string
	verbose bool
	sig     []string // outcome signature
	handoffs int
}

func (s *c08SchedRun) logf(f string, a ...interface{}) {
	if s.verbose {
		fmt.Printf("  "+f+"\n", a...)
	}
}

func (s *c08SchedRun) bad(class, f string, a ...interface{}) {
	s.probs = append(s.probs, c08Problem{class, fmt.Sprintf(f, a...)})
}

func (s *c08SchedRun) await(ch chan struct{}, what string) bool {
	select {
	case <-ch:
		return true
	default:
	}
	t := time.NewTimer(c08Deadline)
	defer t.Stop()
	select {
	case <-ch:
		return true
	case <-t.C:
		s.timeout = &c08Timeout{what}
		return false
	}
}

// enter starts (or restarts) waiter wt: it takes the state lock and calls WaitNotices(After: its cursor).
func (s *c08SchedRun) enter(wt *c08Waiter) {
	st := s.w.st
	st.Lock()
	wait0, _ := c08CondCounters(st)
	exp := s.w.expect(wt.spec.Filter, wt.cursor, nil)
	st.Unlock()
	wt.locked = make(chan struct{})
	wt.doneCh = make(chan struct{})
	wt.done, wt.res, wt.err = false, nil, nil
	flt := c08MakeFilter(wt.spec.Filter, s.w.ts[wt.cursor])
	go func(wt *c08Waiter, locked, doneCh chan struct{}) {
		st.Lock()
		close(locked)
		res, err := st.WaitNotices(wt.ctx, flt)
		wt.res, wt.err, wt.done = res, err, true
		st.Unlock()
		close(doneCh)
	}(wt, wt.locked, wt.doneCh)
	if !s.await(wt.locked, fmt.Sprintf("waiter %d never got the state lock", wt.idx)) {
		return
	}
	// barrier: the lock is free again only once the waiter is inside Cond.Wait (registered) or has returned
	st.Lock()
	wait1, _ := c08CondCounters(st)
	done := wt.done
	st.Unlock()
	s.handoffs++
	if done {
		if wait1 != wait0 {
			eng.HarnessError("C08: waiter returned at once but the Cond wait counter moved %d -> %d", wait0, wait1)
		}
		<-wt.doneCh
		s.logf("waiter %d (%s, cursor ev%d) enters: returns at once %s err=%v", wt.idx, c08FilterString(wt.spec.Filter), wt.cursor, s.w.describe(wt.res), wt.err)
		if len(exp) == 0 {
			cl := "waiter-returned-without-match"
			if len(wt.res) > 0 {
				cl = "waiter-redelivered"
			}
			s.bad(cl, "waiter %s with cursor ev%d entered WaitNotices and returned at once with %s err=%v although nothing new matches (must block)", c08FilterString(wt.spec.Filter), wt.cursor, s.w.describe(wt.res), wt.err)
			wt.dead = true
			return
		}
		s.delivered(wt, exp)
		s.sig = append(s.sig, fmt.Sprintf("w%d:immediate", wt.idx))
		// re-enter with the new cursor: now it must park
		if !wt.dead {
			s.enter(wt)
		}
		return
	}
	if wait1 != wait0+1 {
		eng.HarnessError("C08: waiter blocked but the Cond wait counter moved %d -> %d", wait0, wait1)
	}
	wt.parked, wt.tMin, wt.tMax = true, wait0, wait0
	wt.blocked++
	s.logf("waiter %d (%s, cursor ev%d) enters: parked (ticket %d)", wt.idx, c08FilterString(wt.spec.Filter), wt.cursor, wait0)
	if len(exp) > 0 {
		s.bad("waiter-parked-despite-match", "waiter %s with cursor ev%d blocked in WaitNotices although matching notices already exist: %s", c08FilterString(wt.spec.Filter), wt.cursor, s.w.describeRef(exp))
		s.kill(wt)
	}
}

// delivered checks what a waiter returned against the reference and advances its cursor.
func (s *c08SchedRun) delivered(wt *c08Waiter, exp []*c08RefNotice) {
	if wt.err != nil {
		s.bad("waiter-error", "waiter %s cursor ev%d returned error %v, must return %s", c08FilterString(wt.spec.Filter), wt.cursor, wt.err, s.w.describeRef(exp))
		wt.dead = true
		return
	}
	s.w.st.Lock()
	cl, m := s.w.compare(wt.spec.Filter, wt.cursor, wt.res, exp)
	s.w.st.Unlock()
	if cl != "" {
		s.bad("waiter-"+cl, "woken waiter: %s", m)
		wt.dead = true
		return
	}
	wt.cursor = exp[len(exp)-1].lastRep
}

func (s *c08SchedRun) kill(wt *c08Waiter) {
	wt.dead = true
	wt.cancel()
	if wt.parked {
		s.await(wt.doneCh, fmt.Sprintf("waiter %d did not return after its context was cancelled", wt.idx))
		wt.parked = false
	}
}

// section runs one lock section of adds and then lets the waiters react.
func (s *c08SchedRun) section(adds []c08Add) {
	st := s.w.st
	st.Lock()
	wPrev, _ := c08CondCounters(st)
	for _, ev := range adds {
		for _, p := range s.w.add(ev, true, true) {
			s.probs = append(s.probs, p)
		}
		s.logf("add %s -> %c", ev, s.w.outcome[len(s.w.outcome)-1])
	}
	_, notify := c08CondCounters(st)
	type pend struct {
		wt  *c08Waiter
		exp []*c08RefNotice
	}
	var matching []pend
	var repark []*c08Waiter
	var lost []pend
	for _, wt := range s.waiters {
		if !wt.parked || wt.dead {
			continue
		}
		exp := s.w.expect(wt.spec.Filter, wt.cursor, nil)
		defSignalled := wt.tMax < notify
		defNot := wt.tMin >= notify
		switch {
		case len(exp) > 0 && defNot:
			lost = append(lost, pend{wt, exp})
		case len(exp) > 0:
			matching = append(matching, pend{wt, exp})
		case defSignalled:
			repark = append(repark, wt)
		case defNot:
			// stays parked, untouched
		default:
			s.logf("waiter %d: ticket state ambiguous, dropped", wt.idx)
			matching = append(matching, pend{wt, nil}) // handled below as "drop"
		}
	}
	st.Unlock()
	for _, p := range lost {
		s.bad("lost-wakeup", "after the lock section ending with event %d, waiter %s (cursor ev%d) is still parked in Cond.Wait and was not signalled (ticket %d >= notify counter %d) although matching notices now exist: %s",
			len(s.w.ts)-1, c08FilterString(p.wt.spec.Filter), p.wt.cursor, p.wt.tMin, notify, s.w.describeRef(p.exp))
		s.kill(p.wt)
		if s.timeout != nil {
			return
		}
	}
	var woke []string
	for _, p := range matching {
		if p.exp == nil {
			s.kill(p.wt)
			continue
		}
		if !s.await(p.wt.doneCh, fmt.Sprintf("waiter %d (%s, cursor ev%d) was signalled but did not return although matching notices exist: %s", p.wt.idx, c08FilterString(p.wt.spec.Filter), p.wt.cursor, s.w.describeRef(p.exp))) {
			return
		}
		s.handoffs++
		p.wt.parked = false
		p.wt.woken++
		s.logf("waiter %d woken: returns %s err=%v", p.wt.idx, s.w.describe(p.wt.res), p.wt.err)
		s.delivered(p.wt, p.exp)
		woke = append(woke, strconv.Itoa(p.wt.idx))
	}
	// signalled waiters with nothing matching must go back to sleep: wait for their re-registration
	if len(repark) > 0 {
		target := wPrev + uint32(len(repark))
		deadline := time.Now().Add(c08Deadline)
		for {
			st.Lock()
			wcur, _ := c08CondCounters(st)
			var ret *c08Waiter
			for _, wt := range repark {
				if wt.done {
					ret = wt
				}
			}
			st.Unlock()
			if ret != nil {
				<-ret.doneCh
				cl := "waiter-returned-without-match"
				if len(ret.res) > 0 {
					cl = "waiter-spurious-delivery"
				}
				s.bad(cl, "waiter %s (cursor ev%d) returned %s err=%v after the section ending with event %d although nothing it may see occurred or repeated", c08FilterString(ret.spec.Filter), ret.cursor, s.w.describe(ret.res), ret.err, len(s.w.ts)-1)
				ret.parked, ret.dead = false, true
				for _, wt := range repark {
					if wt != ret {
						s.kill(wt)
					}
				}
				return
			}
			if wcur == target {
				break
			}
			if wcur > target {
				eng.HarnessError("C08: Cond wait counter %d beyond the expected %d", wcur, target)
			}
			if time.Now().After(deadline) {
				s.timeout = &c08Timeout{"signalled waiters neither returned nor went back to waiting"}
				return
			}
			runtime.Gosched()
		}
		for _, wt := range repark {
			wt.tMin, wt.tMax = wPrev, target-1
			s.handoffs++
		}
	}
	s.sig = append(s.sig, fmt.Sprintf("woke[%s]repark%d", strings.Join(woke, ","), len(repark)))
	// returned waiters come back for more with their new cursor
	for _, p := range matching {
		if p.exp != nil && !p.wt.dead && !p.wt.parked {
			s.enter(p.wt)
			if s.timeout != nil {
				return
			}
		}
	}
}

func c08Sections(adds []c08Add, cuts uint) [][]c08Add {
	var res [][]c08Add
	start := 0
	for i := range adds {
		if i == len(adds)-1 || cuts&(1<<uint(i)) != 0 {
			res = append(res, adds[start:i+1])
			start = i + 1
		}
	}
	return res
}

// c08RunSched executes one schedule; returns the run record (problems, timeout).
func c08RunSched(c c08Case, verbose bool) *c08SchedRun {
	s := &c08SchedRun{w: c08NewWorld(), verbose: verbose}
	for i, sp := range c.Waiters {
		ctx, cancel := context.WithCancel(context.Background())
		s.waiters = append(s.waiters, &c08Waiter{spec: sp, idx: i, ctx: ctx, cancel: cancel})
	}
	defer func() {
		for _, wt := range s.waiters {
			wt.cancel()
		}
	}()
	secs := c08Sections(c.Adds, c.Cuts)
	for si, sec := range secs {
		for _, wt := range s.waiters {
			if wt.spec.StartAt == si && !wt.dead {
				s.enter(wt)
				if s.timeout != nil {
					return s
				}
			}
		}
		s.logf("-- lock section %d", si)
		s.section(sec)
		if s.timeout != nil || len(s.probs) > 0 {
			return s
		}
	}
	// end: everything still parked has nothing to see; cancelling must release it with the context error
	for _, wt := range s.waiters {
		if wt.dead || !wt.parked {
			continue
		}
		wt.cancel()
		if !s.await(wt.doneCh, fmt.Sprintf("waiter %d did not return after its context was cancelled", wt.idx)) {
			return s
		}
		s.handoffs++
		wt.parked = false
		if !errors.Is(wt.err, context.Canceled) || len(wt.res) != 0 {
			s.bad("cancel-result", "waiter %s (cursor ev%d) cancelled while nothing matched returned %s err=%v, must return context.Canceled", c08FilterString(wt.spec.Filter), wt.cursor, s.w.describe(wt.res), wt.err)
		}
		s.logf("waiter %d cancelled: err=%v", wt.idx, wt.err)
	}
	return s
}

func c08SchedKey(c c08Case) string {
	var ws []string
	for _, w := range c.Waiters {
		ws = append(ws, fmt.Sprintf("%s@%d", c08FilterString(w.Filter), w.StartAt))
	}
	return fmt.Sprintf("%s|cuts=%b|%s", c08HistString(c.Adds), c.Cuts, strings.Join(ws, ","))
}

type c08SchedBounds struct {
	MaxAdds int
	Idents  [][3]int // owner idx, type, key
	RAs     []int
	Dts     []int
	Filters []int // waiter filter menu
}

func c08AllAddSeqs(b c08SchedBounds, n int) [][]c08Add {
	if n == 0 {
		return [][]c08Add{nil}
	}
	var res [][]c08Add
	for _, pre := range c08AllAddSeqs(b, n-1) {
		for _, id := range b.Idents {
			seen := false
			for _, a := range pre {
				if a.U == id[0] && a.T == id[1] && a.K == id[2] {
					seen = true
				}
			}
			ras, dts := b.RAs, b.Dts
			if !seen {
				ras = []int{b.RAs[len(pre)%len(b.RAs)]}
			}
			if len(pre) == 0 {
				dts = []int{2}
			}
			for _, ra := range ras {
				for _, dt := range dts {
					res = append(res, append(pre[:len(pre):len(pre)], c08Add{U: id[0], T: id[1], K: id[2], RA: ra, Dt: dt}))
				}
			}
		}
	}
	return res
}

func c08RunSchedPart(r *eng.Run, b c08SchedBounds) {
	var waiterSets [][]int
	for i, f := range b.Filters {
		waiterSets = append(waiterSets, []int{f})
		for _, g := range b.Filters[i:] {
			waiterSets = append(waiterSets, []int{f, g})
		}
	}
	item := 0
	var execs, handoffs, blockedWoken, nontrivial, adds int64
	nviol := 0
	var sample *c08Case
	stop := false
	for n := 1; n <= b.MaxAdds && !stop; n++ {
		for _, seq := range c08AllAddSeqs(b, n) {
			if stop {
				break
			}
			item++
			if !r.Mine(item) {
				continue
			}
			if r.TimeUp() {
				r.Cap("time_sched", fmt.Sprintf("part 2b stopped at add sequence %d (length %d)", item, n))
				stop = true
				break
			}
			r.NoteCurrent("sched " + c08HistString(seq))
			for cuts := uint(0); cuts < 1<<uint(n-1) && !stop; cuts++ {
				nsec := len(c08Sections(seq, cuts))
				for _, ws := range waiterSets {
					// entry points: every combination of sections before which each waiter first enters
					combos := nsec
					if len(ws) == 2 {
						combos = nsec * nsec
					}
					for sc := 0; sc < combos && !stop; sc++ {
						c := c08Case{Part: "sched", Adds: seq, Cuts: cuts}
						c.Waiters = append(c.Waiters, c08WaiterSpec{Filter: ws[0], StartAt: sc % nsec})
						if len(ws) == 2 {
							c.Waiters = append(c.Waiters, c08WaiterSpec{Filter: ws[1], StartAt: sc / nsec})
							if ws[0] == ws[1] && c.Waiters[0].StartAt > c.Waiters[1].StartAt {
								continue // identical waiters are interchangeable
							}
						}
						s := c08RunSched(c, false)
						execs++
						handoffs += int64(s.handoffs)
						adds += int64(n)
						wokenAfterBlock := false
						for _, wt := range s.waiters {
							if wt.woken > 0 {
								wokenAfterBlock = true
							}
						}
						if wokenAfterBlock {
							nontrivial++
							blockedWoken++
						}
						r.Distinct("sched_outcomes", strings.Join(s.sig, ";"))
						if s.timeout != nil {
							// a watchdog fired: reproduce before believing it
							rep := 0
							for k := 0; k < 5; k++ {
								if s2 := c08RunSched(c, false); s2.timeout != nil {
									rep++
								}
							}
							if rep == 5 {
								c.Class, c.Msg = "waiter-never-returned", s.timeout.what
								r.Violation("waiter-never-returned|"+c08SchedKey(c), s.timeout.what+fmt.Sprintf(" (within %s, reproduced 5x) [schedule: %s]", c08Deadline, c08SchedKey(c)), c)
								nviol++
							} else {
								r.Cap("watchdog_sched", fmt.Sprintf("a %s watchdog fired on %s but reproduced only %d/5 times", c08Deadline, c08SchedKey(c), rep))
							}
						}
						seen := map[string]bool{}
						for _, p := range s.probs {
							if seen[p.class] {
								continue
							}
							seen[p.class] = true
							for k := 0; k < 5; k++ {
								s2 := c08RunSched(c, false)
								ok := false
								for _, p2 := range s2.probs {
									if p2.class == p.class {
										ok = true
									}
								}
								if !ok {
									eng.HarnessError("C08: problem %s on schedule %s did not reproduce on re-run %d", p.class, c08SchedKey(c), k)
								}
							}
							c.Class, c.Msg = p.class, p.msg
							r.Violation(p.class+"|"+c08SchedKey(c), p.msg+" [schedule: "+c08SchedKey(c)+"]", c)
							nviol++
						}
						if nviol >= c08MaxViolations {
							stop = true
						}
						if sample == nil && wokenAfterBlock && n == b.MaxAdds && len(ws) == 2 {
							cc := c
							sample = &cc
						}
					}
				}
			}
		}
	}
	r.Add("p2b_executions", execs)
	r.Add("p2b_goroutine_handoffs", handoffs)
	r.Add("p2b_executions_with_blocked_waiter_woken", blockedWoken)
	r.Add("p2b_add_transitions", adds)
	r.Add("states", execs)
	r.Add("transitions", adds+handoffs)
	r.Add("traces_validated_against_impl", execs)
	r.Add("evaluations", execs)
	r.Add("distinct_nontrivial", nontrivial)
	if s, _ := r.ShardIndex(); s == 0 && sample != nil {
		r.Sample(map[string]interface{}{"part": "sched", "schedule": c08SchedKey(*sample)})
	}
}

// ---------------------------------------------------------------------------------------------------

func TestVerifC08(t *testing.T) {
	r := eng.Start("C08", "model_checking", 90*time.Second, 14*time.Minute)
	r.Assume(
		"reference model: a notice is identified by (owner, type, key); an add is new, repeated (repeat-after 0, or more than repeat-after since it last repeated - strict, as the code and AddNoticeOptions say) or suppressed; a poll with cursor c returns the visible notices last repeated after event c, ordered by that event",
		"clients take their cursor from the last-repeated time of the last notice returned; its JSON form is checked to round-trip exactly on every add",
		"Notices is read-only, so clients do not influence each other: exploring every reachable (filter, cursor) client state after every history prefix covers every interleaving of polling clients",
		"types and keys are interchangeable for the code (filters and alphabet are closed under swapping them): histories are explored up to first-use order of types and keys",
		"repeat-after and data of a first occurrence are only stored (checked against the reference), so they are not enumerated there; data is a function of the step",
		"notice expiry uses the real clock against a mocked base in year 2100, i.e. nothing expires; explicit AddNoticeOptions.Time is outside the alphabet",
		"part 2b: operations are atomic at the state lock; batching consecutive adds into one lock section models a woken waiter that re-acquires the lock late; 'signalled' is read from sync.Cond's wait/notify ticket counters (Go runtime internals) under the state lock; the helper goroutine of contextAfterFunc and lock-level preemptions inside an operation are not scheduled by the harness",
	)
	timeNow = func() time.Time { return c08Clock }
	defer func() { timeNow = time.Now }()

	if rc := r.ReplayCase(); rc != nil {
		var c c08Case
		if err := json.Unmarshal(rc, &c); err != nil {
			eng.HarnessError("C08: bad replay case: %v", err)
		}
		fmt.Printf("replay part=%s %s\n", c.Part, c08HistString(c.Adds))
		switch c.Part {
		case "seq", "wait-seq":
			seen := c08ReplaySeq(c, c.Part == "wait-seq", true)
			for cl := range seen {
				r.Violation(cl+"|"+c08HistString(c.Adds), "reproduced: "+cl, c)
			}
		case "sched":
			s := c08RunSched(c, true)
			if s.timeout != nil {
				fmt.Println("   TIMEOUT:", s.timeout.what)
				r.Violation("waiter-never-returned|"+c08SchedKey(c), s.timeout.what, c)
			}
			for _, p := range s.probs {
				fmt.Printf("   PROBLEM %s: %s\n", p.class, p.msg)
				r.Violation(p.class+"|"+c08SchedKey(c), p.msg, c)
			}
		default:
			eng.HarnessError("C08: unknown part %q", c.Part)
		}
		r.Finish("replay")
	}

	full := []int{0, 1, 2}
	var fams []c08Family
	var wfam c08Family
	var sb c08SchedBounds
	if r.Quick() {
		fams = []c08Family{
			{Name: "restart3", MaxAdds: 3, Owners: full, NTypes: 2, NKeys: 2, RAs: []int{0, 1, 2}, Dts: []int{0, 1, 2}, Restarts: 1},
			{Name: "narrow5", MaxAdds: 5, Owners: []int{0, 2}, NTypes: 1, NKeys: 2, RAs: []int{0, 1}, Dts: []int{0, 2}},
			{Name: "full4", MaxAdds: 4, Owners: full, NTypes: 2, NKeys: 2, RAs: []int{0, 1, 2}, Dts: []int{0, 1, 2}},
		}
		wfam = c08Family{Name: "wait3", MaxAdds: 3, Owners: full, NTypes: 2, NKeys: 2, RAs: []int{0, 1}, Dts: []int{0, 2}, WaitOps: true}
		sb = c08SchedBounds{MaxAdds: 3, Idents: [][3]int{{0, 0, 0}, {2, 0, 0}, {2, 1, 1}}, RAs: []int{0, 1}, Dts: []int{0, 2},
			Filters: []int{0, 2 * 9, 3 * 9, 2*9 + 2*3, 2}}
	} else {
		fams = []c08Family{
			{Name: "restart4", MaxAdds: 4, Owners: full, NTypes: 2, NKeys: 2, RAs: []int{0, 1}, Dts: []int{0, 2}, Restarts: 1},
			{Name: "full4", MaxAdds: 4, Owners: full, NTypes: 2, NKeys: 2, RAs: []int{0, 1, 2}, Dts: []int{0, 1, 2}},
			{Name: "narrow6", MaxAdds: 6, Owners: []int{0, 2}, NTypes: 1, NKeys: 2, RAs: []int{0, 1}, Dts: []int{0, 2}},
			{Name: "wide5", MaxAdds: 5, Owners: full, NTypes: 2, NKeys: 2, RAs: []int{0, 1, 2}, Dts: []int{0, 2}},
			{Name: "full5", MaxAdds: 5, Owners: full, NTypes: 2, NKeys: 2, RAs: []int{0, 1, 2}, Dts: []int{0, 1, 2}},
			{Name: "narrow7", MaxAdds: 7, Owners: []int{0, 2}, NTypes: 1, NKeys: 2, RAs: []int{0, 1}, Dts: []int{0, 2}},
		}
		wfam = c08Family{Name: "wait4", MaxAdds: 4, Owners: full, NTypes: 2, NKeys: 2, RAs: []int{0, 1}, Dts: []int{0, 2}, WaitOps: true}
		sb = c08SchedBounds{MaxAdds: 4, Idents: [][3]int{{0, 0, 0}, {2, 0, 0}, {2, 1, 1}}, RAs: []int{0, 1}, Dts: []int{0, 2},
			Filters: []int{0, 2 * 9, 3 * 9, 2*9 + 2*3, 2}}
	}
	bounds := map[string]interface{}{"part1_families": fams, "part2a_family": wfam, "part2b": sb, "client_filters": c08NFilters,
		"part3_rest_layer": "not built (getNotices is not reachable from an exported function with a controllable peer uid)"}
	r.Info("bounds", bounds)
	if r.Sharded(16) {
		r.Finish("sharded")
	}
	only := os.Getenv("VERIF_C08_ONLY") // ad-hoc runs: comma separated part names (p2a, p2b, p1_<family>); the run is then marked non-exhaustive
	if only != "" {
		r.Cap("only", only)
	}
	timed := func(name string, f func()) {
		if only != "" && !strings.Contains(","+only+",", ","+name+",") {
			return
		}
		if r.NumViolations() >= c08MaxViolations {
			r.Cap("violations", "stopped before "+name+": enough violations to report")
			return
		}
		t0 := time.Now()
		f()
		r.Add("worker_ms_"+name, int64(time.Since(t0)/time.Millisecond))
	}
	// the largest family of part 1 runs last, so that a time cap (if any) cuts only there
	x := &c08Explorer{r: r, fam: wfam}
	timed("p2a", x.run)
	timed("p2b", func() { c08RunSchedPart(r, sb) })
	for _, fam := range fams {
		x := &c08Explorer{r: r, fam: fam}
		timed("p1_"+fam.Name, x.run)
	}
	r.Finish("part 1: every history of <= N AddNotice calls per family (owner x type x key x repeat-after x clock step, optional state reload) up to type/key symmetry; after every history every one of 36 client filters polls from every cursor it could hold, plus an immediate second poll; part 2a: same with WaitNotices on an already-done context; part 2b: every add sequence x every grouping into lock sections x 1-2 really blocked waiters x entry points. distinct_nontrivial = histories in which some client with a non-zero cursor received a non-empty list while its cursor excluded an older visible notice, plus part-2b executions in which a waiter that had really parked in Cond.Wait was woken by an add")
}
