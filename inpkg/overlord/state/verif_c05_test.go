// C05 — persisted state reloads identically; ids never reused.
//
// Bounded exhaustive exploration of operation sequences on a real State (E-seq): from a set of root
// prefixes every sequence of operations of a small colliding alphabet up to a depth bound is executed
// on the implementation (successors by replay on a fresh State, dedup on a canonical dump of all
// persisted fields). In every reached state S with checkpoint payload P, R = ReadState(P) and
//
//	(a) field level:    every persisted field of S equals the one of R (tasks, changes, data, notices, warnings, counters,
//	                    and the keys of the internal notice/warning maps);
//	(a') accessor level: the same through the exported API (Status, Tasks, WaitTasks, Lanes, Log, Progress, Get, Notices, ...);
//	(b) bytes:          marshal(R) == P modulo the order of the notices/warnings arrays and waited-status 0 -> 4,
//	                    and marshal(ReadState(marshal(R))) == marshal(R) exactly (modulo the array order);
//	(c) freshness:      every allocating operation on R returns an id never handed out on the path;
//	(d) one step:       for every enabled operation e, e(S) and e(R) have the same canonical dump and return value.
//
// In-package because: doing/undoing time can only be set through unexported methods, most Notice/Warning fields,
// lastNoticeTimestamp and lastRecordedNoticeStatus have no accessors.
package state

import (
	"bytes"
	"crypto/md5"
	"encoding/json"
	"fmt"
	"os"
	"runtime"
	"runtime/debug"
	"sort"
	"strconv"
	"strings"
	"testing"
	"time"

	eng "github.com/snapcore/snapd/verifengine"
)

type c05Op struct {
	K string `json:"k"`
	A int    `json:"a,omitempty"`
	B int    `json:"b,omitempty"`
	V int    `json:"v,omitempty"`
	T string `json:"t,omitempty"` // data target: "s" state, "c" change, "t" task
}

func (o c05Op) String() string {
	s := o.K
	if o.T != "" {
		s += ":" + o.T
	}
	return fmt.Sprintf("%s(%d,%d,%d)", s, o.A, o.B, o.V)
}

type c05Backend struct {
	last   []byte
	n      int
	ensure int
}

func (b *c05Backend) Checkpoint(d []byte) error    { b.last = d; b.n++; return nil }
func (b *c05Backend) EnsureBefore(d time.Duration) { b.ensure++ }

type c05Bounds struct {
	MaxChg, MaxTsk, MaxLanes, MaxAdv int
	AllTargets                       bool // data/log/progress ops on every object (else only on the newest change/task)
}

type c05World struct {
	st     *State
	be     *c05Backend
	b      *c05Bounds
	anchor time.Time // real "now" taken when this world was built (whole second + fixed fraction, fixed zone)
	off    int       // hours the mocked clock was advanced
	chg    []string
	tsk    []string
	lanes  []int
	// every id handed out on the path
	idChg, idTsk, idNtc map[string]bool
	idLane              map[int]bool
	usedOldNotice       bool
	usedOldWarning      bool
	reloads             int
	ckpt                bool // the last operation ended in a Backend.Checkpoint call
}

var c05Clock time.Time

// the case being executed (written out if the process panics, so that a crash comes with its path)
var c05Current c05Case

var c05Zone = time.FixedZone("VRF", 5400)

// the mocked clock starts 6h behind the real clock and is advanced in whole hours (<= MaxAdv): every comparison snapd
// makes against the real time.Now() (notice/warning expiry 7d/28d, Prune limits 30m/90m/24h/7d) has a margin of hours,
// and the anchor is re-taken for every replay, so real-time drift during a run cannot flip one.
func c05Anchor() time.Time {
	return time.Now().In(c05Zone).Truncate(time.Second).Add(-time.Second + 123456789*time.Nanosecond)
}

func (w *c05World) t0() time.Time  { return w.anchor.Add(-6 * time.Hour) }
func (w *c05World) now() time.Time { return w.t0().Add(time.Duration(w.off) * time.Hour) }

func c05NewWorld(b *c05Bounds) *c05World {
	w := &c05World{b: b, be: &c05Backend{}, anchor: c05Anchor(), idChg: map[string]bool{}, idTsk: map[string]bool{}, idNtc: map[string]bool{}, idLane: map[int]bool{}}
	w.st = New(w.be)
	return w
}

func (w *c05World) change(i int) *Change {
	if i < 0 || i >= len(w.chg) {
		return nil
	}
	return w.st.changes[w.chg[i]]
}

func (w *c05World) task(i int) *Task {
	if i < 0 || i >= len(w.tsk) {
		return nil
	}
	return w.st.tasks[w.tsk[i]]
}

var c05TaskStatuses = []Status{DefaultStatus, HoldStatus, DoStatus, DoingStatus, DoneStatus, AbortStatus, UndoStatus, UndoingStatus, UndoneStatus, ErrorStatus}
var c05WaitedStatuses = []Status{DoStatus, DoingStatus, DoneStatus, UndoneStatus}
var c05ChangeStatuses = []Status{DefaultStatus, DoStatus, DoneStatus, ErrorStatus}

func c05DataValue(v int) interface{} {
	switch v {
	case 1:
		return 7
	case 2:
		return "s"
	case 3:
		return map[string]interface{}{"m": []interface{}{1, "x", nil}}
	case 4:
		return (*int)(nil) // marshals to JSON null
	}
	return nil // unset
}

func c05HasStr(l []string, s string) bool {
	for _, x := range l {
		if x == s {
			return true
		}
	}
	return false
}

func c05HasInt(l []int, s int) bool {
	for _, x := range l {
		if x == s {
			return true
		}
	}
	return false
}

// P6: never a task in Undo while a task waiting for it is still pending (Do): the runner puts the pending task on hold in the
// same critical section. Change.Status() walks Undo tasks through their halt tasks and Do tasks through their wait tasks,
// takes such a pair for a dependency cycle when the change also holds a waiting task, and *logs into the task* - a getter
// with a side effect, whose timing differs between a state and its reload (the reload computes Status() once on load).
func c05P6(st *State, t *Task, s Status) bool {
	if s == UndoStatus {
		for _, hid := range t.haltTasks {
			if h := st.tasks[hid]; h != nil && h.Status() == DoStatus {
				return true
			}
		}
	}
	if s == DoStatus || s == DefaultStatus {
		for _, uid := range t.waitTasks {
			if u := st.tasks[uid]; u != nil && u.status == UndoStatus {
				return true
			}
		}
	}
	return false
}

// edgeTouchesUnlinked: some wait edge has an endpoint that is not linked to a change
func (w *c05World) edgeTouchesUnlinked() bool {
	for _, t := range w.st.tasks {
		if len(t.waitTasks) == 0 && len(t.haltTasks) == 0 {
			continue
		}
		if t.change == "" {
			return true
		}
	}
	return false
}

// enabled computes the operations allowed in the current state. It reads only persisted fields, so that the same
// operations are enabled on a state and on its reload. The restrictions are API usage preconditions:
//
//	P1 task statuses change only while the task is linked to a change (as the TaskRunner does);
//	P2 a change that was marked ready (ready-time set) is never made unready again (snapd panics "change unexpectedly
//	   became unready" / "attempted to set a task clean while change not ready" otherwise): no AddTask to it, only
//	   ready statuses for its tasks, SetClean only on its tasks;
//	P3 Change.SetStatus only on task-less changes (daemon usage), AddTask only to changes without explicit status;
//	P4 wait edges only from a later to an earlier task (acyclic) and only between tasks with the same change link;
//	   AddTask only if all neighbours are unlinked or in that change; Prune only if no edge touches an unlinked task
//	   (Prune would leave dangling task references);
//	P5 the aborting Prune variant only when no unready change holds a Done task (see below);
//	P6 no task in Undo while a task waiting for it is still Do (see c05P6).
func (w *c05World) enabled() []c05Op {
	var ops []c05Op
	st := w.st
	b := w.b
	st.Lock()
	defer st.unlock()
	if len(w.chg) < b.MaxChg {
		ops = append(ops, c05Op{K: "new-change"})
	}
	addable := func(c *Change) bool { return c != nil && c.readyTime.IsZero() && c.status == DefaultStatus }
	if len(w.tsk) < b.MaxTsk {
		ops = append(ops, c05Op{K: "new-task"})
		for ci := range w.chg {
			if addable(w.change(ci)) {
				ops = append(ops, c05Op{K: "new-task-in", A: ci})
			}
		}
	}
	for ci := range w.chg {
		c := w.change(ci)
		if !addable(c) {
			continue
		}
	NextTask:
		for ti := range w.tsk {
			t := w.task(ti)
			if t == nil || t.change != "" {
				continue
			}
			for _, l := range [][]string{t.waitTasks, t.haltTasks} {
				for _, nid := range l {
					n := st.tasks[nid]
					if n == nil || (n.change != "" && n.change != c.id) {
						continue NextTask
					}
				}
			}
			ops = append(ops, c05Op{K: "add-task", A: ci, B: ti})
		}
	}
	for i := range w.tsk {
		ti := w.task(i)
		if ti == nil {
			continue
		}
		for j := 0; j < i; j++ {
			tj := w.task(j)
			if tj == nil || tj.change != ti.change || c05HasStr(ti.waitTasks, tj.id) {
				continue
			}
			if tj.status == UndoStatus && ti.Status() == DoStatus {
				continue // P6
			}
			ops = append(ops, c05Op{K: "wait-for", A: i, B: j})
		}
	}
	if len(w.lanes) < b.MaxLanes {
		ops = append(ops, c05Op{K: "new-lane"})
	}
	newest := func(i, n int) bool { return b.AllTargets || i == n-1 }
	for i := range w.tsk {
		t := w.task(i)
		if t == nil {
			continue
		}
		if len(w.lanes) < b.MaxLanes {
			ops = append(ops, c05Op{K: "join-new-lane", A: i})
		}
		for li, l := range w.lanes {
			if !c05HasInt(t.lanes, l) {
				ops = append(ops, c05Op{K: "join-lane", A: i, B: li})
			}
		}
	}
	// data
	for v := 0; v <= 4; v++ {
		if _, ok := st.data["a"]; v != 0 || ok {
			ops = append(ops, c05Op{K: "set", T: "s", V: v})
		}
	}
	for ci := range w.chg {
		c := w.change(ci)
		if c == nil || !newest(ci, len(w.chg)) {
			continue
		}
		for v := 0; v <= 4; v++ {
			if _, ok := c.data["a"]; v != 0 || ok {
				ops = append(ops, c05Op{K: "set", T: "c", A: ci, V: v})
			}
		}
	}
	for ti := range w.tsk {
		t := w.task(ti)
		if t == nil || !newest(ti, len(w.tsk)) {
			continue
		}
		for v := 0; v <= 4; v++ {
			if _, ok := t.data["a"]; v != 0 || ok {
				ops = append(ops, c05Op{K: "set", T: "t", A: ti, V: v})
			}
		}
	}
	// statuses
	for ti := range w.tsk {
		t := w.task(ti)
		if t == nil || t.change == "" {
			continue
		}
		c := st.changes[t.change]
		if c == nil {
			continue
		}
		marked := !c.readyTime.IsZero()
		for vi, s := range c05TaskStatuses {
			if s == t.status || (marked && !s.Ready()) {
				continue
			}
			if s == DoneStatus && t.status == AbortStatus {
				continue // documented no-op
			}
			if c05P6(st, t, s) {
				continue
			}
			ops = append(ops, c05Op{K: "status", A: ti, V: vi})
		}
		if !marked && t.status != AbortStatus {
			for vi, s := range c05WaitedStatuses {
				if t.status == WaitStatus && t.waitedStatus == s {
					continue
				}
				ops = append(ops, c05Op{K: "to-wait", A: ti, V: vi})
			}
		}
		if marked && !t.clean {
			ops = append(ops, c05Op{K: "clean", A: ti})
		}
	}
	for ci := range w.chg {
		c := w.change(ci)
		if c == nil || len(c.taskIDs) != 0 {
			continue
		}
		for vi, s := range c05ChangeStatuses {
			if s == c.status {
				continue
			}
			if !c.readyTime.IsZero() && !(s.Ready() || s == DefaultStatus) {
				continue // Default on a task-less change computes to Hold (ready)
			}
			ops = append(ops, c05Op{K: "chg-status", A: ci, V: vi})
		}
	}
	for ti := range w.tsk {
		t := w.task(ti)
		if t == nil {
			continue
		}
		if !t.atTime.IsZero() {
			ops = append(ops, c05Op{K: "at", A: ti, V: 0})
		}
		if !t.Status().Ready() {
			ops = append(ops, c05Op{K: "at", A: ti, V: 1})
		}
		if !newest(ti, len(w.tsk)) {
			continue
		}
		ops = append(ops, c05Op{K: "logf", A: ti}, c05Op{K: "errorf", A: ti}, c05Op{K: "log11", A: ti})
		for v := 0; v < 3; v++ {
			ops = append(ops, c05Op{K: "progress", A: ti, V: v})
		}
		ops = append(ops, c05Op{K: "doing-time", A: ti, V: 0}, c05Op{K: "doing-time", A: ti, V: 1})
	}
	for v := 0; v <= 6; v++ {
		if v == 5 && w.usedOldNotice {
			continue
		}
		ops = append(ops, c05Op{K: "notice", V: v})
	}
	for v := 0; v <= 3; v++ {
		if v == 3 && w.usedOldWarning {
			continue
		}
		ops = append(ops, c05Op{K: "warn", V: v})
	}
	for v, m := range []string{"w1", "w2"} {
		if st.warnings[m] != nil {
			ops = append(ops, c05Op{K: "unwarn", V: v})
		}
	}
	for _, x := range st.warnings {
		if !w.warningExpired(x) {
			ops = append(ops, c05Op{K: "okay-warnings"})
			break
		}
	}
	if !w.edgeTouchesUnlinked() {
		ops = append(ops, c05Op{K: "prune", V: 0})
		// P5: the aborting Prune only when no change that is not yet ready holds a Done task: Change.Abort/AbortUnreadyLanes
		// used to panic ("change unexpectedly became unready") when an unstarted task preceded a Done one (found here, fixed
		// in f5e4f9b for the plain case); statuses are not runner-consistent in this check, and the abort path is C09's
		// subject, not a reload property
		danger := false
		for _, c := range st.changes {
			if !c.readyTime.IsZero() {
				continue
			}
			for _, tid := range c.taskIDs {
				if t := st.tasks[tid]; t != nil && (t.status == DoneStatus || (t.status == WaitStatus && t.waitedStatus == DoneStatus)) {
					danger = true
				}
			}
		}
		if !danger {
			ops = append(ops, c05Op{K: "prune", V: 1})
		}
	}
	if w.off < b.MaxAdv {
		ops = append(ops, c05Op{K: "advance"})
	}
	ops = append(ops, c05Op{K: "reload"})
	return ops
}

func c05U32(v uint32) *uint32 { return &v }

// apply performs one operation (lock, operate, unlock+checkpoint) and returns what the operation handed out.
func (w *c05World) apply(op c05Op) string {
	w.ckpt = false
	if op.K == "advance" {
		w.off++
		return ""
	}
	if op.K == "reload" {
		p := w.snapshot()
		w.reloadFrom(p)
		w.reloads++
		return ""
	}
	c05Clock = w.now()
	st := w.st
	ret := ""
	n0 := w.be.n
	st.Lock()
	switch op.K {
	case "new-change":
		n := len(w.chg)
		c := st.NewChange(fmt.Sprintf("kind%d", n), fmt.Sprintf("summary of change %d", n))
		w.chg = append(w.chg, c.ID())
		w.idChg[c.ID()] = true
		ret = c.ID()
	case "new-task", "new-task-in":
		n := len(w.tsk)
		t := st.NewTask(fmt.Sprintf("tkind%d", n), fmt.Sprintf("summary of task %d", n))
		w.tsk = append(w.tsk, t.ID())
		w.idTsk[t.ID()] = true
		ret = t.ID()
		if op.K == "new-task-in" {
			w.change(op.A).AddTask(t)
		}
	case "add-task":
		w.change(op.A).AddTask(w.task(op.B))
	case "wait-for":
		w.task(op.A).WaitFor(w.task(op.B))
	case "new-lane", "join-new-lane":
		l := st.NewLane()
		w.lanes = append(w.lanes, l)
		w.idLane[l] = true
		ret = strconv.Itoa(l)
		if op.K == "join-new-lane" {
			w.task(op.A).JoinLane(l)
		}
	case "join-lane":
		w.task(op.A).JoinLane(w.lanes[op.B])
	case "set":
		switch op.T {
		case "s":
			st.Set("a", c05DataValue(op.V))
		case "c":
			w.change(op.A).Set("a", c05DataValue(op.V))
		case "t":
			w.task(op.A).Set("a", c05DataValue(op.V))
		}
	case "status":
		w.task(op.A).SetStatus(c05TaskStatuses[op.V])
	case "to-wait":
		w.task(op.A).SetToWait(c05WaitedStatuses[op.V])
	case "clean":
		w.task(op.A).SetClean()
	case "chg-status":
		w.change(op.A).SetStatus(c05ChangeStatuses[op.V])
	case "at":
		if op.V == 0 {
			w.task(op.A).At(time.Time{})
		} else {
			w.task(op.A).At(w.now().Add(90 * time.Minute))
		}
	case "logf":
		w.task(op.A).Logf("info %d", 1)
	case "errorf":
		w.task(op.A).Errorf("failed: %s", "reason")
	case "log11":
		for i := 0; i < 11; i++ {
			w.task(op.A).Logf("entry %d", i)
		}
	case "progress":
		switch op.V {
		case 0:
			w.task(op.A).SetProgress("lbl", 1, 2)
		case 1:
			w.task(op.A).SetProgress("", 2, 2)
		case 2:
			w.task(op.A).SetProgress("x", 3, 2)
		}
	case "doing-time":
		if op.V == 0 {
			w.task(op.A).accumulateDoingTime(1500 * time.Millisecond)
		} else {
			w.task(op.A).accumulateUndoingTime(7 * time.Nanosecond)
		}
	case "notice":
		var err error
		switch op.V {
		case 0:
			ret, err = st.AddNotice(nil, WarningNotice, "k", nil)
		case 1:
			ret, err = st.AddNotice(c05U32(1000), WarningNotice, "k", nil)
		case 2:
			ret, err = st.AddNotice(nil, WarningNotice, "k", &AddNoticeOptions{RepeatAfter: 30 * time.Minute, Data: map[string]string{"d": "1"}})
		case 3:
			ret, err = st.AddNotice(c05U32(0), SnapRunInhibitNotice, "k", &AddNoticeOptions{Data: map[string]string{"a": "b", "c": "d"}})
		case 4:
			ret, err = st.AddNotice(nil, RefreshInhibitNotice, "-", &AddNoticeOptions{Time: w.anchor.Add(-time.Hour), RepeatAfter: 2 * time.Hour})
		case 5:
			ret, err = st.AddNotice(nil, InterfacesRequestsPromptNotice, "old", &AddNoticeOptions{Time: w.anchor.Add(-8 * 24 * time.Hour)})
			w.usedOldNotice = true
		case 6:
			ret, err = st.AddNotice(c05U32(1000), InterfacesRequestsRuleUpdateNotice, "r", &AddNoticeOptions{RepeatAfter: 90 * time.Minute})
		}
		if err != nil {
			eng.HarnessError("AddNotice: %v", err)
		}
	case "warn":
		switch op.V {
		case 0:
			st.AddWarning("w1", nil)
		case 1:
			st.Warnf("w%d", 2)
		case 2:
			st.AddWarning("w1", &AddWarningOptions{RepeatAfter: 90 * time.Minute, Time: w.anchor.Add(-2 * time.Hour)})
		case 3:
			st.AddWarning("wold", &AddWarningOptions{Time: w.anchor.Add(-29 * 24 * time.Hour)})
			w.usedOldWarning = true
		}
	case "unwarn":
		if err := st.RemoveWarning([]string{"w1", "w2"}[op.V]); err != nil {
			eng.HarnessError("RemoveWarning: %v", err)
		}
	case "okay-warnings":
		st.OkayWarnings(w.now())
	case "prune":
		if op.V == 0 {
			st.Prune(time.Time{}, 24*time.Hour, 7*24*time.Hour, 0)
		} else {
			st.Prune(time.Time{}, 30*time.Minute, 90*time.Minute, 500)
		}
	default:
		eng.HarnessError("unknown op %v", op)
	}
	for _, n := range st.notices {
		w.idNtc[n.id] = true
	}
	st.Unlock()
	w.ckpt = w.be.n > n0
	return ret
}

func (w *c05World) snapshot() []byte {
	w.st.Lock()
	defer w.st.unlock() // no checkpoint
	return w.st.checkpointData()
}

func (w *c05World) reloadFrom(p []byte) error {
	var be Backend = w.be
	if w.st != nil && w.st.backend == nil {
		be = nil
	}
	st, err := ReadState(be, bytes.NewReader(p))
	if err != nil {
		return err
	}
	w.st = st
	return nil
}

// fork returns a world that continues from the reload of payload p (same harness bookkeeping)
func (w *c05World) fork(p []byte) (*c05World, error) {
	w2 := *w
	w2.be = &c05Backend{}
	w2.chg = append([]string(nil), w.chg...)
	w2.tsk = append([]string(nil), w.tsk...)
	w2.lanes = append([]int(nil), w.lanes...)
	w2.idChg, w2.idTsk, w2.idNtc, w2.idLane = map[string]bool{}, map[string]bool{}, map[string]bool{}, map[int]bool{}
	for k := range w.idChg {
		w2.idChg[k] = true
	}
	for k := range w.idTsk {
		w2.idTsk[k] = true
	}
	for k := range w.idNtc {
		w2.idNtc[k] = true
	}
	for k := range w.idLane {
		w2.idLane[k] = true
	}
	if err := w2.reloadFrom(p); err != nil {
		return nil, err
	}
	return &w2, nil
}

// ---------------------------------------------------------------------------------------------------------------
// dumps

func (w *c05World) rel(t time.Time) string {
	if t.IsZero() {
		return "-"
	}
	return strconv.FormatInt(int64(t.Sub(w.t0())), 10)
}

func c05Raw(p *json.RawMessage) string {
	if p == nil {
		return "NILPTR"
	}
	return string(*p)
}

func c05DataLines(out *[]string, prefix string, d customData) {
	keys := make([]string, 0, len(d))
	for k := range d {
		keys = append(keys, k)
	}
	sort.Strings(keys)
	for _, k := range keys {
		*out = append(*out, prefix+".data."+k+"="+c05Raw(d[k]))
	}
}

func (w *c05World) relLog(line string) string {
	i := strings.IndexByte(line, ' ')
	if i < 0 {
		return line
	}
	t, err := time.Parse(time.RFC3339, line[:i])
	if err != nil {
		return line
	}
	return w.rel(t) + line[i:]
}

func c05NormWaited(s Status) Status {
	if s == DefaultStatus {
		return DoneStatus // documented backward-compat default applied on load
	}
	return s
}

func (w *c05World) noticeExpired(n *Notice) bool {
	return n.lastOccurred.Add(n.expireAfter).Before(w.anchor)
}

func (w *c05World) warningExpired(x *Warning) bool {
	return x.lastAdded.Add(x.expireAfter).Before(w.anchor)
}

// fieldDump lists every persisted field of the state (one "path=value" line each, sorted), times relative to the
// mocked clock origin. Expired notices and warnings are left out (the statement speaks of unexpired ones).
func (w *c05World) fieldDump() []string {
	st := w.st
	st.Lock()
	defer st.unlock()
	out := make([]string, 0, 64)
	out = append(out, fmt.Sprintf("state.last-change-id=%d", st.lastChangeId), fmt.Sprintf("state.last-task-id=%d", st.lastTaskId),
		fmt.Sprintf("state.last-lane-id=%d", st.lastLaneId), fmt.Sprintf("state.last-notice-id=%d", st.lastNoticeId),
		"state.last-notice-timestamp="+w.rel(st.lastNoticeTimestamp))
	c05DataLines(&out, "state", st.data)
	for id, c := range st.changes {
		p := "chg." + id
		if c == nil {
			out = append(out, p+"=NIL")
			continue
		}
		out = append(out, p+".id="+c.id, p+".kind="+c.kind, p+".summary="+c.summary, p+".status="+strconv.Itoa(int(c.status)),
			p+".clean="+strconv.FormatBool(c.clean), p+".task-ids="+strings.Join(c.taskIDs, ","), p+".spawn-time="+w.rel(c.spawnTime),
			p+".ready-time="+w.rel(c.readyTime), p+".last-recorded-notice-status="+strconv.Itoa(int(c.lastRecordedNoticeStatus)))
		c05DataLines(&out, p, c.data)
	}
	for id, t := range st.tasks {
		p := "task." + id
		if t == nil {
			out = append(out, p+"=NIL")
			continue
		}
		prog := "nil"
		if t.progress != nil {
			prog = fmt.Sprintf("%q/%d/%d", t.progress.Label, t.progress.Done, t.progress.Total)
		}
		out = append(out, p+".id="+t.id, p+".kind="+t.kind, p+".summary="+t.summary, p+".status="+strconv.Itoa(int(t.status)),
			p+".waited-status="+strconv.Itoa(int(c05NormWaited(t.waitedStatus))), p+".clean="+strconv.FormatBool(t.clean), p+".progress="+prog,
			p+".wait-tasks="+strings.Join(t.waitTasks, ","), p+".halt-tasks="+strings.Join(t.haltTasks, ","), p+".lanes="+fmt.Sprint(append([]int{}, t.lanes...)),
			p+".change="+t.change, p+".spawn-time="+w.rel(t.spawnTime), p+".ready-time="+w.rel(t.readyTime),
			p+".doing-time="+strconv.FormatInt(int64(t.doingTime), 10), p+".undoing-time="+strconv.FormatInt(int64(t.undoingTime), 10),
			p+".at-time="+w.rel(t.atTime))
		for i, l := range t.log {
			out = append(out, fmt.Sprintf("%s.log.%02d=%s", p, i, w.relLog(l)))
		}
		c05DataLines(&out, p, t.data)
	}
	for k, n := range st.notices {
		if w.noticeExpired(n) {
			continue
		}
		p := "notice." + n.id
		uid := "nil"
		if n.userID != nil {
			uid = strconv.FormatUint(uint64(*n.userID), 10)
		}
		var data []string
		for dk, dv := range n.lastData {
			data = append(data, dk+"="+dv)
		}
		sort.Strings(data)
		out = append(out, p+".map-key="+fmt.Sprintf("%v/%d/%s/%s", k.hasUserID, k.userID, k.noticeType, k.key), p+".user-id="+uid, p+".type="+string(n.noticeType),
			p+".key="+n.key, p+".first-occurred="+w.rel(n.firstOccurred), p+".last-occurred="+w.rel(n.lastOccurred), p+".last-repeated="+w.rel(n.lastRepeated),
			p+".occurrences="+strconv.Itoa(n.occurrences), p+".last-data="+strings.Join(data, ","), p+".repeat-after="+n.repeatAfter.String(),
			p+".expire-after="+n.expireAfter.String())
	}
	for k, x := range st.warnings {
		if w.warningExpired(x) {
			continue
		}
		p := "warning." + x.message
		out = append(out, p+".map-key="+k, p+".first-added="+w.rel(x.firstAdded), p+".last-added="+w.rel(x.lastAdded), p+".last-shown="+w.rel(x.lastShown),
			p+".expire-after="+x.expireAfter.String(), p+".repeat-after="+x.repeatAfter.String())
	}
	sort.Strings(out)
	return out
}

// hidden runtime state that is not persisted but steers later operations: the ready channel of every change
func (w *c05World) hidden() string {
	st := w.st
	st.Lock()
	defer st.unlock()
	var ids []string
	for id, c := range st.changes {
		if c.IsReady() {
			ids = append(ids, id)
		}
	}
	sort.Strings(ids)
	return strings.Join(ids, ",")
}

func (w *c05World) key(dump []string) [16]byte {
	h := md5.New()
	for _, l := range dump {
		h.Write([]byte(l))
		h.Write([]byte{'\n'})
	}
	fmt.Fprintf(h, "ready=%s off=%d on=%v ow=%v", w.hidden(), w.off, w.usedOldNotice, w.usedOldWarning)
	var k [16]byte
	copy(k[:], h.Sum(nil))
	return k
}

func c05Get(get func(string, interface{}) error, has func(string) bool) string {
	var v interface{} = "untouched"
	err := get("a", &v)
	b, _ := json.Marshal(v)
	return fmt.Sprintf("has=%v err=%v val=%s", has("a"), err, b)
}

func c05TaskIDs(ts []*Task) string {
	var l []string
	for _, t := range ts {
		if t == nil {
			l = append(l, "<nil>")
		} else {
			l = append(l, t.ID())
		}
	}
	return strings.Join(l, ",")
}

// accessorDump is the same comparison through the exported API only (maps are used just to find the objects).
func (w *c05World) accessorDump(skipReady map[string]bool) []string {
	st := w.st
	st.Lock()
	defer st.unlock()
	var out []string
	out = append(out, "state: a:{"+c05Get(st.Get, st.Has)+"}", fmt.Sprintf("state.task-count=%d", st.TaskCount()))
	var linked []string
	for _, t := range st.Tasks() {
		linked = append(linked, t.ID())
	}
	sort.Strings(linked)
	out = append(out, "state.tasks="+strings.Join(linked, ","))
	for _, c := range st.Changes() {
		p := "chg." + c.ID()
		out = append(out, p+": "+fmt.Sprintf("kind=%s summary=%q status=%s clean=%v spawn=%s ready=%s tasks=%s a:{%s}", c.Kind(), c.Summary(), c.Status(), c.IsClean(),
			w.rel(c.SpawnTime()), w.rel(c.ReadyTime()), c05TaskIDs(c.Tasks()), c05Get(c.Get, c.Has)))
		if st.Change(c.ID()) != c {
			out = append(out, p+": Change(id) does not return the change")
		}
		// documented exception: IsReady() of a task-less change that never had its status set differs after a reload (the
		// reload closes its ready channel); the closed channel stays when tasks are added later. Such a change has no
		// ready time. IsReady() is compared for every other change.
		if !skipReady[c.ID()] {
			out = append(out, p+fmt.Sprintf(".is-ready=%v", c.IsReady()))
		}
		if err := c.Err(); err != nil {
			out = append(out, p+".err="+strings.ReplaceAll(err.Error(), "\n", "|"))
		}
		for _, l := range w.lanes {
			out = append(out, fmt.Sprintf("%s.lane-tasks.%d=%s", p, l, c05TaskIDs(c.LaneTasks(l))))
		}
		out = append(out, p+".lane-tasks.0="+c05TaskIDs(c.LaneTasks(0)))
	}
	for id, t := range st.tasks {
		p := "task." + id
		label, done, total := t.Progress()
		chg := "<none>"
		if c := t.Change(); c != nil {
			chg = c.ID()
		}
		var logs []string
		for _, l := range t.Log() {
			logs = append(logs, w.relLog(l))
		}
		waited := ""
		if t.Status() == WaitStatus {
			waited = t.WaitedStatus().String()
		} else {
			waited = c05NormWaited(t.WaitedStatus()).String()
		}
		out = append(out, p+": "+fmt.Sprintf("id=%s kind=%s summary=%q status=%s waited=%s clean=%v progress=%q/%d/%d wait=%s halt=%s nhalt=%d lanes=%v change=%s spawn=%s ready=%s doing=%d undoing=%d at=%s a:{%s} log=%q",
			t.ID(), t.Kind(), t.Summary(), t.Status(), waited, t.IsClean(), label, done, total, c05TaskIDs(t.WaitTasks()), c05TaskIDs(t.HaltTasks()), t.NumHaltTasks(),
			t.Lanes(), chg, w.rel(t.SpawnTime()), w.rel(t.ReadyTime()), t.DoingTime(), t.UndoingTime(), w.rel(t.AtTime()), c05Get(t.Get, t.Has), logs))
		if (st.Task(id) != nil) != (t.Change() != nil) {
			out = append(out, p+": State.Task(id) inconsistent with Change()")
		}
	}
	// notices: ordered by last-repeated; ties are broken by id here (sort.Slice over a map order is not stable)
	ns := st.Notices(nil)
	for i := 1; i < len(ns); i++ {
		if ns[i].lastRepeated.Before(ns[i-1].lastRepeated) {
			out = append(out, "notices: not ordered by last-repeated")
		}
	}
	sort.SliceStable(ns, func(i, j int) bool {
		if !ns[i].lastRepeated.Equal(ns[j].lastRepeated) {
			return ns[i].lastRepeated.Before(ns[j].lastRepeated)
		}
		return ns[i].id < ns[j].id
	})
	for i, n := range ns {
		uid, set := n.UserID()
		var m map[string]interface{}
		b, _ := json.Marshal(n)
		json.Unmarshal(b, &m)
		for _, f := range []string{"first-occurred", "last-occurred", "last-repeated"} {
			if s, ok := m[f].(string); ok {
				if t, err := time.Parse(time.RFC3339Nano, s); err == nil {
					m[f] = w.rel(t)
				}
			}
		}
		b, _ = json.Marshal(m)
		out = append(out, fmt.Sprintf("notices.%02d: %s uid=%d/%v type=%s json=%s byid=%v", i, n.String(), uid, set, n.Type(), b, st.Notice(n.id) == n))
	}
	u1000 := c05U32(1000)
	out = append(out, fmt.Sprintf("notices.filtered=%d/%d/%d", len(st.Notices(&NoticeFilter{UserID: u1000})), len(st.Notices(&NoticeFilter{Types: []NoticeType{ChangeUpdateNotice}})),
		len(st.Notices(&NoticeFilter{After: w.t0().Add(30 * time.Minute)}))))
	aw := st.AllWarnings()
	for i := 1; i < len(aw); i++ {
		if aw[i].lastAdded.Before(aw[i-1].lastAdded) {
			out = append(out, "warnings: not ordered by last-added")
		}
	}
	sort.SliceStable(aw, func(i, j int) bool {
		if !aw[i].lastAdded.Equal(aw[j].lastAdded) {
			return aw[i].lastAdded.Before(aw[j].lastAdded)
		}
		return aw[i].message < aw[j].message
	})
	for i, x := range aw {
		var m map[string]interface{}
		b, _ := json.Marshal(x)
		json.Unmarshal(b, &m)
		for _, f := range []string{"first-added", "last-added", "last-shown"} {
			if s, ok := m[f].(string); ok {
				if t, err := time.Parse(time.RFC3339Nano, s); err == nil {
					m[f] = w.rel(t)
				}
			}
		}
		b, _ = json.Marshal(m)
		out = append(out, fmt.Sprintf("warnings.%02d: %s json=%s", i, x.String(), b))
	}
	// PendingWarnings/WarningsSummary do not filter expired warnings (those are outside the statement)
	pend, _ := st.PendingWarnings()
	var pm []string
	expired := 0
	for _, x := range pend {
		if w.warningExpired(x) {
			expired++
			continue
		}
		pm = append(pm, x.String())
	}
	sort.Strings(pm)
	nw, last := st.WarningsSummary()
	if w.usedOldWarning {
		out = append(out, fmt.Sprintf("warnings.pending=%v summary=%d", pm, nw-expired))
	} else {
		out = append(out, fmt.Sprintf("warnings.pending=%v summary=%d/%s", pm, nw, w.rel(last)))
	}
	sort.Strings(out)
	return out
}

type c05Diff struct {
	Field string // canonical field class, e.g. task.at-time
	Msg   string
}

var c05NullEntry = "null-data-entry"

func c05Class(line string) string {
	// "task.12.at-time=..." -> "task.at-time"; "notices.03: ..." -> "notices"
	name := line
	if i := strings.IndexAny(name, "=:"); i >= 0 {
		name = name[:i]
	}
	parts := strings.Split(name, ".")
	var keep []string
	for i, p := range parts {
		if i > 0 && (parts[0] == "warning" && i == 1) {
			continue
		}
		if _, err := strconv.Atoi(p); err == nil {
			continue
		}
		keep = append(keep, p)
	}
	return strings.Join(keep, ".")
}

// diff compares two sorted dumps; a JSON null data entry that comes back as a missing entry is reported under its own
// class so that it cannot hide (or be hidden by) other differences.
func c05DiffDumps(a, b []string) []c05Diff {
	ma := map[string]bool{}
	for _, l := range a {
		ma[l] = true
	}
	mb := map[string]bool{}
	for _, l := range b {
		mb[l] = true
	}
	var onlyA, onlyB []string
	for _, l := range a {
		if !mb[l] {
			onlyA = append(onlyA, l)
		}
	}
	for _, l := range b {
		if !ma[l] {
			onlyB = append(onlyB, l)
		}
	}
	if len(onlyA) == 0 && len(onlyB) == 0 {
		return nil
	}
	var res []c05Diff
	seen := map[string]bool{}
	add := func(class, msg string) {
		if !seen[class] {
			seen[class] = true
			res = append(res, c05Diff{class, msg})
		}
	}
	isNull := func(l string) bool {
		return strings.HasSuffix(l, ".data.a=null") || strings.HasSuffix(l, ".data.a=NILPTR") ||
			(strings.Contains(l, "a:{has=") && (strings.Contains(l, "val=null}") || strings.Contains(l, "val=\"untouched\"}")))
	}
	for _, l := range onlyA {
		peer := ""
		name := l
		if i := strings.IndexAny(l, "=:"); i >= 0 {
			name = l[:i]
		}
		for _, m := range onlyB {
			if strings.HasPrefix(m, name) && len(m) > len(name) && (m[len(name)] == '=' || m[len(name)] == ':') {
				peer = m
			}
		}
		if peer == "" {
			peer = "<absent>"
		}
		class := c05Class(l)
		if isNull(l) && (peer == "<absent>" || isNull(peer)) && c05OnlyNullDiffers(l, peer) {
			class = c05NullEntry
		}
		add(class, fmt.Sprintf("saved: %s | reloaded: %s", l, peer))
	}
	for _, m := range onlyB {
		name := m
		if i := strings.IndexAny(m, "=:"); i >= 0 {
			name = m[:i]
		}
		found := false
		for _, l := range onlyA {
			if strings.HasPrefix(l, name) && len(l) > len(name) && (l[len(name)] == '=' || l[len(name)] == ':') {
				found = true
			}
		}
		if !found {
			add(c05Class(m), fmt.Sprintf("saved: <absent> | reloaded: %s", m))
		}
	}
	return res
}

// c05OnlyNullDiffers: the two lines differ only in the rendering of a null data entry
func c05OnlyNullDiffers(a, b string) bool {
	if b == "<absent>" {
		return true
	}
	norm := func(s string) string {
		s = strings.Replace(s, ".data.a=NILPTR", ".data.a=null", 1)
		s = strings.Replace(s, "a:{has=true err=<nil> val=null}", "a:{NULL}", 1)
		s = strings.Replace(s, "a:{has=false err=no state entry for key \"a\" val=\"untouched\"}", "a:{NULL}", 1)
		return s
	}
	return norm(a) == norm(b)
}

// canonical JSON: notices sorted by id, warnings by message (they are produced by map iteration), waited-status 0 -> 4
func c05CanonJSON(p []byte, normWaited bool) (string, error) {
	var m map[string]interface{}
	d := json.NewDecoder(bytes.NewReader(p))
	d.UseNumber()
	if err := d.Decode(&m); err != nil {
		return "", err
	}
	sortBy := func(field, key string) {
		l, ok := m[field].([]interface{})
		if !ok {
			return
		}
		sort.SliceStable(l, func(i, j int) bool {
			a, _ := l[i].(map[string]interface{})
			b, _ := l[j].(map[string]interface{})
			return fmt.Sprint(a[key]) < fmt.Sprint(b[key])
		})
	}
	sortBy("notices", "id")
	sortBy("warnings", "message")
	if normWaited {
		if ts, ok := m["tasks"].(map[string]interface{}); ok {
			for _, t := range ts {
				if tm, ok := t.(map[string]interface{}); ok {
					if fmt.Sprint(tm["waited-status"]) == "0" {
						tm["waited-status"] = json.Number("4")
					}
				}
			}
		}
	}
	b, err := json.Marshal(m)
	return string(b), err
}

// ---------------------------------------------------------------------------------------------------------------
// exploration

type c05Case struct {
	Root   int     `json:"root"`
	Path   []c05Op `json:"path"`
	Next   *c05Op  `json:"next,omitempty"` // for one-step violations: the operation applied to the state and to its reload
	Oracle string  `json:"oracle,omitempty"`
	Msg    string  `json:"msg,omitempty"`
}

var c05Roots = [][]c05Op{
	0: {},
	// one change, two tasks, t1 waits for t0, t1 in its own lane
	1: {{K: "new-change"}, {K: "new-task-in", A: 0}, {K: "new-task-in", A: 0}, {K: "wait-for", A: 1, B: 0}, {K: "join-new-lane", A: 1}},
	// in-progress change with a waiting task
	2: {{K: "new-change"}, {K: "new-task-in", A: 0}, {K: "new-task-in", A: 0}, {K: "wait-for", A: 1, B: 0}, {K: "status", A: 0, V: 4}, {K: "to-wait", A: 1, V: 1}, {K: "advance"}},
	// a change that finished with an error (ready, marked), a second empty change
	3: {{K: "new-change"}, {K: "new-task-in", A: 0}, {K: "new-task-in", A: 0}, {K: "wait-for", A: 1, B: 0}, {K: "errorf", A: 1}, {K: "status", A: 0, V: 9}, {K: "status", A: 1, V: 1}, {K: "advance"}, {K: "new-change"}},
	// notices and warnings
	4: {{K: "notice", V: 0}, {K: "notice", V: 1}, {K: "notice", V: 3}, {K: "warn", V: 0}, {K: "warn", V: 1}, {K: "advance"}, {K: "notice", V: 2}, {K: "okay-warnings"}},
	// data, log, progress, schedule, an unlinked task
	5: {{K: "new-change"}, {K: "new-task-in", A: 0}, {K: "set", T: "s", V: 3}, {K: "set", T: "c", A: 0, V: 2}, {K: "set", T: "t", A: 0, V: 1}, {K: "log11", A: 0}, {K: "progress", A: 0, V: 0}, {K: "at", A: 0, V: 1}, {K: "doing-time", A: 0}, {K: "new-task"}},
	// a reloaded state with a ready change, then a fresh (never reloaded) empty change
	6: {{K: "new-change"}, {K: "new-task-in", A: 0}, {K: "status", A: 0, V: 4}, {K: "reload"}, {K: "new-change"}},
	// counters ahead of the objects: a finished change pruned away together with its task and lane
	7: {{K: "new-change"}, {K: "new-task-in", A: 0}, {K: "join-new-lane", A: 0}, {K: "status", A: 0, V: 4}, {K: "prune", V: 0}, {K: "new-change"}},
}

var c05RootsChecked = map[int]bool{}

type c05Explorer struct {
	r      *eng.Run
	b      *c05Bounds
	root   int
	pass   int
	report func(c c05Case, class string)
}

func c05CoarseNoticeTimes(dump []string) []string {
	out := make([]string, len(dump))
	for i, l := range dump {
		out[i] = l
		if !(strings.HasPrefix(l, "notice.") || strings.HasPrefix(l, "state.last-notice-timestamp=")) {
			continue
		}
		eq := strings.IndexByte(l, '=')
		name := l[:eq]
		if !(strings.HasSuffix(name, "-occurred") || strings.HasSuffix(name, "-repeated") || strings.HasSuffix(name, "-timestamp")) {
			continue
		}
		if n, err := strconv.ParseInt(l[eq+1:], 10, 64); err == nil {
			q := n / 1000
			if n < 0 && n%1000 != 0 {
				q--
			}
			out[i] = name + "=" + strconv.FormatInt(q, 10) + "us"
		}
	}
	return out
}

func c05OpEnabled(ops []c05Op, op c05Op) bool {
	for _, o := range ops {
		if o == op {
			return true
		}
	}
	return false
}

// build replays root prefix + path on a fresh state
func (x *c05Explorer) build(path []c05Op) *c05World {
	w := c05NewWorld(x.b)
	for i, op := range c05Roots[x.root] {
		if !c05RootsChecked[x.root] && !c05OpEnabled(w.enabled(), op) {
			eng.HarnessError("root %d: operation %d %v is not enabled", x.root, i, op)
		}
		if len(path) > 0 {
			w.st.backend = nil
		}
		w.apply(op)
	}
	c05RootsChecked[x.root] = true
	w.st.backend = w.be
	// the recording backend is detached while the prefix is replayed (no checkpoint marshalling per step) and
	// attached again for the last operation, whose checkpoint is compared in checkState
	for i, op := range path {
		if i < len(path)-1 {
			w.st.backend = nil
		} else {
			w.st.backend = w.be
		}
		w.apply(op)
	}
	w.st.backend = w.be
	return w
}

func c05Summ(d []c05Diff) string {
	var s []string
	for _, x := range d {
		s = append(s, "["+x.Field+"] "+x.Msg)
	}
	return strings.Join(s, " ;; ")
}

// checkState evaluates oracles (a), (a'), (b), (c) and the structural invariant on the state of w. It does not modify w.
func (x *c05Explorer) checkState(w *c05World, path []c05Op, dump []string, verbose bool) {
	r := x.r
	rep := func(oracle string, diffs []c05Diff) {
		for _, d := range diffs {
			x.report(c05Case{Root: x.root, Path: path, Oracle: oracle, Msg: d.Msg}, c05VKey(oracle, d.Field))
		}
	}
	// invariant the generator relies on (P2): a change marked ready is ready
	w.st.Lock()
	for id, c := range w.st.changes {
		if !c.readyTime.IsZero() && !(c.Status().Ready() && c.IsReady()) {
			rep("invariant", []c05Diff{{"ready-marked-change-not-ready", fmt.Sprintf("change %s has a ready time but Status()=%s IsReady()=%v", id, c.Status(), c.IsReady())}})
		}
	}
	w.st.unlock()

	p := w.snapshot()
	if w.ckpt {
		// the payload handed to the backend by the last Unlock is the state we look at
		var c1, c2 string
		var err1, err2 error
		if !bytes.Equal(w.be.last, p) {
			c1, err1 = c05CanonJSON(w.be.last, false)
			c2, err2 = c05CanonJSON(p, false)
		}
		if err1 != nil || err2 != nil || c1 != c2 {
			rep("checkpoint", []c05Diff{{"backend-payload", fmt.Sprintf("payload given to Backend.Checkpoint differs from the state at unlock: %s vs %s (%v %v)", c1, c2, err1, err2)}})
		}
	}
	rw, err := w.fork(p)
	if err != nil {
		rep("reload", []c05Diff{{"read-state-error", fmt.Sprintf("ReadState failed on its own checkpoint: %v; payload %s", err, p)}})
		return
	}
	// (a)
	rdump := rw.fieldDump()
	d := c05DiffDumps(dump, rdump)
	rep("fields", d)
	// (a')
	skipReady := map[string]bool{}
	w.st.Lock()
	for id, c := range w.st.changes {
		skipReady[id] = c.readyTime.IsZero() && (len(c.taskIDs) == 0 || c.IsReady())
	}
	w.st.unlock()
	ad := c05DiffDumps(w.accessorDump(skipReady), rw.accessorDump(skipReady))
	rep("accessors", ad)
	// (b)
	p2 := rw.snapshot()
	c1, err1 := c05CanonJSON(p, true)
	c2, err2 := c05CanonJSON(p2, true)
	if err1 != nil || err2 != nil {
		rep("bytes", []c05Diff{{"unparsable", fmt.Sprintf("%v %v", err1, err2)}})
	} else if c1 != c2 {
		rep("bytes", []c05Diff{{"remarshal", fmt.Sprintf("marshal(reload(P)) != P: P=%s remarshalled=%s", c1, c2)}})
	}
	rw2, err := rw.fork(p2)
	if err != nil {
		rep("reload", []c05Diff{{"read-state-error-2", fmt.Sprintf("ReadState failed on the second generation: %v", err)}})
	} else {
		p3 := rw2.snapshot()
		var c2x, c3x string
		if !bytes.Equal(p2, p3) {
			c2x, _ = c05CanonJSON(p2, false)
			c3x, _ = c05CanonJSON(p3, false)
		}
		if c2x != c3x {
			rep("bytes", []c05Diff{{"not-idempotent", fmt.Sprintf("second generation differs: %s vs %s", c2x, c3x)}})
		}
	}
	// (c) id freshness on a fresh reload
	fw := rw // all comparisons on rw are done; the allocating operations may modify it now
	{
		c05Clock = fw.now()
		fst := fw.st
		fst.Lock()
		c := fst.NewChange("fresh", "fresh")
		t := fst.NewTask("fresh", "fresh")
		l := fst.NewLane()
		nid, _ := fst.AddNotice(nil, WarningNotice, "fresh-key", nil)
		var cnid string
		for _, n := range fst.notices {
			if n.noticeType == ChangeUpdateNotice && n.key == c.ID() {
				cnid = n.id
			}
		}
		fst.unlock()
		var bad []c05Diff
		if w.idChg[c.ID()] {
			bad = append(bad, c05Diff{"change-id", fmt.Sprintf("NewChange after reload returned id %s which was handed out before (all: %v)", c.ID(), c05Keys(w.idChg))})
		}
		if w.idTsk[t.ID()] {
			bad = append(bad, c05Diff{"task-id", fmt.Sprintf("NewTask after reload returned id %s which was handed out before (all: %v)", t.ID(), c05Keys(w.idTsk))})
		}
		if w.idLane[l] {
			bad = append(bad, c05Diff{"lane-id", fmt.Sprintf("NewLane after reload returned %d which was handed out before", l)})
		}
		if w.idNtc[nid] || nid == "" {
			bad = append(bad, c05Diff{"notice-id", fmt.Sprintf("AddNotice after reload returned id %q which was handed out before (all: %v)", nid, c05Keys(w.idNtc))})
		}
		if w.idNtc[cnid] || cnid == "" || cnid == nid {
			bad = append(bad, c05Diff{"notice-id", fmt.Sprintf("the change-update notice of a change created after reload got id %q which was handed out before (all: %v)", cnid, c05Keys(w.idNtc))})
		}
		rep("freshness", bad)
		// non-trivial: an object carrying the highest id of its class no longer exists in the reloaded state
		w.st.Lock()
		gone := len(w.idChg) > 0 && w.st.changes[strconv.Itoa(len(w.idChg))] == nil || len(w.idTsk) > 0 && w.st.tasks[strconv.Itoa(len(w.idTsk))] == nil
		w.st.unlock()
		if gone {
			r.Add("fresh_after_highest_id_removed", 1)
		}
	}
	if verbose {
		fmt.Printf("payload: %s\n", p)
		for _, l := range dump {
			fmt.Println("  S:", l)
		}
	}
}

// violation key: oracle + field class; the JSON-null data entry divergence has one key whatever oracle sees it
func c05VKey(oracle, field string) string {
	if field == c05NullEntry {
		return field
	}
	return oracle + ":" + field
}

func c05Keys(m map[string]bool) []string {
	var l []string
	for k := range m {
		l = append(l, k)
	}
	sort.Strings(l)
	return l
}

// step checks oracle (d) for one operation: op applied to the state of w (result w2, built by the caller on the real
// lineage) and op applied to the reload of w's payload p must agree.
func (x *c05Explorer) step(w *c05World, p []byte, path []c05Op, op c05Op, ret1 string, dump2 []string) {
	rw, err := w.fork(p)
	if err != nil {
		return // reported by checkState
	}
	// the operation must be enabled on the reload too
	if !c05OpEnabled(rw.enabled(), op) {
		o := op
		x.report(c05Case{Root: x.root, Path: path, Next: &o, Oracle: "one-step", Msg: fmt.Sprintf("operation %v is enabled on the state but not on its reload", op)}, "one-step:enabledness")
		return
	}
	ret2 := rw.apply(op)
	rd := rw.fieldDump()
	if op.K == "prune" {
		// Prune visits the changes in map order; when it aborts several changes their change-update notices get
		// timestamps 1ns apart in that order. Notice times are compared to the microsecond for this operation.
		dump2, rd = c05CoarseNoticeTimes(dump2), c05CoarseNoticeTimes(rd)
	}
	diffs := c05DiffDumps(dump2, rd)
	if ret1 != ret2 {
		diffs = append(diffs, c05Diff{"returned-id", fmt.Sprintf("operation returned %q on the state and %q on its reload", ret1, ret2)})
	}
	for _, d := range diffs {
		o := op
		x.report(c05Case{Root: x.root, Path: path, Next: &o, Oracle: "one-step", Msg: fmt.Sprintf("after %v: %s", op, d.Msg)}, c05VKey("one-step", d.Field))
	}
}

func (x *c05Explorer) features(w *c05World) string {
	st := w.st
	st.Lock()
	defer st.unlock()
	var f []string
	flag := func(b bool, s string) {
		if b {
			f = append(f, s)
		}
	}
	flag(len(st.changes) > 0, "chg")
	flag(len(st.tasks) > 0, "task")
	flag(len(st.notices) > len(st.changes), "ntc")
	flag(len(st.warnings) > 0, "warn")
	flag(len(st.data) > 0, "data")
	flag(st.lastChangeId > len(st.changes) || st.lastTaskId > len(st.tasks), "pruned")
	flag(w.reloads > 0, "reloaded")
	edge, lane, wait, ready := false, false, false, false
	for _, t := range st.tasks {
		edge = edge || len(t.waitTasks) > 0
		lane = lane || len(t.lanes) > 0
		wait = wait || t.status == WaitStatus
	}
	for _, c := range st.changes {
		ready = ready || !c.readyTime.IsZero()
	}
	flag(edge, "edge")
	flag(lane, "lane")
	flag(wait, "wait")
	flag(ready, "ready")
	return strings.Join(f, "+")
}

// bfs explores to the given depth below the root; item counter/mine select the first-level successors of this shard.
func (x *c05Explorer) bfs(depth int, item *int) {
	r := x.r
	seen := map[[16]byte]struct{}{}
	type node struct{ path []c05Op }
	w0 := x.build(nil)
	d0 := w0.fieldDump()
	seen[w0.key(d0)] = struct{}{}
	mineRoot := r.Mine(*item)
	*item++
	if mineRoot {
		x.checkState(w0, nil, d0, false)
		r.Add("states", 1)
		r.Distinct("features", x.features(w0))
	}
	frontier := []node{{nil}}
	for lvl := 0; lvl < depth && len(frontier) > 0; lvl++ {
		var next []node
		for _, nd := range frontier {
			if r.TimeUp() {
				r.Cap("time", fmt.Sprintf("pass %d root %d: stopped in level %d of %d", x.pass, x.root, lvl+1, depth))
				return
			}
			w := x.build(nd.path)
			ops := w.enabled()
			p := w.snapshot()
			for _, op := range ops {
				if lvl == 0 {
					mine := r.Mine(*item)
					*item++
					if !mine {
						continue
					}
				}
				np := append(append(make([]c05Op, 0, len(nd.path)+1), nd.path...), op)
				c05Current = c05Case{Root: x.root, Path: np}
				w2 := x.build(nd.path)
				ret := w2.apply(op)
				dump2 := w2.fieldDump()
				r.Add("transitions", 1)
				r.Add(fmt.Sprintf("transitions_root%d", x.root), 1)
				r.Distinct("op", op.K)
				x.step(w, p, nd.path, op, ret, dump2)
				k := w2.key(dump2)
				if _, ok := seen[k]; ok {
					continue
				}
				seen[k] = struct{}{}
				r.Add("states", 1)
				x.checkState(w2, np, dump2, false)
				feat := x.features(w2)
				r.Distinct("features", feat)
				if feat != "" {
					r.Add("distinct_nontrivial", 1)
				}
				if strings.Contains(feat, "pruned") {
					r.Add("states_with_counters_ahead_of_objects", 1)
				}
				if r.WantSample() && lvl == depth-1 && len(dump2) > 30 {
					r.Sample(map[string]interface{}{"root": x.root, "path": fmt.Sprint(np), "fields": len(dump2), "payload": string(w2.snapshot())})
				}
				if lvl+1 < depth {
					next = append(next, node{np})
				}
			}
		}
		frontier = next
	}
}

func TestVerifC05(t *testing.T) {
	r := eng.Start("C05", "model_checking", 400*time.Second, 15*time.Minute)
	r.Assume("operations respect the usage preconditions P1-P6 listed at c05World.enabled (statuses change only on linked tasks; a change marked ready is not made unready; Change.SetStatus only on task-less changes; acyclic same-change wait edges; no Prune while an edge touches an unlinked task; aborting Prune only when no unready change holds a Done task; no Undo task with a pending task waiting for it)",
		"expired notices/warnings (created 8/29 days in the past) are outside the statement and not compared; each is created at most once per path",
		"documented exception: IsReady() of a task-less change whose status was never set is not compared",
		"waited-status is compared after the documented default 0 -> Done applied on load",
		"the mocked state clock runs 6h..4h behind the real clock (anchor re-taken for every replay), so comparisons with time.Now() inside snapd have margins of hours",
		"states are merged on the dump of all persisted fields + ready-channel flags + clock offset; cross-shard duplicates are explored once per shard")
	timeNow = func() time.Time { return c05Clock }
	defer func() { timeNow = time.Now }()
	// the exploration is single-threaded per process (process-global mocked clock) and allocates short-lived garbage only
	debug.SetGCPercent(400)
	if os.Getenv("VERIF_SHARD") != "" {
		runtime.GOMAXPROCS(2)
	}
	defer func() {
		if e := recover(); e != nil {
			cur := eng.JSON(c05Current)
			r.NoteCurrent(cur)
			fmt.Printf("PANIC while executing %s: %v\n", cur, e)
			panic(e)
		}
	}()

	quick := &c05Bounds{MaxChg: 2, MaxTsk: 2, MaxLanes: 2, MaxAdv: 1, AllTargets: false}
	thorough := &c05Bounds{MaxChg: 2, MaxTsk: 3, MaxLanes: 2, MaxAdv: 2, AllTargets: true}
	b := quick
	if r.Thorough() {
		b = thorough
	}

	if rc := r.ReplayCase(); rc != nil {
		var c c05Case
		if err := json.Unmarshal(rc, &c); err != nil {
			eng.HarnessError("%v", err)
		}
		if c.Root < 0 || c.Root >= len(c05Roots) {
			eng.HarnessError("no root %d", c.Root)
		}
		// thorough bounds are a superset of the quick ones: a stored path replays under them
		x := &c05Explorer{r: r, b: thorough, root: c.Root}
		x.report = func(cc c05Case, class string) {
			fmt.Printf("   PROBLEM [%s] %s\n", class, cc.Msg)
			r.Violation(class, cc.Msg, cc)
		}
		fmt.Printf("replay root %d %v + path %v\n", c.Root, c05Roots[c.Root], c.Path)
		w := x.build(c.Path)
		dump := w.fieldDump()
		x.checkState(w, c.Path, dump, true)
		if c.Next != nil {
			w2 := x.build(c.Path)
			ret := w2.apply(*c.Next)
			fmt.Printf("one step: %v returned %q\n", *c.Next, ret)
			x.step(w, w.snapshot(), c.Path, *c.Next, ret, w2.fieldDump())
		}
		r.Finish("replay")
	}

	// depth below each root: the empty root deepest; roots 1, 2 and 5 (unready change, 55-65 enabled operations) one level less
	// than the other structural roots in the quick tier. Passes of growing depth (quick: 2, thorough: 4, with its larger
	// object bounds), so that a run stopped by the time cap has completed the shallower passes; a root whose depth does not
	// grow in a pass is not repeated.
	passes := [][]int{{3, 2, 2, 3, 3, 2, 2, 3}, {4, 2, 2, 3, 3, 2, 3, 3}}
	if r.Thorough() {
		passes = append(passes, []int{4, 3, 3, 3, 3, 3, 3, 3}, []int{5, 4, 4, 4, 4, 4, 4, 4})
	}
	depths := passes[len(passes)-1]
	r.Info("bounds", map[string]interface{}{"depth_below_each_root": depths, "passes": passes, "roots": len(c05Roots),
		"max_changes": b.MaxChg, "max_tasks": b.MaxTsk, "max_lanes": b.MaxLanes, "max_clock_advances": b.MaxAdv, "data_ops_on_all_objects": b.AllTargets,
		"data_values": 5, "task_statuses": len(c05TaskStatuses), "waited_statuses": len(c05WaitedStatuses), "notice_ops": 7, "warning_ops": 4, "prune_variants": 2})
	if r.Sharded(16) {
		r.Add("evaluations", r.Count("transitions")+r.Count("states"))
		r.Finish(c05Rule)
	}
	for pi, pd := range passes {
		item := 0
		for root := range c05Roots {
			if pi > 0 && passes[pi-1][root] == pd[root] {
				continue
			}
			x := &c05Explorer{r: r, b: b, root: root}
			x.report = func(c c05Case, class string) {
				r.Violation(class, fmt.Sprintf("%s [root %d path %v next %v]", c.Msg, c.Root, c.Path, c.Next), c)
			}
			r.NoteCurrent(fmt.Sprintf("pass %d root %d", pi, root))
			x.pass = pi
			x.bfs(pd[root], &item)
		}
		if !r.TimeUp() {
			r.Add(fmt.Sprintf("shards_completed_pass_%d", pi), 1)
		}
	}
	r.Add("traces_validated_against_impl", r.Count("transitions"))
	if _, n := r.ShardIndex(); n <= 1 {
		r.Add("evaluations", r.Count("transitions")+r.Count("states"))
	}
	r.Finish(c05Rule)
}

const c05Rule = "breadth-first over every sequence of enabled operations (alphabet: new change/task/lane, add task, wait edge, join lane, set/unset data on state/change/task from a 5-value menu incl. JSON null, every task status, SetToWait, SetClean, change status, At, Logf/Errorf/11 log lines, SetProgress x3, doing/undoing time, 7 notice and 4 warning variants, RemoveWarning, OkayWarnings, 2 Prune variants, clock advance, save+reload) up to the depth bound below each root prefix, states merged on a dump of all persisted fields; every distinct state is reloaded and compared (fields, accessors, bytes, id freshness) and every transition is also executed on the reload of its source state (one-step agreement); a state is non-trivial when it holds at least one change, task, notice, warning or data entry"
