package state

import (
	"fmt"
	"sort"
	"strings"
	"testing"
	"time"

	eng "github.com/snapcore/snapd/verifengine"
)

// ---------------------------------------------------------------------------------------------
// C01: abort reference (DESIGN.md Appendix A) evaluated at the first failure of every execution
// ---------------------------------------------------------------------------------------------

type abortSnap struct {
	eff   []Status // effective statuses before the failing completion
	valid bool
}

type c01Obs struct {
	orderObs
	snap       abortSnap
	failedOnce bool // some task already reached Error (or a user abort happened) on this world
	sandwiches int
	exemptions int // aborts in which at least one lane task was exempted
}

func effStatus(t *Task) Status {
	s := t.Status()
	if s == WaitStatus {
		s = t.WaitedStatus()
	}
	return s
}

func isLive(s Status) bool { return s == DoStatus || s == DoingStatus || s == DoneStatus }

func lanesOf(w *world, i int) []int {
	l := w.cfg.Lanes[i]
	if len(l) == 0 {
		return []int{0}
	}
	return l
}

func intersects(a []int, set map[int]bool) bool {
	for _, x := range a {
		if set[x] {
			return true
		}
	}
	return false
}

// abortFix computes the least fixpoint of the documented abort rule (Appendix A) for failing task f.
func abortFix(w *world, eff []Status, f int, witness bool) map[int]bool {
	n := w.cfg.N
	A := map[int]bool{}
	for _, l := range lanesOf(w, f) {
		A[l] = true
	}
	S := map[int]bool{}
	halt := make([][]int, n)
	for _, e := range w.cfg.Edges {
		halt[e[0]] = append(halt[e[0]], e[1])
	}
	healthy := func(L int) bool {
		if A[L] {
			return false
		}
		for u := 0; u < n; u++ {
			in := false
			for _, l := range lanesOf(w, u) {
				if l == L {
					in = true
				}
			}
			if in && (!isLive(eff[u]) || S[u]) {
				return false
			}
		}
		return true
	}
	exempt := func(t int) bool {
		for _, L := range lanesOf(w, t) {
			if !healthy(L) {
				continue
			}
			if !witness {
				return true
			}
			for u := 0; u < n; u++ {
				if u == t {
					continue
				}
				in := false
				for _, l := range lanesOf(w, u) {
					if l == L {
						in = true
					}
				}
				if in && !intersects(lanesOf(w, u), A) {
					return true
				}
			}
		}
		return false
	}
	for changed := true; changed; {
		changed = false
		for t := 0; t < n; t++ {
			if !S[t] && intersects(lanesOf(w, t), A) && !exempt(t) {
				S[t] = true
				changed = true
			}
		}
		for t := 0; t < n; t++ {
			if S[t] {
				for _, h := range halt[t] {
					if !S[h] {
						S[h] = true
						changed = true
					}
				}
				for _, l := range lanesOf(w, t) {
					if !A[l] {
						A[l] = true
						changed = true
					}
				}
			}
		}
	}
	return S
}

func setStr(m map[int]bool) string {
	var xs []int
	for k, v := range m {
		if v {
			xs = append(xs, k)
		}
	}
	sort.Ints(xs)
	return fmt.Sprint(xs)
}

func (o *c01Obs) preComplete(w *world, i int, phase string) {
	o.snap.valid = false
	if o.failedOnce {
		return
	}
	w.st.Lock()
	o.snap.eff = make([]Status, len(w.tasks))
	for k, t := range w.tasks {
		o.snap.eff[k] = effStatus(t)
	}
	w.st.Unlock()
	o.snap.valid = true
}

func (o *c01Obs) postComplete(w *world, f int, phase string) {
	w.st.Lock()
	defer w.st.Unlock()
	if w.tasks[f].Status() != ErrorStatus {
		return
	}
	first := !o.failedOnce
	o.failedOnce = true
	if !first || !o.snap.valid {
		return
	}
	before := o.snap.eff
	for k, s := range before {
		if !isLive(s) {
			return // not an "all tasks live" first failure (cannot happen without user aborts)
		}
		_ = k
	}
	o.sandwiches++
	smin := abortFix(w, before, f, false)
	smax := abortFix(w, before, f, true)
	simpl := map[int]bool{f: true}
	for k, t := range w.tasks {
		if k == f {
			continue
		}
		after := t.Status()
		raw := after
		if raw == WaitStatus {
			raw = t.WaitedStatus()
		}
		if raw != before[k] {
			simpl[k] = true
			var want Status
			switch before[k] {
			case DoStatus:
				want = HoldStatus
			case DoingStatus:
				want = AbortStatus
			case DoneStatus:
				want = UndoStatus
			}
			if after != want {
				w.problem("abort-transition: t%d was %s when t%d failed and became %s, expected %s", k, before[k], f, after, want)
			}
		}
	}
	if len(smin) < len(smax) {
		o.exemptions++
	}
	for k := range smin {
		if !simpl[k] {
			w.problem("abort-missing: t%d failed; t%d (was %s) must be aborted by the documented rule (required set %s, aborted %s, allowed %s)", f, k, before[k], setStr(smin), setStr(simpl), setStr(smax))
		}
	}
	for k := range simpl {
		if !smax[k] {
			w.problem("abort-excess: t%d failed; t%d (was %s) is in an independent healthy lane and must be left alone (required set %s, aborted %s, allowed %s)", f, k, before[k], setStr(smin), setStr(simpl), setStr(smax))
		}
	}
}

// closure of the failing tasks under "shares a lane" and "waits on (directly or transitively)": everything outside must end Done.
func touchable(w *world, fails []int) map[int]bool {
	n := w.cfg.N
	C := map[int]bool{}
	for _, f := range fails {
		C[f] = true
	}
	for changed := true; changed; {
		changed = false
		for t := 0; t < n; t++ {
			if C[t] {
				continue
			}
			add := false
			for c := range C {
				for _, a := range lanesOf(w, t) {
					for _, b := range lanesOf(w, c) {
						if a == b {
							add = true
						}
					}
				}
				for _, e := range w.cfg.Edges {
					if e[0] == c && e[1] == t {
						add = true
					}
				}
			}
			if add {
				C[t] = true
				changed = true
			}
		}
	}
	return C
}

func c01Terminal(w *world, path []erEvent, report func(msg string)) {
	w.st.Lock()
	defer w.st.Unlock()
	var fails []int
	anyError := false
	for i, t := range w.tasks {
		s := t.Status()
		if !s.Ready() {
			report(fmt.Sprintf("settle: terminal state reached (nothing running, Ensure is a no-op) with t%d still %s", i, s))
		}
		if s == ErrorStatus {
			anyError = true
		}
		if w.cfg.Scripts[i] == sFailDo || w.cfg.Scripts[i] == sFailUndo {
			fails = append(fails, i)
		}
	}
	if !w.chg.IsReady() || !w.chg.Status().Ready() {
		report(fmt.Sprintf("settle: terminal state with change not ready (status %s)", w.chg.Status()))
	}
	if anyError && w.chg.Status() != ErrorStatus {
		report(fmt.Sprintf("settle: a task failed but the change settled as %s", w.chg.Status()))
	}
	if !anyError {
		return
	}
	C := touchable(w, fails)
	for i, t := range w.tasks {
		if !C[i] && t.Status() != DoneStatus {
			report(fmt.Sprintf("independent: t%d shares no lane with and does not wait on any failing task but ended %s", i, t.Status()))
		}
	}
	// a task that waited on something that was rolled back must not stay Done (unless it cannot be undone)
	for _, e := range w.cfg.Edges {
		p, t := w.tasks[e[0]], w.tasks[e[1]]
		ps := p.Status()
		if (ps == UndoneStatus || ps == HoldStatus || ps == ErrorStatus) && t.Status() == DoneStatus && w.cfg.Scripts[e[1]] != sNoUndo {
			report(fmt.Sprintf("reverse-order: t%d ended Done although t%d which it waited for ended %s", e[1], e[0], ps))
		}
	}
	// every do-handler that ran to success and whose task was then rolled back ran its undo handler exactly once
}

func TestVerifC01(t *testing.T) {
	r := eng.Start("C01", "model_checking", 300*time.Second, 15*time.Minute)
	r.Assume("handlers are gated stubs scripted per (task, phase, retries used); they never touch the state themselves",
		"Ensure is treated as always enabled; the visiting order of an Ensure pass is owned through hook H2",
		"abort reference: DESIGN.md Appendix A (sandwich S_min <= S_impl <= S_max at the first failure)")
	var cfgs []*erConfig
	if r.Quick() {
		cfgs = enumConfigs([]int{1, 2, 3}, scriptSpace{failDo: 1, failUndo: 1, requireFail: true, specials: []script{sNoUndo, sRetryOnce, sWaitDone}, maxSpecial: 1}, true, []int{0, 1, 2})
	} else {
		cfgs = enumConfigs([]int{1, 2, 3}, scriptSpace{failDo: 2, failUndo: 1, requireFail: true, specials: []script{sNoUndo, sRetryOnce, sWaitDone}, maxSpecial: 2}, true, []int{0, 1, 2})
		cfgs = append(cfgs, enumConfigs([]int{4}, scriptSpace{failDo: 1, failUndo: 1, requireFail: true, specials: []script{sNoUndo, sWaitDone}, maxSpecial: 1}, true, []int{0, 2})...)
	}
	// the order in which tasks were added to the change is what abortLanes/abortTasks iterate over; it is independent
	// of the dependency order: a family with every non-identity add-order (n = 3, one failing task, lanes)
	{
		base := enumConfigs([]int{3}, scriptSpace{failDo: 1, failUndo: 0, requireFail: true, specials: []script{sNoUndo}, maxSpecial: r.Pick(0, 1)}, true, []int{0})
		idx := []int{0, 1, 2}
		var fam []*erConfig
		for _, c := range base {
			for _, p := range permutations(idx) {
				if p[0] == 0 && p[1] == 1 && p[2] == 2 {
					continue
				}
				c2 := *c
				c2.Order = p
				fam = append(fam, &c2)
			}
		}
		cfgs = append(fam, cfgs...)
	}
	r.Info("bounds", map[string]interface{}{"configurations": len(cfgs)})
	var obsList []*c01Obs
	spec := &erRunSpec{prop: "C01", configs: cfgs, al: alphabet{resolve: true},
		newObs: func() observer { o := &c01Obs{}; obsList = append(obsList, o); return o },
		hooks: func(x *explorer, r *eng.Run, cfg *erConfig) {
			obsList = obsList[:0]
			x.onTerminal = func(w *world, path []erEvent) {
				c01Terminal(w, path, func(msg string) { x.onProblem(path, msg) })
				w.st.Lock()
				var sb strings.Builder
				for _, t := range w.tasks {
					sb.WriteString(t.Status().String()[:2])
				}
				w.st.Unlock()
				r.Distinct("task_outcome_vector", sb.String())
			}
		},
		nontrivial: func(x *explorer, cfg *erConfig) bool {
			// non-trivial: a failure with at least one other task that had to be undone/held/aborted in some execution
			n := 0
			for _, o := range obsList {
				n += o.sandwiches
			}
			r.Add("abort_reference_comparisons", int64(n))
			return cfg.N >= 2
		},
		rule: "every configuration (DAG on n ordered tasks x lane map over {none,{1},{2},{1,2}} up to lane symmetry x scripts with >=1 fail-do, <=1 fail-undo, <=1 special task x abort response) x every schedule over {Ensure(order), Complete(t), ResolveWait(t)} with state dedup; oracles: start-order at every Undo->Undoing, sandwich comparison with the declarative abort reference at the first failure of every explored execution, terminal invariants; non-trivial = configurations with >= 2 tasks"}
	runErun(t, r, spec)
}

// ---------------------------------------------------------------------------------------------
// C03: every change settles; status is the documented aggregate; readiness is monotone
// ---------------------------------------------------------------------------------------------

// documented priority (doc comment of Change.Status + statusOrder): the change reports the first of these that any task has
var c03Order = []Status{AbortStatus, UndoingStatus, UndoStatus, DoingStatus, DoStatus, WaitStatus, ErrorStatus, UndoneStatus, DoneStatus, HoldStatus}

type c03Obs struct {
	wasReady  bool
	readyTime time.Time
	prevOcc   int // occurrences of the change-update notice seen after the previous step
}

func (o *c03Obs) taskStatus(w *world, i int, old, new Status) {}
func (o *c03Obs) handlerStart(w *world, i int, phase string, status Status) {}
func (o *c03Obs) changeStatus(w *world, old, new Status) {
	if old.Ready() && old != DefaultStatus && !new.Ready() {
		// Hold is what a task-less change reports; our changes always have tasks
		w.problem("monotone: change status callback reported %s -> %s (ready to unready)", old, new)
	}
}

// runnable by the runner's own rule: a Do task all of whose wait tasks are Done, an Undo task all of whose halt tasks are ready
func c03Runnable(t *Task) bool {
	switch t.Status() {
	case DoStatus:
		for _, wt := range t.WaitTasks() {
			if wt.Status() != DoneStatus {
				return false
			}
		}
		return true
	case UndoStatus:
		for _, ht := range t.HaltTasks() {
			if !ht.Status().Ready() {
				return false
			}
		}
		return true
	case DoingStatus, UndoingStatus, AbortStatus:
		return true
	}
	return false
}

// c03RefWaiting: reference for "all pending tasks are blocked by other tasks in Wait" (must be called with the state
// lock held). A pending (Do/Undo) task is blocked-behind-waits iff none of the tasks it depends on (wait tasks for
// Do, halt tasks for Undo) is active, at least one of them is waiting or itself pending-and-blocked-behind-waits,
// and every pending one of them is blocked-behind-waits. Any active task (Doing/Undoing/Abort) means not waiting.
func c03RefWaiting(w *world) bool {
	memo := map[string]bool{}
	var blockedBehindWait func(t *Task) bool
	blockedBehindWait = func(t *Task) bool {
		if v, ok := memo[t.ID()]; ok {
			return v
		}
		var deps []*Task
		switch t.Status() {
		case DoStatus:
			deps = t.WaitTasks()
		case UndoStatus:
			deps = t.HaltTasks()
		}
		blocked, ok := false, true
		for _, d := range deps {
			switch d.Status() {
			case WaitStatus:
				blocked = true
			case DoneStatus, UndoneStatus, ErrorStatus, HoldStatus:
				// finished: does not block
			case DoStatus, UndoStatus:
				if blockedBehindWait(d) {
					blocked = true
				} else {
					ok = false
				}
			default:
				ok = false
			}
		}
		memo[t.ID()] = ok && blocked
		return ok && blocked
	}
	for _, t := range w.tasks {
		switch t.Status() {
		case DoingStatus, UndoingStatus, AbortStatus:
			return false
		case DoStatus, UndoStatus:
			if !blockedBehindWait(t) {
				return false
			}
		}
	}
	return true
}

func (o *c03Obs) afterStep(w *world) { o.checkState(w) }

func (o *c03Obs) checkState(w *world) {
	w.st.Lock()
	defer w.st.Unlock()
	cs := w.chg.Status()
	allReady, allDone := true, true
	var errTasks []int
	has := map[Status]bool{}
	anyRunnable := false
	for i, t := range w.tasks {
		s := t.Status()
		has[s] = true
		if !s.Ready() {
			allReady = false
		}
		if s != DoneStatus {
			allDone = false
		}
		if s == ErrorStatus {
			errTasks = append(errTasks, i)
		}
		if c03Runnable(t) {
			anyRunnable = true
		}
	}
	if cs.Ready() != allReady {
		w.problem("aggregate: change status %s (ready=%v) but all-tasks-ready=%v", cs, cs.Ready(), allReady)
	}
	if allDone && cs != DoneStatus {
		w.problem("aggregate: all tasks Done but change is %s", cs)
	}
	if allReady && len(errTasks) > 0 && cs != ErrorStatus {
		w.problem("aggregate: all tasks ready, t%v in Error, but change is %s", errTasks, cs)
	}
	// documented aggregate: "with all pending tasks blocked by other tasks in WaitStatus, return WaitStatus";
	// otherwise the first status of the documented priority order that any task has
	refWaiting := has[WaitStatus] && c03RefWaiting(w)
	var want Status
	if refWaiting {
		want = WaitStatus
	} else {
		for _, s := range c03Order {
			if has[s] {
				want = s
				break
			}
		}
	}
	if cs != want {
		if cs == WaitStatus && anyRunnable {
			w.problem("aggregate: change reports Wait although a task is runnable")
		} else if want == WaitStatus {
			w.problem("aggregate: every pending task is blocked behind a waiting task but the change reports %s, expected Wait", cs)
		} else {
			w.problem("aggregate: change is %s but the documented aggregate gives %s", cs, want)
		}
	}
	// error report
	if cs == ErrorStatus {
		err := w.chg.Err()
		if err == nil {
			w.problem("err: change in Error but Err() is nil")
		} else {
			msg := err.Error()
			for i := range w.tasks {
				isErr := false
				for _, e := range errTasks {
					if e == i {
						isErr = true
					}
				}
				mentioned := strings.Contains(msg, fmt.Sprintf("- task %d (", i))
				if isErr && !mentioned {
					w.problem("err: t%d failed but Err() does not name it: %q", i, msg)
				}
				if !isErr && mentioned {
					w.problem("err: t%d did not fail but Err() names it: %q", i, msg)
				}
				if isErr {
					want := ""
					switch {
					case w.cfg.Scripts[i] == sFailDo:
						want = fmt.Sprintf("boom-%d", i)
					case w.cfg.Scripts[i] == sFailUndo || w.cfg.Scripts[i] == sLogErrFailUndo:
						want = fmt.Sprintf("undo-boom-%d", i)
					}
					alt := fmt.Sprintf("aborted-%d", i)
					if !(want != "" && strings.Contains(msg, fmt.Sprintf("- task %d (%s)", i, want))) && !strings.Contains(msg, fmt.Sprintf("- task %d (%s)", i, alt)) {
						w.problem("err: Err() does not carry the error t%d failed with: %q", i, msg)
					}
				}
			}
		}
	} else if w.chg.Err() != nil {
		w.problem("err: change is %s but Err() = %v", cs, w.chg.Err())
	}
	// monotone readiness
	isReady := w.chg.IsReady()
	if o.wasReady {
		if !isReady || !cs.Ready() {
			w.problem("monotone: change was reported ready and is now %s (IsReady=%v)", cs, isReady)
		}
		if !w.chg.ReadyTime().Equal(o.readyTime) {
			w.problem("monotone: ready time changed after the change became ready")
		}
	}
	if isReady != cs.Ready() {
		w.problem("monotone: IsReady()=%v but Status()=%s", isReady, cs)
	}
	if isReady && !o.wasReady {
		o.wasReady = true
		o.readyTime = w.chg.ReadyTime()
		if o.readyTime.IsZero() {
			w.problem("monotone: change ready but ready time unset")
		}
		// ready notification: the change-update notice of this change occurred (again) in this very step
		if o.noticeOccurrences(w) <= o.prevOcc {
			w.problem("notify: change became ready without a new occurrence of its change-update notice")
		}
	}
	o.prevOcc = o.noticeOccurrences(w)
}

func (o *c03Obs) noticeOccurrences(w *world) int {
	n := 0
	for _, nt := range w.st.Notices(&NoticeFilter{Types: []NoticeType{ChangeUpdateNotice}, Keys: []string{w.chg.ID()}}) {
		n += nt.occurrences
	}
	return n
}

func TestVerifC03(t *testing.T) {
	r := eng.Start("C03", "model_checking", 300*time.Second, 15*time.Minute)
	r.Assume("handlers are gated stubs that eventually return when released; they never touch the state themselves",
		"Ensure is treated as always enabled (periodic ensure loop); user aborts only on unready changes (as daemon/api_general.go:abortChange)",
		"aggregate reference: the documented priority order of Change.Status with the Wait rule")
	var cfgs []*erConfig
	if r.Quick() {
		cfgs = enumConfigs([]int{1, 2, 3}, scriptSpace{failDo: 1, failUndo: 1, specials: []script{sNoUndo, sRetryOnce, sWaitDone}, maxSpecial: 1}, false, []int{0, 1, 2})
		cfgs = append(cfgs, enumConfigs([]int{3}, scriptSpace{failDo: 1, failUndo: 0, requireFail: true, specials: []script{sNoUndo, sWaitDone}, maxSpecial: 1}, true, []int{0})...)
	} else {
		cfgs = enumConfigs([]int{1, 2, 3}, scriptSpace{failDo: 2, failUndo: 1, specials: []script{sNoUndo, sRetryOnce, sWaitDone}, maxSpecial: 2}, false, []int{0, 1, 2})
		cfgs = append(cfgs, enumConfigs([]int{3}, scriptSpace{failDo: 1, failUndo: 1, requireFail: true, specials: []script{sNoUndo, sWaitDone}, maxSpecial: 1}, true, []int{0, 1})...)
		cfgs = append(cfgs, enumConfigs([]int{4}, scriptSpace{failDo: 1, failUndo: 1, specials: []script{sNoUndo, sWaitDone}, maxSpecial: 1}, false, []int{0, 2})...)
	}
	// the order in which tasks were added to the change is independent of the dependency order and matters to
	// Change.Abort (it walks the task list): a family with every non-identity add-order
	{
		maxN := r.Pick(3, 3)
		var ns []int
		for n := 2; n <= maxN; n++ {
			ns = append(ns, n)
		}
		base := enumConfigs(ns, scriptSpace{failDo: 1, failUndo: 0, specials: []script{sNoUndo, sWaitDone}, maxSpecial: r.Pick(0, 1)}, false, []int{0})
		for _, c := range base {
			idx := make([]int, c.N)
			for i := range idx {
				idx[i] = i
			}
			for _, p := range permutations(idx) {
				ident := true
				for i, v := range p {
					if i != v {
						ident = false
					}
				}
				if ident {
					continue
				}
				c2 := *c
				c2.Order = p
				cfgs = append([]*erConfig{&c2}, cfgs...) // explored first
			}
		}
	}
	// waits in the undo direction (an undo that needs a reboot): chains of pending Undo tasks behind a waiting one
	// need 4 tasks (three being undone + the failing one); a family of its own, explored first
	{
		sp := scriptSpace{failDo: 1, failUndo: 0, requireFail: true, specials: []script{sUndoWait}, maxSpecial: r.Pick(1, 2)}
		fam := enumConfigs([]int{3, 4}, sp, false, []int{0})
		// a task whose log already holds an ERROR line (a failure its do handler ignored) and whose undo then fails
		// with a different error: Err() must report the error the task failed with
		fam = append(fam, enumConfigs([]int{2, 3}, scriptSpace{failDo: 1, requireFail: true, specials: []script{sLogErrFailUndo}, maxSpecial: 1}, false, []int{0})...)
		var keep []*erConfig
		for _, c := range fam {
			hasUW := false
			for _, s := range c.Scripts {
				if s == sUndoWait || s == sLogErrFailUndo {
					hasUW = true
				}
			}
			if hasUW {
				keep = append(keep, c)
			}
		}
		cfgs = append(keep, cfgs...)
	}
	r.Info("bounds", map[string]interface{}{"configurations": len(cfgs), "max_user_aborts": r.Pick(1, 2)})
	spec := &erRunSpec{prop: "C03", configs: cfgs, al: alphabet{resolve: true, abort: r.Pick(1, 2)},
		newObs: func() observer { return &c03Obs{} },
		hooks: func(x *explorer, r *eng.Run, cfg *erConfig) {
			x.onTerminal = func(w *world, path []erEvent) {
				w.st.Lock()
				ready := w.chg.IsReady() && w.chg.Status().Ready()
				cs := w.chg.Status()
				w.st.Unlock()
				if !ready {
					x.onProblem(path, fmt.Sprintf("settle: terminal state (nothing running, every Ensure order is a no-op, nothing to resolve) with change %s", cs))
				}
				r.Distinct("final_change_status", cs.String())
			}
		},
		nontrivial: func(x *explorer, cfg *erConfig) bool { return cfg.N >= 2 },
		rule: "every configuration (DAG x scripts with <=1 fail-do, <=1 fail-undo, <=1 special x abort response; plus a lane family) x every schedule over {Ensure(order), Complete(t), ResolveWait(t), UserAbort (bounded, only while unready)} with state dedup; the aggregate/Err/monotonicity oracle is evaluated after every transition (replayed prefixes re-evaluate it from the start, so monotonicity is tracked along every path); non-trivial = configurations with >= 2 tasks"}
	runErun(t, r, spec)
}
