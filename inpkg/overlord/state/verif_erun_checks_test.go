package state

import (
	"encoding/json"
	"fmt"
	"sort"
	"strings"
	"testing"
	"time"

	eng "github.com/snapcore/snapd/verifengine"
)

// ---- configuration enumeration ----

var laneChoices = [][]int{nil, {1}, {2}, {1, 2}}

func allGraphs(n int) [][][2]int {
	var pairs [][2]int
	for i := 0; i < n; i++ {
		for j := i + 1; j < n; j++ {
			pairs = append(pairs, [2]int{i, j})
		}
	}
	var res [][][2]int
	for m := 0; m < 1<<uint(len(pairs)); m++ {
		var es [][2]int
		for b, p := range pairs {
			if m&(1<<uint(b)) != 0 {
				es = append(es, p)
			}
		}
		res = append(res, es)
	}
	return res
}

// transitively redundant edges (i->k with i->j->k) do not change the runner's behaviour for Do (all must be Done) but
// do change halt-task closures, so graphs are not reduced.

func allLaneMaps(n int) [][][]int {
	var res [][][]int
	var rec func(i int, cur [][]int)
	rec = func(i int, cur [][]int) {
		if i == n {
			// symmetry 1<->2: the first task with exactly one lane must use lane 1
			for _, l := range cur {
				if len(l) == 1 {
					if l[0] == 2 {
						return
					}
					break
				}
			}
			res = append(res, append([][]int(nil), cur...))
			return
		}
		for _, l := range laneChoices {
			rec(i+1, append(cur, l))
		}
	}
	rec(0, nil)
	return res
}

func hasConcurrency(n int, edges [][2]int) bool {
	reach := make([][]bool, n)
	for i := range reach {
		reach[i] = make([]bool, n)
	}
	for _, e := range edges {
		reach[e[0]][e[1]] = true
	}
	for k := 0; k < n; k++ {
		for i := 0; i < n; i++ {
			for j := 0; j < n; j++ {
				if reach[i][k] && reach[k][j] {
					reach[i][j] = true
				}
			}
		}
	}
	for i := 0; i < n; i++ {
		for j := i + 1; j < n; j++ {
			if !reach[i][j] && !reach[j][i] {
				return true
			}
		}
	}
	return false
}

type scriptSpace struct {
	failDo     int      // max number of fail-do tasks
	failUndo   int      // max number of fail-undo tasks
	requireFail bool    // at least one fail-do
	specials   []script // kinds for the special task
	maxSpecial int
}

func allScripts(n int, sp scriptSpace) [][]script {
	var res [][]script
	var rec func(i int, cur []script, fd, fu, spc int)
	rec = func(i int, cur []script, fd, fu, spc int) {
		if i == n {
			if sp.requireFail && fd == 0 {
				return
			}
			res = append(res, append([]script(nil), cur...))
			return
		}
		rec(i+1, append(cur, sOK), fd, fu, spc)
		if fd < sp.failDo {
			rec(i+1, append(cur, sFailDo), fd+1, fu, spc)
		}
		if fu < sp.failUndo {
			rec(i+1, append(cur, sFailUndo), fd, fu+1, spc)
		}
		if spc < sp.maxSpecial {
			for _, k := range sp.specials {
				rec(i+1, append(cur, k), fd, fu, spc+1)
			}
		}
	}
	rec(0, nil, 0, 0, 0)
	return res
}

func enumConfigs(ns []int, sp scriptSpace, lanes bool, abortResps []int) []*erConfig {
	var res []*erConfig
	for _, n := range ns {
		lms := [][][]int{make([][]int, n)}
		if lanes {
			lms = allLaneMaps(n)
		}
		for _, g := range allGraphs(n) {
			conc := hasConcurrency(n, g)
			for _, lm := range lms {
				for _, sc := range allScripts(n, sp) {
					for _, ar := range abortResps {
						if ar != 0 && !conc {
							continue
						}
						res = append(res, &erConfig{N: n, Edges: g, Lanes: lm, Scripts: sc, AbortResp: ar})
					}
				}
			}
		}
	}
	return res
}

// ---- observers ----

// orderObs: the C02 oracle (also part of C01): start conditions at every Do->Doing / Undo->Undoing and handler start.
type orderObs struct{}

func (orderObs) taskStatus(w *world, i int, old, new Status) {
	t := w.tasks[i]
	switch {
	case old == DoStatus && new == DoingStatus:
		for _, wt := range t.WaitTasks() {
			if wt.Status() != DoneStatus {
				w.problem("order: t%d started (Do->Doing) while t%d which it waits for is %s", i, w.idx[wt.ID()], wt.Status())
			}
		}
		if at := t.AtTime(); !at.IsZero() && w.now.Before(at) {
			w.problem("schedule: t%d started at %s before its scheduled time %s", i, w.now.Sub(w.t0), at.Sub(w.t0))
		}
	case old == UndoStatus && new == UndoingStatus:
		for _, ht := range t.HaltTasks() {
			if !ht.Status().Ready() {
				w.problem("order: undo of t%d started while t%d which waits on it is %s", i, w.idx[ht.ID()], ht.Status())
			}
		}
	case new == DoingStatus && old != DoStatus:
		w.problem("order: t%d went %s->Doing", i, old)
	case new == UndoingStatus && old != UndoStatus:
		w.problem("order: t%d went %s->Undoing", i, old)
	}
}
func (orderObs) changeStatus(w *world, old, new Status) {}
func (orderObs) handlerStart(w *world, i int, phase string, status Status) {
	if phase == "do" && status != DoingStatus {
		w.problem("order: do handler of t%d started while the task is %s", i, status)
	}
	if phase == "undo" && status != UndoingStatus {
		w.problem("order: undo handler of t%d started while the task is %s", i, status)
	}
	// the schedule the harness knows about: At() at creation and Retry{After} returned by the do handler bind the
	// do handler; Retry{After} returned by the undo handler binds the undo handler (an aborted task's undo is not
	// held back by a retry its do handler had asked for)
	nb := w.notBefore[i]
	if phase == "undo" {
		nb = w.notBeforeUndo[i]
	}
	if w.now.Before(nb) {
		w.problem("schedule: %s handler of t%d started at +%s before its scheduled time +%s", phase, i, w.now.Sub(w.t0), nb.Sub(w.t0))
	}
	if phase == "do" {
		// the wait dependencies must (still) be satisfied whenever the handler (re)starts
		w.st.Lock()
		for _, wt := range w.tasks[i].WaitTasks() {
			if s := wt.Status(); s != DoneStatus {
				w.problem("order: do handler of t%d (re)started while t%d which it waits for is %s", i, w.idx[wt.ID()], s)
			}
		}
		w.st.Unlock()
	}
}

type multiObs []observer

func (m multiObs) taskStatus(w *world, i int, old, new Status) {
	for _, o := range m {
		o.taskStatus(w, i, old, new)
	}
}
func (m multiObs) changeStatus(w *world, old, new Status) {
	for _, o := range m {
		o.changeStatus(w, old, new)
	}
}
func (m multiObs) handlerStart(w *world, i int, phase string, status Status) {
	for _, o := range m {
		o.handlerStart(w, i, phase, status)
	}
}

func (m multiObs) preComplete(w *world, i int, phase string) {
	for _, o := range m {
		if co, ok := o.(completeObs); ok {
			co.preComplete(w, i, phase)
		}
	}
}
func (m multiObs) postComplete(w *world, i int, phase string) {
	for _, o := range m {
		if co, ok := o.(completeObs); ok {
			co.postComplete(w, i, phase)
		}
	}
}

// ---- shared run loop ----

type erCase struct {
	Config *erConfig `json:"config"`
	Path   []erEvent `json:"path"`
	Msg    string    `json:"msg,omitempty"`
}

func pathString(p []erEvent) string {
	var s []string
	for _, e := range p {
		s = append(s, e.String())
	}
	return strings.Join(s, " ")
}

func problemClass(msg string) string {
	if i := strings.Index(msg, ":"); i > 0 {
		return msg[:i]
	}
	return "misc"
}

func cfgKey(c *erConfig) string {
	b, _ := json.Marshal(c)
	return string(b)
}

type erRunSpec struct {
	prop     string
	configs  []*erConfig
	al       alphabet
	newObs   func() observer
	keepCP   bool
	hooks    func(x *explorer, r *eng.Run, cfg *erConfig) // install onState/onTerminal/onStep
	nontrivial func(x *explorer, cfg *erConfig) bool
	rule     string
}

func replayCase(r *eng.Run, spec *erRunSpec, c *erCase) {
	x := &explorer{cfg: c.Config, al: spec.al, newObs: spec.newObs, keepCP: spec.keepCP}
	x.onProblem = func(path []erEvent, msg string) {}
	if spec.hooks != nil {
		spec.hooks(x, r, c.Config)
	}
	w := newWorld(c.Config, spec.newObs(), spec.keepCP)
	fmt.Printf("replay %s\n  initial: %s\n", c.Config, w.describe())
	var path []erEvent
	for _, ev := range c.Path {
		pre := w.key()
		w.apply(ev)
		path = append(path, ev)
		fmt.Printf("  %-22s -> %s\n", ev.String(), w.describe())
		for _, p := range w.problems {
			fmt.Printf("     PROBLEM: %s\n", p)
			r.Violation(problemClass(p)+"|"+cfgKey(c.Config), p, c)
		}
		w.problems = nil
		if x.onStep != nil {
			x.onStep(w, path, ev, pre)
		}
	}
	if x.onState != nil {
		x.onState(w, path)
	}
	w.dispose()
}

func runErun(t *testing.T, r *eng.Run, spec *erRunSpec) {
	if rc := r.ReplayCase(); rc != nil {
		var c erCase
		if err := json.Unmarshal(rc, &c); err != nil {
			eng.HarnessError("bad replay case: %v", err)
		}
		spec.configs = nil
		replayCase(r, spec, &c)
		r.Finish("replay")
	}
	if r.Sharded(16) {
		r.Finish(spec.rule)
	}
	// spread expensive configs: order is deterministic, shard by index
	done := 0
	for ci, cfg := range spec.configs {
		if !r.Mine(ci) {
			continue
		}
		if r.TimeUp() {
			r.Cap("time", fmt.Sprintf("shard stopped after %d of its configurations", done))
			break
		}
		r.NoteCurrent(cfg.String())
		x := &explorer{cfg: cfg, al: spec.al, newObs: spec.newObs, keepCP: spec.keepCP}
		cfg := cfg
		x.onProblem = func(path []erEvent, msg string) {
			// one finding per (problem class, configuration): the first path found is kept
			r.Violation(problemClass(msg)+"|"+cfgKey(cfg), msg+" ["+cfg.String()+" path: "+pathString(path)+"]", erCase{Config: cfg, Path: path, Msg: msg})
		}
		if spec.hooks != nil {
			spec.hooks(x, r, cfg)
		}
		x.run()
		done++
		r.Add("configurations", 1)
		r.Add("states", int64(x.states))
		r.Add("transitions", int64(x.trans))
		r.Add("traces_validated_against_impl", int64(x.trans))
		r.Add("terminal_states", int64(len(x.terminals)))
		r.Max("max_depth", int64(x.maxDepth))
		r.Max("max_parked_at_once", int64(x.maxParked))
		if x.maxParked >= 2 {
			r.Add("configs_with_two_handlers_running_at_once", 1)
		}
		if spec.nontrivial == nil || spec.nontrivial(x, cfg) {
			r.Add("distinct_nontrivial", 1)
		}
		var ts []string
		for k := range x.terminals {
			ts = append(ts, k)
		}
		sort.Strings(ts)
		r.Distinct("terminal_outcome", strings.Join(ts, "|"))
		if r.WantSample() && x.states > 20 {
			r.Sample(map[string]interface{}{"config": cfg.String(), "states": x.states, "transitions": x.trans, "terminals": ts})
		}
	}
	r.Add("evaluations", r.Count("transitions"))
	r.Finish(spec.rule)
}

// ---- C02 ----

func TestVerifC02(t *testing.T) {
	r := eng.Start("C02", "model_checking", 100*time.Second, 15*time.Minute)
	r.Assume("handlers are gated stubs scripted per (task, phase, retries used); they never touch the state themselves",
		"Ensure is treated as always enabled (the overlord loop ensures periodically); the visiting order of an Ensure pass is owned through hook H2",
		"clock values are the finite set {t0, each pending AtTime}")
	ns := []int{1, 2, 3}
	if r.Thorough() {
		ns = []int{1, 2, 3, 4}
	}
	sp := scriptSpace{failDo: 1, failUndo: 0, specials: []script{sNoUndo, sRetryOnce, sRetryAfter, sWaitDone, sWaitDo, sAt}, maxSpecial: r.Pick(2, 2)}
	cfgs := enumConfigs(ns, sp, false, []int{0, 2})
	// lanes matter to what gets undone, not to start conditions: one extra family with lanes for n<=3 and a failure
	cfgs = append(cfgs, enumConfigs([]int{3}, scriptSpace{failDo: 1, requireFail: true, specials: []script{sNoUndo, sWaitDone}, maxSpecial: 1}, true, []int{0})...)
	// delayed retries in the undo direction (an undo handler returning Retry{After}): needs a failure to start the undo
	cfgs = append(cfgs, enumConfigs([]int{2, 3}, scriptSpace{failDo: 1, requireFail: true, specials: []script{sUndoRetryAfter, sRetryAfter}, maxSpecial: r.Pick(1, 2)}, false, []int{0, 2})...)
	r.Info("bounds", map[string]interface{}{"n": ns, "configurations": len(cfgs)})
	spec := &erRunSpec{prop: "C02", configs: cfgs, al: alphabet{resolve: true, advance: true},
		newObs: func() observer { return orderObs{} },
		nontrivial: func(x *explorer, cfg *erConfig) bool { return len(cfg.Edges) > 0 },
		rule: "every configuration (DAG on n ordered tasks x scripts with <=1 failing and <=2 special tasks x abort response) x every schedule over {Ensure(order), Complete(t), ResolveWait(t), Advance(clock)} with state dedup; oracle evaluated under the state lock at every Do->Doing, Undo->Undoing and handler start; non-trivial = configurations with at least one wait edge"}
	runErun(t, r, spec)
}
