// E-run: controlled TaskRunner harness (DESIGN.md 3.2). In-package so that the driver can read
// r.tombs (ground truth of which handler goroutines exist) — everything else goes through public API.
// Exactly one goroutine is runnable at any time: every handler parks on a gate; the driver releases
// one and waits for its tomb to die (completion section finished) before doing anything else.
package state

import (
	"fmt"
	"time"

	"gopkg.in/tomb.v2"
)

type script int

const (
	sOK script = iota
	sFailDo
	sFailUndo   // do ok, undo fails
	sNoUndo     // no undo handler
	sRetryOnce  // first do returns Retry{0}
	sRetryAfter // first do returns Retry{After: 1h}
	sWaitDone   // first do returns Wait{} (waited status Done)
	sAt         // task is scheduled At(now+1h) at creation
	sUndoWait   // do ok; first undo returns Wait{WaitedStatus: Undone} (undo needs a reboot)
	sLogErrFailUndo // do logs an error it ignores (t.Errorf) and succeeds; undo fails with a different error
	sWaitDo         // first do returns Wait{WaitedStatus: Do}: "run me again from the start once the wait is resolved"
	sUndoRetryAfter // do ok; first undo returns Retry{After: 1h}
)

var scriptNames = map[script]string{sOK: "ok", sFailDo: "fail-do", sFailUndo: "fail-undo", sNoUndo: "no-undo", sRetryOnce: "retry-once",
	sRetryAfter: "retry-after-1h", sWaitDone: "wait-then-done", sAt: "at-1h", sUndoWait: "undo-waits", sLogErrFailUndo: "log-error-then-fail-undo", sWaitDo: "wait-then-do-again", sUndoRetryAfter: "undo-retry-after-1h"}

func (s script) String() string { return scriptNames[s] }

type erConfig struct {
	N         int      `json:"n"`
	Edges     [][2]int `json:"edges"` // [i,j]: task j waits for task i (i<j)
	Lanes     [][]int  `json:"lanes"` // per task, empty = default lane 0
	Scripts   []script `json:"scripts"`
	AbortResp int      `json:"abort_resp"` // released while dying: 0 = normal result, 1 = error, 2 = Retry{}
	Order     []int    `json:"order,omitempty"` // order in which the tasks are added to the change (nil = index order)
	// AbortMix: every release of a dying handler may answer either as AbortResp says or with Retry{} (event
	// "completeR"): the reference space for restarts, where a crash interrupts exactly the handlers running then
	AbortMix bool `json:"abort_mix,omitempty"`
}

func (c *erConfig) String() string {
	var sc []string
	for _, s := range c.Scripts {
		sc = append(sc, s.String())
	}
	ord := ""
	if len(c.Order) > 0 {
		ord = fmt.Sprintf(" add-order=%v", c.Order)
	}
	return fmt.Sprintf("n=%d edges=%v lanes=%v scripts=%v abort=%d%s", c.N, c.Edges, c.Lanes, sc, c.AbortResp, ord)
}

func (c *erConfig) dependent(a, b int) bool {
	for _, e := range c.Edges {
		if (e[0] == a && e[1] == b) || (e[0] == b && e[1] == a) {
			return true
		}
	}
	return false
}

type erEvent struct {
	Kind string `json:"k"`           // ensure | complete | resolve | abort | advance | crash
	T    int    `json:"t,omitempty"` // task index (complete, resolve) or checkpoint index (crash)
	Perm []int  `json:"p,omitempty"` // ensure: visiting order of the candidates
}

func (e erEvent) String() string {
	switch e.Kind {
	case "ensure":
		return fmt.Sprintf("Ensure%v", e.Perm)
	case "complete", "resolve", "completeR":
		return fmt.Sprintf("%s(t%d)", e.Kind, e.T)
	}
	return e.Kind
}

type recBackend struct {
	checkpoints   [][]byte
	ensureBefores int
	keep          bool
	last          []byte // the latest checkpoint payload = what a crash leaves on disk
	n             int
}

func (b *recBackend) Checkpoint(data []byte) error {
	if b.keep {
		b.checkpoints = append(b.checkpoints, append([]byte(nil), data...))
	}
	b.last = append(b.last[:0], data...)
	b.n++
	return nil
}
func (b *recBackend) EnsureBefore(d time.Duration) { b.ensureBefores++ }

type startEv struct {
	i     int
	phase string
	tb    *tomb.Tomb
	rel   chan struct{}
}

type parkedH struct {
	phase   string
	tb      *tomb.Tomb
	release chan struct{}
}

// observer receives every transition of a world under the state lock.
type observer interface {
	taskStatus(w *world, i int, old, new Status)
	changeStatus(w *world, old, new Status)
	handlerStart(w *world, i int, phase string, status Status)
}

type world struct {
	cfg   *erConfig
	st    *State
	r     *TaskRunner
	chg   *Change
	tasks []*Task
	idx   map[string]int
	be    *recBackend
	now   time.Time
	t0    time.Time

	startCh   chan startEv
	parked    map[int]*parkedH
	retries   []int       // script counters (world-side, survive restarts)
	notBefore []time.Time // harness-side schedule knowledge (C02): earliest (re)start of the do handler
	notBeforeUndo []time.Time // earliest restart of the undo handler (after an undo returned Retry{After})
	dead      bool
	obs       observer
	inEnsure  bool
	startsInEnsure int
	// set by the failure-snapshot logic of C01
	problems []string
	starts   []string // log of handler starts since last restart: "t1/do"
	crashes  int
	forceRetry map[int]bool
}

// close to the real clock: notice expiry inside the state compares with time.Now() directly
var erT0 = time.Now().UTC().Truncate(time.Hour)

func (w *world) problem(format string, a ...interface{}) {
	w.problems = append(w.problems, fmt.Sprintf(format, a...))
}

func (w *world) activate() {
	timeNow = func() time.Time { return w.now }
}

func newWorld(cfg *erConfig, obs observer, keepCheckpoints bool) *world {
	w := &world{cfg: cfg, be: &recBackend{keep: keepCheckpoints}, now: erT0, t0: erT0, startCh: make(chan startEv, 16), parked: map[int]*parkedH{},
		retries: make([]int, cfg.N), notBefore: make([]time.Time, cfg.N), notBeforeUndo: make([]time.Time, cfg.N), obs: obs, idx: map[string]int{}}
	w.activate()
	w.st = New(w.be)
	w.st.Lock()
	w.chg = w.st.NewChange("verif", "verif change")
	lanes := map[int]int{}
	for i := 0; i < cfg.N; i++ {
		t := w.st.NewTask(fmt.Sprintf("k%d", i), fmt.Sprintf("task %d", i))
		w.tasks = append(w.tasks, t)
		w.idx[t.ID()] = i
	}
	for i := 0; i < cfg.N; i++ {
		for _, l := range cfg.Lanes[i] {
			if _, ok := lanes[l]; !ok {
				lanes[l] = w.st.NewLane()
			}
			w.tasks[i].JoinLane(lanes[l])
		}
		if cfg.Scripts[i] == sAt {
			w.tasks[i].At(w.now.Add(time.Hour))
			w.notBefore[i] = w.now.Add(time.Hour)
		}
	}
	for _, e := range cfg.Edges {
		w.tasks[e[1]].WaitFor(w.tasks[e[0]])
	}
	if len(cfg.Order) == cfg.N {
		for _, i := range cfg.Order {
			w.chg.AddTask(w.tasks[i])
		}
	} else {
		for _, t := range w.tasks {
			w.chg.AddTask(t)
		}
	}
	w.st.Unlock()
	w.attach()
	return w
}

// attach creates the runner and registers gated handlers + observers on w.st.
func (w *world) attach() {
	w.r = NewTaskRunner(w.st)
	for i := 0; i < w.cfg.N; i++ {
		i := i
		var undo HandlerFunc
		if w.cfg.Scripts[i] != sNoUndo {
			undo = w.gated(i, "undo")
		}
		w.r.AddHandler(fmt.Sprintf("k%d", i), w.gated(i, "do"), undo)
	}
	w.st.Lock()
	w.st.AddTaskStatusChangedHandler(func(t *Task, old, new Status) {
		if w.dead {
			return
		}
		i, ok := w.idx[t.ID()]
		if !ok {
			return
		}
		if old == DefaultStatus {
			old = DoStatus // a fresh task reports Do through Status(); the raw field is Default
		}
		if w.obs != nil {
			w.obs.taskStatus(w, i, old, new)
		}
	})
	w.st.AddChangeStatusChangedHandler(func(c *Change, old, new Status) {
		if w.dead || c.ID() != w.chg.ID() {
			return
		}
		if w.obs != nil {
			w.obs.changeStatus(w, old, new)
		}
	})
	w.st.Unlock()
}

func (w *world) gated(i int, phase string) HandlerFunc {
	return func(t *Task, tb *tomb.Tomb) error {
		rel := make(chan struct{})
		w.startCh <- startEv{i, phase, tb, rel}
		<-rel
		return w.result(i, phase, tb)
	}
}

func (w *world) result(i int, phase string, tb *tomb.Tomb) error {
	dying := tb.Err() != tomb.ErrStillAlive
	if w.dead {
		return &Retry{}
	}
	if dying && w.forceRetry[i] {
		delete(w.forceRetry, i)
		return &Retry{}
	}
	if dying {
		switch w.cfg.AbortResp {
		case 1:
			return fmt.Errorf("aborted-%d", i)
		case 2:
			return &Retry{}
		}
	}
	sc := w.cfg.Scripts[i]
	if phase == "undo" {
		if sc == sFailUndo || sc == sLogErrFailUndo {
			return fmt.Errorf("undo-boom-%d", i)
		}
		if sc == sUndoRetryAfter && w.retries[i] == 0 {
			w.retries[i]++
			w.notBeforeUndo[i] = w.now.Add(time.Hour)
			return &Retry{After: time.Hour}
		}
		if sc == sUndoWait && w.retries[i] == 0 {
			w.retries[i]++
			return &Wait{Reason: "verif-undo", WaitedStatus: UndoneStatus}
		}
		return nil
	}
	switch sc {
	case sLogErrFailUndo:
		// like hookstate for IgnoreError hooks: log the failure, carry on
		w.st.Lock()
		w.tasks[i].Errorf("ignored-failure-%d", i)
		w.st.Unlock()
		return nil
	case sFailDo:
		return fmt.Errorf("boom-%d", i)
	case sRetryOnce:
		if w.retries[i] == 0 {
			w.retries[i]++
			return &Retry{}
		}
	case sRetryAfter:
		if w.retries[i] == 0 {
			w.retries[i]++
			w.notBefore[i] = w.now.Add(time.Hour)
			return &Retry{After: time.Hour}
		}
	case sWaitDone:
		if w.retries[i] == 0 {
			w.retries[i]++
			return &Wait{Reason: "verif"}
		}
	case sWaitDo:
		if w.retries[i] == 0 {
			w.retries[i]++
			return &Wait{Reason: "verif-redo", WaitedStatus: DoStatus}
		}
	}
	return nil
}
