package state

import (
	"bytes"
	"fmt"
	"sort"
	"strings"
	"testing"
	"time"

	eng "github.com/snapcore/snapd/verifengine"
)

// memImage is what the property says must survive a restart, read through accessors.
type memImage struct {
	changeIDs []string
	taskIDs   []string
	perTask   []string
	chg       string
}

func (w *world) image(st *State) memImage {
	var im memImage
	for _, c := range st.Changes() {
		im.changeIDs = append(im.changeIDs, c.ID())
	}
	sort.Strings(im.changeIDs)
	for _, t := range st.Tasks() {
		im.taskIDs = append(im.taskIDs, t.ID())
	}
	sort.Strings(im.taskIDs)
	for _, t0 := range w.tasks {
		t := st.Task(t0.ID())
		if t == nil {
			im.perTask = append(im.perTask, "missing")
			continue
		}
		var wt, ht []string
		for _, x := range t.WaitTasks() {
			wt = append(wt, x.ID())
		}
		for _, x := range t.HaltTasks() {
			ht = append(ht, x.ID())
		}
		ws := ""
		if t.Status() == WaitStatus {
			ws = t.WaitedStatus().String()
		}
		chgID := ""
		if t.Change() != nil {
			chgID = t.Change().ID()
		}
		im.perTask = append(im.perTask, fmt.Sprintf("id=%s kind=%s status=%s waited=%s clean=%v wait=%v halt=%v lanes=%v at=%d chg=%s",
			t.ID(), t.Kind(), t.Status(), ws, t.IsClean(), wt, ht, t.Lanes(), t.AtTime().UnixNano(), chgID))
	}
	if c := st.Change(w.chg.ID()); c != nil {
		var ids []string
		for _, t := range c.Tasks() {
			ids = append(ids, t.ID())
		}
		im.chg = fmt.Sprintf("status=%s ready=%v clean=%v tasks=%v readytime=%d", c.Status(), c.IsReady(), c.IsClean(), ids, c.ReadyTime().UnixNano())
	} else {
		im.chg = "missing"
	}
	return im
}

// crash models "snapd stops here and restarts from what is on disk": every goroutine and the runner are dropped,
// the state is re-read from the latest checkpoint payload, a new runner with the same handlers is attached.
func (w *world) crash() {
	w.activate()
	w.st.Lock()
	before := w.image(w.st)
	w.st.Unlock()
	payload := append([]byte(nil), w.be.last...)
	// drop the old incarnation; its handlers return as dead, their completion sections only touch the old state
	oldBE := w.be
	w.be = &recBackend{keep: oldBE.keep}
	w.st.backend = w.be // old incarnation's late checkpoints must not reach the "disk" any more
	w.dead = true
	for i, p := range w.parked {
		delete(w.parked, i)
		close(p.release)
		p.tb.Wait()
	}
	w.dead = false
	w.be.last = payload
	w.crashes++
	st, err := ReadState(w.be, bytes.NewReader(payload))
	if err != nil {
		w.problem("restart: cannot read the checkpoint back: %v", err)
		return
	}
	st.Lock()
	after := w.image(st)
	if fmt.Sprint(before.changeIDs) != fmt.Sprint(after.changeIDs) {
		w.problem("restart: change ids %v became %v", before.changeIDs, after.changeIDs)
	}
	if fmt.Sprint(before.taskIDs) != fmt.Sprint(after.taskIDs) {
		w.problem("restart: task ids %v became %v", before.taskIDs, after.taskIDs)
	}
	for i := range before.perTask {
		if before.perTask[i] != after.perTask[i] {
			w.problem("restart: t%d in memory {%s} but reloaded from the checkpoint {%s}", i, before.perTask[i], after.perTask[i])
		}
	}
	if before.chg != after.chg {
		w.problem("restart: change in memory {%s} but reloaded {%s}", before.chg, after.chg)
	}
	chg := st.Change(w.chg.ID())
	ok := chg != nil
	newTasks := make([]*Task, len(w.tasks))
	idx := map[string]int{}
	for i, t := range w.tasks {
		nt := st.Task(t.ID())
		if nt == nil {
			ok = false
			break
		}
		newTasks[i] = nt
		idx[nt.ID()] = i
	}
	st.Unlock()
	if !ok {
		// cannot continue on a state that lost objects: keep the old one (the problem is already recorded)
		return
	}
	w.st, w.chg, w.tasks, w.idx = st, chg, newTasks, idx
	w.parked = map[int]*parkedH{}
	w.starts = nil
	w.attach()
}

func TestVerifC04(t *testing.T) {
	r := eng.Start("C04", "model_checking", 300*time.Second, 15*time.Minute)
	r.Assume("handlers are gated, idempotent stubs scripted per (task, phase, retries used); script counters model the outside world and survive the restart",
		"crash granularity is the checkpoint: the disk holds the payload of the latest state unlock (durability of that write is C06)",
		"Ensure is treated as always enabled; Ensure visiting order owned through hook H2")
	var cfgs []*erConfig
	if r.Quick() {
		cfgs = enumConfigs([]int{1, 2, 3}, scriptSpace{failDo: 1, failUndo: 1, specials: []script{sNoUndo, sRetryOnce, sRetryAfter, sWaitDone, sWaitDo, sUndoWait}, maxSpecial: 1}, false, []int{0, 2})
		cfgs = append(cfgs, enumConfigs([]int{3}, scriptSpace{failDo: 1, requireFail: true, specials: []script{sNoUndo}, maxSpecial: 1}, true, []int{0})...)
	} else {
		cfgs = enumConfigs([]int{1, 2, 3}, scriptSpace{failDo: 1, failUndo: 1, specials: []script{sNoUndo, sRetryOnce, sRetryAfter, sWaitDone, sWaitDo, sUndoWait}, maxSpecial: 1}, true, []int{0, 1, 2})
		cfgs = append(cfgs, enumConfigs([]int{4}, scriptSpace{failDo: 1, failUndo: 0, specials: []script{sNoUndo, sWaitDone}, maxSpecial: 1}, false, []int{0})...)
	}
	crashes := r.Pick(1, 2)
	r.Info("bounds", map[string]interface{}{"configurations": len(cfgs), "max_crashes_per_path": crashes})
	outcomes := map[bool]map[string]bool{}
	spec := &erRunSpec{prop: "C04", configs: cfgs, al: alphabet{resolve: true, advance: true, crash: crashes},
		newObs: func() observer { return orderObs{} },
		hooks: func(x *explorer, r *eng.Run, cfg *erConfig) {
			outcomes = map[bool]map[string]bool{false: {}, true: {}}
			x.onTerminal = func(w *world, path []erEvent) {
				c01Terminal(w, path, func(msg string) {
					if strings.HasPrefix(msg, "settle:") {
						x.onProblem(path, msg)
					}
				})
				w.st.Lock()
				var sb strings.Builder
				for _, t := range w.tasks {
					sb.WriteString(t.Status().String() + ",")
				}
				sb.WriteString("chg=" + w.chg.Status().String())
				w.st.Unlock()
				crashed := w.crashes > 0
				outcomes[crashed][sb.String()] = true
				if crashed {
					r.Add("terminal_states_after_restart", 1)
				}
			}
			x.onDone = func() {
				// A crash interrupts running handlers: for them it is the same as having been told to stop and asking
				// for a retry (abort response 2). The reference set is therefore the restart-free outcomes of the same
				// configuration under abort responses {as configured, Retry}.
				refExtra := map[string]bool{}
				computed := false
				for o := range outcomes[true] {
					if !outcomes[false][o] && !computed && cfg.AbortResp != 2 {
						computed = true
						c2 := *cfg
						c2.AbortMix = true // each dying handler answers as configured OR with Retry{} (interrupted by the crash)
						y := &explorer{cfg: &c2, al: alphabet{resolve: true, advance: true}, newObs: func() observer { return orderObs{} }}
						y.onProblem = func(path []erEvent, msg string) {}
						y.onTerminal = func(w *world, path []erEvent) {
							w.st.Lock()
							var sb strings.Builder
							for _, t := range w.tasks {
								sb.WriteString(t.Status().String() + ",")
							}
							sb.WriteString("chg=" + w.chg.Status().String())
							w.st.Unlock()
							refExtra[sb.String()] = true
						}
						y.run()
						r.Add("reference_explorations_with_retry_abort", 1)
					}
				}
				for o := range outcomes[true] {
					if !outcomes[false][o] && !refExtra[o] {
						var ref []string
						for k := range outcomes[false] {
							ref = append(ref, k)
						}
						sort.Strings(ref)
						x.onProblem(nil, fmt.Sprintf("outcome: with a restart the change can end as {%s}, which no restart-free execution of the same configuration reaches (%v)", o, ref))
					}
				}
			}
		},
		nontrivial: func(x *explorer, cfg *erConfig) bool { return cfg.N >= 2 },
		rule: "every configuration (DAG x scripts x abort response; plus a lane family) x every schedule over {Ensure(order), Complete(t), ResolveWait(t), Advance(clock), Crash} with at most max_crashes_per_path crashes placed after any driver step (= at every checkpoint), state dedup; oracles: reloaded state equals the in-memory state at the crash (ids, statuses, edges, lanes, schedule, readiness), start-order oracle after the restart (no finished task restarted), every continuation settles, set of final outcomes with restart is a subset of those without; non-trivial = configurations with >= 2 tasks"}
	runErun(t, r, spec)
}
