// C30 part 3 — the system entry points SetViaView / GetViaView on a real state.State.
//
// Two registries of one account (real, signed registry assertions with a real storage schema; only the
// assertion look-up assertstateRegistry is replaced), breadth-first over the persisted
// "registry-databags" entry with sequences of SetViaView / GetViaView calls on either registry.
package registrystate

import (
	"encoding/json"
	"fmt"
	"sort"
	"strings"
	"time"

	"github.com/snapcore/snapd/asserts"
	"github.com/snapcore/snapd/asserts/assertstest"
	"github.com/snapcore/snapd/overlord/state"
	eng "github.com/snapcore/snapd/verifengine"
)

var stView = viewSpec{Rules: []ruleT{{"a", "s.a", "read-write"}, {"b", "s.b", "read-write"}, {"w", "s.w", "write"}, {"r", "s.r", "read"},
	// two rules written by one request "sys": the nested storage path belongs to the request that sorts first
	{"sys.hostname", "t.hostname", "read-write"}, {"sys.settings", "t", "read-write"}}}

// stSchemaBody: the assertion body must be canonical JSON (2-space indent, sorted keys)
func stSchemaBody() []byte {
	b, err := json.MarshalIndent(map[string]interface{}{"storage": map[string]interface{}{"schema": map[string]interface{}{
		"s": map[string]interface{}{"schema": map[string]interface{}{
			"a": map[string]interface{}{"type": "int", "max": 5}, "b": "any", "w": "any", "r": "any"}},
		"t": "any"}}}, "", "  ")
	if err != nil {
		panic(err)
	}
	return b
}

type stOp struct {
	Reg    string                 `json:"reg"`
	View   string                 `json:"view"`
	Set    map[string]interface{} `json:"set,omitempty"` // SetViaView requests (nil value = unset)
	Get    []string               `json:"get,omitempty"`
	IsRead bool                   `json:"is_read,omitempty"`
}

func (o stOp) String() string {
	if o.IsRead {
		return fmt.Sprintf("get(%s/%s %v)", o.Reg, o.View, o.Get)
	}
	b, _ := json.Marshal(o.Set)
	return fmt.Sprintf("set(%s/%s %s)", o.Reg, o.View, b)
}

type stCase struct {
	Part  string `json:"part"`
	Start string `json:"start"` // JSON of the "registry-databags" state entry ("" = absent)
	Seq   []stOp `json:"seq"`
}

func stOps() []stOp {
	var ops []stOp
	for _, reg := range []string{"reg1", "reg2"} {
		for _, req := range []map[string]interface{}{
			{"a": 1}, {"a": 2, "b": 3}, {"a": 9}, {"a": 1, "r": 1}, {"b": 4, "zzz": 1}, {"w": 4}, {"a": nil}, {"b": 5, "a": nil}, {"b": 6, "a": 9}, {},
			// one request covering two rules with nested storage; without the value of one rule (rejected); the nested
			// rule alone; the outer value holding its own "hostname" plus an unrelated field; with a field the schema rejects
			{"sys": M{"settings": M{"x": 1}, "hostname": 2}}, {"sys": M{"hostname": 3}}, {"sys.hostname": 4},
			{"sys": M{"settings": M{"hostname": 5, "x": 2}, "hostname": 6}, "a": 1}, {"sys": M{"settings": M{"x": 7}, "hostname": 8}, "a": 9},
		} {
			ops = append(ops, stOp{Reg: reg, View: "v", Set: req})
		}
		for _, f := range [][]string{{"a"}, {"a", "b"}, {"w"}, {"r", "a"}, nil, {"zzz"}, {"sys.hostname"}, {"sys"}} {
			ops = append(ops, stOp{Reg: reg, View: "v", Get: f, IsRead: true})
		}
	}
	ops = append(ops, stOp{Reg: "reg1", View: "nope", Set: map[string]interface{}{"a": 1}}, stOp{Reg: "nope", View: "v", Set: map[string]interface{}{"a": 1}})
	return ops
}

type stFixture struct {
	regs map[string]*asserts.Registry
	acc  string
}

func newStFixture() *stFixture {
	privKey, _ := assertstest.GenerateKey(752)
	signing := assertstest.NewSigningDB("developer1", privKey)
	f := &stFixture{regs: map[string]*asserts.Registry{}, acc: "developer1"}
	var rules []interface{}
	for _, r := range stView.Rules {
		rules = append(rules, map[string]interface{}{"request": r.Req, "storage": r.Sto, "access": r.Access})
	}
	for _, name := range []string{"reg1", "reg2"} {
		headers := map[string]interface{}{
			"authority-id": "developer1",
			"account-id":   "developer1",
			"name":         name,
			"views":        map[string]interface{}{"v": map[string]interface{}{"rules": rules}},
			"timestamp":    "2030-11-06T09:16:26Z",
		}
		as, err := signing.Sign(asserts.RegistryType, headers, stSchemaBody(), "")
		if err != nil {
			eng.HarnessError("cannot sign registry assertion: %v", err)
		}
		f.regs[name] = as.(*asserts.Registry)
	}
	assertstateRegistry = func(st *state.State, account, registryName string) (*asserts.Registry, error) {
		if r := f.regs[registryName]; r != nil && account == f.acc {
			return r, nil
		}
		return nil, &asserts.NotFoundError{Type: asserts.RegistryType}
	}
	return f
}

func stNewState(databags string) *state.State {
	st := state.New(nil)
	st.Lock()
	defer st.Unlock()
	if databags != "" {
		raw := json.RawMessage(databags)
		st.Set("registry-databags", &raw)
	}
	return st
}

func stRead(st *state.State) string {
	st.Lock()
	defer st.Unlock()
	var raw json.RawMessage
	if err := st.Get("registry-databags", &raw); err != nil {
		return ""
	}
	return canon(norm(raw))
}

// stBags decodes the state entry into account -> registry -> nested map
func stBags(js string) map[string]map[string]M {
	out := map[string]map[string]M{}
	if js == "" {
		return out
	}
	if err := json.Unmarshal([]byte(js), &out); err != nil {
		panic(err)
	}
	return out
}

func stSchemaRejects(bag M) bool {
	s, _ := bag["s"].(M)
	if a, ok := s["a"]; ok {
		f, isNum := a.(float64)
		return !isNum || f != float64(int64(f)) || f > 5
	}
	return false
}

// stStep runs one call on a fresh state holding `before` and checks it; returns the entry afterwards.
var stLeafChecks int64

func stStep(f *stFixture, before string, o stOp) (after string, class string, vs []viol) {
	var leafChecks int64
	defer func() { stLeafChecks += leafChecks }()
	add := func(k, m string) { vs = append(vs, viol{key: k, msg: m}) }
	st := stNewState(before)
	bags := stBags(before)
	known := o.Reg == "reg1" || o.Reg == "reg2"
	var refBag M
	if known {
		refBag = bags[f.acc][o.Reg]
	}
	if refBag == nil {
		refBag = M{}
	}
	if o.IsRead {
		st.Lock()
		got, err := GetViaView(st, f.acc, o.Reg, o.View, o.Get)
		st.Unlock()
		after = stRead(st)
		class = "get:" + classify(err)
		if (before == "" && after != "") || (before != "" && after != canon(norm(json.RawMessage(before)))) {
			add("state-get-changed-state:"+o.String(), fmt.Sprintf("%s changed registry-databags: %q -> %q", o, before, after))
		}
		// reference
		want := M{}
		var single interface{}
		anyErrOther := false
		if len(o.Get) == 0 {
			r := refGet(stView, refBag, "")
			if r.Class == "ok" {
				single = r.Val
			}
		}
		for _, fld := range o.Get {
			r := refGet(stView, refBag, fld)
			switch r.Class {
			case "ok":
				want[fld] = r.Val
			case "not-found":
			default:
				anyErrOther = true
			}
		}
		switch {
		case anyErrOther:
		case len(o.Get) == 0:
			if single == nil {
				if classify(err) != "not-found" {
					add("state-get:"+o.String(), fmt.Sprintf("%s on %q: %s/%v; expected not found", o, before, canon(got), err))
				}
			} else if err != nil || canon(norm(got)) != canon(single) {
				add("state-get:"+o.String(), fmt.Sprintf("%s on %q: %s/%v; expected %s", o, before, canon(got), err, canon(single)))
			}
		case len(want) == 0:
			if classify(err) != "not-found" {
				add("state-get:"+o.String(), fmt.Sprintf("%s on %q: %s/%v; expected not found", o, before, canon(got), err))
			}
		case len(want) < len(o.Get) && len(o.Get) == 1:
			// unreachable
		default:
			// several fields: those that are found are returned (a single missing field is an error)
			if err != nil || canon(norm(got)) != canon(want) {
				add("state-get:"+o.String(), fmt.Sprintf("%s on %q: %s/%v; expected %s", o, before, canon(got), err, canon(want)))
			}
		}
		return after, class, vs
	}

	st.Lock()
	err := SetViaView(st, f.acc, o.Reg, o.View, deepCopy(M(o.Set)).(M))
	st.Unlock()
	after = stRead(st)
	class = "set:" + classify(err)
	if err != nil && classify(err) == "other-error" {
		class = "set:rejected"
	}
	beforeN := ""
	if before != "" {
		beforeN = canon(norm(json.RawMessage(before)))
	}
	if err != nil {
		if after != beforeN {
			add("state-rejected-write-changed-state:"+o.String(), fmt.Sprintf("%s failed (%v) but registry-databags changed: %q -> %q", o, err, before, after))
		}
	}
	// reference: every request must be acceptable; the requests of one call address different rules
	expOK := known && o.View == "v"
	exp := M(deepCopy(refBag).(M))
	if expOK {
		fields := make([]string, 0, len(o.Set))
		for k := range o.Set {
			fields = append(fields, k)
		}
		sort.Strings(fields)
		for _, fld := range fields {
			kind := "set"
			if o.Set[fld] == nil {
				kind = "unset"
			}
			out, _ := refWrite(stView, exp, op{Kind: kind, Req: fld, Val: o.Set[fld]})
			if out.Class != "ok" {
				expOK = false
			}
		}
		if stSchemaRejects(exp) {
			expOK = false
		}
	}
	if expOK != (err == nil) {
		add("state-set-outcome:"+o.String(), fmt.Sprintf("%s on %q: err=%v; reference expects success=%v", o, before, err, expOK))
		return after, class, vs
	}
	if err == nil {
		// the statement's read-after-write clause for every leaf request a field covers (see coveredLeaves)
		var all [][]expWrite
		fields := make([]string, 0, len(o.Set))
		for fld := range o.Set {
			fields = append(fields, fld)
		}
		sort.Strings(fields)
		for _, fld := range fields {
			ws, _ := covered(stView, op{Kind: "set", Req: fld, Val: o.Set[fld]})
			all = append(all, ws)
		}
		for i, fld := range fields {
			if o.Set[fld] == nil {
				continue
			}
		leaves:
			for _, l := range coveredLeaves(stView, op{Kind: "set", Req: fld, Val: o.Set[fld]}) {
				// not when another field of the same call addresses storage at, above or below this leaf
				for _, w := range all[i] {
					if strings.Join(w.req, ".") != l.req {
						continue
					}
					for j := range fields {
						for _, f := range all[j] {
							if j != i && (hasPrefix(f.sto, w.sto) || hasPrefix(w.sto, f.sto)) {
								continue leaves
							}
						}
					}
				}
				leafChecks++
				st.Lock()
				got, gerr := GetViaView(st, f.acc, o.Reg, o.View, []string{l.req})
				st.Unlock()
				if gerr != nil || canon(norm(got)) != canon(M{l.req: l.val}) {
					add("state-leaf-read-after-write:"+o.String(), fmt.Sprintf("GetViaView(%q) after successful %s on %q = %s, err=%v; the value written through the read-write rule is %s", l.req, o, before, canon(got), gerr, canon(l.val)))
				}
			}
		}
		// exactly this registry's bag changed, to exactly the reference; every other bag is as before
		if bags[f.acc] == nil {
			bags[f.acc] = map[string]M{}
		}
		bags[f.acc][o.Reg] = exp
		if want := canon(norm(bags)); after != want {
			lost := ""
			for acc, regs := range stBags(before) {
				for name := range regs {
					if _, ok := stBags(after)[acc][name]; !ok && !(acc == f.acc && name == o.Reg) {
						lost = " (the databag of " + acc + "/" + name + " is gone)"
					}
				}
			}
			key := "state-set-result:" + o.String()
			if lost != "" {
				key = "state-commit-drops-other-registries-databags"
			}
			add(key, fmt.Sprintf("%s on %q: registry-databags is now %q; expected %q%s", o, before, after, want, lost))
		}
	}
	return after, class, vs
}

func orEmpty(s string) string {
	if s == "" {
		return "null"
	}
	return s
}

func runStatePart(r *eng.Run) {
	f := newStFixture()
	ops := stOps()
	depth := r.Pick(3, 4)
	type st struct {
		bags string
		path []stOp
	}
	seen := map[string]bool{"": true}
	frontier := []st{{bags: ""}}
	var evals, nontriv, rejected int64
	start := time.Now()
	for d := 0; d < depth && len(frontier) > 0; d++ {
		var next []st
		for _, s := range frontier {
			for _, o := range ops {
				after, class, vs := stStep(f, s.bags, o)
				evals++
				r.Distinct("state_outcome", class)
				if !o.IsRead && !strings.HasSuffix(class, ":ok") {
					rejected++
					if s.bags != "" {
						nontriv++
					}
				}
				if !o.IsRead && strings.HasSuffix(class, ":ok") && strings.Contains(s.bags, "reg1") != strings.Contains(s.bags, "reg2") {
					nontriv++ // a commit while exactly one of the two registries already has data
				}
				seq := append(append([]stOp(nil), s.path...), o)
				for _, v := range vs {
					r.Violation(v.key, v.msg+" | sequence "+fmt.Sprint(seq), stCase{Part: "state", Seq: seq})
				}
				if !seen[after] {
					seen[after] = true
					next = append(next, st{bags: after, path: seq})
				}
			}
			if earlyStop(r) {
				break
			}
		}
		frontier = next
	}
	_ = start
	r.Add("state_entry_point_evaluations", evals)
	r.Add("state_rejected_writes_checked", rejected)
	r.Add("state_covered_leaf_reads_compared_with_written_value", stLeafChecks)
	r.Add("evaluations", evals)
	r.Add("distinct_nontrivial", nontriv)
	r.Add("states", int64(len(seen)))
	r.Add("transitions", evals)
	r.Add("traces_validated_against_impl", evals)
	r.Info("state_part_bounds", map[string]interface{}{"registries": 2, "operations": len(ops), "depth": depth})
}

func replayStateCase(r *eng.Run, c stCase) {
	f := newStFixture()
	cur := c.Start
	for i, o := range c.Seq {
		after, class, vs := stStep(f, cur, o)
		fmt.Printf("step %d: %s on %q -> %q [%s]\n", i+1, o, cur, after, class)
		if i == len(c.Seq)-1 {
			for _, v := range vs {
				fmt.Printf("VIOLATED %s: %s\n", v.key, v.msg)
				r.Violation(v.key, v.msg, c)
			}
		}
		cur = after
	}
}
