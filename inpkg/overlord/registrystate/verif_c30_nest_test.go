// C30 — the "nest" view family: several rules under one request prefix ("pre") whose storage paths nest.
//
// One Set on the common prefix matches all of them and writes one storage path per rule; whether the
// nested value survives depends on the order of these writes. The family is built by construction:
// every injective assignment of 2 or 3 requests (siblings pre.a / pre.b / pre.c, and the request-nested
// pair pre.a / pre.a.u) to the storage paths {t, t.u, t.u.w, t.v, q} (a chain of three nested paths, a
// sibling and an unrelated path) x access assignments, so that request nesting mirrors storage nesting,
// runs against it, request name order agrees or disagrees with the storage order, and sibling requests map
// to nested storage. A small sub-family puts a placeholder rule next to a literal rule that lives below,
// at, or above one instance of the placeholder.
package registrystate

import (
	"sort"
	"strings"
)

var nestStorage = []string{"t", "t.u", "t.u.w", "t.v", "q"}

// nestPopulated: a stored bag that already holds data at, below and next to every storage path of the family
const nestPopulated = `{"q":0,"t":{"a":{"d":{"n":0},"n":0,"x":0},"b":{"n":0},"h":0,"u":{"k":0,"w":0},"v":0},"z":0}`

func nestViews(thorough bool) []viewSpec {
	var res []viewSpec
	// two rules
	for _, reqs := range [][]string{{"pre.a", "pre.b"}, {"pre.a", "pre.a.u"}, {"pre.a.u", "pre.b"}} {
		for i, s0 := range nestStorage {
			for j, s1 := range nestStorage {
				if i == j {
					continue
				}
				for _, a0 := range accesses {
					for _, a1 := range accesses {
						res = append(res, viewSpec{Rules: []ruleT{{reqs[0], s0, a0}, {reqs[1], s1, a1}}})
					}
				}
			}
		}
	}
	// three rules over the chain and its sibling; quick: at most one rule that is not read-write
	sto3 := nestStorage[:4]
	for _, reqs := range [][]string{{"pre.a", "pre.b", "pre.c"}, {"pre.a", "pre.a.u", "pre.b"}} {
		for i, s0 := range sto3 {
			for j, s1 := range sto3 {
				for k, s2 := range sto3 {
					if i == j || i == k || j == k {
						continue
					}
					for _, a0 := range accesses {
						for _, a1 := range accesses {
							for _, a2 := range accesses {
								nonRW := 0
								for _, a := range []string{a0, a1, a2} {
									if a != "read-write" {
										nonRW++
									}
								}
								if !thorough && nonRW > 1 {
									continue
								}
								res = append(res, viewSpec{Rules: []ruleT{{reqs[0], s0, a0}, {reqs[1], s1, a1}, {reqs[2], s2, a2}}})
							}
						}
					}
				}
			}
		}
	}
	// a placeholder rule and a literal rule below / at / above one of its instances
	type pair struct{ ph, lit ruleT }
	var pairs []pair
	for _, s := range []string{"t.a.n", "t.a.d.n", "t.b.n", "t", "q"} {
		pairs = append(pairs, pair{ruleT{Req: "pre.{k}", Sto: "t.{k}"}, ruleT{Req: "pre.a.n", Sto: s}})
	}
	for _, s := range []string{"t.a", "t", "t.a.n.z"} {
		pairs = append(pairs, pair{ruleT{Req: "pre.{k}.n", Sto: "t.{k}.n"}, ruleT{Req: "pre.a", Sto: s}})
	}
	for _, p := range pairs {
		for _, a0 := range accesses {
			for _, a1 := range accesses {
				p.ph.Access, p.lit.Access = a0, a1
				res = append(res, viewSpec{Rules: []ruleT{p.ph, p.lit}})
			}
		}
	}
	return res
}

// instances of a rule's request: a placeholder stands for the keys a and b
func ruleInstances(r ruleT, keys []string) []string {
	if !strings.Contains(r.Req, "{") {
		return []string{r.Req}
	}
	var res []string
	for _, k := range keys {
		parts := strings.Split(r.Req, ".")
		for i, p := range parts {
			if isPH(p) {
				parts[i] = k
			}
		}
		res = append(res, strings.Join(parts, "."))
	}
	return res
}

func insertAt(root M, path []string, val interface{}) {
	node := root
	for _, p := range path[:len(path)-1] {
		next, ok := node[p].(M)
		if !ok {
			next = M{}
			node[p] = next
		}
		node = next
	}
	node[path[len(path)-1]] = val
}

func valueAt(root interface{}, path []string) (interface{}, bool) {
	cur := root
	for _, p := range path {
		m, ok := cur.(M)
		if !ok {
			return nil, false
		}
		if cur, ok = m[p]; !ok {
			return nil, false
		}
	}
	return cur, true
}

// cover builds the value of a Set on "pre" that carries a payload for every given rule (placeholder
// rules: one payload per key); requests are inserted shortest first, so a request-nested rule's payload
// lives inside (and turns into a map) the payload of the rule above it.
func cover(rules []ruleT, keys []string, payload func(i int) interface{}) M {
	type ins struct {
		path []string
		i    int
	}
	var all []ins
	for i, r := range rules {
		for _, inst := range ruleInstances(r, keys) {
			all = append(all, ins{strings.Split(inst, ".")[1:], i})
		}
	}
	sort.SliceStable(all, func(x, y int) bool { return len(all[x].path) < len(all[y].path) })
	root := M{}
	for _, in := range all {
		insertAt(root, in.path, deepCopy(payload(in.i)))
	}
	return root
}

var nestPayloads = map[string]func(i int) interface{}{
	"scalar": func(i int) interface{} { return 11 + i },
	"map":    func(i int) interface{} { return M{"x": 21 + i} },
	// keys that collide with the names of the nested storage levels: the outer rule's own value holds data
	// at the path of the nested rule
	"collide": func(i int) interface{} {
		return M{"u": M{"w": 31 + i, "k": 1}, "v": 41 + i, "n": 51 + i, "x": 1}
	},
	// the schema of the space rejects t.u == 3
	"threes": func(i int) interface{} { return 3 },
}

// nestOps: the operation alphabet of a nest view, derived from its rules.
func nestOps(vs viewSpec) []op {
	var ops []op
	seen := map[string]bool{}
	add := func(o op) {
		if k := o.String(); !seen[k] {
			seen[k] = true
			ops = append(ops, o)
		}
	}
	var wr []ruleT
	for _, r := range vs.Rules {
		if writeable(r.Access) {
			wr = append(wr, r)
		}
	}
	var insts []string
	for _, r := range vs.Rules {
		insts = append(insts, ruleInstances(r, []string{"a", "b"})...)
	}

	for _, g := range append([]string{"", "pre", "pre.a", "pre.zz"}, insts...) {
		add(op{Kind: "get", Req: g})
	}

	one := []string{"a"}
	if len(wr) > 0 {
		for _, p := range []string{"scalar", "map", "collide", "threes"} {
			add(op{Kind: "set", Req: "pre", Val: cover(wr, one, nestPayloads[p])})
		}
		add(op{Kind: "set", Req: "pre", Val: cover(wr, []string{"a", "b"}, nestPayloads["map"])})
		with := cover(wr, one, nestPayloads["scalar"])
		with["zzz"] = 1
		add(op{Kind: "set", Req: "pre", Val: with}) // unused branch
		if len(wr) >= 2 {
			for i := range wr {
				less := append(append([]ruleT(nil), wr[:i]...), wr[i+1:]...)
				add(op{Kind: "set", Req: "pre", Val: cover(less, one, nestPayloads["scalar"])}) // a matched rule without a value
			}
		}
	}
	add(op{Kind: "set", Req: "pre", Val: cover(vs.Rules, one, nestPayloads["map"])}) // with branches for rules that cannot be written
	add(op{Kind: "set", Req: "pre", Val: 7})
	for i, inst := range insts {
		add(op{Kind: "set", Req: inst, Val: 61 + i})
		for _, p := range []string{"map", "collide"} {
			if sub, ok := valueAt(cover(vs.Rules, []string{"a", "b"}, nestPayloads[p]), strings.Split(inst, ".")[1:]); ok {
				add(op{Kind: "set", Req: inst, Val: deepCopy(sub)})
			}
		}
	}
	for _, u := range append([]string{"pre"}, insts...) {
		add(op{Kind: "unset", Req: u})
	}
	return ops
}

// ---------------------------------------------------------------------------------------------
// what one Set covers

// expWrite: one (rule, placeholder keys) instance covered by a Set: the rule's request and storage path
// with every placeholder filled in, and the part of the Set's value that belongs to it.
type expWrite struct {
	rule ruleT
	req  []string
	sto  []string
	usto string // storage path with only the placeholders bound by the Set's request filled in
	val  interface{}
}

func expandCovered(req, sto, suffix []string, val interface{}) ([]expWrite, bool) {
	if len(suffix) == 0 {
		return []expWrite{{req: req, sto: sto, val: val}}, true
	}
	m, ok := val.(M)
	if !ok {
		return nil, false
	}
	if !isPH(suffix[0]) {
		x, ok := m[suffix[0]]
		if !ok {
			return nil, false
		}
		return expandCovered(req, sto, suffix[1:], x)
	}
	var res []expWrite
	for k, x := range m {
		sub := func(l []string) []string {
			out := make([]string, len(l))
			for i, s := range l {
				if s == suffix[0] {
					s = k
				}
				out[i] = s
			}
			return out
		}
		w, ok := expandCovered(sub(req), sub(sto), suffix[1:], x)
		if !ok {
			return nil, false
		}
		res = append(res, w...)
	}
	return res, true
}

// covered lists the instances of all rules (any access) that Set(o.Req, o.Val) covers; ok=false when the
// value lacks the part of some matched rule.
func covered(vs viewSpec, o op) ([]expWrite, bool) {
	if !validRequest(o.Req) || !validValue(o.Val) {
		return nil, false
	}
	val := norm(o.Val)
	nreq := len(strings.Split(o.Req, "."))
	var res []expWrite
	for _, m := range refMatchRules(vs, o.Req, func(string) bool { return true }) {
		rp := strings.Split(m.rule.Req, ".")
		req := append(append([]string(nil), strings.Split(o.Req, ".")...), rp[nreq:]...)
		ws, ok := expandCovered(req, m.sto, m.suffix, val)
		if !ok {
			if writeable(m.rule.Access) {
				return nil, false
			}
			continue
		}
		for _, w := range ws {
			w.rule = m.rule
			w.usto = strings.Join(m.sto, ".")
			res = append(res, w)
		}
	}
	return res, true
}

func hasPrefix(path, prefix []string) bool {
	if len(prefix) > len(path) {
		return false
	}
	for i := range prefix {
		if path[i] != prefix[i] {
			return false
		}
	}
	return true
}

func hasNilOrEmpty(v interface{}) bool {
	switch t := v.(type) {
	case nil:
		return true
	case M:
		if len(t) == 0 {
			return true
		}
		for _, x := range t {
			if hasNilOrEmpty(x) {
				return true
			}
		}
	case []interface{}:
		for _, x := range t {
			if hasNilOrEmpty(x) {
				return true
			}
		}
	}
	return false
}

type leafExp struct {
	req string
	val interface{}
}

// coveredLeaves: the statement's own clause for a Set that covers several rules, written without any
// notion of write order: take a read-write rule instance the Set covers (i) whose request is answered by
// that rule alone and (ii) at or below whose storage path the same Set writes nothing else; a Get of its
// request after the successful Set returns exactly the part of the value that was written for it.
func coveredLeaves(vs viewSpec, o op) []leafExp {
	ws, ok := covered(vs, o)
	if !ok {
		return nil
	}
	var res []leafExp
	for i, w := range ws {
		if w.rule.Access != "read-write" || hasNilOrEmpty(w.val) {
			continue
		}
		req := strings.Join(w.req, ".")
		if len(refMatchRules(vs, req, func(string) bool { return true })) != 1 {
			continue
		}
		leaf := true
		for j, f := range ws {
			if i != j && writeable(f.rule.Access) && hasPrefix(f.sto, w.sto) {
				leaf = false
			}
		}
		if leaf {
			res = append(res, leafExp{req, w.val})
		}
	}
	sort.Slice(res, func(i, j int) bool { return res[i].req < res[j].req })
	return res
}

// nestShape classifies a Set by the writes it asks for: nested = it writes a storage path and a path
// below it; disagree = additionally the rule of the nested path has the request that sorts first;
// phOrder = the outer path is an instance of a storage path with a placeholder the request left unbound
// and that (unexpanded) path sorts after the nested rule's path (the input class of the known finding
// "placeholder-instance-written-after-nested-path").
func nestShape(vs viewSpec, o op) (multi, nested, disagree, phOrder bool) {
	ws, ok := covered(vs, o)
	if !ok {
		return
	}
	var wr []expWrite
	for _, w := range ws {
		if writeable(w.rule.Access) {
			wr = append(wr, w)
		}
	}
	multi = len(wr) >= 2
	for i, outer := range wr {
		for j, inner := range wr {
			if i == j || len(inner.sto) <= len(outer.sto) || !hasPrefix(inner.sto, outer.sto) {
				continue
			}
			nested = true
			if inner.rule.Req < outer.rule.Req {
				disagree = true
			}
			if inner.usto < outer.usto {
				phOrder = true
			}
		}
	}
	return
}

// aliasFree: the writes a Set asks for do not overlap in storage, except in the mirrored way (the nested
// rule's storage path is the outer rule's path extended by exactly the request parts that lie between them,
// so both put the same part of the value at the same place), and where a placeholder is left for the keys
// of the value, everything a Get of the request showed before is replaced by the value (a Get of the request
// also returns the other instances stored already). Only then is "Get of the Set's own request returns
// exactly the written value" implied by the statement; the per-leaf clause (coveredLeaves) needs neither.
func aliasFree(vs viewSpec, o op, before M) bool {
	ws, ok := covered(vs, o)
	if !ok {
		return false
	}
	ms := refMatchRules(vs, o.Req, func(string) bool { return true })
	for _, m := range ms {
		for _, p := range m.suffix {
			if isPH(p) {
				// ... and a second rule may write to what is another instance for the placeholder rule
				if len(ms) > 1 {
					return false
				}
				if old := refGet(vs, before, o.Req); old.Class != "not-found" && !(old.Class == "ok" && keysWithin(old.Val, norm(o.Val))) {
					return false
				}
			}
		}
	}
	for i, a := range ws {
		for j, b := range ws {
			if i == j || !hasPrefix(b.sto, a.sto) {
				continue
			}
			// b is stored at or below a
			if len(b.req) < len(a.req) || !hasPrefix(b.req, a.req) {
				return false
			}
			if strings.Join(b.sto[len(a.sto):], ".") != strings.Join(b.req[len(a.req):], ".") {
				return false
			}
		}
	}
	return true
}

// keysWithin: every key (recursively) of the map old is a key of nw
func keysWithin(old, nw interface{}) bool {
	om, ok := old.(M)
	if !ok {
		return true
	}
	nm, ok := nw.(M)
	if !ok {
		return false
	}
	for k, x := range om {
		y, ok := nm[k]
		if !ok || !keysWithin(x, y) {
			return false
		}
	}
	return true
}

const phOrderKey = "placeholder-instance-written-after-nested-path"
