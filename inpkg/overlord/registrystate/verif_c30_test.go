// C30 — registry views enforce access; rejected writes change nothing; transactions commit in order.
//
// Part 1 (views): for every view of a family (rule templates: literal, shared request prefix,
// placeholder, nested "content", two rules with one request) x every access assignment, breadth-first
// over the stored databag states reachable with request sequences of Get/Set/Unset from an empty and
// from a populated bag; every request is executed on the real View + JSONDataBag twice (directly on a
// recording copy of the bag, and as the system does: through a Transaction that is committed) and
// compared with a reference evaluator written over plain nested maps. A second family (verif_c30_nest_test.go)
// puts 2-3 rules under one request prefix with nested / sibling / unrelated storage paths, so that one Set
// writes several storage paths that contain each other; there the statement's read-after-write clause is also
// checked per covered leaf request, without the reference.
// Part 2 (transactions): two real Transactions over one stored bag, every interleaving of their
// view operations and commits; in a second family one of them is used on after its own commit.
package registrystate

import (
	"encoding/json"
	"errors"
	"fmt"
	"os"
	"regexp"
	"runtime/debug"
	"sort"
	"strings"
	"sync/atomic"
	"testing"
	"time"

	"github.com/snapcore/snapd/registry"
	eng "github.com/snapcore/snapd/verifengine"
)

// ---------------------------------------------------------------------------------------------
// view family

type ruleT struct {
	Req    string `json:"request"`
	Sto    string `json:"storage"`
	Access string `json:"access"`
}

type viewSpec struct {
	Rules []ruleT `json:"rules"`
}

var accesses = []string{"read", "write", "read-write"}

// allViews: lit group (lit->s.lit with any access, optionally a second write-only rule lit->s.lit2),
// top group (top.one->s.one, top.two->s.two; symmetric assignments removed), placeholder
// (ph.{k}->p.{k}.v), nested content (n->s.n with content in->in, i.e. n.in->s.n.in).
func allViews() []viewSpec {
	var res []viewSpec
	for _, aLit := range accesses {
		for _, lit2 := range []bool{false, true} {
			for i, aOne := range accesses {
				for j, aTwo := range accesses {
					if j < i {
						continue // top.one / top.two are symmetric
					}
					for _, aPh := range accesses {
						for _, aN := range accesses {
							for _, aIn := range accesses {
								v := viewSpec{Rules: []ruleT{{"lit", "s.lit", aLit}}}
								if lit2 {
									v.Rules = append(v.Rules, ruleT{"lit", "s.lit2", "write"})
								}
								v.Rules = append(v.Rules, ruleT{"top.one", "s.one", aOne}, ruleT{"top.two", "s.two", aTwo},
									ruleT{"ph.{k}", "p.{k}.v", aPh}, ruleT{"n", "s.n", aN}, ruleT{"n.in", "s.n.in", aIn})
								res = append(res, v)
							}
						}
					}
				}
			}
		}
	}
	return res
}

// build constructs the real registry; the nested rule goes in as "content" of its parent.
func (v viewSpec) build(schema registry.Schema) (*registry.View, error) {
	var rules []interface{}
	for i := 0; i < len(v.Rules); i++ {
		r := v.Rules[i]
		m := map[string]interface{}{"request": r.Req, "storage": r.Sto, "access": r.Access}
		if r.Req == "n" && i+1 < len(v.Rules) && v.Rules[i+1].Req == "n.in" {
			in := v.Rules[i+1]
			m["content"] = []interface{}{map[string]interface{}{"request": "in", "storage": "in", "access": in.Access}}
			i++
		}
		rules = append(rules, m)
	}
	reg, err := registry.New("acc", "reg", map[string]interface{}{"v": map[string]interface{}{"rules": rules}}, schema)
	if err != nil {
		return nil, err
	}
	return reg.View("v"), nil
}

func (v viewSpec) short() string {
	var l []string
	for _, r := range v.Rules {
		a := map[string]string{"read": "r", "write": "w", "read-write": "rw"}[r.Access]
		l = append(l, r.Req+">"+r.Sto+":"+a)
	}
	return strings.Join(l, ",")
}

// rejectSchema: the schema violations of the space: s.two must not be 3 (main family), t.u must not be 3
// (nest family).
type rejectSchema struct{}

func (rejectSchema) Validate(data []byte) error {
	var d map[string]interface{}
	if err := json.Unmarshal(data, &d); err != nil {
		return err
	}
	if refSchemaRejects(d) {
		return errors.New("s.two must not be 3, t.u must not be 3")
	}
	return nil
}
func (s rejectSchema) SchemaAt(path []string) ([]registry.Schema, error) {
	return []registry.Schema{s}, nil
}
func (rejectSchema) Type() registry.SchemaType { return registry.Any }

func refSchemaRejects(bag map[string]interface{}) bool {
	s, _ := bag["s"].(map[string]interface{})
	if f, ok := s["two"].(float64); ok && f == 3 {
		return true
	}
	t, _ := bag["t"].(map[string]interface{})
	f, ok := t["u"].(float64)
	return ok && f == 3
}

// ---------------------------------------------------------------------------------------------
// operations

type op struct {
	Kind string      `json:"kind"` // get | set | unset
	Req  string      `json:"req"`
	Val  interface{} `json:"val,omitempty"`
}

func (o op) String() string {
	if o.Kind == "set" {
		b, _ := json.Marshal(o.Val)
		return fmt.Sprintf("set(%s=%s)", o.Req, b)
	}
	return fmt.Sprintf("%s(%s)", o.Kind, o.Req)
}

type M = map[string]interface{}

func allOps() []op {
	var ops []op
	for _, r := range []string{"", "lit", "top", "top.one", "top.two", "ph", "ph.x", "ph.zz", "n", "n.in", "zzz", "lit.deeper", "top..one", "Top", "ph.x.deeper", "{k}"} {
		ops = append(ops, op{Kind: "get", Req: r})
	}
	sets := []struct {
		r string
		v interface{}
	}{
		{"lit", 1}, {"lit", M{"k": 1}}, {"lit", M{"BAD_key": 1}},
		{"top", M{"one": 1, "two": 2}}, {"top", M{"one": 1}}, {"top", M{"one": 1, "two": 2, "zzz": 3}}, {"top", M{"one": nil, "two": 2}},
		{"top", M{"one": 1, "two": 3}}, {"top", 7},
		{"top.one", 2}, {"top.two", 3}, {"top.two", 4},
		{"ph.x", 1}, {"ph.y", M{"m": 1}}, {"ph", M{"x": 1, "y": 2}}, {"ph", M{}}, {"ph", 5}, {"ph.x.deeper", 1},
		{"n", M{"in": 1}}, {"n", M{"in": 1, "other": 2}}, {"n", 5}, {"n.in", 2}, {"n", M{"other": 2}},
		{"zzz", 1}, {"lit.deeper", 1}, {"top..one", 1}, {"{k}", 1},
	}
	for _, s := range sets {
		ops = append(ops, op{Kind: "set", Req: s.r, Val: s.v})
	}
	for _, r := range []string{"lit", "top", "top.one", "ph", "ph.x", "n", "n.in", "zzz", "top..one"} {
		ops = append(ops, op{Kind: "unset", Req: r})
	}
	return ops
}

// ---------------------------------------------------------------------------------------------
// reference evaluator over nested maps

var subkeyRe = regexp.MustCompile("^[a-z](?:-?[a-z0-9])*$")

func isPH(s string) bool { return len(s) >= 2 && s[0] == '{' && s[len(s)-1] == '}' }

func canon(v interface{}) string {
	b, err := json.Marshal(v)
	if err != nil {
		return "!" + err.Error()
	}
	return string(b)
}

// norm: JSON round trip (ints -> float64, typed maps -> plain), so that values compare structurally
func norm(v interface{}) interface{} {
	var out interface{}
	if err := json.Unmarshal([]byte(canon(v)), &out); err != nil {
		panic(err)
	}
	return out
}

type refMatch struct {
	rule   ruleT
	sto    []string // storage path with the placeholders bound by the request filled in
	suffix []string // unmatched rest of the rule's request
}

func refMatchRules(v viewSpec, req string, want func(a string) bool) []refMatch {
	var parts []string
	if req != "" {
		parts = strings.Split(req, ".")
	}
	var res []refMatch
	for _, r := range v.Rules {
		rp := strings.Split(r.Req, ".")
		if len(rp) < len(parts) {
			continue
		}
		bound := map[string]string{}
		ok := true
		for i, p := range parts {
			if isPH(rp[i]) {
				bound[rp[i]] = p
			} else if rp[i] != p {
				ok = false
			}
		}
		if !ok || !want(r.Access) {
			continue
		}
		var sto []string
		for _, s := range strings.Split(r.Sto, ".") {
			if b, isBound := bound[s]; isPH(s) && isBound {
				s = b
			}
			sto = append(sto, s)
		}
		res = append(res, refMatch{rule: r, sto: sto, suffix: rp[len(parts):]})
	}
	return res
}

func readable(a string) bool  { return a == "read" || a == "read-write" }
func writeable(a string) bool { return a == "write" || a == "read-write" }

func validRequest(req string) bool {
	for _, p := range strings.Split(req, ".") {
		if !subkeyRe.MatchString(p) {
			return false
		}
	}
	return true
}

var errPath = errors.New("path not found")
var errType = errors.New("path runs through a non-map")

// bagGet: reading a storage path (unbound placeholders collect all keys)
func bagGet(node M, parts []string) (interface{}, error) {
	key := parts[0]
	if !isPH(key) {
		v, ok := node[key]
		if !ok {
			return nil, errPath
		}
		if len(parts) == 1 {
			return v, nil
		}
		m, ok := v.(M)
		if !ok {
			return nil, errType
		}
		return bagGet(m, parts[1:])
	}
	if len(parts) == 1 {
		out := M{}
		for k, v := range node {
			out[k] = v
		}
		return out, nil
	}
	out := M{}
	for k, v := range node {
		m, ok := v.(M)
		if !ok {
			continue
		}
		r, err := bagGet(m, parts[1:])
		if err != nil || r == nil {
			continue
		}
		out[k] = r
	}
	if len(out) == 0 {
		return nil, errPath
	}
	return out, nil
}

func namespace(v interface{}, suffix []string) (interface{}, error) {
	if len(suffix) == 0 {
		return v, nil
	}
	if isPH(suffix[0]) {
		m, ok := v.(M)
		if !ok {
			return nil, errors.New("expected map for unmatched placeholder")
		}
		out := M{}
		for k, x := range m {
			n, err := namespace(x, suffix[1:])
			if err != nil {
				return nil, err
			}
			out[k] = n
		}
		return out, nil
	}
	n, err := namespace(v, suffix[1:])
	if err != nil {
		return nil, err
	}
	return M{suffix[0]: n}, nil
}

func merge(old, nw interface{}) (interface{}, error) {
	if old == nil {
		return nw, nil
	}
	om, ook := old.(M)
	nm, nok := nw.(M)
	if ook != nok {
		return nil, errors.New("cannot merge results of different types")
	}
	if !ook {
		return nw, nil
	}
	for k, v := range nm {
		if ov, ok := om[k]; ok {
			m, err := merge(ov, v)
			if err != nil {
				return nil, err
			}
			v = m
		}
		om[k] = v
	}
	return om, nil
}

type outcome struct {
	Class string      // ok | bad-request (also: value does not fit the rules) | not-found | schema | storage-error
	Val   interface{} // for get
}

// refGet: expected result of View.Get on the bag. Class "storage-error" means the reference cannot
// say more than "an error that is not not-found" (a readable rule's storage path runs through a scalar).
func refGet(v viewSpec, bag M, req string) outcome {
	if req != "" && !validRequest(req) {
		return outcome{Class: "bad-request"}
	}
	ms := refMatchRules(v, req, readable)
	if len(ms) == 0 {
		return outcome{Class: "not-found"}
	}
	sort.SliceStable(ms, func(i, j int) bool {
		a, b := ms[i].suffix, ms[j].suffix
		for k := 0; k < len(a) && k < len(b); k++ {
			if a[k] != b[k] {
				return a[k] < b[k]
			}
		}
		return len(a) < len(b)
	})
	var merged interface{}
	for _, m := range ms {
		val, err := bagGet(bag, m.sto)
		if err == errPath {
			continue
		}
		if err != nil {
			return outcome{Class: "storage-error"}
		}
		val, err = namespace(norm(val), m.suffix)
		if err != nil {
			return outcome{Class: "storage-error"}
		}
		if merged, err = merge(merged, val); err != nil {
			return outcome{Class: "storage-error"}
		}
	}
	if merged == nil {
		return outcome{Class: "not-found"}
	}
	return outcome{Class: "ok", Val: merged}
}

func validValue(v interface{}) bool {
	switch t := v.(type) {
	case M:
		for k, x := range t {
			if !subkeyRe.MatchString(k) {
				return false
			}
			if x != nil && !validValue(x) {
				return false
			}
		}
	case []interface{}:
		for _, x := range t {
			if x != nil && !validValue(x) {
				return false
			}
		}
	}
	return true
}

type write struct {
	sto []string
	val interface{}
}

// valuesThroughPaths: strip the outer layers of the value named by the suffix; a placeholder in the
// suffix ranges over the keys present in the value and completes the storage path.
func valuesThroughPaths(sto, suffix []string, val interface{}) ([]write, error) {
	if len(suffix) == 0 {
		return []write{{sto, val}}, nil
	}
	m, ok := val.(M)
	if !ok {
		return nil, errors.New("expected map for unmatched request parts")
	}
	if !isPH(suffix[0]) {
		x, ok := m[suffix[0]]
		if !ok {
			return nil, errors.New("value lacks unmatched request part")
		}
		return valuesThroughPaths(sto, suffix[1:], x)
	}
	var res []write
	for k, x := range m {
		ns := make([]string, len(sto))
		for i, s := range sto {
			if s == suffix[0] {
				s = k
			}
			ns[i] = s
		}
		w, err := valuesThroughPaths(ns, suffix[1:], x)
		if err != nil {
			return nil, err
		}
		res = append(res, w...)
	}
	return res, nil
}

func prune(parts []string, val interface{}) interface{} {
	if len(parts) == 0 || val == nil {
		return nil
	}
	m, ok := val.(M)
	if !ok {
		return val
	}
	if isPH(parts[0]) {
		out := M{}
		for k, x := range m {
			if r := prune(parts[1:], x); r != nil {
				out[k] = r
			}
		}
		if len(out) == 0 {
			return nil
		}
		return out
	}
	x, ok := m[parts[0]]
	if !ok {
		return m
	}
	if r := prune(parts[1:], x); r == nil {
		delete(m, parts[0])
	} else {
		m[parts[0]] = r
	}
	if len(m) == 0 {
		return nil
	}
	return m
}

func deepCopy(v interface{}) interface{} {
	switch t := v.(type) {
	case M:
		out := M{}
		for k, x := range t {
			out[k] = deepCopy(x)
		}
		return out
	case []interface{}:
		out := make([]interface{}, len(t))
		for i, x := range t {
			out[i] = deepCopy(x)
		}
		return out
	}
	return v
}

func dropNils(v interface{}) interface{} {
	m, ok := v.(M)
	if !ok {
		return v
	}
	for k, x := range m {
		if x == nil {
			delete(m, k)
		} else {
			m[k] = dropNils(x)
		}
	}
	return m
}

// bagSet / bagUnset: the storage semantics the statement takes for granted (nested maps; a write creates
// missing levels and replaces a scalar that is in the way; unset of a missing path is a no-op).
func bagSet(bag M, parts []string, val interface{}) error {
	if val == nil {
		return bagUnset(bag, parts)
	}
	node := bag
	for _, p := range parts[:len(parts)-1] {
		next, ok := node[p].(M)
		if !ok {
			next = M{}
			node[p] = next
		}
		node = next
	}
	node[parts[len(parts)-1]] = dropNils(deepCopy(val))
	return nil
}

func bagUnset(node M, parts []string) error {
	key := parts[0]
	if len(parts) == 1 {
		if !isPH(key) {
			delete(node, key)
		}
		return nil
	}
	keys := []string{key}
	if isPH(key) {
		keys = nil
		for k := range node {
			keys = append(keys, k)
		}
	}
	for _, k := range keys {
		x, ok := node[k]
		if !ok {
			continue
		}
		m, ok := x.(M)
		if !ok {
			return errType
		}
		if len(parts) == 2 && isPH(parts[1]) {
			delete(node, k) // "remove entire level"
			continue
		}
		if err := bagUnset(m, parts[1:]); err != nil {
			return err
		}
	}
	return nil
}

// refWrite: expected result of View.Set / View.Unset; on success bag is updated in place.
// allowed lists the storage paths the request may touch.
func refWrite(v viewSpec, bag M, o op) (out outcome, allowed [][]string) {
	if !validRequest(o.Req) {
		return outcome{Class: "bad-request"}, nil
	}
	if o.Kind == "set" && !validValue(o.Val) {
		return outcome{Class: "bad-request"}, nil
	}
	ms := refMatchRules(v, o.Req, writeable)
	if len(ms) == 0 {
		return outcome{Class: "not-found"}, nil
	}
	for _, m := range ms {
		allowed = append(allowed, m.sto)
	}
	if o.Kind == "unset" {
		for _, m := range ms {
			if err := bagUnset(bag, m.sto); err != nil {
				return outcome{Class: "storage-error"}, allowed
			}
		}
		return outcome{Class: "ok"}, allowed
	}
	val := norm(o.Val)
	sort.SliceStable(ms, func(i, j int) bool { return strings.Join(ms[i].sto, ".") < strings.Join(ms[j].sto, ".") })
	var writes []write
	rest := deepCopy(val)
	seenSuffix := map[string]bool{}
	for _, m := range ms {
		w, err := valuesThroughPaths(m.sto, m.suffix, val)
		if err != nil {
			return outcome{Class: "bad-request"}, allowed
		}
		writes = append(writes, w...)
		if sfx := strings.Join(m.suffix, "."); !seenSuffix[sfx] {
			seenSuffix[sfx] = true
			rest = prune(m.suffix, rest)
		}
	}
	if rest != nil {
		return outcome{Class: "bad-request"}, allowed
	}
	// less nested (fully expanded) storage paths are written before more nested ones, so that a write never
	// destroys another write of the same request
	sort.SliceStable(writes, func(i, j int) bool { return len(writes[i].sto) < len(writes[j].sto) })
	for _, w := range writes {
		if err := bagSet(bag, w.sto, w.val); err != nil {
			return outcome{Class: "storage-error"}, allowed
		}
	}
	if refSchemaRejects(bag) {
		return outcome{Class: "schema"}, allowed
	}
	return outcome{Class: "ok"}, allowed
}

// ---------------------------------------------------------------------------------------------
// running the real code
//
// NOTE: JSONDataBag.Set prunes nil entries from the value it is given *in place* (removeNilValues), i.e.
// View.Set modifies its caller's value; every call below therefore gets its own deep copy.

// recBag records the storage paths the view hands to the databag.
type recBag struct {
	registry.JSONDataBag
	reads, writes []string
}

func (b *recBag) Get(path string) (interface{}, error) {
	b.reads = append(b.reads, path)
	return b.JSONDataBag.Get(path)
}
func (b *recBag) Set(path string, value interface{}) error {
	b.writes = append(b.writes, path)
	return b.JSONDataBag.Set(path, value)
}
func (b *recBag) Unset(path string) error {
	b.writes = append(b.writes, path)
	return b.JSONDataBag.Unset(path)
}

func bagFrom(js string) registry.JSONDataBag {
	bag := registry.NewJSONDataBag()
	if err := json.Unmarshal([]byte(js), &bag); err != nil {
		panic(err)
	}
	return bag
}

func bagJSON(b registry.JSONDataBag) string {
	d, err := b.Data()
	if err != nil {
		panic(err)
	}
	return canon(norm(json.RawMessage(d)))
}

func decode(js string) M {
	var m M
	if err := json.Unmarshal([]byte(js), &m); err != nil {
		panic(err)
	}
	if m == nil {
		m = M{}
	}
	return m
}

func classify(err error) string {
	switch {
	case err == nil:
		return "ok"
	case errors.Is(err, &registry.NotFoundError{}):
		return "not-found"
	case errors.Is(err, &registry.BadRequestError{}):
		return "bad-request"
	case strings.Contains(err.Error(), "s.two must not be 3"):
		return "schema"
	}
	return "other-error"
}

// pathAllowed: the storage path given to the bag is one of the allowed ones, where an unbound
// placeholder of the allowed path stands for any key
func pathAllowed(path string, allowed [][]string) bool {
	parts := strings.Split(path, ".")
	for _, a := range allowed {
		if len(a) != len(parts) {
			continue
		}
		ok := true
		for i := range a {
			if a[i] != parts[i] && !isPH(a[i]) {
				ok = false
			}
		}
		if ok {
			return true
		}
	}
	return false
}

// changedPaths lists the leaf paths at which two nested maps differ
func changedPaths(a, b interface{}, prefix []string, out *[][]string) {
	am, aok := a.(M)
	bm, bok := b.(M)
	if aok && bok {
		keys := map[string]bool{}
		for k := range am {
			keys[k] = true
		}
		for k := range bm {
			keys[k] = true
		}
		for k := range keys {
			changedPaths(am[k], bm[k], append(append([]string(nil), prefix...), k), out)
		}
		return
	}
	if canon(a) != canon(b) {
		*out = append(*out, prefix)
	}
}

// underAllowed: a changed path lies at, below, or (creation/removal of enclosing maps) above an allowed storage path
func underAllowed(p []string, allowed [][]string) bool {
	for _, a := range allowed {
		n := len(a)
		if len(p) < n {
			n = len(p)
		}
		ok := true
		for i := 0; i < n; i++ {
			if a[i] != p[i] && !isPH(a[i]) {
				ok = false
			}
		}
		if ok {
			return true
		}
	}
	return false
}

type viewCase struct {
	Part  string   `json:"part"`
	View  viewSpec `json:"view"`
	Start string   `json:"start"` // stored bag before the sequence
	Seq   []op     `json:"seq"`
}

type viol struct {
	key, msg string
	class    bool // key names a class of inputs (known-findings), not one input
}

// stepResult: what one operation did on the real code in the state `before`
type stepResult struct {
	after string // stored bag after the operation through the transaction path
	viols []viol
	class string
	// informational
	rawPartial bool
	spurious   int // Sets repeated because of spuriousUnusedBranchError
	leafChecks int // reads of covered leaf requests compared with the written value
	multi      bool
	nested     bool
	disagree   bool
	phOrder    bool // input class of the known finding placeholder-instance-written-after-nested-path
}

func runStep(vs viewSpec, view *registry.View, before string, o op) stepResult {
	var res stepResult
	refBag := decode(before)
	add := func(k, m string) { res.viols = append(res.viols, viol{key: k, msg: m}) }

	if o.Kind == "get" {
		exp := refGet(vs, refBag, o.Req)
		rb := &recBag{JSONDataBag: bagFrom(before)}
		got, err := view.Get(rb, o.Req)
		res.class = "get:" + classify(err)
		res.after = before
		if after := bagJSON(rb.JSONDataBag); after != before {
			add("get-changed-bag:"+o.String(), fmt.Sprintf("Get changed the databag: %s -> %s", before, after))
		}
		if len(rb.writes) != 0 {
			add("get-wrote:"+o.String(), fmt.Sprintf("Get wrote to %v", rb.writes))
		}
		var allowed [][]string
		for _, m := range refMatchRules(vs, o.Req, readable) {
			allowed = append(allowed, m.sto)
		}
		if o.Req == "" || validRequest(o.Req) {
			for _, p := range rb.reads {
				if !pathAllowed(p, allowed) {
					add("read-outside-readable-rules:"+o.String(), fmt.Sprintf("Get(%q) read storage path %q; readable rules map the request to %v", o.Req, p, allowed))
				}
			}
		}
		switch exp.Class {
		case "ok":
			if err != nil || canon(norm(got)) != canon(exp.Val) {
				add("get-value:"+o.String(), fmt.Sprintf("Get(%q) on %s = %s, err=%v; expected %s", o.Req, before, canon(got), err, canon(exp.Val)))
			}
		case "storage-error":
			if err == nil {
				add("get-value:"+o.String(), fmt.Sprintf("Get(%q) on %s = %s; expected an error (a readable path runs through a scalar)", o.Req, before, canon(got)))
			}
		default:
			if classify(err) != exp.Class {
				add("get-error-class:"+o.String(), fmt.Sprintf("Get(%q) on %s: got %s (%v, value %s), expected %s", o.Req, before, classify(err), err, canon(got), exp.Class))
			}
		}
		// the same through a transaction (reads go to the pristine bag)
		stored := bagFrom(before)
		tx, terr := registry.NewTransaction(view.Registry(), func() (registry.JSONDataBag, error) { return stored, nil }, func(b registry.JSONDataBag) error { stored = b; return nil })
		if terr != nil {
			add("tx-new", terr.Error())
			return res
		}
		got2, err2 := view.Get(tx, o.Req)
		if classify(err2) != classify(err) || canon(norm(got2)) != canon(norm(got)) {
			add("get-tx-differs:"+o.String(), fmt.Sprintf("Get(%q) through a transaction = %s/%v, directly = %s/%v", o.Req, canon(got2), err2, canon(got), err))
		}
		return res
	}

	exp, allowed := refWrite(vs, refBag, o)
	expAfter := before
	if exp.Class == "ok" {
		expAfter = canon(refBag)
	}
	var leaves []leafExp
	if o.Kind == "set" {
		res.multi, res.nested, res.disagree, res.phOrder = nestShape(vs, o)
		leaves = coveredLeaves(vs, o)
		if res.phOrder && os.Getenv("VERIF_C30_NOCLASS") == "" { // (the variable is a development aid: report per input)
			// known class: every violation of such a Set is reported under one key
			defer func() {
				for i := range res.viols {
					res.viols[i].msg = "[" + res.viols[i].key + "] " + res.viols[i].msg
					res.viols[i].key, res.viols[i].class = phOrderKey, true
				}
			}()
		}
	}
	// the statement's read-after-write clause for every leaf request the Set covers
	chkLeaves := func(what string, bag registry.DataBag) {
		for _, l := range leaves {
			res.leafChecks++
			v, e := view.Get(bag, l.req)
			if e != nil || canon(norm(v)) != canon(l.val) {
				add("leaf-read-after-write:"+o.String(), fmt.Sprintf("%s: Get(%q) after successful %s on %s = %s, err=%v; the value written through the read-write rule for %q is %s", what, l.req, o, before, canon(v), e, l.req, canon(l.val)))
			}
		}
	}

	// (a) directly on a recording copy of the bag
	rb := &recBag{JSONDataBag: bagFrom(before)}
	var err error
	if o.Kind == "set" {
		err = view.Set(rb, o.Req, deepCopy(o.Val))
		for try := 0; spuriousUnusedBranchError(err) && exp.Class != "bad-request" && try < spuriousRetries; try++ {
			// see spuriousUnusedBranchError: depends on Go's map iteration order; nothing was written yet
			if after := bagJSON(rb.JSONDataBag); after != before {
				add("rejected-write-changed-bag:"+o.String(), fmt.Sprintf("%s on %s failed (%v) but the bag is now %s", o, before, err, after))
			}
			res.spurious++
			rb = &recBag{JSONDataBag: bagFrom(before)}
			err = view.Set(rb, o.Req, deepCopy(o.Val))
		}
	} else {
		err = view.Unset(rb, o.Req)
	}
	rawAfter := bagJSON(rb.JSONDataBag)
	for _, p := range append(append([]string(nil), rb.writes...), rb.reads...) {
		if !pathAllowed(p, expandAllowed(allowed, o)) {
			add("write-outside-writable-rules:"+o.String(), fmt.Sprintf("%s touched storage path %q; writable rules map the request to %v", o, p, allowed))
		}
	}
	var ch [][]string
	changedPaths(decode(before), decode(rawAfter), nil, &ch)
	for _, p := range ch {
		if !underAllowed(p, allowed) {
			add("data-changed-outside-writable-rules:"+o.String(), fmt.Sprintf("%s on %s changed %v (-> %s); writable rules map the request to %v", o, before, p, rawAfter, allowed))
		}
	}
	got := classify(err)
	if err == nil {
		chkLeaves("bare databag", bagFrom(rawAfter))
	}
	if err != nil && rawAfter != before {
		if got == "schema" {
			res.rawPartial = true // View.Set on a bare bag validates after writing; classified separately (DESIGN C30)
		} else if got == "other-error" && exp.Class == "storage-error" {
			// likewise: a request that maps to several storage paths stops at the first path that runs through a
			// scalar, the earlier paths are written/removed already; not one of the statement's rejections
			res.rawPartial = true
		} else {
			add("rejected-write-changed-bag:"+o.String(), fmt.Sprintf("%s on %s failed (%v) but the bag is now %s", o, before, err, rawAfter))
		}
	}

	// (b) as the system does it: transaction, view operation, commit
	stored := bagFrom(before)
	tx, terr := registry.NewTransaction(view.Registry(), func() (registry.JSONDataBag, error) { return stored, nil }, func(b registry.JSONDataBag) error { stored = b; return nil })
	if terr != nil {
		add("tx-new", terr.Error())
		return res
	}
	var err2 error
	if o.Kind == "set" {
		err2 = view.Set(tx, o.Req, deepCopy(o.Val))
		for try := 0; spuriousUnusedBranchError(err2) && exp.Class != "bad-request" && try < spuriousRetries; try++ {
			res.spurious++
			err2 = view.Set(tx, o.Req, deepCopy(o.Val))
		}
	} else {
		err2 = view.Unset(tx, o.Req)
	}
	var readBack interface{}
	var readErr error
	if err2 == nil {
		readBack, readErr = view.Get(tx, o.Req) // uncommitted read-your-write
		chkLeaves("uncommitted transaction", tx)
		err2 = tx.Commit()
	}
	txAfter := bagJSON(stored)
	if err2 == nil {
		chkLeaves("committed transaction", bagFrom(txAfter))
	}
	res.after = txAfter
	gotTx := classify(err2)
	res.class = o.Kind + ":" + gotTx
	if err2 != nil && txAfter != before {
		add("rejected-write-changed-stored-bag:"+o.String(), fmt.Sprintf("%s on %s failed (%v) but the stored bag is now %s", o, before, err2, txAfter))
	}
	switch exp.Class {
	case "ok":
		if err2 != nil || txAfter != expAfter {
			add("write-result:"+o.String(), fmt.Sprintf("%s on %s: stored bag %s, err=%v; expected %s", o, before, txAfter, err2, expAfter))
		}
		if err == nil && rawAfter != expAfter {
			add("write-result-direct:"+o.String(), fmt.Sprintf("%s on %s directly: bag %s; expected %s", o, before, rawAfter, expAfter))
		}
	case "storage-error":
		if err2 == nil {
			add("write-result:"+o.String(), fmt.Sprintf("%s on %s succeeded (-> %s); expected a storage error", o, before, txAfter))
		}
	default:
		if gotTx != exp.Class {
			add("write-error-class:"+o.String(), fmt.Sprintf("%s on %s: got %s (%v), expected %s", o, before, gotTx, err2, exp.Class))
		}
		if got != exp.Class {
			add("write-error-class-direct:"+o.String(), fmt.Sprintf("%s on %s directly: got %s (%v), expected %s", o, before, got, err, exp.Class))
		}
	}
	// a read after a successful write returns what the readable rules show of the new data; through
	// read-write rules only, that is the written value
	if err2 == nil && exp.Class == "ok" {
		want := refGet(vs, decode(expAfter), o.Req)
		chk := func(what string, v interface{}, e error) {
			switch want.Class {
			case "ok":
				if e != nil || canon(norm(v)) != canon(want.Val) {
					add("read-after-write:"+o.String(), fmt.Sprintf("%s after %s on %s = %s, err=%v; expected %s", what, o, before, canon(v), e, canon(want.Val)))
				}
			case "storage-error":
			default:
				if classify(e) != want.Class {
					add("read-after-write:"+o.String(), fmt.Sprintf("%s after %s on %s: %s/%v; expected %s", what, o, before, canon(v), e, want.Class))
				}
			}
		}
		chk("uncommitted Get", readBack, readErr)
		v2, e2 := view.Get(bagFrom(txAfter), o.Req)
		chk("Get", v2, e2)
		// ... and the same for the request of every rule instance the Set covers
		if ws, ok := covered(vs, o); ok && o.Kind == "set" {
			done := map[string]bool{o.Req: true}
			for _, w := range ws {
				req := strings.Join(w.req, ".")
				if done[req] {
					continue
				}
				done[req] = true
				want = refGet(vs, decode(expAfter), req)
				v, e := view.Get(bagFrom(txAfter), req)
				chk(fmt.Sprintf("Get(%q)", req), v, e)
			}
		}
		if m, isMap := o.Val.(M); o.Kind == "set" && allReadWrite(vs, o.Req) && !(isMap && len(m) == 0) && aliasFree(vs, o, decode(before)) {
			// the statement's own wording, independent of the reference evaluator
			if v3, e3 := view.Get(bagFrom(txAfter), o.Req); e3 != nil || canon(norm(v3)) != canon(dropNils(norm(o.Val))) {
				add("read-after-read-write-set-differs:"+o.String(), fmt.Sprintf("Get after successful %s through read-write rules on %s = %s, err=%v", o, before, canon(v3), e3))
			}
		}
	}
	return res
}

// spuriousUnusedBranchError: View.Set checks that the value is used entirely by pruning the unmatched suffix
// of every matched rule from a copy of the value, in Go map iteration order (checkForUnusedBranches). When one
// suffix extends another (pre.a and pre.a.u under a Set of "pre") and the value has a further branch, pruning
// "a" before "a.u" (or "a.u" first when it is all that "a" holds) leaves nothing for the second and the Set is
// rejected as a bad request ("cannot use unmatched part ... shouldn't happen"); in another iteration order the
// same Set succeeds. The rejection happens before anything is written. It is not one of the statement's
// clauses (a spurious rejection changes nothing), so the harness repeats such a Set to get the deterministic
// outcome and counts the repetitions (spurious_bad_request_repeated_informational).
func spuriousUnusedBranchError(err error) bool {
	return err != nil && errors.Is(err, &registry.BadRequestError{}) && strings.Contains(err.Error(), "cannot use unmatched part") && strings.Contains(err.Error(), "as key in <nil>")
}

const spuriousRetries = 300 // a single try fails with probability of up to about 3/4

// expandAllowed: for a Set, an unbound placeholder of an allowed storage path is filled from the keys of the value
func expandAllowed(allowed [][]string, o op) [][]string { return allowed }

// allReadWrite: every rule the request matches (exactly or as a prefix) is read-write
func allReadWrite(v viewSpec, req string) bool {
	all := refMatchRules(v, req, func(string) bool { return true })
	for _, m := range all {
		if m.rule.Access != "read-write" {
			return false
		}
	}
	return len(all) > 0
}

const populated = `{"p":{"x":{"hid":0,"v":0},"y":{"v":0}},"s":{"hidden":0,"lit":0,"lit2":0,"n":{"in":0,"other":0},"one":0,"two":0},"z":0}`

// ---------------------------------------------------------------------------------------------
// part 2: two transactions

type txStep struct {
	Tx int `json:"tx"`
	Op *op `json:"op,omitempty"` // nil = commit
}

type txCase struct {
	Part  string   `json:"part"`
	Start string   `json:"start"`
	Steps []txStep `json:"steps"`
}

var txView = viewSpec{Rules: []ruleT{{"lit", "s.lit", "read-write"}, {"top.one", "s.one", "read-write"}, {"top.two", "s.two", "read-write"},
	{"ph.{k}", "p.{k}.v", "read-write"}, {"n", "s.n", "read-write"}, {"n.in", "s.n.in", "read-write"}, {"wo", "s.wo", "write"},
	// two rules one Set on "sys" writes, the rule with the nested storage path has the request that sorts first
	{"sys.hostname", "t.hostname", "read-write"}, {"sys.settings", "t", "read-write"}}}

func txOps(tag int, full bool) []op {
	if !full {
		// unrelated (lit / top.one), overlapping (n / n.in / unset n) and a commit the schema rejects
		return []op{
			{Kind: "set", Req: "lit", Val: 10 + tag}, {Kind: "set", Req: "top.one", Val: 20 + tag}, {Kind: "set", Req: "n", Val: M{"in": 50 + tag}},
			{Kind: "set", Req: "n.in", Val: 60 + tag}, {Kind: "unset", Req: "n"}, {Kind: "set", Req: "top.two", Val: 3},
			{Kind: "set", Req: "sys", Val: M{"settings": M{"x": 80 + tag}, "hostname": 90 + tag}},
		}
	}
	return []op{
		{Kind: "set", Req: "lit", Val: 10 + tag}, {Kind: "set", Req: "top.one", Val: 20 + tag}, {Kind: "set", Req: "top.two", Val: 30 + tag},
		{Kind: "set", Req: "ph.x", Val: 40 + tag}, {Kind: "set", Req: "n", Val: M{"in": 50 + tag}}, {Kind: "set", Req: "n.in", Val: 60 + tag},
		{Kind: "set", Req: "wo", Val: 70 + tag}, {Kind: "unset", Req: "lit"}, {Kind: "unset", Req: "n"}, {Kind: "set", Req: "top.two", Val: 3},
		{Kind: "set", Req: "sys", Val: M{"settings": M{"x": 80 + tag}, "hostname": 90 + tag}}, {Kind: "set", Req: "sys.hostname", Val: 95 + tag},
	}
}

func runTxCase(view *registry.View, c txCase) []viol {
	var vs []viol
	add := func(k, m string) { vs = append(vs, viol{key: k, msg: m}) }
	stored := bagFrom(c.Start)
	read := func() (registry.JSONDataBag, error) { return stored, nil }
	write := func(b registry.JSONDataBag) error { stored = b; return nil }
	var txs [2]*registry.Transaction
	var snap [2]M       // reference: committed data as of the creation of the transaction
	var pending [2][]op // reference: own writes not yet committed
	refStored := decode(c.Start)
	for i := range txs {
		t, err := registry.NewTransaction(view.Registry(), read, write)
		if err != nil {
			return []viol{{key: "tx-new", msg: err.Error()}}
		}
		txs[i] = t
		snap[i] = decode(c.Start)
	}
	desc := func() string {
		var l []string
		for _, s := range c.Steps {
			if s.Op == nil {
				l = append(l, fmt.Sprintf("t%d.commit", s.Tx))
			} else {
				l = append(l, fmt.Sprintf("t%d.%s", s.Tx, s.Op))
			}
		}
		return strings.Join(l, " ")
	}
	for _, s := range c.Steps {
		t := txs[s.Tx]
		if s.Op != nil {
			var err error
			if s.Op.Kind == "set" {
				err = view.Set(t, s.Op.Req, deepCopy(s.Op.Val))
			} else {
				err = view.Unset(t, s.Op.Req)
			}
			if err != nil {
				add("tx-op-failed", fmt.Sprintf("%s failed in [%s]: %v", s.Op, desc(), err))
				continue
			}
			pending[s.Tx] = append(pending[s.Tx], *s.Op)
		} else {
			before := bagJSON(stored)
			err := t.Commit()
			// reference: the writes of this transaction applied, in order, to what is stored now
			exp := M(deepCopy(refStored).(M))
			for _, o := range pending[s.Tx] {
				refWrite(txView, exp, o)
			}
			if refSchemaRejects(exp) {
				if err == nil {
					add("tx-commit-schema", fmt.Sprintf("commit of t%d in [%s] succeeded although the result violates the schema", s.Tx, desc()))
				}
				if got := bagJSON(stored); got != before {
					add("tx-failed-commit-changed-stored", fmt.Sprintf("failed commit of t%d in [%s] changed the stored bag %s -> %s", s.Tx, desc(), before, got))
				}
				continue
			}
			if err != nil {
				add("tx-commit-failed", fmt.Sprintf("commit of t%d in [%s]: %v", s.Tx, desc(), err))
				continue
			}
			refStored = exp
			if got := bagJSON(stored); got != canon(refStored) {
				add("tx-commit-result", fmt.Sprintf("after commit of t%d in [%s] the stored bag is %s; expected (writes applied in commit order to the latest stored data) %s", s.Tx, desc(), got, canon(refStored)))
			}
			pending[s.Tx] = nil
			snap[s.Tx] = M(deepCopy(refStored).(M))
		}
		// isolation + read-your-writes: every transaction sees its snapshot plus its own pending writes
		for i, tx := range txs {
			view1 := M(deepCopy(snap[i]).(M))
			for _, o := range pending[i] {
				refWrite(txView, view1, o)
			}
			for _, req := range []string{"", "n.in", "sys.hostname"} { // "" reads everything the view can read
				want := refGet(txView, view1, req)
				got, err := view.Get(tx, req)
				switch want.Class {
				case "ok":
					if err != nil || canon(norm(got)) != canon(want.Val) {
						add("tx-read", fmt.Sprintf("t%d.Get(%s) after [%s up to %v] = %s/%v; expected %s", i, req, desc(), s, canon(got), err, canon(want.Val)))
					}
				case "not-found":
					if classify(err) != "not-found" {
						add("tx-read", fmt.Sprintf("t%d.Get(%s) after [%s up to %v] = %s/%v; expected not found", i, req, desc(), s, canon(got), err))
					}
				}
			}
		}
	}
	return vs
}

// partTimeUp: the view part may use this fraction of the soft budget, the rest is for the transactions
// soft budgets (never an oracle): generous, the shared machine is at times 15x oversubscribed
const quickBudget, thoroughBudget = 15 * time.Minute, 90 * time.Minute

// onlyPart: development aid, VERIF_C30_ONLY=state|main|nest|tx runs one part (the evidence then says exhaustive:false)
func skipPart(r *eng.Run, part string) bool {
	only := os.Getenv("VERIF_C30_ONLY")
	if only == "" || only == part {
		return false
	}
	r.Cap("parts", "VERIF_C30_ONLY="+only)
	return true
}

func partTimeUp(r *eng.Run, frac float64) bool {
	budget := quickBudget.Seconds()
	if r.Thorough() {
		budget = thoroughBudget.Seconds()
	}
	if b := os.Getenv("VERIF_BUDGET_S"); b != "" {
		fmt.Sscanf(b, "%f", &budget)
	}
	return r.Elapsed().Seconds() > frac*budget
}

// earlyStop: in --mutants / --patch runs (no evidence is written) one violation is all that is asked for
func earlyStop(r *eng.Run) bool {
	return os.Getenv("VERIF_NO_EVIDENCE") != "" && r.NumViolations() > 0
}

func interleavings(n0, n1 int) [][]int {
	var res [][]int
	var rec func(a, b int, cur []int)
	rec = func(a, b int, cur []int) {
		if a == n0 && b == n1 {
			res = append(res, append([]int(nil), cur...))
			return
		}
		if a < n0 {
			rec(a+1, b, append(cur, 0))
		}
		if b < n1 {
			rec(a, b+1, append(cur, 1))
		}
	}
	rec(0, 0, nil)
	return res
}

type viewCounters struct {
	evals, nontriv, states, transitions, rawPartial, rejected int64
	multi, nested, disagree, leafChecks, spurious, phOrder    int64
	maxOps                                                    int64
}

// exploreViews: for every view, breadth-first over the stored-bag states reachable from the start bags,
// every operation of the view's alphabet in every state up to the depth.
func exploreViews(r *eng.Run, views []viewSpec, opsFor func(viewSpec) []op, starts []string, depth int) *viewCounters {
	c := &viewCounters{}
	eng.ParallelFor(len(views), func(vi int) {
		vs := views[vi]
		ops := opsFor(vs)
		view, err := vs.build(rejectSchema{})
		if err != nil {
			eng.HarnessError("view %s does not build: %v", vs.short(), err)
		}
		type st struct {
			bag  string
			path []op
			from string
		}
		seen := map[string]bool{}
		var frontier []st
		for _, s0 := range starts {
			s0 = canon(norm(json.RawMessage(s0)))
			seen[s0] = true
			frontier = append(frontier, st{bag: s0, from: s0})
		}
		var ev, nt, tr, rp, rj, mu, ne, di, lc, sp, po int64
		for d := 0; d < depth && len(frontier) > 0; d++ {
			var next []st
			for _, s := range frontier {
				if partTimeUp(r, 0.7) {
					r.Cap("time", fmt.Sprintf("view exploration stopped at depth %d", d+1))
					frontier, next = nil, nil
					break
				}
				for _, o := range ops {
					res := runStep(vs, view, s.bag, o)
					ev++
					tr++
					r.Distinct("outcome", res.class)
					if res.rawPartial {
						rp++
					}
					if o.Kind != "get" && !strings.HasSuffix(res.class, ":ok") {
						rj++
					}
					lc += int64(res.leafChecks)
					sp += int64(res.spurious)
					if strings.HasSuffix(res.class, ":ok") {
						if res.multi {
							mu++
						}
						if res.nested {
							ne++
						}
						if res.disagree {
							di++
						}
						if res.phOrder {
							po++
						}
					}
					// non-trivial: a write that matched rules of mixed access, or any rejected write on a non-empty bag
					if o.Kind != "get" && (len(refMatchRules(vs, o.Req, func(string) bool { return true })) != len(refMatchRules(vs, o.Req, writeable)) || (!strings.HasSuffix(res.class, ":ok") && s.bag != "{}")) {
						nt++
					}
					if len(res.viols) > 0 {
						seq := append(append([]op(nil), s.path...), o)
						for _, v := range res.viols {
							key := v.key + "@" + vs.short()
							if v.class {
								key = v.key
							}
							r.Violation(key, v.msg+" | view "+vs.short(), viewCase{Part: "view", View: vs, Start: s.from, Seq: seq})
						}
					}
					if !seen[res.after] {
						seen[res.after] = true
						next = append(next, st{bag: res.after, path: append(append([]op(nil), s.path...), o), from: s.from})
					}
				}
			}
			frontier = next
			if earlyStop(r) {
				break
			}
		}
		atomic.AddInt64(&c.evals, ev)
		atomic.AddInt64(&c.nontriv, nt)
		atomic.AddInt64(&c.transitions, tr)
		atomic.AddInt64(&c.states, int64(len(seen)))
		atomic.AddInt64(&c.rawPartial, rp)
		atomic.AddInt64(&c.rejected, rj)
		atomic.AddInt64(&c.multi, mu)
		atomic.AddInt64(&c.nested, ne)
		atomic.AddInt64(&c.disagree, di)
		atomic.AddInt64(&c.leafChecks, lc)
		atomic.AddInt64(&c.spurious, sp)
		atomic.AddInt64(&c.phOrder, po)
		for {
			old := atomic.LoadInt64(&c.maxOps)
			if int64(len(ops)) <= old || atomic.CompareAndSwapInt64(&c.maxOps, old, int64(len(ops))) {
				break
			}
		}
		if vi == len(views)/2 {
			r.Sample(map[string]interface{}{"view": vs.short(), "states": len(seen), "ops": len(ops)})
		}
	})
	return c
}

// ---------------------------------------------------------------------------------------------

func TestVerifC30(t *testing.T) {
	debug.SetGCPercent(400) // many short-lived JSON values on 16 workers: the collector otherwise takes a third of the CPU
	r := eng.Start("C30", "model_checking", quickBudget, thoroughBudget)
	r.Assume("reference evaluator over nested maps (matching by exact/prefix request with placeholders, access filter, value layering, unused branches, storage = nested maps where writes create levels and replace scalars in the way)",
		"the schema violation of the space is a Schema implementation that rejects s.two == 3 and t.u == 3",
		"a Set that View.Set rejects at random (checkForUnusedBranches prunes request suffixes in map iteration order) is repeated until it gives its deterministic outcome",
		"the stored databag is a JSONDataBag behind read/write closures, as overlord/registrystate hands it to registry.NewTransaction")

	if rc := r.ReplayCase(); rc != nil {
		var probe struct {
			Part string `json:"part"`
		}
		json.Unmarshal(rc, &probe)
		if probe.Part == "state" {
			var c stCase
			json.Unmarshal(rc, &c)
			replayStateCase(r, c)
		} else if probe.Part == "tx" {
			var c txCase
			json.Unmarshal(rc, &c)
			view, err := txView.build(rejectSchema{})
			if err != nil {
				eng.HarnessError("%v", err)
			}
			for _, v := range runTxCase(view, c) {
				fmt.Printf("VIOLATED %s: %s\n", v.key, v.msg)
				r.Violation(v.key, v.msg, c)
			}
		} else {
			var c viewCase
			json.Unmarshal(rc, &c)
			view, err := c.View.build(rejectSchema{})
			if err != nil {
				eng.HarnessError("%v", err)
			}
			state := c.Start
			for i, o := range c.Seq {
				res := runStep(c.View, view, state, o)
				fmt.Printf("step %d: %s on %s -> %s [%s]\n", i+1, o, state, res.after, res.class)
				if i == len(c.Seq)-1 {
					for _, v := range res.viols {
						fmt.Printf("VIOLATED %s: %s\n", v.key, v.msg)
						r.Violation(v.key, v.msg, c)
					}
				}
				state = res.after
			}
		}
		r.Finish("replay")
	}

	// part 3 first (small)
	if !skipPart(r, "state") {
		runStatePart(r)
	}

	depth := r.Pick(2, 3)
	mainOps := allOps()
	tView := time.Now()
	mainC := &viewCounters{}
	if !skipPart(r, "main") {
		mainC = exploreViews(r, allViews(), func(viewSpec) []op { return mainOps }, []string{"{}", populated}, depth)
	}
	r.Info("wall_s_main_views", int(time.Since(tView).Seconds()))
	tView = time.Now()
	nViews := nestViews(r.Thorough())
	nestC := &viewCounters{}
	if !skipPart(r, "nest") {
		nestC = exploreViews(r, nViews, nestOps, []string{"{}", nestPopulated}, depth)
	}
	r.Info("wall_s_nest_views", int(time.Since(tView).Seconds()))
	evals := mainC.evals + nestC.evals
	nontriv := mainC.nontriv + nestC.nontriv
	states := mainC.states + nestC.states
	transitions := mainC.transitions + nestC.transitions
	r.Add("view_operation_evaluations", evals)
	r.Add("nest_family_operation_evaluations", nestC.evals)
	r.Add("rejected_writes_checked_for_unchanged_bag", mainC.rejected+nestC.rejected)
	r.Add("raw_bag_partial_write_on_schema_error_informational", mainC.rawPartial+nestC.rawPartial)
	r.Add("sets_writing_several_rules", mainC.multi+nestC.multi)
	r.Add("sets_writing_nested_storage_paths", mainC.nested+nestC.nested)
	r.Add("sets_writing_nested_storage_paths_request_order_opposite", mainC.disagree+nestC.disagree)
	r.Add("covered_leaf_reads_compared_with_written_value", mainC.leafChecks+nestC.leafChecks)
	r.Add("sets_in_the_input_class_reported_under_one_key", mainC.phOrder+nestC.phOrder)
	if mainC.spurious+nestC.spurious > 0 {
		r.Info("spurious_bad_request_seen", true) // the count depends on map iteration order, so it is not a counter
	}
	views := append(allViews(), nViews...)
	ops := mainOps
	if !earlyStop(r) && !skipPart(r, "nest") && !partTimeUp(r, 0.7) && (nestC.nested < 2 || nestC.disagree < 2 || nestC.leafChecks < 2) {
		eng.HarnessError("nest family is vacuous: %+v", nestC)
	}

	// part 2
	view, err := txView.build(rejectSchema{})
	if err != nil {
		eng.HarnessError("%v", err)
	}
	maxOps := r.Pick(2, 2)
	var lists [2][][]op
	for tx := 0; tx < 2; tx++ {
		o := txOps(tx+1, r.Thorough())
		lists[tx] = append(lists[tx], nil)
		for _, a := range o {
			lists[tx] = append(lists[tx], []op{a})
			if maxOps >= 2 {
				for _, b := range o {
					lists[tx] = append(lists[tx], []op{a, b})
				}
			}
		}
	}
	// a programme is what one transaction does, in its order: operations and commits (nil)
	type txProg []*op
	progOf := func(segments ...[]op) txProg {
		var p txProg
		for _, seg := range segments {
			for i := range seg {
				p = append(p, &seg[i])
			}
			p = append(p, nil) // every segment ends in a commit
		}
		return p
	}
	type txItem struct {
		progs [2]txProg
		reuse bool
	}
	var items []txItem
	// family (b), reuse (first: it is the small one): one transaction is used on after its own commit - two segments of <= 1 operation, each
	// ended by a commit ([C C] [a C C] [C b C] [a C b C]) - while the other one does <= 1 operation and commits;
	// both role assignments. The reference is the same: a successful commit empties the pending writes of the
	// transaction and moves its snapshot to what it stored.
	var shortLists [2][][]op
	for tx := 0; tx < 2; tx++ {
		for _, l := range lists[tx] {
			if len(l) <= 1 {
				shortLists[tx] = append(shortLists[tx], l)
			}
		}
	}
	for reused := 0; reused < 2; reused++ {
		for _, s1 := range shortLists[reused] {
			for _, s2 := range shortLists[reused] {
				for _, lo := range shortLists[1-reused] {
					var it txItem
					it.reuse = true
					it.progs[reused] = progOf(s1, s2)
					it.progs[1-reused] = progOf(lo)
					items = append(items, it)
				}
			}
		}
	}
	// family (a): every transaction commits once, after <= maxOps operations. One work item per pair of
	// operation lists (the items differ a lot in size)
	for _, l0 := range lists[0] {
		for _, l1 := range lists[1] {
			items = append(items, txItem{progs: [2]txProg{progOf(l0), progOf(l1)}})
		}
	}
	var txEvals, txNontriv, txReuse, txReuseBetween int64
	tTx := time.Now()
	starts := []string{"{}", canon(norm(json.RawMessage(populated)))}
	eng.ParallelFor(len(items), func(i int) {
		it := items[i]
		if skipPart(r, "tx") {
			return
		}
		var ev, nt, ru, rb int64
		if earlyStop(r) {
			return
		}
		if r.TimeUp() {
			r.Cap("time_transactions", "not all pairs of transaction programmes were interleaved")
			return
		}
		writes := func(p txProg) (n int) {
			for _, o := range p {
				if o != nil {
					n++
				}
			}
			return n
		}
		for _, il := range interleavings(len(it.progs[0]), len(it.progs[1])) {
			// between: a transaction writes after its own commit and the other one commits a write in between
			// that commit and the next one of the first (the schedule on which writes that were already
			// committed must not be applied a second time)
			between := false
			if it.reuse {
				var commits, opsSinceCommit [2]int
				var otherWroteSince [2]bool // [i]: the other transaction committed a write since i's last commit
				idx := [2]int{}
				for _, who := range il {
					if it.progs[who][idx[who]] != nil {
						opsSinceCommit[who]++
					} else {
						if commits[who] > 0 && opsSinceCommit[who] > 0 && otherWroteSince[who] {
							between = true
						}
						if opsSinceCommit[who] > 0 {
							otherWroteSince[1-who] = true
						}
						otherWroteSince[who] = false
						commits[who]++
						opsSinceCommit[who] = 0
					}
					idx[who]++
				}
			}
			for _, start := range starts {
				c := txCase{Part: "tx", Start: start}
				idx := [2]int{}
				for _, who := range il {
					c.Steps = append(c.Steps, txStep{Tx: who, Op: it.progs[who][idx[who]]})
					idx[who]++
				}
				ev++
				if it.reuse {
					ru++
					if between {
						rb++
						nt++
					}
				} else if writes(it.progs[0]) > 0 && writes(it.progs[1]) > 0 {
					nt++
				}
				for _, v := range runTxCase(view, c) {
					r.Violation(v.key, v.msg, c)
				}
			}
		}
		atomic.AddInt64(&txEvals, ev)
		atomic.AddInt64(&txNontriv, nt)
		atomic.AddInt64(&txReuse, ru)
		atomic.AddInt64(&txReuseBetween, rb)
	})
	if !earlyStop(r) && !skipPart(r, "tx") && !r.TimeUp() && txReuseBetween < 2 {
		eng.HarnessError("transaction reuse family is vacuous: %d interleavings, %d with a foreign commit between two commits of one transaction", txReuse, txReuseBetween)
	}
	r.Info("wall_s_transactions", int(time.Since(tTx).Seconds()))
	r.Add("transaction_interleavings", txEvals)
	r.Add("transaction_reuse_interleavings", txReuse)
	r.Add("transaction_reuse_foreign_commit_between_own_commits", txReuseBetween)
	r.Add("evaluations", evals+txEvals)
	r.Add("distinct_nontrivial", nontriv+txNontriv)
	r.Add("states", states)
	r.Add("transitions", transitions+txEvals)
	r.Add("traces_validated_against_impl", transitions+txEvals)
	r.Info("bounds", map[string]interface{}{"views": len(views), "nest_views": len(nViews), "operations": len(ops), "nest_operations_max": nestC.maxOps, "depth": depth, "initial_bags": 2, "tx_op_lists_per_transaction": len(lists[0]), "tx_max_ops": maxOps, "tx_programme_pairs": len(items), "tx_reuse_segments": 2, "tx_reuse_max_ops_per_segment": 1})
	r.Sample(txCase{Part: "tx", Start: "{}", Steps: []txStep{{Tx: 0, Op: &op{Kind: "set", Req: "lit", Val: 11}}, {Tx: 1, Op: &op{Kind: "set", Req: "top.one", Val: 22}}, {Tx: 1}, {Tx: 0}}})
	r.Finish("views: every view of the main family and of the nest family (2-3 rules under one request prefix, every injective assignment to nested/sibling/unrelated storage paths, placeholder next to literal) x breadth-first over stored-bag states (dedup on the canonical JSON of the bag) from an empty and a populated bag, every operation of the alphabet in every state up to the depth; each operation runs directly on a recording bag and through Transaction+Commit and is compared with the reference (result, error class, touched storage paths, changed data, unchanged bag on rejection, read after write of the request and of every rule instance the Set covers; independently of the reference: Get of every covered leaf request returns exactly the part of the value written for it). transactions: every pair of operation lists (<= tx_max_ops each, one commit each) x every interleaving of operations and commits x 2 initial bags; reuse: one transaction runs two segments of <= 1 operation each ended by a commit (it is used on after its own commit), the other <= 1 operation and a commit, both role assignments x every interleaving x 2 initial bags. distinct_nontrivial = writes matching rules of mixed access or rejected on a non-empty bag, plus interleavings where both transactions write, plus reuse interleavings where a transaction writes after its own commit and the other one commits a write between that commit and its next one")
}
