// C29 — config transactions: isolated, read-your-writes, no lost updates; revision snapshots restore what was saved.
//
// Bounded exhaustive exploration (breadth first, exact-state dedup) of every interleaving of the operations of
// 2–3 configuration transactions (Set / read-everything / Commit) and of Save/Restore/DiscardRevisionConfig on one
// real state.State, over one or two snaps ("core" and "s": the same colliding option paths in both, so that every
// cross-snap mix-up is observable). Operations are atomic under the state lock, so the interleavings of operations
// are the whole schedule space. After every operation the complete observable behaviour (every Get of every transaction that has
// begun, the committed configuration, the revision snapshots) is compared with a nested-map reference.
//
// In-package (package config) so that the canonical state key can be the exact internal state of each
// Transaction (pristine + changes), and so that "a failed Set / a Get changes nothing" can be checked directly.
package config

import (
	"bytes"
	"crypto/sha256"
	"encoding/json"
	"fmt"
	"runtime/debug"
	"sort"
	"strings"
	"sync"
	"sync/atomic"
	"testing"
	"time"

	"github.com/snapcore/snapd/overlord/state"
	"github.com/snapcore/snapd/snap"
	eng "github.com/snapcore/snapd/verifengine"
)

const c29Snap = "s" // the snap of single-snap spaces (and of operations recorded without a snap)

var c29TwoSnaps = []string{"core", "s"}

var c29AllKeys = []string{"a", "a.b", "a.b.c", "d"}

// values written by transaction i are tagged with i so that "whose write survived" is observable
func c29Value(v, tx int) interface{} {
	switch v {
	case 0:
		return 10 + tx
	case 1:
		return nil
	case 2:
		return map[string]interface{}{"b": 20 + tx}
	case 3:
		return map[string]interface{}{"b": map[string]interface{}{"c": 30 + tx}}
	case 4:
		return "s"
	}
	panic("bad value index")
}

var c29ValueNames = []string{"N", "null", "{b:N}", "{b:{c:N}}", "\"s\""}

const (
	c29Set     = "set"
	c29ReadAll = "read" // Get of every key (begins the transaction if it is its first operation)
	c29Commit  = "commit"
	c29Save    = "save"
	c29Restore = "restore"
	c29Discard = "discard"
	c29Delete  = "delete" // environment event "the snap was removed": DeleteSnapConfig(snap), by anyone, no transaction involved
)

type c29Op struct {
	Op   string `json:"op"`
	Tx   int    `json:"tx,omitempty"`
	Snap string `json:"snap,omitempty"` // set and revision operations; "" = c29Snap
	Key  string `json:"key,omitempty"`
	Val  int    `json:"val,omitempty"`
	Rev  int    `json:"rev,omitempty"`
}

func (o c29Op) snap() string {
	if o.Snap == "" {
		return c29Snap
	}
	return o.Snap
}

func (o c29Op) String() string {
	switch o.Op {
	case c29Set:
		return fmt.Sprintf("T%d.set(%s:%s=%s)", o.Tx, o.snap(), o.Key, eng.JSON(c29Value(o.Val, o.Tx)))
	case c29ReadAll:
		return fmt.Sprintf("T%d.read", o.Tx)
	case c29Commit:
		return fmt.Sprintf("T%d.commit", o.Tx)
	case c29Delete:
		return fmt.Sprintf("delete(%s)", o.snap())
	}
	return fmt.Sprintf("%s(%s,%d)", o.Op, o.snap(), o.Rev)
}

type c29Case struct {
	Space string   `json:"space"`
	Path  []c29Op  `json:"path"`
	Trace string   `json:"trace,omitempty"`
	Keys  []string `json:"keys,omitempty"`
	Snaps []string `json:"snaps,omitempty"`
}

func c29Trace(p []c29Op) string {
	s := make([]string, len(p))
	for i, o := range p {
		s[i] = o.String()
	}
	return strings.Join(s, " ")
}

// ---------------------------------------------------------------------------------------------------
// reference: nested maps

func c29Copy(v interface{}) interface{} {
	if m, ok := v.(map[string]interface{}); ok {
		r := make(map[string]interface{}, len(m))
		for k, x := range m {
			r[k] = c29Copy(x)
		}
		return r
	}
	return v
}

func c29CopyMap(m map[string]interface{}) map[string]interface{} {
	return c29Copy(m).(map[string]interface{})
}

// refSet writes value at path: missing, null and non-map intermediates become maps.
func c29RefSet(tree map[string]interface{}, path []string, value interface{}) {
	cur := tree
	for _, k := range path[:len(path)-1] {
		m, ok := cur[k].(map[string]interface{})
		if !ok {
			m = map[string]interface{}{}
			cur[k] = m
		}
		cur = m
	}
	cur[path[len(path)-1]] = c29Copy(value)
}

// scalarOnPath: does a proper prefix of path resolve to an existing non-map, non-null value?
func c29ScalarOnPath(tree map[string]interface{}, path []string) bool {
	cur := tree
	for _, k := range path[:len(path)-1] {
		v, ok := cur[k]
		if !ok || v == nil {
			return false
		}
		m, isMap := v.(map[string]interface{})
		if !isMap {
			return true
		}
		cur = m
	}
	return false
}

// prune removes nulls (always) and, when emptyToo, maps that are or become empty: the comparison treats an
// empty map like an absent option (whether null-removal leaves an empty shell behind is not part of the statement).
func c29Prune(v interface{}, emptyToo bool) (interface{}, bool) {
	if v == nil {
		return nil, false
	}
	if m, ok := v.(map[string]interface{}); ok {
		r := map[string]interface{}{}
		for k, x := range m {
			if y, keep := c29Prune(x, emptyToo); keep {
				r[k] = y
			}
		}
		if emptyToo && len(r) == 0 {
			return nil, false
		}
		return r, true
	}
	return v, true
}

func c29PruneMap(m map[string]interface{}, emptyToo bool) map[string]interface{} {
	r, keep := c29Prune(m, emptyToo)
	if !keep {
		return map[string]interface{}{}
	}
	return r.(map[string]interface{})
}

func c29Lookup(tree map[string]interface{}, path []string) (interface{}, bool) {
	var cur interface{} = tree
	for _, k := range path {
		m, ok := cur.(map[string]interface{})
		if !ok {
			return nil, false
		}
		cur, ok = m[k]
		if !ok {
			return nil, false
		}
	}
	return cur, true
}

// canon renders a value modulo empty maps; "-" = absent.
func c29Canon(v interface{}, present bool) string {
	if !present {
		return "-"
	}
	p, keep := c29Prune(v, true)
	if !keep {
		if v == nil {
			return "null"
		}
		return "-"
	}
	b, err := json.Marshal(p)
	if err != nil {
		eng.HarnessError("cannot marshal %v: %v", p, err)
	}
	return string(b)
}

type c29Write struct {
	snap  string
	path  []string
	value interface{}
}

// c29Cfg is the committed configuration: snap -> options. A snap without an entry has no key (a nil map is never stored).
type c29Cfg map[string]map[string]interface{}

func (c c29Cfg) copy() c29Cfg {
	r := c29Cfg{}
	for sn, m := range c {
		r[sn] = c29CopyMap(m)
	}
	return r
}

// canon renders the configuration of the given snaps modulo empty maps ("-" = no options).
func (c c29Cfg) canon(snaps []string) string {
	parts := make([]string, len(snaps))
	for i, sn := range snaps {
		parts[i] = sn + "=" + c29Canon(c[sn], c[sn] != nil)
	}
	return strings.Join(parts, " ")
}

type c29RefTx struct {
	begun    bool
	snapshot c29Cfg // the committed configuration (of every snap) when the transaction began / last committed
	writes   []c29Write
}

type c29Ref struct {
	committed c29Cfg
	revs      map[string]map[int]map[string]interface{} // snap -> revision -> saved options
	txs       []*c29RefTx
	snaps     []string // the world: every snap any operation may name
	// snaps whose committed configuration the last operation was entitled to change (commit: the snaps the
	// transaction wrote to; restore: its snap)
	entitled map[string]bool
	// set by a commit with writes, for classifying what a wrong committed configuration looks like (see c29Observe)
	lastCommit *c29CommitFacts
}

type c29CommitFacts struct {
	tx int
	// per snap that had NO committed entry when the commit started although the transaction's start-time
	// snapshot has one (the snap's configuration was removed in between): what the committed configuration of
	// that snap would be if the commit worked from its start-time snapshot instead of the latest configuration
	// (snapshot for snaps it did not write, snapshot + its writes for snaps it wrote)
	staleRemoved map[string]string
}

func (t *c29RefTx) begin(ref *c29Ref) {
	if !t.begun {
		t.begun = true
		t.snapshot = ref.committed.copy()
	}
}

// view: the options of one snap as the transaction should see them: base with its writes to that snap applied in order.
func (t *c29RefTx) view(sn string, base map[string]interface{}) map[string]interface{} {
	v := map[string]interface{}{}
	if base != nil {
		v = c29CopyMap(base)
	}
	for _, w := range t.writes {
		if w.snap == sn {
			c29RefSet(v, w.path, w.value)
		}
	}
	return v
}

// written: the snaps the transaction has uncommitted writes for.
func (t *c29RefTx) written() map[string]bool {
	r := map[string]bool{}
	for _, w := range t.writes {
		r[w.snap] = true
	}
	return r
}

// ---------------------------------------------------------------------------------------------------
// the implementation under test, driven step by step

type c29Inst struct {
	st  *state.State
	txs []*Transaction
}

func c29NewInst(ntx int) *c29Inst {
	st := state.New(nil)
	st.Lock() // held for the whole execution: one goroutine, operations are atomic under the state lock
	return &c29Inst{st: st, txs: make([]*Transaction, ntx)}
}

func (in *c29Inst) tx(i int) *Transaction {
	if in.txs[i] == nil {
		in.txs[i] = NewTransaction(in.st)
	}
	return in.txs[i]
}

func c29Decode(raw []byte) interface{} {
	var v interface{}
	dec := json.NewDecoder(bytes.NewReader(raw))
	if err := dec.Decode(&v); err != nil {
		eng.HarnessError("cannot decode %q: %v", raw, err)
	}
	return c29Floats(v)
}

// numbers compare by their JSON text: normalise float64 that are integers
func c29Floats(v interface{}) interface{} {
	switch x := v.(type) {
	case map[string]interface{}:
		for k, y := range x {
			x[k] = c29Floats(y)
		}
		return x
	case float64:
		if x == float64(int(x)) {
			return int(x)
		}
	case json.Number:
		if n, err := x.Int64(); err == nil {
			return int(n)
		}
	}
	return v
}

// committedConfig reads the committed configuration of the snap straight from the state.
func (in *c29Inst) committedConfig(sn string) (map[string]interface{}, bool) {
	raw, err := GetSnapConfig(in.st, sn)
	if err != nil {
		eng.HarnessError("GetSnapConfig: %v", err)
	}
	if raw == nil {
		return nil, false
	}
	m, _ := c29Decode(*raw).(map[string]interface{})
	return m, true
}

func (in *c29Inst) revisionConfigs(sn string) map[string]interface{} {
	var rc map[string]map[string]*json.RawMessage
	if err := in.st.Get("revision-config", &rc); err != nil {
		return map[string]interface{}{}
	}
	res := map[string]interface{}{}
	for rev, raw := range rc[sn] {
		if raw == nil {
			res[rev] = nil
			continue
		}
		res[rev] = c29Decode(*raw)
	}
	return res
}

// internal renders the exact internal state of a transaction (the canonical state key uses it).
func c29Internal(t *Transaction) string {
	if t == nil {
		return "unborn"
	}
	p, err1 := json.Marshal(t.pristine)
	c, err2 := json.Marshal(t.changes)
	if err1 != nil || err2 != nil {
		eng.HarnessError("cannot marshal transaction internals: %v %v", err1, err2)
	}
	return string(p) + "|" + string(c)
}

func (in *c29Inst) key() string {
	var b strings.Builder
	var cfg, rc json.RawMessage
	if err := in.st.Get("config", &cfg); err != nil {
		cfg = json.RawMessage("none")
	}
	if err := in.st.Get("revision-config", &rc); err != nil {
		rc = json.RawMessage("none")
	}
	b.Write(cfg)
	b.WriteByte('#')
	b.Write(rc)
	for _, t := range in.txs {
		b.WriteByte('#')
		b.WriteString(c29Internal(t))
	}
	return b.String()
}

type c29Verdict struct{ key, msg string }

// c29Step executes op on the implementation and on the reference and checks the immediate effects; the complete
// observation (c29Observe) is done by the caller afterwards.
func c29Step(in *c29Inst, ref *c29Ref, op c29Op) []c29Verdict {
	var bad []c29Verdict
	sn := op.snap()
	ref.entitled = map[string]bool{}
	ref.lastCommit = nil
	switch op.Op {
	case c29Set:
		t := in.tx(op.Tx)
		rt := ref.txs[op.Tx]
		rt.begin(ref)
		path := strings.Split(op.Key, ".")
		val := c29Value(op.Val, op.Tx)
		before := c29Internal(t)
		err := t.Set(sn, op.Key, val)
		snapshot := rt.snapshot[sn]
		mayFail := c29ScalarOnPath(rt.view(sn, snapshot), path) || (snapshot != nil && c29ScalarOnPath(snapshot, path))
		if err != nil {
			if !mayFail {
				bad = append(bad, c29Verdict{"set-refused:" + sn + "/" + op.Key, fmt.Sprintf("%v failed (%v) although neither the transaction's view nor its snapshot of snap %s has a non-map value on the path", op, err, sn)})
			}
			if after := c29Internal(t); after != before {
				bad = append(bad, c29Verdict{"failed-set-changed-transaction:" + sn + "/" + op.Key, fmt.Sprintf("%v failed (%v) but changed the transaction: before %s after %s", op, err, before, after)})
			}
		} else {
			rt.writes = append(rt.writes, c29Write{sn, path, val})
		}
	case c29ReadAll:
		in.tx(op.Tx)
		ref.txs[op.Tx].begin(ref)
		// the reads themselves are part of the observation that follows every step
		if v := c29ObserveTx(in, ref, op.Tx, ref.snaps, c29AllKeys); len(v) != 0 {
			bad = append(bad, v...)
		}
	case c29Commit:
		t := in.tx(op.Tx)
		rt := ref.txs[op.Tx]
		rt.begin(ref)
		t.Commit()
		if len(rt.writes) != 0 {
			lc := &c29CommitFacts{tx: op.Tx, staleRemoved: map[string]string{}}
			for _, s := range ref.snaps {
				if ref.committed[s] == nil && rt.snapshot[s] != nil {
					lc.staleRemoved[s] = c29Canon(c29PruneMap(rt.view(s, rt.snapshot[s]), false), true)
				}
			}
			ref.lastCommit = lc
			// latest committed configuration + exactly the written options of exactly the written snaps
			for w := range rt.written() {
				ref.committed[w] = c29PruneMap(rt.view(w, ref.committed[w]), false)
				ref.entitled[w] = true
			}
			rt.snapshot = ref.committed.copy()
			rt.writes = nil
		}
	case c29Save:
		if err := SaveRevisionConfig(in.st, sn, snap.R(op.Rev)); err != nil {
			bad = append(bad, c29Verdict{"save-error", fmt.Sprintf("%v: %v", op, err)})
		}
		if cur, ok := ref.committed[sn]; ok {
			if ref.revs[sn] == nil {
				ref.revs[sn] = map[int]map[string]interface{}{}
			}
			ref.revs[sn][op.Rev] = c29CopyMap(cur)
		}
	case c29Restore:
		if err := RestoreRevisionConfig(in.st, sn, snap.R(op.Rev)); err != nil {
			bad = append(bad, c29Verdict{"restore-error", fmt.Sprintf("%v: %v", op, err)})
		}
		if saved, ok := ref.revs[sn][op.Rev]; ok {
			ref.committed[sn] = c29CopyMap(saved)
			ref.entitled[sn] = true
		}
	case c29Discard:
		if err := DiscardRevisionConfig(in.st, sn, snap.R(op.Rev)); err != nil {
			bad = append(bad, c29Verdict{"discard-error", fmt.Sprintf("%v: %v", op, err)})
		}
		delete(ref.revs[sn], op.Rev)
	case c29Delete:
		// the snap's committed entry goes away; saved revisions stay; open transactions keep reading their
		// snapshot (isolation, like for concurrent commits); a later commit merges its written options into the
		// latest configuration, in which the snap has no entry
		if err := DeleteSnapConfig(in.st, sn); err != nil {
			bad = append(bad, c29Verdict{"delete-error", fmt.Sprintf("%v: %v", op, err)})
		}
		delete(ref.committed, sn)
		ref.entitled[sn] = true
	}
	return bad
}

// c29Guard turns a panic of the code under test into a violation carrying the path.
func c29Guard(op c29Op, f func() []c29Verdict) (bad []c29Verdict) {
	defer func() {
		if e := recover(); e != nil {
			bad = append(bad, c29Verdict{"panic:" + op.Op, fmt.Sprintf("%v made the code under test panic: %v", op, e)})
		}
	}()
	return f()
}

// c29ObserveTx performs Get(snap, key) for every snap and key on transaction i and compares with the reference:
// the value last written in the transaction (to that snap), else the committed value of that snap — as of the
// transaction's snapshot or the latest one.
func c29ObserveTx(in *c29Inst, ref *c29Ref, i int, snaps, keys []string) []c29Verdict {
	var bad []c29Verdict
	t := in.txs[i]
	rt := ref.txs[i]
	before := c29Internal(t)
	for _, sn := range snaps {
		viewSnap := c29PruneMap(rt.view(sn, rt.snapshot[sn]), false)
		viewLatest := c29PruneMap(rt.view(sn, ref.committed[sn]), false)
		for _, key := range keys {
			path := strings.Split(key, ".")
			var got interface{}
			err := t.Get(sn, key, &got)
			gotS := "-"
			if err == nil {
				raw, merr := json.Marshal(got)
				if merr != nil {
					eng.HarnessError("cannot marshal Get result: %v", merr)
				}
				gotS = c29Canon(c29Decode(raw), true)
			}
			w1 := c29Canon(c29Lookup(viewSnap, path))
			w2 := c29Canon(c29Lookup(viewLatest, path))
			if gotS != w1 && gotS != w2 {
				kind := "get-mismatch"
				if !rt.written()[sn] {
					kind = "get-mismatch-unwritten"
				}
				want := w1
				if w2 != w1 {
					want = w1 + " (snapshot) or " + w2 + " (latest)"
				}
				bad = append(bad, c29Verdict{kind + ":" + sn + "/" + key, fmt.Sprintf("T%d.Get(%s, %s) = %s (err=%v), expected %s", i, sn, key, gotS, err, want)})
			}
		}
	}
	if after := c29Internal(t); after != before {
		bad = append(bad, c29Verdict{"get-changed-transaction", fmt.Sprintf("Get on T%d changed the transaction: before %s after %s", i, before, after)})
	}
	return bad
}

// c29Observe: everything observable, compared with the reference, for every snap of the world.
func c29Observe(in *c29Inst, ref *c29Ref, keys []string) []c29Verdict {
	var bad []c29Verdict
	resurrected := map[string]bool{}
	for _, sn := range ref.snaps {
		got, have := in.committedConfig(sn)
		gotS := c29Canon(got, have)
		wantS := c29Canon(ref.committed[sn], ref.committed[sn] != nil)
		// (an empty entry "{}" that comes back is the same defect although empty and absent options compare equal
		// otherwise: the entry exists again, e.g. for SaveRevisionConfig)
		if stale, ok := c29StaleRemoved(ref, sn); ok && gotS == stale && (gotS != wantS || (have && ref.committed[sn] == nil)) {
			// one defect, one class (whether or not the transaction wrote to the snap): the commit brought back
			// the configuration of a removed snap from the transaction's start-time copy. The Gets of the
			// committing transaction on this snap read the same stale copy: not reported again per key.
			resurrected[sn] = true
			bad = append(bad, c29Verdict{"committed-resurrected-removed-snap:" + sn, fmt.Sprintf("after T%d.commit the committed configuration of snap %s is %s, expected %s: the snap's configuration was removed after the transaction began, the commit must merge only the written options into the latest committed configuration but wrote back what the transaction saw when it began", ref.lastCommit.tx, sn, gotS, wantS)})
		} else if gotS != wantS {
			kind := "committed-mismatch"
			why := ""
			if !ref.entitled[sn] {
				// the operation had no business with this snap: a commit that did not write to it, a revision
				// operation of another snap, a Set, a Get
				kind = "committed-changed-foreign-snap"
				why = " (the operation does not write to this snap)"
			}
			bad = append(bad, c29Verdict{kind + ":" + sn, fmt.Sprintf("committed configuration of snap %s is %s, expected %s%s", sn, gotS, wantS, why)})
		}
		// committed configuration never holds nulls
		if have && bytes.Contains([]byte(eng.JSON(got)), []byte("null")) {
			bad = append(bad, c29Verdict{"committed-null:" + sn, fmt.Sprintf("committed configuration of snap %s contains a null: %s", sn, eng.JSON(got))})
		}
		gr := in.revisionConfigs(sn)
		wr := map[string]interface{}{}
		for r, c := range ref.revs[sn] {
			wr[fmt.Sprint(r)] = c
		}
		gk, wk := c29RevKeys(gr), c29RevKeys(wr)
		if gk != wk {
			bad = append(bad, c29Verdict{"revisions-mismatch:" + sn, fmt.Sprintf("saved revisions of snap %s are %s, expected %s", sn, gk, wk)})
		}
	}
	// nothing but the snaps of the world may ever have an entry
	var all map[string]json.RawMessage
	if err := in.st.Get("config", &all); err == nil {
		for sn := range all {
			if !c29Has(ref.snaps, sn) {
				bad = append(bad, c29Verdict{"committed-unknown-snap:" + sn, fmt.Sprintf("the committed configuration has an entry for snap %q which nothing wrote to", sn)})
			}
		}
	}
	for i, t := range in.txs {
		if t == nil {
			continue
		}
		snaps := ref.snaps
		if len(resurrected) != 0 && ref.lastCommit.tx == i {
			snaps = nil
			for _, sn := range ref.snaps {
				if !resurrected[sn] {
					snaps = append(snaps, sn)
				}
			}
		}
		bad = append(bad, c29ObserveTx(in, ref, i, snaps, keys)...)
	}
	return bad
}

func c29StaleRemoved(ref *c29Ref, sn string) (string, bool) {
	if ref.lastCommit == nil {
		return "", false
	}
	s, ok := ref.lastCommit.staleRemoved[sn]
	return s, ok
}

func c29Has(l []string, x string) bool {
	for _, y := range l {
		if x == y {
			return true
		}
	}
	return false
}

func c29RevKeys(m map[string]interface{}) string {
	var ks []string
	for k, v := range m {
		ks = append(ks, k+"="+c29Canon(v, true))
	}
	sort.Strings(ks)
	return strings.Join(ks, ",")
}

// ---------------------------------------------------------------------------------------------------
// exploration

type c29Space struct {
	name   string
	ntx    int
	snaps  []string // nil = the single snap c29Snap
	keys   []string
	vals   []int
	revs   []int
	seqLen int
	// maxDel > 0 adds the environment event delete(snap) = DeleteSnapConfig for every snap of the world, enabled
	// while the snap has a committed entry, at most maxDel times per path (the number used is part of the
	// dedup key, so the bound does not make the exploration depend on which path reached a state first)
	maxDel int
	// init is executed (and judged) before the exploration starts, by one extra transaction (index ntx) that is not
	// part of the alphabet: a committed configuration to start from. Paths of cases include it, so replays are
	// self-contained.
	init []c29Op
}

func (sp c29Space) world() []string {
	if len(sp.snaps) == 0 {
		return []string{c29Snap}
	}
	return sp.snaps
}

func (sp c29Space) totalTx() int {
	n := sp.ntx
	for _, o := range sp.init {
		if o.Tx+1 > n {
			n = o.Tx + 1
		}
	}
	return n
}

func (sp c29Space) ops() []c29Op {
	var ops []c29Op
	for tx := 0; tx < sp.ntx; tx++ {
		for _, sn := range sp.world() {
			for _, k := range sp.keys {
				for _, v := range sp.vals {
					ops = append(ops, c29Op{Op: c29Set, Tx: tx, Snap: sn, Key: k, Val: v})
				}
			}
		}
		ops = append(ops, c29Op{Op: c29ReadAll, Tx: tx}, c29Op{Op: c29Commit, Tx: tx})
	}
	for _, sn := range sp.world() {
		for _, r := range sp.revs {
			ops = append(ops, c29Op{Op: c29Save, Snap: sn, Rev: r}, c29Op{Op: c29Restore, Snap: sn, Rev: r}, c29Op{Op: c29Discard, Snap: sn, Rev: r})
		}
	}
	if sp.maxDel > 0 {
		for _, sn := range sp.world() {
			ops = append(ops, c29Op{Op: c29Delete, Snap: sn})
		}
	}
	return ops
}

// c29Run replays path on a fresh implementation + reference; returns them and the verdicts of the last step
// (steps before the last were judged when they were explored; a verdict there now means nondeterminism).
func c29Run(sp c29Space, path []c29Op, judgeAll bool) (*c29Inst, *c29Ref, []c29Verdict) {
	in := c29NewInst(sp.totalTx())
	ref := &c29Ref{committed: c29Cfg{}, revs: map[string]map[int]map[string]interface{}{}, snaps: sp.world(), entitled: map[string]bool{}}
	for i := 0; i < sp.totalTx(); i++ {
		ref.txs = append(ref.txs, &c29RefTx{})
	}
	var last []c29Verdict
	for i, op := range path {
		v := c29Step(in, ref, op)
		if judgeAll {
			v = append(v, c29Observe(in, ref, sp.keys)...)
		}
		if i == len(path)-1 || judgeAll {
			last = append(last, v...)
		}
	}
	return in, ref, last
}

// c29Pre: facts about the state an operation is about to be executed on (reference side), for the non-triviality
// and coverage counters.
type c29Pre struct {
	interplay     bool // transactions interact (see Finish rule)
	commitWrites  bool // a commit of a transaction with uncommitted writes
	crossSnap     bool // ... while the committed configuration of a snap it did NOT write moved on since its snapshot
	staleSameSnap bool // ... while the committed configuration of a snap it DID write moved on since its snapshot
	absentSnap    bool // ... to a snap that has no entry at all in the committed configuration
	multiSnap     bool // ... with writes to more than one snap
	afterRemoval  bool // ... while a snap that its start-time snapshot has an entry for was removed since
	nonEmpty      map[string]bool
}

func c29Facts(ref *c29Ref, op c29Op) c29Pre {
	var p c29Pre
	sn := op.snap()
	switch op.Op {
	case c29Delete:
		// some open transaction has seen or written the snap that goes away
		for _, o := range ref.txs {
			if o.begun && (o.snapshot[sn] != nil || o.written()[sn]) {
				p.interplay = true
			}
		}
		return p
	case c29Save, c29Discard:
		p.interplay = len(ref.revs[sn]) != 0 || ref.committed[sn] != nil
		return p
	case c29Restore:
		_, p.interplay = ref.revs[sn][op.Rev]
		return p
	}
	rt := ref.txs[op.Tx]
	if rt.begun && rt.snapshot.canon(ref.snaps) != ref.committed.canon(ref.snaps) {
		p.interplay = true
	}
	for j, o := range ref.txs {
		if j != op.Tx && len(o.writes) != 0 {
			p.interplay = true
		}
	}
	if op.Op == c29Commit && len(rt.writes) != 0 {
		p.commitWrites = true
		written := rt.written()
		p.multiSnap = len(written) > 1
		p.nonEmpty = map[string]bool{}
		for _, s := range ref.snaps {
			moved := c29Canon(rt.snapshot[s], rt.snapshot[s] != nil) != c29Canon(ref.committed[s], ref.committed[s] != nil)
			if ref.committed[s] == nil && rt.snapshot[s] != nil {
				p.afterRemoval = true
			}
			if written[s] {
				p.staleSameSnap = p.staleSameSnap || moved
				p.absentSnap = p.absentSnap || ref.committed[s] == nil
				p.nonEmpty[s] = c29Canon(ref.committed[s], ref.committed[s] != nil) != "-"
			} else {
				p.crossSnap = p.crossSnap || moved
			}
		}
	}
	return p
}

func c29Deletes(path []c29Op) int {
	n := 0
	for _, o := range path {
		if o.Op == c29Delete {
			n++
		}
	}
	return n
}

type c29Witness struct {
	trace string
	msg   string
	cas   c29Case
	count int64
}

func c29Explore(r *eng.Run, sp c29Space) {
	ops := sp.ops()
	const shards = 64
	var visited [shards]map[[16]byte]struct{}
	var vmu [shards]sync.Mutex
	for i := range visited {
		visited[i] = map[[16]byte]struct{}{}
	}
	hash := func(s string) [16]byte {
		h := sha256.Sum256([]byte(s))
		var k [16]byte
		copy(k[:], h[:16])
		return k
	}
	mkCase := func(path []c29Op, trace string) c29Case {
		return c29Case{Space: sp.name, Path: path, Trace: trace, Keys: sp.keys, Snaps: sp.world()}
	}
	// the start state: empty, or what the init prefix commits (judged completely, step by step)
	in0, ref0, bad0 := c29Run(sp, sp.init, true)
	if len(bad0) != 0 {
		for _, v := range bad0 {
			r.Violation(v.key, fmt.Sprintf("%s [in the initialisation prefix %s of space %s]", v.msg, c29Trace(sp.init), sp.name), mkCase(sp.init, c29Trace(sp.init)))
		}
		return
	}
	startCfg := ref0.committed.canon(sp.world())
	sk0 := in0.key()
	if sp.maxDel > 0 {
		sk0 += "#del=0"
	}
	k0 := hash(sk0)
	in0.st.Unlock()
	visited[k0[0]%shards][k0] = struct{}{}
	frontier := [][]c29Op{append([]c29Op(nil), sp.init...)}
	var states int64 = 1
	var sampled int32
	completed := 0
	for depth := 0; depth < sp.seqLen && len(frontier) > 0; depth++ {
		// states first reached at this level -> their representative path: the smallest one (by trace) of all
		// paths of this length reaching them, so that frontiers, witnesses and counts do not depend on scheduling
		var level [shards]map[[16]byte][]c29Op
		for i := range level {
			level[i] = map[[16]byte][]c29Op{}
		}
		var nmu sync.Mutex
		witness := map[string]*c29Witness{}
		var trans, nontriv, gets, setFailed, commitsMerging, crossSnap, absentSnap, emptied, multiSnap, afterRemoval, deletes int64
		var stop int32
		eng.ParallelFor(len(frontier), func(i int) {
			if atomic.LoadInt32(&stop) != 0 {
				return
			}
			if i%16 == 0 && r.TimeUp() {
				atomic.StoreInt32(&stop, 1)
				return
			}
			path := frontier[i]
			var lt, ln, lg, lsf, lcm, lcross, labsent, lemptied, lmulti, lremoved, ldel int64
			used := c29Deletes(path)
			for _, op := range ops {
				if op.Op == c29Delete && used >= sp.maxDel {
					continue
				}
				full := append(append(make([]c29Op, 0, len(path)+1), path...), op)
				in, ref, _ := c29Run(sp, path, false)
				if op.Op == c29Delete {
					if ref.committed[op.snap()] == nil {
						in.st.Unlock()
						continue // not enabled: the snap has no configuration to remove
					}
					ldel++
				}
				pre := c29Facts(ref, op)
				nWritesBefore := 0
				if op.Op == c29Set {
					nWritesBefore = len(ref.txs[op.Tx].writes)
				}
				bad := c29Guard(op, func() []c29Verdict {
					return append(c29Step(in, ref, op), c29Observe(in, ref, sp.keys)...)
				})
				lt++
				for _, t := range in.txs {
					if t != nil {
						lg += int64(len(sp.keys) * len(ref.snaps))
					}
				}
				empties := false
				for s, was := range pre.nonEmpty {
					if was && c29Canon(ref.committed[s], ref.committed[s] != nil) == "-" {
						empties = true
					}
				}
				if pre.interplay {
					ln++
					if pre.commitWrites {
						lcm++
					}
				}
				if pre.crossSnap {
					lcross++
				}
				if pre.absentSnap {
					labsent++
				}
				if pre.multiSnap {
					lmulti++
				}
				if pre.afterRemoval {
					lremoved++
				}
				if empties {
					lemptied++
				}
				if op.Op == c29Set && len(ref.txs[op.Tx].writes) == nWritesBefore {
					lsf++
				}
				if len(bad) != 0 {
					tr := c29Trace(full)
					nmu.Lock()
					for _, v := range bad {
						w := witness[v.key]
						if w == nil {
							w = &c29Witness{}
							witness[v.key] = w
						}
						w.count++
						if w.trace == "" || tr < w.trace {
							w.trace, w.msg = tr, v.msg
							w.cas = mkCase(full, tr)
						}
					}
					nmu.Unlock()
					in.st.Unlock()
					continue // a state reached through a violation is not extended
				}
				sk := in.key()
				if sp.maxDel > 0 {
					sk += fmt.Sprintf("#del=%d", c29Deletes(full))
				}
				k := hash(sk)
				sh := k[0] % shards
				vmu[sh].Lock()
				_, seen := visited[sh][k]
				if !seen {
					if cur, again := level[sh][k]; !again {
						level[sh][k] = full
					} else {
						seen = true
						if c29Trace(full) < c29Trace(cur) {
							level[sh][k] = full
						}
					}
				}
				vmu[sh].Unlock()
				if !seen {
					// per space: one commit merging over a stale snapshot, preferably (worlds of several snaps) one
					// where a snap the transaction did not write moved on, or where the commit empties a snap
					want := pre.interplay && pre.commitWrites && len(full)-len(sp.init) >= 4
					if len(ref.snaps) > 1 {
						want = want && (pre.crossSnap || empties)
					}
					if want && atomic.CompareAndSwapInt32(&sampled, 0, 1) {
						r.Sample(c29Case{Space: sp.name, Path: full, Snaps: sp.world(), Trace: c29Trace(full) + " => committed " + ref.committed.canon(ref.snaps)})
					}
				}
				in.st.Unlock()
			}
			atomic.AddInt64(&trans, lt)
			atomic.AddInt64(&nontriv, ln)
			atomic.AddInt64(&gets, lg)
			atomic.AddInt64(&setFailed, lsf)
			atomic.AddInt64(&commitsMerging, lcm)
			atomic.AddInt64(&crossSnap, lcross)
			atomic.AddInt64(&absentSnap, labsent)
			atomic.AddInt64(&emptied, lemptied)
			atomic.AddInt64(&multiSnap, lmulti)
			atomic.AddInt64(&afterRemoval, lremoved)
			atomic.AddInt64(&deletes, ldel)
		})
		var next [][]c29Op
		for sh := range level {
			for k, path := range level[sh] {
				visited[sh][k] = struct{}{}
				next = append(next, path)
			}
		}
		states += int64(len(next))
		r.Add("transitions", trans)
		r.Add("transitions_"+sp.name, trans)
		r.Add("evaluations", trans)
		r.Add("traces_validated_against_impl", trans)
		r.Add("distinct_nontrivial", nontriv)
		r.Add("get_results_compared", gets)
		r.Add("sets_refused", setFailed)
		r.Add("commits_with_writes_under_interplay", commitsMerging)
		r.Add("commits_while_unwritten_snap_moved_on", crossSnap)
		r.Add("commits_to_snap_without_entry", absentSnap)
		r.Add("commits_removing_last_option_of_snap", emptied)
		r.Add("commits_writing_several_snaps", multiSnap)
		r.Add("commits_after_removal_of_a_snap_in_snapshot", afterRemoval)
		r.Add("snap_removals", deletes)
		if len(sp.world()) > 1 {
			r.Add("transitions_multi_snap_worlds", trans)
			r.Add("commits_while_unwritten_snap_moved_on_"+sp.name, crossSnap)
		}
		keys := make([]string, 0, len(witness))
		for k := range witness {
			keys = append(keys, k)
		}
		sort.Strings(keys)
		for _, k := range keys {
			w := witness[k]
			r.Add("violating_transitions", w.count)
			r.Violation(k, fmt.Sprintf("%s [shortest trace of this class: %s; %d transitions of this class at sequence length %d in space %s, start configuration %s]", w.msg, w.trace, w.count, depth+1, sp.name, startCfg), w.cas)
		}
		if stop != 0 {
			r.Cap("time", fmt.Sprintf("space %s: sequences up to length %d complete, length %d partial", sp.name, completed, depth+1))
			break
		}
		completed = depth + 1
		// deterministic frontier order (sorted by trace, computed once per path)
		traces := make([]string, len(next))
		order := make([]int, len(next))
		for i := range next {
			traces[i], order[i] = c29Trace(next[i]), i
		}
		sort.Slice(order, func(a, b int) bool { return traces[order[a]] < traces[order[b]] })
		frontier = make([][]c29Op, len(next))
		for i, j := range order {
			frontier[i] = next[j]
		}
	}
	r.Add("states", states)
	r.Add("states_"+sp.name, states)
	r.Max("sequence_length_completed_"+sp.name, int64(completed))
}

func TestVerifC29(t *testing.T) {
	debug.SetGCPercent(400)
	r := eng.Start("C29", "model_checking", 300*time.Second, 13*time.Minute)
	r.Assume("reference = nested maps keyed by (snap, option path): a transaction's view of a snap is its snapshot of that snap (or the latest committed configuration of that snap: the statement does not choose, both are accepted per Get) with its writes to that snap applied in order, nulls removed; commit = latest committed configuration with the transaction's writes applied in order to exactly the snaps it wrote, nulls removed, every other snap untouched; revision operations touch only their snap",
		"empty maps and absent options are not distinguished (whether removing the last entry of a map leaves an empty map is not part of the statement)",
		"a Set whose path runs through a non-map value of the transaction's view or of its snapshot may be refused; if refused it must change nothing, if accepted it must take effect",
		"operations are atomic under the state lock (held by the harness), so sequences of operations are the complete schedule space; no external configuration is registered")

	if rc := r.ReplayCase(); rc != nil {
		var c c29Case
		if err := json.Unmarshal(rc, &c); err != nil || len(c.Path) == 0 {
			eng.HarnessError("bad replay case: %v", err)
		}
		ntx := 1
		for _, o := range c.Path {
			if o.Tx+1 > ntx {
				ntx = o.Tx + 1
			}
		}
		keys := c.Keys
		if len(keys) == 0 {
			keys = c29AllKeys
		}
		snaps := c.Snaps
		for _, o := range c.Path {
			if !c29Has(snaps, o.snap()) {
				snaps = append(snaps, o.snap())
			}
		}
		sort.Strings(snaps)
		sp := c29Space{name: c.Space, ntx: ntx, keys: keys, snaps: snaps}
		for rep := 0; rep < 5; rep++ {
			in, ref, _ := c29Run(sp, c.Path[:len(c.Path)-1], false)
			last := c.Path[len(c.Path)-1]
			bad := c29Guard(last, func() []c29Verdict {
				return append(c29Step(in, ref, last), c29Observe(in, ref, keys)...)
			})
			if rep == 0 {
				fmt.Printf("replay: %s\n", c29Trace(c.Path))
				for _, sn := range snaps {
					got, have := in.committedConfig(sn)
					fmt.Printf("  snap %s committed: %s (reference %s) revisions: %s\n", sn, c29Canon(got, have), c29Canon(ref.committed[sn], ref.committed[sn] != nil), c29RevKeys(in.revisionConfigs(sn)))
				}
				for i, t := range in.txs {
					if t != nil {
						fmt.Printf("  T%d internals: %s\n", i, c29Internal(t))
					}
				}
			}
			for _, v := range bad {
				if rep == 0 {
					fmt.Printf("  %s: %s\n", v.key, v.msg)
				}
				r.Violation(v.key, v.msg, c)
			}
			in.st.Unlock()
		}
		r.Finish("replay")
	}

	externalConfigMu.Lock()
	nExternal := len(externalConfigMap)
	externalConfigMu.Unlock()
	if nExternal != 0 {
		eng.HarnessError("external configuration is registered in this test binary (%d snaps): the reference does not model it", nExternal)
	}

	two := c29TwoSnaps
	ab := []string{"a", "a.b"}
	// start configuration of the "preset" spaces: snap core has exactly one (nested) option, snap s has no entry at all
	preset := func(ntx int) []c29Op {
		return []c29Op{{Op: c29Set, Tx: ntx, Snap: "core", Key: "a.b", Val: 0}, {Op: c29Commit, Tx: ntx}}
	}
	var spaces []c29Space
	if r.Quick() {
		spaces = []c29Space{
			{name: "2tx-2snap", ntx: 2, snaps: two, keys: ab, vals: []int{0, 1, 2}, seqLen: 4, maxDel: 1},
			{name: "2tx-2snap-deep", ntx: 2, snaps: two, keys: ab, vals: []int{0, 1}, seqLen: 5, maxDel: 1},
			{name: "2tx-2snap-preset", ntx: 2, snaps: two, keys: ab, vals: []int{0, 1}, seqLen: 5, init: preset(2), maxDel: 1},
			{name: "3tx-2snap", ntx: 3, snaps: two, keys: ab, vals: []int{0, 1}, seqLen: 4, maxDel: 1},
			{name: "3tx-2snap-preset", ntx: 3, snaps: two, keys: ab, vals: []int{0, 1}, seqLen: 4, init: preset(3), maxDel: 1},
			{name: "revisions-2snap", ntx: 1, snaps: two, keys: []string{"a"}, vals: []int{0, 1}, revs: []int{1, 2}, seqLen: 6, maxDel: 1},
			// sibling options a and d: a commit to a removed snap must store exactly the written options
			{name: "1tx-2snap-removal", ntx: 1, snaps: two, keys: []string{"a", "d"}, vals: []int{0, 1}, seqLen: 6, maxDel: 1},
			{name: "2tx", ntx: 2, keys: c29AllKeys, vals: []int{0, 1, 2, 3}, seqLen: 4},
			{name: "2tx-deep", ntx: 2, keys: ab, vals: []int{0, 1, 2}, seqLen: 6},
			{name: "revisions", ntx: 1, keys: []string{"a", "a.b", "d"}, vals: []int{0, 1, 2}, revs: []int{1, 2}, seqLen: 6},
			{name: "3tx", ntx: 3, keys: []string{"a", "a.b", "d"}, vals: []int{0, 1, 2}, seqLen: 4},
		}
	} else {
		spaces = []c29Space{
			{name: "2tx-2snap", ntx: 2, snaps: two, keys: ab, vals: []int{0, 1, 2}, seqLen: 5, maxDel: 2},
			{name: "2tx-2snap-deep", ntx: 2, snaps: two, keys: ab, vals: []int{0, 1}, seqLen: 6, maxDel: 2},
			{name: "2tx-2snap-preset", ntx: 2, snaps: two, keys: ab, vals: []int{0, 1, 2}, seqLen: 5, init: preset(2), maxDel: 2},
			{name: "3tx-2snap", ntx: 3, snaps: two, keys: ab, vals: []int{0, 1, 2}, seqLen: 4, maxDel: 2},
			{name: "3tx-2snap-preset", ntx: 3, snaps: two, keys: ab, vals: []int{0, 1}, seqLen: 5, init: preset(3), maxDel: 2},
			{name: "revisions-2snap", ntx: 2, snaps: two, keys: []string{"a"}, vals: []int{0, 1}, revs: []int{1, 2}, seqLen: 6, maxDel: 2},
			{name: "1tx-2snap-removal", ntx: 1, snaps: two, keys: []string{"a", "d"}, vals: []int{0, 1}, seqLen: 7, maxDel: 2},
			{name: "2tx-2snap-removal", ntx: 2, snaps: two, keys: []string{"a", "d"}, vals: []int{0, 1}, seqLen: 5, maxDel: 2},
			{name: "2tx-2snap-full", ntx: 2, snaps: two, keys: c29AllKeys, vals: []int{0, 1, 2, 3}, seqLen: 4, maxDel: 2},
			{name: "2tx", ntx: 2, keys: c29AllKeys, vals: []int{0, 1, 2, 3, 4}, seqLen: 5},
			{name: "2tx-deep", ntx: 2, keys: ab, vals: []int{0, 1, 2}, seqLen: 8},
			{name: "revisions", ntx: 2, keys: []string{"a", "a.b", "d"}, vals: []int{0, 1, 2}, revs: []int{1, 2}, seqLen: 6},
			{name: "3tx", ntx: 3, keys: c29AllKeys, vals: []int{0, 1, 2, 3}, seqLen: 4},
		}
	}
	bounds := map[string]interface{}{}
	for _, sp := range spaces {
		start := time.Now()
		bounds[sp.name] = map[string]interface{}{"transactions": sp.ntx, "snaps": sp.world(), "keys": sp.keys, "values": func() []string {
			var s []string
			for _, v := range sp.vals {
				s = append(s, c29ValueNames[v])
			}
			return s
		}(), "revisions": sp.revs, "snap_removals_per_path": sp.maxDel, "operations_per_state": len(sp.ops()), "max_sequence_length": sp.seqLen, "start": c29Trace(sp.init)}
		if r.TimeUp() {
			r.Cap("time_skipped", "space "+sp.name+" not started")
			continue
		}
		c29Explore(r, sp)
		fmt.Printf("space %-18s %4d ops/state, length %d: %8d states %9d transitions, %.1fs\n", sp.name, len(sp.ops()), sp.seqLen, r.Count("states_"+sp.name), r.Count("transitions_"+sp.name), time.Since(start).Seconds())
	}
	r.Info("bounds", bounds)
	r.Finish("breadth-first over all interleavings (sequences) of transaction operations Set(snap,key,value)/read-all/Commit of each transaction and Save/Restore/DiscardRevisionConfig(snap,rev), per space alphabet (one snap, or the two snaps core and s with the same option paths; start state empty or, in preset spaces, core={a:{b:N}} with no entry for s), deduplicated on the exact internal state (state config + revision-config + pristine and changes of every transaction); every operation executed on a state is one transition and is followed by a complete observation (all Gets of every snap of all begun transactions, committed config of every snap, saved revisions of every snap) compared with the reference; distinct_nontrivial = transitions in which transactions actually interact: the acting transaction's snapshot is stale or another transaction has uncommitted writes (or, for revision operations, something is saved/committed)")
}
