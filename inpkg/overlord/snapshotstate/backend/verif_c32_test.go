// C32 — snapshot import and restore cannot escape or corrupt snap data.
//
// In-package harness (package backend: replaces the unexported tarAsUser / userLookup / isTesting seams).
//
// Part I (import, E-enum): every tar stream of up to N members over a hostile menu
// (names x typeflags x bodies, incl. export.json / content.json) is fed to the real Import. Oracle: a tree
// snapshot (paths, types, modes, contents, symlink targets) of everything under the temp root except
// dirs.SnapshotsDir is identical before and after, whatever Import returns; nothing appears at the absolute
// names used. Streams up to 2 members are run by brute force; longer streams extend only prefixes that
// Import did not already reject while reading the last member of the prefix (Import reads the stream
// sequentially and returns at the first error, so every extension of a rejected prefix behaves like the
// prefix; that claim is validated on all 2-member streams in the same run).
//
// Part II (restore, fault enumeration): a snapshot of three data locations (system, two users) made with the
// real Save is restored with the real Reader.Restore (real GNU tar) for every single corruption of every
// archive member x every interruption point x existing-data layout x current revision. Oracle: a restore that
// returns an error leaves the three snap data trees exactly as before; a restore of a corrupted snapshot
// must return an error; a restore that returns nil reproduces the saved trees (old data only moved aside),
// after which Cleanup leaves exactly the saved trees and Revert (after the JSON round trip snapshotstate
// performs) gives back exactly the previous trees.
package backend

import (
	"archive/tar"
	"archive/zip"
	"bytes"
	"context"
	"crypto/sha256"
	"encoding/json"
	"fmt"
	"hash/crc32"
	"io"
	"os"
	"os/exec"
	"os/user"
	"path/filepath"
	"sort"
	"strconv"
	"strings"
	"testing"
	"time"

	"golang.org/x/crypto/sha3"

	"github.com/snapcore/snapd/dirs"
	"github.com/snapcore/snapd/snap"
	eng "github.com/snapcore/snapd/verifengine"
)

// ------------------------------------------------------------------------------------------------
// tree snapshots

// verifC32Tree maps every path below root (relative) to a description of the node; subtrees listed in skip
// (absolute paths) are left out. A missing root gives {".": "absent"}.
func verifC32Tree(root string, skip ...string) map[string]string {
	out := map[string]string{}
	var walk func(abs, rel string)
	walk = func(abs, rel string) {
		for _, s := range skip {
			if abs == s {
				return
			}
		}
		fi, err := os.Lstat(abs)
		if err != nil {
			if os.IsNotExist(err) {
				if rel == "." {
					out[rel] = "absent"
				}
				return
			}
			eng.HarnessError("C32: lstat %s: %v", abs, err)
		}
		switch {
		case fi.Mode()&os.ModeSymlink != 0:
			t, _ := os.Readlink(abs)
			out[rel] = "link->" + t
		case fi.IsDir():
			out[rel] = fmt.Sprintf("dir:%04o", fi.Mode().Perm())
			ents, err := os.ReadDir(abs)
			if err != nil {
				eng.HarnessError("C32: readdir %s: %v", abs, err)
			}
			for _, e := range ents {
				r := e.Name()
				if rel != "." {
					r = rel + "/" + e.Name()
				}
				walk(filepath.Join(abs, e.Name()), r)
			}
		case fi.Mode().IsRegular():
			b, err := os.ReadFile(abs)
			if err != nil {
				eng.HarnessError("C32: read %s: %v", abs, err)
			}
			d := string(b)
			if len(b) > 48 {
				s := sha256.Sum256(b)
				d = fmt.Sprintf("sha256:%x/%d", s[:8], len(b))
			}
			out[rel] = fmt.Sprintf("file:%04o:%q", fi.Mode().Perm(), d)
		default:
			out[rel] = "other:" + fi.Mode().String()
		}
	}
	walk(root, ".")
	return out
}

// verifC32Sub extracts the subtree below prefix (a relative path) re-rooted at ".".
func verifC32Sub(t map[string]string, prefix string) map[string]string {
	out := map[string]string{}
	for k, v := range t {
		if k == prefix {
			out["."] = v
		} else if strings.HasPrefix(k, prefix+"/") {
			out[k[len(prefix)+1:]] = v
		}
	}
	return out
}

func verifC32Diff(before, after map[string]string) []string {
	var d []string
	for k, v := range before {
		if w, ok := after[k]; !ok {
			d = append(d, "removed "+k+" ("+v+")")
		} else if w != v {
			d = append(d, "changed "+k+" ("+v+" => "+w+")")
		}
	}
	for k, v := range after {
		if _, ok := before[k]; !ok {
			d = append(d, "created "+k+" ("+v+")")
		}
	}
	sort.Strings(d)
	return d
}

func verifC32Must(err error) {
	if err != nil {
		eng.HarnessError("C32: %v", err)
	}
}

func verifC32Write(path, content string, mode os.FileMode) {
	verifC32Must(os.MkdirAll(filepath.Dir(path), 0755))
	verifC32Must(os.WriteFile(path, []byte(content), mode))
	verifC32Must(os.Chmod(path, mode))
}

// ------------------------------------------------------------------------------------------------
// the world

const (
	verifC32Snap     = "hello-snap"
	verifC32Rev      = 42
	verifC32SaveID   = 12
	verifC32ImportID = 5
)

var verifC32Users = []string{"snapuser", "otheruser"}

// locations: "root" is the system data, the others are the users' data
var verifC32Locs = []string{"root", "snapuser", "otheruser"}

type verifC32World struct {
	root     string
	pristine []byte                       // the snapshot zip written by the real Save
	evil     map[string][]byte            // entry -> a valid tgz with other content
	saved    map[string]map[string]string // location -> tree of the data root at Save time
	fn       string                       // snapshot file name
	tarOrder []string
	inPlace  bool // probe: saved data was seen in place in some data root while Restore was still running
	cancelAt string
	cancel   context.CancelFunc
}

// probe notes whether some entry of the snapshot has already been moved into place (called from the seams
// Restore passes through at the start of every entry).
func (w *verifC32World) probe() {
	if w.inPlace {
		return
	}
	for _, loc := range verifC32Locs {
		if b, err := os.ReadFile(filepath.Join(w.dataRoot(loc), "common", "data.txt")); err == nil && strings.HasPrefix(string(b), "saved-") {
			w.inPlace = true
		}
	}
}

func (w *verifC32World) dataRoot(loc string) string {
	if loc == "root" {
		return filepath.Join(dirs.SnapDataDir, verifC32Snap)
	}
	return filepath.Join(w.root, "home", loc, "snap", verifC32Snap)
}

func verifC32Entry(loc string) string {
	if loc == "root" {
		return archiveName
	}
	return userArchivePrefix + loc + userArchiveSuffix
}

func (w *verifC32World) writeData(loc, tag string, revs ...string) {
	d := w.dataRoot(loc)
	for _, rev := range revs {
		verifC32Write(filepath.Join(d, rev, "data.txt"), tag+"-"+loc+"-"+rev+"\n", 0644)
		verifC32Write(filepath.Join(d, rev, "sub", "secret"), tag+"-secret-"+loc+"-"+rev+"\n", 0600)
		verifC32Must(os.MkdirAll(filepath.Join(d, rev, "emptydir"), 0750))
		verifC32Must(os.Chmod(filepath.Join(d, rev, "emptydir"), 0750))
		os.Remove(filepath.Join(d, rev, "lnk"))
		verifC32Must(os.Symlink("sub/secret", filepath.Join(d, rev, "lnk")))
	}
}

func (w *verifC32World) resetData() {
	verifC32Must(os.RemoveAll(dirs.SnapDataDir))
	verifC32Must(os.RemoveAll(filepath.Join(w.root, "home")))
	verifC32Must(os.MkdirAll(dirs.SnapDataDir, 0755))
	for _, u := range verifC32Users {
		verifC32Must(os.MkdirAll(filepath.Join(w.root, "home", u), 0755))
	}
}

// applyExisting lays out the data present before a restore: per location "absent", "present" or "blocked"
// (a regular file sits where the snap's data directory should be).
func (w *verifC32World) applyExisting(existing []string) {
	w.resetData()
	for i, loc := range verifC32Locs {
		switch existing[i] {
		case "absent":
		case "present":
			w.writeData(loc, "old", "41", "42", "43", "common")
			verifC32Write(filepath.Join(w.dataRoot(loc), "42", "only-in-old"), "x", 0644)
		case "blocked":
			verifC32Write(w.dataRoot(loc), "a file in the way\n", 0644)
		default:
			panic("bad existing state " + existing[i])
		}
	}
}

func verifC32NewWorld(t *testing.T) *verifC32World {
	w := &verifC32World{root: t.TempDir(), evil: map[string][]byte{}, saved: map[string]map[string]string{}}
	dirs.SetRootDir(w.root)
	t.Cleanup(func() { dirs.SetRootDir("") })
	isTesting = false // do not copy tar's stderr to ours
	userLookup = func(name string) (*user.User, error) {
		w.probe()
		for _, u := range verifC32Users {
			if u == name {
				return &user.User{Uid: "0", Gid: "0", Username: name, HomeDir: filepath.Join(w.root, "home", name)}, nil
			}
		}
		return nil, user.UnknownUserError(name)
	}
	snapReadSnapshotYaml = func(*snap.Info) (*snap.SnapshotOptions, error) { return &snap.SnapshotOptions{}, nil }
	tarAsUser = func(username string, args ...string) *exec.Cmd {
		// we are root and the users are fictitious: run tar directly (as the non-root code path does)
		w.tarOrder = append(w.tarOrder, username)
		w.probe()
		if w.cancelAt == username && w.cancel != nil {
			w.cancel()
		}
		return exec.Command("tar", args...)
	}

	// sentinels around the snapshots directory (import escapes would hit or create these)
	for _, p := range []string{"x", "var/x", "var/lib/x", "var/lib/snapd/x"} {
		verifC32Write(filepath.Join(w.root, p), "sentinel "+p+"\n", 0644)
	}

	// an "evil" tree to build validly formatted archives with other content
	w.resetData()
	for _, loc := range verifC32Locs {
		w.writeData(loc, "EVIL", "42", "common")
		var buf bytes.Buffer
		cmd := exec.Command("tar", "--create", "--gzip", "--format", "gnu", "--directory", w.dataRoot(loc), "42", "common")
		cmd.Stdout = &buf
		verifC32Must(cmd.Run())
		w.evil[verifC32Entry(loc)] = append([]byte(nil), buf.Bytes()...)
	}

	// the data that gets saved
	w.resetData()
	for _, loc := range verifC32Locs {
		w.writeData(loc, "saved", "42", "common")
		w.saved[loc] = verifC32Tree(w.dataRoot(loc))
	}
	info := &snap.Info{SideInfo: snap.SideInfo{RealName: verifC32Snap, Revision: snap.R(verifC32Rev), SnapID: "hello-id"}, Version: "v1"}
	sh, err := Save(context.Background(), verifC32SaveID, info, map[string]interface{}{"k": "v"}, verifC32Users, nil, nil)
	verifC32Must(err)
	if len(sh.SHA3_384) != 3 {
		eng.HarnessError("C32: Save produced entries %v, want 3", sh.SHA3_384)
	}
	w.fn = Filename(sh)
	w.pristine, err = os.ReadFile(w.fn)
	verifC32Must(err)
	w.tarOrder = nil
	return w
}

// ------------------------------------------------------------------------------------------------
// Part I: import

type verifC32Member struct {
	Name string `json:"name"`
	Type string `json:"type"` // reg | dir | symlink | hardlink
	Body string `json:"body"` // valid | garbage | truncated (regular members only)
}

var verifC32Names = []string{
	"1_x.zip", "2_x.zip", "x", "1_../x", "1_a/../../x", "1_a/../../../y", "1_/../../x", "../../x_y", "/abs", "1_/abs", "1_a/b",
	"1_..", "1_x/..", "..", "", "1_x.zip/", "export.json", "content.json",
}

func verifC32Menu() []verifC32Member {
	var m []verifC32Member
	for _, n := range verifC32Names {
		for _, b := range []string{"valid", "garbage", "truncated"} {
			m = append(m, verifC32Member{n, "reg", b})
		}
		for _, t := range []string{"dir", "symlink", "hardlink"} {
			m = append(m, verifC32Member{n, t, ""})
		}
	}
	return m
}

func (m verifC32Member) hostile() bool {
	wellKnown := m.Name == "export.json" || m.Name == "content.json"
	return m.Type != "reg" || strings.Contains(m.Name, "..") || strings.Contains(m.Name, "/") || (!strings.Contains(m.Name, "_") && !wellKnown)
}

func (m verifC32Member) String() string {
	if m.Type == "reg" {
		return fmt.Sprintf("%q:reg:%s", m.Name, m.Body)
	}
	return fmt.Sprintf("%q:%s", m.Name, m.Type)
}

// verifC32RawHeader builds one ustar header block by hand (archive/tar's writer refuses some of the names
// of the menu, e.g. a regular file with a trailing slash).
func verifC32RawHeader(name string, typeflag byte, linkname string, size int) []byte {
	if len(name) > 100 || len(linkname) > 100 {
		panic("verif C32: name too long for a ustar header")
	}
	b := make([]byte, 512)
	copy(b[0:100], name)
	mode := 0644
	if typeflag == tar.TypeDir {
		mode = 0755
	}
	copy(b[100:108], fmt.Sprintf("%07o\x00", mode))
	copy(b[108:116], fmt.Sprintf("%07o\x00", 0))
	copy(b[116:124], fmt.Sprintf("%07o\x00", 0))
	copy(b[124:136], fmt.Sprintf("%011o\x00", size))
	copy(b[136:148], fmt.Sprintf("%011o\x00", 1700000000))
	copy(b[148:156], "        ")
	b[156] = typeflag
	copy(b[157:257], linkname)
	copy(b[257:263], "ustar\x00")
	copy(b[263:265], "00")
	sum := 0
	for _, c := range b {
		sum += int(c)
	}
	copy(b[148:156], fmt.Sprintf("%06o\x00 ", sum))
	return b
}

// verifC32Stream serializes the members; ends[i] is the stream offset at which member i (header, data,
// padding) ends.
func (w *verifC32World) stream(ms []verifC32Member) (data []byte, ends []int, err error) {
	var buf bytes.Buffer
	for _, m := range ms {
		var body []byte
		if m.Type == "reg" {
			switch {
			case m.Name == "content.json" && m.Body == "valid":
				body = []byte(`{"content-hash":"AAECAw=="}`)
			case m.Name == "content.json" && m.Body == "truncated":
				body = []byte(`{"content-hash":"AAEC`)
			case m.Body == "valid":
				body = w.pristine
			case m.Body == "truncated":
				body = w.pristine[:len(w.pristine)/2]
			default:
				body = []byte("garbage\n")
			}
		}
		switch m.Type {
		case "reg":
			buf.Write(verifC32RawHeader(m.Name, tar.TypeReg, "", len(body)))
		case "dir":
			buf.Write(verifC32RawHeader(m.Name, tar.TypeDir, "", 0))
		case "symlink":
			buf.Write(verifC32RawHeader(m.Name, tar.TypeSymlink, "../../../x", 0))
		case "hardlink":
			buf.Write(verifC32RawHeader(m.Name, tar.TypeLink, "../../x", 0))
		default:
			return nil, nil, fmt.Errorf("unknown member type %q", m.Type)
		}
		buf.Write(body)
		if pad := (512 - len(body)%512) % 512; pad > 0 {
			buf.Write(make([]byte, pad))
		}
		ends = append(ends, buf.Len())
	}
	buf.Write(make([]byte, 1024))
	return buf.Bytes(), ends, nil
}

type verifC32CountingReader struct {
	r io.Reader
	n int
}

func (c *verifC32CountingReader) Read(p []byte) (int, error) {
	n, err := c.r.Read(p)
	c.n += n
	return n, err
}

type verifC32ImportResult struct {
	Err       string   `json:"error"`
	Names     []string `json:"snap_names"`
	Consumed  int      `json:"consumed_bytes"`
	Reached   int      `json:"members_reached"`
	Snapshots []string `json:"snapshots_dir_after"`
	Outside   []string `json:"changes_outside_snapshots_dir"`
	// Rejected: Import failed while it was still reading the last member of the stream
	Rejected bool `json:"rejected_at_last_member"`
}

type verifC32Importer struct {
	w        *verifC32World
	baseline map[string]string
	absNames []string
	absState []bool
}

func (w *verifC32World) importWorld() {
	// a small world around the snapshots directory: sentinels (made once), the homes and one data file
	w.applyExisting([]string{"absent", "absent", "absent"})
	verifC32Write(filepath.Join(w.dataRoot("root"), "42", "data.txt"), "system data\n", 0644)
	verifC32Write(filepath.Join(w.dataRoot("snapuser"), "42", "data.txt"), "user data\n", 0644)
}

func (w *verifC32World) newImporter() *verifC32Importer {
	w.importWorld()
	verifC32Must(os.MkdirAll(dirs.SnapshotsDir, 0700))
	im := &verifC32Importer{w: w, absNames: []string{"/abs", "/x", "/y", "/1_abs", "/5_abs"}}
	im.resetSnapshots()
	im.baseline = verifC32Tree(w.root, dirs.SnapshotsDir)
	for _, a := range im.absNames {
		_, err := os.Lstat(a)
		im.absState = append(im.absState, err == nil)
	}
	return im
}

func (im *verifC32Importer) resetSnapshots() {
	ents, err := os.ReadDir(dirs.SnapshotsDir)
	if err == nil && len(ents) == 1 && ents[0].Name() == filepath.Base(im.w.fn) && ents[0].Type().IsRegular() {
		// only the pre-existing snapshot is there (Import opens it read-only at most)
		if fi, err := ents[0].Info(); err == nil && fi.Size() == int64(len(im.w.pristine)) {
			return
		}
	}
	verifC32Must(os.RemoveAll(dirs.SnapshotsDir))
	verifC32Must(os.MkdirAll(dirs.SnapshotsDir, 0700))
	verifC32Must(os.WriteFile(im.w.fn, im.w.pristine, 0600))
}

func (im *verifC32Importer) run(ms []verifC32Member) verifC32ImportResult {
	data, ends, err := im.w.stream(ms)
	if err != nil {
		eng.HarnessError("C32: cannot serialize stream %v: %v", ms, err)
	}
	cr := &verifC32CountingReader{r: bytes.NewReader(data)}
	names, ierr := Import(context.Background(), verifC32ImportID, cr, nil)
	res := verifC32ImportResult{Names: names, Consumed: cr.n}
	if ierr != nil {
		res.Err = ierr.Error()
	}
	prevEnd := 0
	for _, e := range ends {
		if cr.n > prevEnd {
			res.Reached++
		}
		prevEnd = e
	}
	if len(ends) > 0 {
		res.Rejected = ierr != nil && cr.n <= ends[len(ends)-1]
	}
	snaps := verifC32Tree(dirs.SnapshotsDir)
	for k, v := range snaps {
		res.Snapshots = append(res.Snapshots, k+"="+v)
	}
	sort.Strings(res.Snapshots)
	res.Outside = verifC32Diff(im.baseline, verifC32Tree(im.w.root, dirs.SnapshotsDir))
	for i, a := range im.absNames {
		_, err := os.Lstat(a)
		if (err == nil) != im.absState[i] {
			res.Outside = append(res.Outside, "absolute path "+a+" appeared or vanished")
		}
	}
	im.resetSnapshots()
	if len(res.Outside) > 0 {
		// repair the world so that later cases are judged against the same baseline
		for _, p := range []string{"x", "var/x", "var/lib/x", "var/lib/snapd/x"} {
			verifC32Write(filepath.Join(im.w.root, p), "sentinel "+p+"\n", 0644)
		}
		for _, p := range []string{"y", "var/y", "var/lib/y", "var/lib/snapd/y"} {
			os.RemoveAll(filepath.Join(im.w.root, p))
		}
		im.w.importWorld()
		if d := verifC32Diff(im.baseline, verifC32Tree(im.w.root, dirs.SnapshotsDir)); len(d) > 0 {
			eng.HarnessError("C32: cannot restore the import world after a violation: %v", d)
		}
	}
	return res
}

func verifC32StreamKey(ms []verifC32Member) string {
	var s []string
	for _, m := range ms {
		s = append(s, m.String())
	}
	return "import:[" + strings.Join(s, ",") + "]"
}

type verifC32Case struct {
	Kind string `json:"kind"` // import | restore
	// import
	Members []verifC32Member `json:"members,omitempty"`
	// restore
	Corrupt   string   `json:"corruption,omitempty"` // none | <kind>@<entry>
	Interrupt string   `json:"interruption,omitempty"`
	Existing  []string `json:"existing,omitempty"` // per location root, snapuser, otheruser
	Current   int      `json:"current_revision,omitempty"`
	After     string   `json:"after_success,omitempty"` // cleanup | revert
}

func (im *verifC32Importer) judge(r *eng.Run, ms []verifC32Member, res verifC32ImportResult) {
	if len(res.Outside) == 0 {
		return
	}
	again := im.run(ms)
	if strings.Join(again.Outside, "|") != strings.Join(res.Outside, "|") {
		eng.HarnessError("C32: import verdict not reproducible for %v: %v vs %v", ms, res.Outside, again.Outside)
	}
	r.Violation(verifC32StreamKey(ms), fmt.Sprintf("Import changed files outside the snapshots directory: %v (Import returned %q)", res.Outside, res.Err),
		verifC32Case{Kind: "import", Members: ms})
}

// explore runs the streams of this shard. Single-member streams are run by every shard (their outcome decides
// about pruning) but accounted and judged only by their owner; two-member streams are dealt round-robin and
// bring their whole subtree along. It returns false when the time budget stopped it.
// Streams shorter than accountFrom were accounted by an earlier, shallower pass (iterative deepening, so that
// a time cap cuts the longest streams first); they are re-run only to learn whether they are rejected.
func (im *verifC32Importer) explore(r *eng.Run, menu []verifC32Member, bruteDepth, maxDepth, accountFrom int, deadline time.Duration) bool {
	complete := true
	var rec func(prefix []verifC32Member, prefixRes verifC32ImportResult, index int, owned bool)
	rec = func(prefix []verifC32Member, prefixRes verifC32ImportResult, index int, owned bool) {
		if len(prefix) >= maxDepth || !complete {
			return
		}
		pruned := len(prefix) > 0 && prefixRes.Rejected
		if pruned && len(prefix) >= bruteDepth {
			// every extension behaves like the prefix; count what is covered by that argument
			if owned {
				// this pass is about streams of exactly maxDepth members (shorter ones: earlier passes)
				cov := int64(1)
				for d := len(prefix) + 1; d <= maxDepth; d++ {
					cov *= int64(len(menu))
				}
				r.Add("import_streams_covered_by_rejected_prefix", cov)
			}
			return
		}
		for i, m := range menu {
			own := owned
			switch len(prefix) {
			case 0:
				own = r.Mine(i * len(menu))
			case 1:
				own = r.Mine(index*len(menu) + i)
				if !own {
					continue
				}
			}
			if r.Elapsed() > deadline {
				complete = false
				return
			}
			ms := append(append([]verifC32Member(nil), prefix...), m)
			if own {
				r.NoteCurrent(eng.JSON(verifC32Case{Kind: "import", Members: ms}))
			}
			res := im.run(ms)
			if own && len(ms) >= accountFrom {
				im.account(r, ms, res, pruned, prefixRes)
			}
			rec(ms, res, i, own)
		}
	}
	rec(nil, verifC32ImportResult{}, 0, false)
	return complete
}

func (im *verifC32Importer) account(r *eng.Run, ms []verifC32Member, res verifC32ImportResult, pruned bool, prefixRes verifC32ImportResult) {
	r.Add("evaluations", 1)
	r.Add("import_streams_run", 1)
	hostileReached := false
	for k := 0; k < res.Reached && k < len(ms); k++ {
		if ms[k].hostile() {
			hostileReached = true
		}
	}
	if hostileReached {
		r.Add("distinct_nontrivial", 1)
		r.Add("import_streams_with_hostile_member_reached", 1)
	}
	if res.Err == "" {
		r.Add("import_streams_accepted", 1)
	}
	cls := res.Err
	if i := strings.Index(cls, ": "); i >= 0 && strings.HasPrefix(cls, "cannot import snapshot") {
		cls = cls[i+2:]
	}
	cls = strings.ReplaceAll(cls, im.w.root, "$ROOT")
	if len(cls) > 60 {
		cls = cls[:60]
	}
	r.Distinct("import_outcome", cls)
	im.judge(r, ms, res)
	if pruned {
		// brute-force zone: validate the pruning argument
		same := res.Err == prefixRes.Err && res.Consumed == prefixRes.Consumed && strings.Join(res.Snapshots, "|") == strings.Join(prefixRes.Snapshots, "|")
		if !same && len(res.Outside) == 0 && len(prefixRes.Outside) == 0 {
			eng.HarnessError("C32: pruning argument refuted: %v behaves differently from its rejected prefix: %s vs %s", ms, eng.JSON(res), eng.JSON(prefixRes))
		}
		r.Add("import_pruning_argument_validated_on_streams", 1)
	}
	if r.WantSample() && hostileReached && res.Reached >= 2 && len(ms) >= 2 && ms[0].Name == "export.json" {
		r.Sample(map[string]interface{}{"case": verifC32Case{Kind: "import", Members: ms}, "result": res})
	}
}

// ------------------------------------------------------------------------------------------------
// Part II: restore

var verifC32CorruptKinds = []string{"declared-digest", "content-swapped", "content-bitflip", "truncated", "garbage", "zip-size-lie", "missing-member"}

// corruptZip rewrites the pristine snapshot with one corruption "<kind>@<entry>".
func (w *verifC32World) corruptZip(corruption string) []byte {
	if corruption == "none" {
		return w.pristine
	}
	at := strings.IndexByte(corruption, '@')
	kind, entry := corruption[:at], corruption[at+1:]
	zr, err := zip.NewReader(bytes.NewReader(w.pristine), int64(len(w.pristine)))
	verifC32Must(err)
	var out bytes.Buffer
	zw := zip.NewWriter(&out)
	var metaBytes []byte
	for _, f := range zr.File {
		rc, err := f.Open()
		verifC32Must(err)
		content, err := io.ReadAll(rc)
		verifC32Must(err)
		rc.Close()
		switch {
		case f.Name == metadataName:
			if kind == "declared-digest" {
				var meta map[string]interface{}
				dec := json.NewDecoder(bytes.NewReader(content))
				dec.UseNumber()
				verifC32Must(dec.Decode(&meta))
				sums := meta["sha3-384"].(map[string]interface{})
				old := sums[entry].(string)
				c := byte('0')
				if old[0] == '0' {
					c = '1'
				}
				sums[entry] = string(c) + old[1:]
				content, err = json.Marshal(meta)
				verifC32Must(err)
				content = append(content, '\n')
			}
			metaBytes = content
			fw, err := zw.Create(f.Name)
			verifC32Must(err)
			fw.Write(content)
		case f.Name == metaHashName:
			sum := sha3.Sum384(metaBytes)
			fw, err := zw.Create(f.Name)
			verifC32Must(err)
			fmt.Fprintf(fw, "%x\n", sum[:])
		case f.Name == entry && kind != "declared-digest":
			switch kind {
			case "missing-member":
				continue
			case "content-swapped":
				content = w.evil[entry]
			case "content-bitflip":
				content = append([]byte(nil), content...)
				content[len(content)/2] ^= 0x10
			case "truncated":
				content = content[:len(content)/2]
			case "garbage":
				content = []byte("this is not a gzipped tar archive\n")
			case "zip-size-lie":
				fh := &zip.FileHeader{Name: f.Name, Method: zip.Store}
				fh.CRC32 = crc32.ChecksumIEEE(content)
				fh.CompressedSize64 = uint64(len(content))
				fh.UncompressedSize64 = uint64(len(content)) + 7
				fw, err := zw.CreateRaw(fh)
				verifC32Must(err)
				fw.Write(content)
				continue
			default:
				panic("unknown corruption " + kind)
			}
			fw, err := zw.CreateHeader(&zip.FileHeader{Name: f.Name})
			verifC32Must(err)
			fw.Write(content)
		default:
			fw, err := zw.CreateHeader(&zip.FileHeader{Name: f.Name})
			verifC32Must(err)
			fw.Write(content)
		}
	}
	verifC32Must(zw.Close())
	return out.Bytes()
}

type verifC32RestoreResult struct {
	OpenErr   string   `json:"open_error,omitempty"`
	Err       string   `json:"error"`
	TarOrder  []string `json:"entries_in_processing_order"`
	Moved     int      `json:"moved_aside"`
	Created   int      `json:"created"`
	Problems  []string `json:"problems"`
	Residue   []string `json:"residue_outside_data_trees,omitempty"`
	Logs      []string `json:"logs,omitempty"`
	NeedsUndo bool     `json:"an_entry_was_in_place_before_the_failure"`
}

func (w *verifC32World) dataTrees() map[string]map[string]string {
	t := map[string]map[string]string{}
	for _, loc := range verifC32Locs {
		t[loc] = verifC32Tree(w.dataRoot(loc))
	}
	return t
}

func verifC32IsBackup(name string) (orig string, ok bool) {
	// <name>.~XXXXXXXXX~
	if len(name) > 12 && strings.HasSuffix(name, "~") && name[len(name)-12:len(name)-10] == ".~" {
		return name[:len(name)-12], true
	}
	return "", false
}

// checkRestored: the data root of loc holds the saved trees under common and cur; everything else is as
// before, except that what was replaced may live on under a backup name (gone after Cleanup).
func verifC32CheckRestored(loc, cur string, saved, before, after map[string]string, backupsAllowed bool) []string {
	var bad []string
	top := func(t map[string]string) map[string]bool {
		m := map[string]bool{}
		for k := range t {
			if k != "." {
				m[strings.SplitN(k, "/", 2)[0]] = true
			}
		}
		return m
	}
	want := map[string]map[string]string{"common": verifC32Sub(saved, "common"), cur: verifC32Sub(saved, fmt.Sprint(verifC32Rev))}
	for name, wt := range want {
		if d := verifC32Diff(wt, verifC32Sub(after, name)); len(d) > 0 {
			bad = append(bad, fmt.Sprintf("%s: %s differs from the saved data: %v", loc, name, d))
		}
	}
	for name := range top(after) {
		if _, ok := want[name]; ok {
			continue
		}
		if orig, ok := verifC32IsBackup(name); ok {
			if !backupsAllowed {
				bad = append(bad, fmt.Sprintf("%s: backup %s left behind", loc, name))
			} else if _, replaced := want[orig]; !replaced {
				bad = append(bad, fmt.Sprintf("%s: unexpected backup %s", loc, name))
			} else if d := verifC32Diff(verifC32Sub(before, orig), verifC32Sub(after, name)); len(d) > 0 {
				bad = append(bad, fmt.Sprintf("%s: backup %s is not the previous %s: %v", loc, name, orig, d))
			}
			continue
		}
		if d := verifC32Diff(verifC32Sub(before, name), verifC32Sub(after, name)); len(d) > 0 {
			bad = append(bad, fmt.Sprintf("%s: bystander %s changed: %v", loc, name, d))
		}
	}
	for name := range top(before) {
		if _, ok := want[name]; !ok && !top(after)[name] {
			bad = append(bad, fmt.Sprintf("%s: bystander %s vanished", loc, name))
		}
	}
	return bad
}

func (w *verifC32World) runRestore(c verifC32Case) verifC32RestoreResult {
	var res verifC32RestoreResult
	w.applyExisting(c.Existing)
	verifC32Must(os.RemoveAll(dirs.SnapshotsDir))
	verifC32Must(os.MkdirAll(dirs.SnapshotsDir, 0700))
	verifC32Must(os.WriteFile(w.fn, w.corruptZipOrWhole(c.Corrupt), 0600))
	before := w.dataTrees()
	wholeBefore := verifC32Tree(w.root, dirs.SnapshotsDir)

	rd, err := Open(w.fn, ExtractFnameSetID)
	if err != nil {
		res.OpenErr = err.Error()
		if rd != nil && rd.File != nil {
			rd.Close()
		}
		return res
	}
	defer rd.Close()

	ctx, cancel := context.WithCancel(context.Background())
	defer cancel()
	w.tarOrder, w.cancel, w.cancelAt, w.inPlace = nil, cancel, "", false
	switch {
	case c.Interrupt == "pre-cancelled":
		cancel()
	case strings.HasPrefix(c.Interrupt, "cancel@"):
		w.cancelAt = c.Interrupt[len("cancel@"):]
	}
	current := snap.R(c.Current)
	cur := fmt.Sprint(verifC32Rev)
	if !current.Unset() {
		cur = current.String()
	}
	logf := func(format string, args ...interface{}) { res.Logs = append(res.Logs, fmt.Sprintf(format, args...)) }
	rs, rerr := rd.Restore(ctx, current, nil, logf, nil)
	w.cancel, w.cancelAt = nil, ""
	res.TarOrder = append([]string(nil), w.tarOrder...)
	after := w.dataTrees()

	if rerr != nil {
		res.Err = rerr.Error()
		res.NeedsUndo = w.inPlace
		if rs != nil {
			res.Problems = append(res.Problems, "Restore returned an error together with a restore state")
		}
		for _, loc := range verifC32Locs {
			if d := verifC32Diff(before[loc], after[loc]); len(d) > 0 {
				res.Problems = append(res.Problems, fmt.Sprintf("failed restore changed the %s data tree: %v", loc, d))
			}
		}
		res.Residue = w.residue(wholeBefore)
		return res
	}
	if rs == nil {
		res.Problems = append(res.Problems, "Restore returned neither an error nor a restore state")
		return res
	}
	res.Moved, res.Created = len(rs.Moved), len(rs.Created)
	if c.Corrupt != "none" {
		res.Problems = append(res.Problems, "restore of a snapshot whose data does not match its recorded size/digest succeeded ("+c.Corrupt+")")
	}
	for _, loc := range verifC32Locs {
		res.Problems = append(res.Problems, verifC32CheckRestored(loc, cur, w.saved[loc], before[loc], after[loc], true)...)
	}
	switch c.After {
	case "revert":
		// snapshotstate keeps the restore state in the task (JSON) and reverts from there on undo
		b, err := json.Marshal(rs)
		verifC32Must(err)
		var rs2 RestoreState
		verifC32Must(json.Unmarshal(b, &rs2))
		rs2.Revert()
		final := w.dataTrees()
		for _, loc := range verifC32Locs {
			if d := verifC32Diff(before[loc], final[loc]); len(d) > 0 {
				res.Problems = append(res.Problems, fmt.Sprintf("Revert after a successful restore did not give back the %s data tree: %v", loc, d))
			}
		}
		res.Residue = w.residue(wholeBefore)
	default:
		rs.Cleanup()
		final := w.dataTrees()
		for _, loc := range verifC32Locs {
			res.Problems = append(res.Problems, verifC32CheckRestored(loc, cur, w.saved[loc], before[loc], final[loc], false)...)
		}
	}
	return res
}

// residue: differences outside the three data trees (and outside the snapshots dir), e.g. empty parent
// directories that a failed restore created on the way; recorded, not judged.
func (w *verifC32World) residue(wholeBefore map[string]string) []string {
	var out []string
	for _, d := range verifC32Diff(wholeBefore, verifC32Tree(w.root, dirs.SnapshotsDir)) {
		inData := false
		for _, loc := range verifC32Locs {
			rel, _ := filepath.Rel(w.root, w.dataRoot(loc))
			f := strings.Fields(d)
			if len(f) > 1 && (f[1] == rel || strings.HasPrefix(f[1], rel+"/")) {
				inData = true
			}
		}
		if !inData {
			out = append(out, d)
		}
	}
	return out
}

func (c verifC32Case) key() string {
	if c.Kind == "import" {
		return verifC32StreamKey(c.Members)
	}
	return fmt.Sprintf("restore:corrupt=%s:interrupt=%s:existing=%s:current=%d:after=%s", c.Corrupt, c.Interrupt, strings.Join(c.Existing, ","), c.Current, c.After)
}

func verifC32RestoreCases(thorough bool) []verifC32Case {
	corruptions := []string{"none"}
	for _, loc := range verifC32Locs {
		for _, k := range verifC32CorruptKinds {
			corruptions = append(corruptions, k+"@"+verifC32Entry(loc))
		}
	}
	corruptions = append(corruptions, "whole-file-truncated")
	interrupts := []string{"none", "pre-cancelled", "cancel@root", "cancel@snapuser", "cancel@otheruser"}
	var existing [][]string
	if thorough {
		st := []string{"absent", "present", "blocked"}
		for _, a := range st {
			for _, b := range st {
				for _, c := range st {
					existing = append(existing, []string{a, b, c})
				}
			}
		}
	} else {
		existing = [][]string{{"absent", "absent", "absent"}, {"present", "present", "present"}, {"present", "absent", "present"},
			{"blocked", "present", "present"}, {"present", "blocked", "present"}, {"present", "present", "blocked"}}
	}
	currents := []int{0, 43}
	if thorough {
		currents = []int{0, 42, 43}
	}
	var out []verifC32Case
	for _, co := range corruptions {
		for _, in := range interrupts {
			if !thorough && co != "none" && in != "none" {
				// quick: at most one fault per restore (a corruption or an interruption); thorough: one of each
				continue
			}
			for _, ex := range existing {
				for _, cu := range currents {
					afters := []string{"cleanup"}
					if co == "none" {
						// a success is possible: exercise both continuations
						afters = []string{"cleanup", "revert"}
					}
					for _, af := range afters {
						out = append(out, verifC32Case{Kind: "restore", Corrupt: co, Interrupt: in, Existing: ex, Current: cu, After: af})
					}
				}
			}
		}
	}
	return out
}

func (w *verifC32World) corruptZipOrWhole(c string) []byte {
	if c == "whole-file-truncated" {
		return w.pristine[:len(w.pristine)*2/3]
	}
	return w.corruptZip(c)
}

func (w *verifC32World) judgeRestore(r *eng.Run, c verifC32Case, record bool) verifC32RestoreResult {
	res := w.runRestore(c)
	if len(res.Problems) > 0 {
		// Re-run before believing it. The order in which Restore walks the entries is not owned by the
		// harness and the verdict may depend on it, so the comparison waits for the same order to come up again.
		confirmed := "not re-observed with the same entry order in 12 further runs"
		for i := 0; i < 12; i++ {
			again := w.runRestore(c)
			if strings.Join(again.TarOrder, ",") != strings.Join(res.TarOrder, ",") {
				continue
			}
			if (len(again.Problems) > 0) != (len(res.Problems) > 0) {
				eng.HarnessError("C32: restore verdict not reproducible for %s with entry order %v: %v vs %v", c.key(), res.TarOrder, res.Problems, again.Problems)
			}
			confirmed = "reproduced with the same entry order"
			break
		}
		r.Violation(c.key(), fmt.Sprintf("%v (Restore returned %q; entries processed in order %v; %s)", res.Problems, res.Err, res.TarOrder, confirmed), c)
	}
	return res
}

// ------------------------------------------------------------------------------------------------

func TestC32(t *testing.T) {
	quickBudget, thoroughBudget := 170*time.Second, 15*time.Minute
	r := eng.Start("C32", "fault_enumeration", quickBudget, thoroughBudget)
	// the import part may use up to 55% of the soft budget, so that a cap cannot starve the restore part
	importDeadline := quickBudget * 55 / 100
	if r.Thorough() {
		importDeadline = thoroughBudget * 55 / 100
	}
	if b, err := strconv.Atoi(os.Getenv("VERIF_BUDGET_S")); err == nil && b > 0 {
		importDeadline = time.Duration(b) * time.Second * 55 / 100
	}
	r.Assume("GNU tar from the host is the extractor (as in production); runuser/sudo is bypassed: tar runs as root for the fictitious users",
		"the import menu (18 names x {regular with valid/garbage/truncated body, directory, symlink, hardlink}) is the hostile alphabet; pre-planted symlinks inside the snapshots directory are not part of the input space",
		"restore faults: one corruption of one archive member (or of the whole file) and one cancellation point per case; failures of rename/mkdir themselves (I/O errors) are not injected, so a failure between the two moves of one entry is not reached",
		"the order in which Restore walks the entries is Go map order and is not owned; the oracle is order-free and the orders seen are counted",
		"tree comparison covers paths, types, permission bits, contents and symlink targets; not timestamps, ownership or xattrs")
	rule := "import: every tar stream of up to N members over the menu (brute force up to 2 members, beyond that only extensions of prefixes Import had not already rejected); non-trivial = streams in which Import read at least one hostile member (non-regular type, name with '..' or '/', or no set-id prefix). " +
		"restore: every (corruption x interruption x existing-data layout x current revision [x continuation after success]); non-trivial = restores that failed after at least one other entry had already been moved into place, plus restores that succeeded over existing data"

	if rc := r.ReplayCase(); rc != nil {
		var c verifC32Case
		var crash struct {
			Current string `json:"current_case"`
		}
		if json.Unmarshal(rc, &crash) == nil && crash.Current != "" {
			rc = json.RawMessage(crash.Current) // artefact of a worker crash: the case it was running
		}
		if err := json.Unmarshal(rc, &c); err != nil {
			eng.HarnessError("C32: bad replay case: %v", err)
		}
		w := verifC32NewWorld(t)
		r.Add("evaluations", 1)
		if c.Kind == "import" {
			im := w.newImporter()
			res := im.run(c.Members)
			fmt.Printf("REPLAY case=%s\nresult=%s\n", eng.JSON(c), eng.JSON(res))
			if len(res.Outside) > 0 {
				r.Violation(c.key(), fmt.Sprintf("Import changed files outside the snapshots directory: %v (Import returned %q)", res.Outside, res.Err), c)
			}
		} else {
			// the entry order is not owned: try a few times
			for i := 0; i < 8; i++ {
				res := w.runRestore(c)
				fmt.Printf("REPLAY case=%s\nresult=%s\n", eng.JSON(c), eng.JSON(res))
				if len(res.Problems) > 0 {
					r.Violation(c.key(), fmt.Sprintf("%v (Restore returned %q; entries processed in order %v)", res.Problems, res.Err, res.TarOrder), c)
					break
				}
			}
		}
		r.Finish("replay")
	}

	menu := verifC32Menu()
	bruteDepth := 2
	maxDepth := r.Pick(2, 3)
	rcases := verifC32RestoreCases(r.Thorough())
	r.Info("bounds", map[string]int{"import_menu_members": len(menu), "import_names": len(verifC32Names), "import_max_members": maxDepth, "import_brute_force_members": bruteDepth,
		"restore_cases": len(rcases), "restore_corruptions": len(verifC32CorruptKinds)*3 + 2, "restore_interruptions": 5})

	if r.Sharded(16) {
		r.Finish(rule)
	}

	w := verifC32NewWorld(t)

	// ---- Part I: import (cheap, runs first so that a time cap cannot starve it) ----
	capped := false
	im := w.newImporter()
	if sh, n := r.ShardIndex(); sh == 0 || n <= 1 {
		// the empty stream, and a control: a well-formed import must be accepted
		res := im.run(nil)
		r.Add("evaluations", 1)
		r.Add("import_streams_run", 1)
		im.judge(r, nil, res)
		good := []verifC32Member{{"1_hello-snap_v1_42.zip", "reg", "valid"}, {"export.json", "reg", "garbage"}}
		gres := im.run(good)
		if gres.Err != "" {
			eng.HarnessError("C32: control import of a well-formed stream failed: %s", eng.JSON(gres))
		}
	}
	for depth, from := bruteDepth, 1; depth <= maxDepth; depth, from = depth+1, depth+1 {
		if !im.explore(r, menu, bruteDepth, depth, from, importDeadline) {
			r.Cap("time_import", fmt.Sprintf("import enumeration stopped early in some shard while running streams of %d members", depth))
			break
		}
		r.Add(fmt.Sprintf("import_shards_completed_streams_of_%d_members", depth), 1)
	}

	// ---- Part II: restore ----
	// control: an uncorrupted, uninterrupted restore over existing data must succeed, else the harness is broken
	if sh, n := r.ShardIndex(); sh == 0 || n <= 1 {
		ctl := w.runRestore(verifC32Case{Kind: "restore", Corrupt: "none", Interrupt: "none", Existing: []string{"present", "present", "present"}, After: "cleanup"})
		if ctl.Err != "" || ctl.OpenErr != "" || len(ctl.TarOrder) != 3 {
			eng.HarnessError("C32: control restore failed: %s", eng.JSON(ctl))
		}
		if len(ctl.Problems) > 0 {
			r.Violation("restore:control", fmt.Sprintf("plain restore over existing data: %v", ctl.Problems), verifC32Case{Kind: "restore", Corrupt: "none", Interrupt: "none", Existing: []string{"present", "present", "present"}, After: "cleanup"})
		}
	}
	sampled := 0
	for i, c := range rcases {
		if !r.Mine(i) {
			continue
		}
		if r.TimeUp() {
			capped = true
			break
		}
		r.NoteCurrent(eng.JSON(c))
		res := w.judgeRestore(r, c, true)
		r.Add("evaluations", 1)
		r.Add("restore_cases_run", 1)
		switch {
		case res.OpenErr != "":
			r.Add("restore_snapshot_did_not_open", 1)
			r.Distinct("restore_outcome", "open-failed")
		case res.Err != "":
			r.Add("restores_failed", 1)
			if res.NeedsUndo {
				r.Add("restores_failed_after_an_entry_was_in_place", 1)
				r.Add("distinct_nontrivial", 1)
			}
			if len(res.Residue) > 0 {
				r.Add("restores_failed_leaving_residue_outside_data_trees", 1)
				for _, d := range res.Residue {
					r.Distinct("residue", strings.ReplaceAll(d, w.root, "$ROOT"))
				}
			}
			cls := strings.ReplaceAll(res.Err, w.root, "$ROOT")
			if len(cls) > 40 {
				cls = cls[:40]
			}
			r.Distinct("restore_outcome", "error:"+cls)
		default:
			r.Add("restores_succeeded", 1)
			if res.Moved > 0 {
				r.Add("restores_succeeded_over_existing_data", 1)
				r.Add("distinct_nontrivial", 1)
			}
			r.Distinct("restore_outcome", "ok/after="+c.After)
		}
		if len(res.TarOrder) == 3 {
			r.Distinct("entry_order", strings.Join(res.TarOrder, ","))
		}
		if sampled < 2 && res.NeedsUndo && c.Existing[0] == "present" {
			sampled++
			r.Sample(map[string]interface{}{"case": c, "result": res})
		}
	}
	if capped {
		r.Cap("time_restore", "restore enumeration stopped early in some shard")
	}

	r.Finish(rule)
}
