// C15hook — second part of C15 (snap-initiated refresh holds are bounded): the hook path.
//
// Explicit-state breadth-first exploration (successors by replay on a fresh fixture, global dedup on a
// clock-relative canonical key) of every sequence of
//
//	runhook(script)   the gate-auto-refresh hook of the gating snap G is run by the REAL hook manager
//	                  (run-hook task, gateAutoRefreshHookHandler Before/Done/Error); the mocked hook body
//	                  executes the script's snapctl calls through the REAL ctlcmd.Run ("refresh --hold",
//	                  "--proceed", "--pending") with the hook's context and then exits 0 or non-zero
//	advance(d)        the (mocked) clock moves
//	refresh(X)        what the refresh path does for X: LastRefreshTime := now, resetGatingForRefreshed(X)
//
// against a reference written from the property statement and the documented contract of the hook
// (no snapctl + exit 0 = proceed; failure = hold unless the hook's last word was already "hold").
// After every event snapstate.HeldSnaps is evaluated at the current time and at probe times around every
// bound.
//
// The parent process keeps the seen-set and the frontier; a pool of worker processes expands one BFS level
// at a time (clock, hook body and root directory are process globals). Quick and the extended family replay
// the whole path on one fixture for every successor; the deep thorough family replays every discovered state
// once on one fixture (the key must be the one found before) and computes its successors on fixtures
// restarted from the persisted state (state.ReadState of the last checkpoint, new overlord and managers).
package hookstate_test

import (
	"bufio"
	"bytes"
	"encoding/json"
	"fmt"
	"os"
	"os/exec"
	"path/filepath"
	"runtime"
	"runtime/debug"
	"runtime/pprof"
	"sort"
	"strconv"
	"strings"
	"sync"
	"testing"
	"time"

	"gopkg.in/tomb.v2"

	"github.com/snapcore/snapd/dirs"
	"github.com/snapcore/snapd/interfaces"
	"github.com/snapcore/snapd/overlord"
	"github.com/snapcore/snapd/overlord/configstate/config"
	"github.com/snapcore/snapd/overlord/hookstate"
	"github.com/snapcore/snapd/overlord/hookstate/ctlcmd"
	"github.com/snapcore/snapd/overlord/ifacestate/ifacerepo"
	"github.com/snapcore/snapd/overlord/restart"
	"github.com/snapcore/snapd/overlord/snapstate"
	"github.com/snapcore/snapd/overlord/snapstate/snapstatetest"
	"github.com/snapcore/snapd/overlord/state"
	"github.com/snapcore/snapd/release"
	"github.com/snapcore/snapd/snap"
	eng "github.com/snapcore/snapd/verifengine"
)

const (
	c15hG = "snap-a"      // gating snap: has the gate-auto-refresh hook, base: base-snap-a
	c15hA = "base-snap-a" // the other snap: base of G, so its refresh affects G

	c15hDay      = 24 * time.Hour
	c15hMaxOther = 48 * time.Hour
	c15hMaxAny   = 90 * c15hDay
)

const c15hGYaml = `name: snap-a
version: 1
base: base-snap-a
hooks:
    gate-auto-refresh:
`

const c15hAYaml = `name: base-snap-a
version: 1
type: base
`

var c15hBase = time.Date(2030, 1, 1, 0, 0, 0, 0, time.UTC)

// ---------------------------------------------------------------------------------------------------
// events

type c15hEvent struct {
	K string        `json:"k"`           // hook | advance | refresh
	S string        `json:"s,omitempty"` // hook: script name; refresh: snap name
	D time.Duration `json:"d,omitempty"` // advance
}

func (e c15hEvent) String() string {
	switch e.K {
	case "hook":
		return "runhook(" + e.S + ")"
	case "refresh":
		return "refresh(" + e.S + ")"
	}
	return "advance(" + e.D.String() + ")"
}

// a script is a "+"-separated list of snapctl calls (hold | proceed | pending | pendinghold) optionally
// followed by "fail" (the hook exits non-zero); "exit0" is the empty script.
func c15hParseScript(name string) (actions []string, fail bool) {
	for _, tok := range strings.Split(name, "+") {
		switch tok {
		case "exit0":
		case "fail":
			fail = true
		case "hold", "proceed", "pending", "pendinghold":
			actions = append(actions, tok)
		default:
			eng.HarnessError("unknown script token %q", tok)
		}
	}
	return actions, fail
}

// the world kinds differ in which snaps have an update pending (refresh-candidates), i.e. which snaps a
// "snapctl refresh --hold" of G covers: the other snap A, A and G itself, or only G itself.
var c15hAffecting = map[string][]string{
	"other": {c15hA},
	"both":  {c15hA, c15hG},
	"self":  {c15hG},
}

func c15hScripts(thorough bool) []string {
	// every combination of the snapctl actions the hook may issue and its exit status
	s := []string{"exit0", "hold", "proceed", "hold+fail", "fail", "hold+proceed", "proceed+fail"}
	if thorough {
		s = append(s, "proceed+hold", "hold+hold", "hold+proceed+fail", "pendinghold", "pending")
	}
	return s
}

func c15hAlphabet(kind string, thorough bool) []c15hEvent {
	var evs []c15hEvent
	for _, s := range c15hScripts(thorough) {
		evs = append(evs, c15hEvent{K: "hook", S: s})
	}
	adv := []time.Duration{time.Hour, 24 * time.Hour, 47 * time.Hour, 49 * time.Hour}
	if kind != "other" || thorough {
		adv = append(adv, 89*c15hDay)
	}
	if kind != "other" && thorough {
		adv = append(adv, 91*c15hDay)
	}
	for _, d := range adv {
		evs = append(evs, c15hEvent{K: "advance", D: d})
	}
	for _, n := range c15hAffecting[kind] {
		evs = append(evs, c15hEvent{K: "refresh", S: n})
	}
	return evs
}

// ---------------------------------------------------------------------------------------------------
// reference (independent of the implementation): hold episodes and last-refresh times

type c15hRef struct {
	kind        string
	lastRefresh map[string]time.Time
	episodes    map[string]time.Time // "held|holder" -> start of the current hold episode
	// a request of this episode was refused: the episode is NOT over (the held snap was neither refreshed nor
	// released), every further request of the holder must be refused too
	refused map[string]bool
	// ... and the holder has asked again since (the known finding "retry-after-refusal": snapd forgets the
	// episode when it refuses, so the retry is granted a fresh 48h)
	retried map[string]bool
	// a retry after a refusal has happened and G has not released everything since: what snapd reports for
	// records without a reference episode (G's hold on itself) is a consequence of the known finding
	tainted bool
	// what happened to each held snap during the event that was applied last (for messages / keys)
	refusedNow map[string]bool
}

func c15hNewRef(kind string, now time.Time) *c15hRef {
	r := &c15hRef{kind: kind, lastRefresh: map[string]time.Time{}, episodes: map[string]time.Time{}, refused: map[string]bool{}, retried: map[string]bool{}, refusedNow: map[string]bool{}}
	for _, n := range []string{c15hA, c15hG} {
		r.lastRefresh[n] = now.Add(-12 * time.Hour)
	}
	return r
}

func (r *c15hRef) end(key string) {
	delete(r.episodes, key)
	delete(r.refused, key)
	delete(r.retried, key)
}

// holdRequest: G asks to hold every snap whose refresh affects it. Returns whether the request must be refused
// and whether it is a retry in an episode that already had a refusal.
func (r *c15hRef) holdRequest(now time.Time) (refuse, retry bool) {
	set := c15hAffecting[r.kind]
	for _, on := range set {
		if !now.Before(r.lastRefresh[on].Add(c15hMaxAny)) {
			refuse = true
		}
		if start, ok := r.episodes[on+"|"+c15hG]; ok && on != c15hG && !now.Before(start.Add(c15hMaxOther)) {
			refuse = true
		}
		if r.refused[on+"|"+c15hG] {
			retry = true
		}
	}
	if retry {
		r.tainted = true
	}
	for _, on := range set {
		key := on + "|" + c15hG
		_, running := r.episodes[key]
		if r.refused[key] {
			r.retried[key] = true
		}
		if refuse {
			r.refusedNow[on] = true
			if running && on != c15hG {
				// a refusal does not end the episode of another snap: the 48 hours keep counting from the first hold
				r.refused[key] = true
			} else {
				r.end(key)
			}
		} else {
			if !running {
				r.episodes[key] = now
			}
			delete(r.refusedNow, on)
		}
	}
	return refuse, retry
}

// proceed: an effective --proceed (or exit 0 without a hold request) of G releases everything G holds
func (r *c15hRef) proceed() {
	for k := range r.episodes {
		if strings.HasSuffix(k, "|"+c15hG) {
			r.end(k)
		}
	}
	r.tainted = false
}

func (r *c15hRef) refresh(name string, now time.Time) {
	r.lastRefresh[name] = now
	if name == c15hG {
		r.tainted = false // the refresh of G resets every hold on G, also its own
	}
	for k := range r.episodes {
		if strings.HasPrefix(k, name+"|") {
			r.end(k)
		}
	}
}

// ---------------------------------------------------------------------------------------------------
// fixture: real overlord state engine + task runner + hook manager; mocked hook body calling ctlcmd.Run

type c15hCall struct {
	action string
	err    error
	stdout string
}

type c15hProblem struct {
	Class string `json:"class"`
	Msg   string `json:"msg"`
}

type c15hWorld struct {
	kind    string
	backend *c15hBackend
	o       *overlord.Overlord
	st      *state.State
	mgr     *hookstate.HookManager
	ref     *c15hRef

	mu  sync.Mutex
	now time.Time // the mocked clock (also moved to probe times by the oracle)

	// current hook run
	script  string
	actions []string
	fail    bool
	calls   []c15hCall
	hookRan int

	quiet    bool
	problems []c15hProblem
	stats    map[string]int64
	outcome  string // of the last event
	evals    int64
}

var (
	c15hCur      *c15hWorld // the world the process-global mocks (clock, hook body) are bound to
	c15hRootOnce sync.Once
	c15hRootDir  string
)

func c15hClock() time.Time {
	w := c15hCur
	w.mu.Lock()
	defer w.mu.Unlock()
	return w.now
}

func (w *c15hWorld) setNow(t time.Time) { w.mu.Lock(); w.now = t; w.mu.Unlock() }
func (w *c15hWorld) getNow() time.Time  { w.mu.Lock(); defer w.mu.Unlock(); return w.now }

func c15hHookBody(ctx *hookstate.Context, _ *tomb.Tomb) ([]byte, error) {
	w := c15hCur
	if ctx.HookName() != "gate-auto-refresh" || ctx.InstanceName() != c15hG {
		eng.HarnessError("unexpected hook %s of %s", ctx.HookName(), ctx.InstanceName())
	}
	w.hookRan++
	for _, a := range w.actions {
		var args []string
		switch a {
		case "hold":
			args = []string{"refresh", "--hold"}
		case "proceed":
			args = []string{"refresh", "--proceed"}
		case "pending":
			args = []string{"refresh", "--pending"}
		case "pendinghold":
			args = []string{"refresh", "--pending", "--hold"}
		}
		stdout, _, err := ctlcmd.Run(ctx, args, 0)
		w.calls = append(w.calls, c15hCall{action: a, err: err, stdout: string(stdout)})
	}
	if w.fail {
		return []byte("hook failed"), fmt.Errorf("exit status 1")
	}
	return nil, nil
}

// one directory tree per process with the (read-only) snap.yaml files of the two snaps
func c15hSetupRoot() {
	c15hRootOnce.Do(func() {
		c15hRootDir = filepath.Join(eng.WorkDir(), "c15hook", fmt.Sprintf("root-%d", os.Getpid()))
		os.RemoveAll(c15hRootDir)
		if err := os.MkdirAll(c15hRootDir, 0755); err != nil {
			eng.HarnessError("%v", err)
		}
		dirs.SetRootDir(c15hRootDir)
		release.MockOnClassic(true)
		snap.MockSanitizePlugsSlots(func(*snap.Info) {})
		for name, yaml := range map[string]string{c15hG: c15hGYaml, c15hA: c15hAYaml} {
			md := filepath.Join(snap.MountDir(name, snap.R(1)), "meta")
			if err := os.MkdirAll(md, 0755); err != nil {
				eng.HarnessError("%v", err)
			}
			if err := os.WriteFile(filepath.Join(md, "snap.yaml"), []byte(yaml), 0644); err != nil {
				eng.HarnessError("%v", err)
			}
			mf := snap.MountFile(name, snap.R(1))
			os.MkdirAll(filepath.Dir(mf), 0755)
			if err := os.WriteFile(mf, []byte(name+"-blob"), 0644); err != nil {
				eng.HarnessError("%v", err)
			}
		}
		snapstate.VerifC15hookMockTimeNow(c15hClock)
		hookstate.MockRunHook(c15hHookBody)
	})
}

func c15hCleanupRoot() {
	if c15hRootDir != "" {
		os.RemoveAll(c15hRootDir)
	}
}

// the state backend keeps the last checkpoint: the persisted form of the state (what a restart of snapd reads back)
type c15hBackend struct {
	mu   sync.Mutex
	last []byte
}

func (b *c15hBackend) Checkpoint(data []byte) error {
	b.mu.Lock()
	b.last = append(b.last[:0], data...)
	b.mu.Unlock()
	return nil
}

func (b *c15hBackend) EnsureBefore(time.Duration) {}

// a persisted world: state file content + clock + reference bookkeeping
type c15hSnapshot struct {
	kind  string
	data  []byte
	now   time.Time
	lastR map[string]time.Time
	eps   map[string]time.Time
	refd  map[string]bool
	retr  map[string]bool
	taint bool
}

func (w *c15hWorld) snapshot() *c15hSnapshot {
	// make sure the last checkpoint is current
	w.st.Lock()
	w.st.Set("verif-c15hook-touch", nil)
	w.st.Unlock()
	w.backend.mu.Lock()
	data := append([]byte(nil), w.backend.last...)
	w.backend.mu.Unlock()
	s := &c15hSnapshot{kind: w.kind, data: data, now: w.getNow(), lastR: map[string]time.Time{}, eps: map[string]time.Time{}, refd: map[string]bool{}, retr: map[string]bool{}, taint: w.ref.tainted}
	for k, v := range w.ref.lastRefresh {
		s.lastR[k] = v
	}
	for k, v := range w.ref.episodes {
		s.eps[k] = v
	}
	for k, v := range w.ref.refused {
		s.refd[k] = v
	}
	for k, v := range w.ref.retried {
		s.retr[k] = v
	}
	return s
}

// c15hStartWorld builds overlord + task runner + hook manager over a new state (st == nil) or over a state
// read back from its persisted form (a restarted snapd).
func c15hStartWorld(kind string, backend *c15hBackend, st *state.State) *c15hWorld {
	c15hSetupRoot()
	if c15hAffecting[kind] == nil {
		eng.HarnessError("unknown world kind %q", kind)
	}
	w := &c15hWorld{kind: kind, now: c15hBase, stats: map[string]int64{}, backend: backend}
	w.ref = c15hNewRef(kind, w.now)
	c15hCur = w
	if st == nil {
		st = state.New(backend)
	}
	w.o = overlord.MockWithState(st)
	w.st = w.o.State()
	w.st.Lock()
	_, err := restart.Manager(w.st, "boot-id-0", nil)
	ifacerepo.Replace(w.st, interfaces.NewRepository())
	w.st.Unlock()
	if err != nil {
		eng.HarnessError("restart manager: %v", err)
	}
	w.mgr, err = hookstate.Manager(w.st, w.o.TaskRunner())
	if err != nil {
		eng.HarnessError("hook manager: %v", err)
	}
	w.o.AddManager(w.mgr)
	w.o.AddManager(w.o.TaskRunner())
	if err := w.o.StartUp(); err != nil {
		eng.HarnessError("startup: %v", err)
	}
	return w
}

func c15hRestore(s *c15hSnapshot) *c15hWorld {
	backend := &c15hBackend{}
	st, err := state.ReadState(backend, bytes.NewReader(s.data))
	if err != nil {
		eng.HarnessError("cannot read the persisted state back: %v", err)
	}
	w := c15hStartWorld(s.kind, backend, st)
	w.now = s.now
	for k, v := range s.lastR {
		w.ref.lastRefresh[k] = v
	}
	for k, v := range s.eps {
		w.ref.episodes[k] = v
	}
	for k, v := range s.refd {
		w.ref.refused[k] = v
	}
	for k, v := range s.retr {
		w.ref.retried[k] = v
	}
	w.ref.tainted = s.taint
	return w
}

func c15hNewWorld(kind string) *c15hWorld {
	w := c15hStartWorld(kind, &c15hBackend{}, nil)
	w.st.Lock()
	defer w.st.Unlock()
	// refresh-app-awareness (run inhibition lock files) is not part of this property
	tr := config.NewTransaction(w.st)
	tr.Set("core", "experimental.refresh-app-awareness", false)
	tr.Commit()
	for _, n := range []string{c15hG, c15hA} {
		si := &snap.SideInfo{RealName: n, SnapID: n + "-id1", Revision: snap.R(1)}
		lr := w.ref.lastRefresh[n]
		snapstate.Set(w.st, n, &snapstate.SnapState{
			Active:          true,
			Sequence:        snapstatetest.NewSequenceFromSnapSideInfos([]*snap.SideInfo{si}),
			Current:         snap.R(1),
			LastRefreshTime: &lr,
		})
	}
	cands := map[string]interface{}{}
	for _, n := range c15hAffecting[kind] {
		cands[n] = snapstate.MockRefreshCandidate(&snapstate.SnapSetup{
			Channel:  "edge",
			Version:  "v2",
			SideInfo: &snap.SideInfo{RealName: n, Revision: snap.R(3)},
		})
	}
	w.st.Set("refresh-candidates", cands)
	// the reference's idea of what a hold of G covers must be what snapd computes
	aff, err := snapstate.AffectingSnapsForAffectedByRefreshCandidates(w.st, c15hG)
	if err != nil {
		eng.HarnessError("affecting snaps: %v", err)
	}
	want := append([]string(nil), c15hAffecting[kind]...)
	sort.Strings(want)
	if fmt.Sprint(aff) != fmt.Sprint(want) {
		eng.HarnessError("world %s: snapd says %v affect %s, the reference assumes %v", kind, aff, c15hG, want)
	}
	return w
}

func (w *c15hWorld) close() {
	w.mgr.StopHooks()
	w.o.StateEngine().Stop()
}

func (w *c15hWorld) problem(class, f string, a ...interface{}) {
	w.problems = append(w.problems, c15hProblem{Class: class, Msg: fmt.Sprintf(f, a...)})
}

func (w *c15hWorld) rel(t time.Time) string { return t.Sub(c15hBase).String() }

// ---------------------------------------------------------------------------------------------------
// applying an event to the implementation and to the reference

func (w *c15hWorld) apply(ev c15hEvent) {
	c15hCur = w
	w.outcome = ""
	for k := range w.ref.refusedNow {
		delete(w.ref.refusedNow, k)
	}
	now := w.getNow()
	switch ev.K {
	case "advance":
		w.setNow(now.Add(ev.D))
	case "refresh":
		w.st.Lock()
		var snapst snapstate.SnapState
		if err := snapstate.Get(w.st, ev.S, &snapst); err != nil {
			eng.HarnessError("%v", err)
		}
		lr := now
		snapst.LastRefreshTime = &lr
		snapstate.Set(w.st, ev.S, &snapst)
		if err := snapstate.VerifC15hookResetGatingForRefreshed(w.st, ev.S); err != nil {
			w.problem("error", "resetGatingForRefreshed(%s): %v", ev.S, err)
		}
		w.st.Unlock()
		w.ref.refresh(ev.S, now)
	case "hook":
		w.runHook(ev.S)
	default:
		eng.HarnessError("unknown event kind %q", ev.K)
	}
	if !w.quiet {
		w.check(ev)
	}
}

func (w *c15hWorld) runHook(script string) {
	now := w.getNow()
	w.script = script
	w.actions, w.fail = c15hParseScript(script)
	w.calls = nil
	ran0 := w.hookRan

	w.st.Lock()
	task := hookstate.SetupGateAutoRefreshHook(w.st, c15hG)
	chg := w.st.NewChange("auto-refresh", "gate auto-refresh")
	chg.AddTask(task)
	w.st.Unlock()
	se := w.o.StateEngine()
	var status state.Status
	for i := 0; i < 20; i++ {
		se.Ensure()
		se.Wait()
		w.st.Lock()
		status = task.Status()
		w.st.Unlock()
		if status.Ready() {
			break
		}
	}
	w.st.Lock()
	chgErr := chg.Err()
	// keep the state small: replays marshal it at every unlock
	w.st.Prune(time.Time{}, time.Nanosecond, time.Nanosecond, 0)
	w.st.Unlock()
	if w.hookRan != ran0+1 {
		eng.HarnessError("the hook body ran %d times in one hook task (status %s, err %v)", w.hookRan-ran0, status, chgErr)
	}
	if len(w.calls) != len(w.actions) {
		eng.HarnessError("hook body issued %d snapctl calls, script has %d", len(w.calls), len(w.actions))
	}
	if status != state.DoneStatus {
		// the gate-auto-refresh handler swallows hook failures (it turns them into a hold or a refusal)
		// (counted and recorded, not a violation of this property)
		w.stats["hook_task_not_done"]++
	}

	// ---- reference + per-call expectations
	out := []string{}
	lastWord := "" // the hook's last snapctl request (what the handler's default behaviour is defined on)
	anyRefused := false
	for _, c := range w.calls {
		switch c.action {
		case "hold", "pendinghold":
			lastWord = "hold"
			before := w.describeBounds(now)
			refuse, retry := w.ref.holdRequest(now)
			w.stats["hold_requests"]++
			switch {
			case refuse && c.err == nil:
				cls := "refuse"
				if retry {
					// the class of the known finding: snapd forgets the episode when it refuses, the retry gets a fresh 48h
					cls = "retry-after-refusal"
					w.stats["retries_after_refusal_accepted"]++
				}
				w.problem(cls, "snapctl refresh --hold by %s at +%s was accepted (%q) although a bound was reached (%s)", c15hG, w.rel(now), strings.TrimSpace(c.stdout), before)
				out = append(out, "hold:accepted!")
			case refuse:
				if !strings.Contains(c.err.Error(), "cannot hold some snaps") {
					w.problem("error", "snapctl refresh --hold failed with an unexpected error: %v", c.err)
				}
				w.stats["refused_holds"]++
				anyRefused = true
				out = append(out, "hold:refused")
			case c.err != nil:
				w.problem("refuse", "snapctl refresh --hold by %s at +%s was refused although no bound is reached (%s): %v", c15hG, w.rel(now), before, c.err)
				out = append(out, "hold:refused!")
			default:
				w.stats["accepted_holds"]++
				out = append(out, "hold:ok")
			}
			if c.action == "pendinghold" && !strings.Contains(c.stdout, "pending:") {
				w.problem("error", "snapctl refresh --pending --hold printed no pending information: %q", c.stdout)
			}
		case "proceed":
			lastWord = "proceed"
			if c.err != nil {
				w.problem("error", "snapctl refresh --proceed failed: %v", c.err)
			}
			out = append(out, "proceed")
		case "pending":
			if c.err != nil || !strings.Contains(c.stdout, "pending:") {
				w.problem("error", "snapctl refresh --pending: %q, %v", c.stdout, c.err)
			}
			out = append(out, "pending")
		}
	}
	if w.fail {
		w.stats["hook_failures"]++
		if anyRefused {
			w.stats["hook_failures_after_refused_hold"]++
		}
		if lastWord != "hold" {
			// a failing hook means "hold" unless the hook already said so itself
			refuse, _ := w.ref.holdRequest(now)
			w.stats["implicit_hold_requests"]++
			if refuse {
				w.stats["implicit_holds_refused"]++
				out = append(out, "fail:hold-refused")
			} else {
				out = append(out, "fail:hold")
			}
		} else {
			out = append(out, "fail:already-hold")
		}
	} else if lastWord != "hold" {
		// exit 0 without a request, or with --proceed as the last word: the refresh may proceed
		w.ref.proceed()
		out = append(out, "exit0:proceed")
	} else {
		out = append(out, "exit0")
	}
	// "first held": an episode starts when the snap really is held. A request the reference accepts but that
	// leaves the snap not held (holding less is no violation of this property) has not started one.
	w.st.Lock()
	held, err := snapstate.HeldSnaps(w.st, snapstate.HoldAutoRefresh)
	w.st.Unlock()
	if err != nil {
		w.problem("error", "HeldSnaps: %v", err)
	}
	var notHeld []string
	for k, start := range w.ref.episodes {
		if !start.Equal(now) {
			continue
		}
		onBy := strings.SplitN(k, "|", 2)
		established := false
		for _, h := range held[onBy[0]] {
			if h == onBy[1] {
				established = true
			}
		}
		if !established {
			w.ref.end(k)
			w.stats["accepted_holds_not_in_effect"]++
			notHeld = append(notHeld, "not-held:"+onBy[0])
		}
	}
	sort.Strings(notHeld)
	out = append(out, notHeld...)
	w.outcome = script + "=>" + strings.Join(out, ",")
}

func (w *c15hWorld) describeBounds(now time.Time) string {
	var parts []string
	for _, on := range c15hAffecting[w.kind] {
		ep := "none"
		if s, ok := w.ref.episodes[on+"|"+c15hG]; ok {
			ep = "+" + w.rel(s)
			if w.ref.refused[on+"|"+c15hG] {
				ep += " (a request of this episode was refused before)"
			}
		}
		parts = append(parts, fmt.Sprintf("%s: episode start %s, last refresh %s ago", on, ep, now.Sub(w.ref.lastRefresh[on])))
	}
	return strings.Join(parts, "; ")
}

// check evaluates the reporting side (HeldSnaps) at the current time and at probe times around every bound.
func (w *c15hWorld) check(ev c15hEvent) {
	now := w.getNow()
	probes := []time.Time{now, now.Add(time.Second), now.Add(time.Hour)}
	for _, start := range w.ref.episodes {
		for _, d := range []time.Duration{-time.Minute, -time.Second, 0, time.Second, time.Minute, time.Hour} {
			probes = append(probes, start.Add(c15hMaxOther+d))
		}
	}
	for _, lr := range w.ref.lastRefresh {
		for _, d := range []time.Duration{-time.Second, 0, time.Second, time.Minute} {
			probes = append(probes, lr.Add(c15hMaxAny+d))
		}
		probes = append(probes, lr.Add(95*c15hDay+time.Second))
	}
	// probes after a refused request: the old bound + the time a fresh default hold would reach
	if len(w.ref.refusedNow) > 0 {
		probes = append(probes, now.Add(c15hMaxOther-time.Second), now.Add(c15hMaxOther+time.Second))
	}
	w.st.Lock()
	defer w.st.Unlock()
	defer w.setNow(now)
	heldNow := map[string]bool{}
	probed := map[int64]bool{}
	for _, t := range probes {
		if t.Before(now) || probed[t.UnixNano()] {
			continue
		}
		probed[t.UnixNano()] = true
		w.setNow(t)
		held, err := snapstate.HeldSnaps(w.st, snapstate.HoldAutoRefresh)
		w.evals++
		if err != nil {
			w.problem("error", "HeldSnaps: %v", err)
			continue
		}
		for on, holders := range held {
			for _, h := range holders {
				if h == "system" {
					continue
				}
				if t.Equal(now) {
					heldNow[on+"|"+h] = true
				}
				start, ok := w.ref.episodes[on+"|"+h]
				if !ok {
					if w.ref.tainted {
						// e.g. G's hold on itself, re-created by a retry that snapd should have refused (known finding)
						w.problem("retry-after-refusal", "%s is reported held by %s at +%s without a running hold episode, after %s asked again in an episode that already had a refusal", on, h, w.rel(t), c15hG)
					} else if w.ref.refusedNow[on] {
						w.problem("refused-hold-extended", "%s is reported held by %s at +%s although the hold request made during %s at +%s was refused (bound reached) and nothing else was requested", on, h, w.rel(t), ev, w.rel(now))
					} else {
						w.problem("report", "%s is reported held by %s at +%s although that hold was released (proceed), refused or reset by a refresh", on, h, w.rel(t))
					}
					continue
				}
				if h != on && t.After(start.Add(c15hMaxOther)) {
					switch k := on + "|" + h; {
					case w.ref.refused[k] && w.ref.retried[k]:
						// the known finding: the refusal made snapd forget the episode, the retry was granted a fresh 48h
						w.problem("retry-after-refusal", "%s is reported held by %s at +%s, more than 48h after the hold episode started at +%s: a request of this episode was refused and %s asked again", on, h, w.rel(t), w.rel(start), h)
					case w.ref.refused[k]:
						w.problem("refused-hold-extended", "%s is reported held by %s at +%s, more than 48h after the hold episode started at +%s, although the last hold request of %s was refused (bound reached) and it has not asked again", on, h, w.rel(t), w.rel(start), h)
					default:
						w.problem("bound48h", "%s is reported held by %s at +%s, more than 48h after the hold episode started at +%s", on, h, w.rel(t), w.rel(start))
					}
				}
				if t.After(w.ref.lastRefresh[on].Add(c15hMaxAny)) {
					w.problem("bound90d", "%s is reported held by %s at +%s, more than 90 days after its last refresh at +%s", on, h, w.rel(t), w.rel(w.ref.lastRefresh[on]))
				}
			}
		}
	}
	// vacuity guard, not an oracle: holds that the reference considers running and within bounds are reported now
	for k, start := range w.ref.episodes {
		on := strings.SplitN(k, "|", 2)[0]
		within := now.Before(w.ref.lastRefresh[on].Add(c15hMaxAny)) && (on == c15hG || now.Before(start.Add(c15hMaxOther)))
		if within && !w.ref.refused[k] {
			w.stats["running_holds_expected"]++
			if heldNow[k] {
				w.stats["running_holds_reported"]++
			}
		}
	}
	var hn []string
	for k := range heldNow {
		hn = append(hn, k)
	}
	sort.Strings(hn)
	if w.outcome != "" {
		w.outcome += " held=" + strings.Join(hn, ",")
	}
}

// ---------------------------------------------------------------------------------------------------
// canonical key: snaps-hold relative to the clock, last-refresh offsets, reference episodes

type c15hHold struct {
	FirstHeld time.Time `json:"first-held"`
	HoldUntil time.Time `json:"hold-until"`
	Level     int       `json:"level,omitempty"`
}

func (w *c15hWorld) key() string {
	now := w.getNow()
	w.st.Lock()
	defer w.st.Unlock()
	var gating map[string]map[string]*c15hHold
	if err := w.st.Get("snaps-hold", &gating); err != nil && !strings.Contains(err.Error(), "no state entry") {
		eng.HarnessError("snaps-hold: %v", err)
	}
	parts := []string{"world=" + w.kind}
	for on, m := range gating {
		for by, h := range m {
			parts = append(parts, fmt.Sprintf("%s<%s:first%s,until%s,l%d", on, by, h.FirstHeld.Sub(now), h.HoldUntil.Sub(now), h.Level))
		}
	}
	for _, n := range []string{c15hA, c15hG} {
		var snapst snapstate.SnapState
		if err := snapstate.Get(w.st, n, &snapst); err != nil || snapst.LastRefreshTime == nil {
			eng.HarnessError("snap state of %s: %v", n, err)
		}
		if !snapst.LastRefreshTime.Equal(w.ref.lastRefresh[n]) {
			eng.HarnessError("last refresh of %s: state %v, reference %v", n, snapst.LastRefreshTime, w.ref.lastRefresh[n])
		}
		parts = append(parts, fmt.Sprintf("lr(%s)=%s", n, snapst.LastRefreshTime.Sub(now)))
	}
	for k, start := range w.ref.episodes {
		parts = append(parts, fmt.Sprintf("ep(%s)=%s/refused=%v/retried=%v", k, start.Sub(now), w.ref.refused[k], w.ref.retried[k]))
	}
	if w.ref.tainted {
		parts = append(parts, "tainted")
	}
	if n := len(w.st.Changes()); n != 0 {
		parts = append(parts, fmt.Sprintf("changes=%d", n))
	}
	sort.Strings(parts)
	return strings.Join(parts, ";")
}

// ---------------------------------------------------------------------------------------------------
// exploration: the parent process keeps the global seen-set and the frontier; each level is expanded by
// worker processes (the clock, the hook body and the root directory are process globals).

type c15hCase struct {
	Part  string      `json:"part"` // "C15hook" (the other part of C15 ignores these cases)
	World string      `json:"world"`
	Path  []c15hEvent `json:"hookpath"`
	Msg   string      `json:"msg,omitempty"`
}

type c15hNode struct {
	World string      `json:"w"`
	Path  []c15hEvent `json:"p"`
	Key   string      `json:"k"`
}

type c15hJob struct {
	Extended bool       `json:"extended"` // the extended alphabet (more scripts, more advances)
	Restart  bool       `json:"restart"`  // successors on a fixture restarted from the persisted state instead of a replay per successor
	Validate bool       `json:"validate"` // only replay every node continuously and compare the key
	Deadline int64      `json:"deadline"` // unix nanoseconds, 0 = none
	Nodes    []c15hNode `json:"nodes"`
}

type c15hSucc struct {
	N   int    `json:"n"` // node index in the job
	E   int    `json:"e"` // event index in the world's alphabet
	Key string `json:"k"`
	Act bool   `json:"a"` // some hold episode is running after the event
}

type c15hViol struct {
	Key  string   `json:"key"`
	Msg  string   `json:"msg"`
	Case c15hCase `json:"case"`
}

type c15hResult struct {
	Succ       []c15hSucc       `json:"succ"`
	Viol       []c15hViol       `json:"viol"`
	Stats      map[string]int64 `json:"stats"`
	Outcomes   []string         `json:"outcomes"`
	Incomplete bool             `json:"incomplete"`
	Error      string           `json:"error,omitempty"`
}

func c15hReplay(kind string, path []c15hEvent) *c15hWorld {
	w := c15hNewWorld(kind)
	w.quiet = true
	for _, ev := range path {
		w.apply(ev)
	}
	w.quiet = false
	w.problems = nil
	w.stats = map[string]int64{}
	return w
}

func c15hViolKey(p c15hProblem, kind string, ev c15hEvent) string {
	if p.Class == "retry-after-refusal" {
		return "hook|retry-after-refusal" // one class key: the same defect whatever world / event made it visible
	}
	what := ev.K
	if ev.K == "hook" {
		what = "hook:" + ev.S
	}
	return "hook|" + p.Class + "|" + kind + "|" + what
}

// worker process: reads the names of job files from stdin, one per line; expands every node of a job by
// every event of its alphabet; writes <job>.out and answers "C15HOOK-DONE <job>" on stdout.
func c15hWorkerLoop() {
	defer c15hCleanupRoot()
	runtime.GOMAXPROCS(2) // one worker per core: the events of a path are sequential
	debug.SetGCPercent(400)
	if pf := os.Getenv("C15HOOK_PROF"); pf != "" { // experiments only
		if f, err := os.Create(pf); err == nil {
			pprof.StartCPUProfile(f)
			defer pprof.StopCPUProfile()
		}
	}
	sc := bufio.NewScanner(os.Stdin)
	sc.Buffer(make([]byte, 1<<16), 1<<16)
	for sc.Scan() {
		jf := strings.TrimSpace(sc.Text())
		if jf == "" {
			continue
		}
		c15hWorker(jf, jf+".out")
		fmt.Printf("\nC15HOOK-DONE %s\n", jf)
	}
}

func c15hWorker(jobFile, outFile string) {
	var job c15hJob
	b, err := os.ReadFile(jobFile)
	if err == nil {
		err = json.Unmarshal(b, &job)
	}
	if err != nil {
		eng.HarnessError("worker: %v", err)
	}
	res := c15hResult{Stats: map[string]int64{}}
	outcomes := map[string]bool{}
nodes:
	for ni, node := range job.Nodes {
		alpha := c15hAlphabet(node.World, job.Extended)
		// one continuous replay of the path the state was discovered by: it must give the same state again
		base := c15hReplay(node.World, node.Path)
		if k := base.key(); k != node.Key {
			res.Error = fmt.Sprintf("continuous replay of %v in world %s gives key %q, first seen as %q", node.Path, node.World, k, node.Key)
			base.close()
			break nodes
		}
		res.Stats["states_confirmed_by_continuous_replay"]++
		if job.Validate {
			base.close()
			continue
		}
		var snapshot *c15hSnapshot
		if job.Restart {
			snapshot = base.snapshot()
			base.close()
			base = nil
		}
		for ei, ev := range alpha {
			if job.Deadline != 0 && time.Now().UnixNano() > job.Deadline {
				res.Incomplete = true
				if base != nil {
					base.close()
				}
				break nodes
			}
			var w *c15hWorld
			switch {
			case job.Restart:
				// successor on a restarted snapd: new overlord/managers over the state read back from its persisted form
				w = c15hRestore(snapshot)
			case base != nil:
				w, base = base, nil
			default:
				w = c15hReplay(node.World, node.Path)
			}
			if k := w.key(); k != node.Key {
				res.Error = fmt.Sprintf("replay/restart of %v in world %s gives key %q, first seen as %q", node.Path, node.World, k, node.Key)
				w.close()
				break nodes
			}
			w.apply(ev)
			np := append(append([]c15hEvent(nil), node.Path...), ev)
			for _, p := range w.problems {
				res.Viol = append(res.Viol, c15hViol{Key: c15hViolKey(p, node.World, ev), Msg: p.Msg + " [world " + node.World + ", path: " + fmt.Sprint(np) + "]",
					Case: c15hCase{Part: "C15hook", World: node.World, Path: np, Msg: p.Msg}})
			}
			for k, v := range w.stats {
				res.Stats[k] += v
			}
			res.Stats["evaluations"] += w.evals
			res.Stats["transitions"]++
			if ev.K == "hook" {
				res.Stats["hook_runs:"+ev.S]++
				outcomes[w.outcome] = true
			}
			res.Succ = append(res.Succ, c15hSucc{N: ni, E: ei, Key: w.key(), Act: len(w.ref.episodes) > 0})
			w.close()
		}
	}
	for o := range outcomes {
		res.Outcomes = append(res.Outcomes, o)
	}
	b, _ = json.Marshal(res)
	if err := os.WriteFile(outFile+".tmp", b, 0644); err != nil {
		eng.HarnessError("worker: %v", err)
	}
	os.Rename(outFile+".tmp", outFile)
}

// pool of persistent worker processes
type c15hProc struct {
	cmd   *exec.Cmd
	stdin *os.File
	lines *bufio.Scanner
	tail  []string
}

func c15hStartProc(exe string) (*c15hProc, error) {
	cmd := exec.Command(exe, "-test.run", "^TestVerifC15hook$", "-test.timeout", "0", "-test.count", "1")
	cmd.Env = append(os.Environ(), "C15HOOK_WORKER=1")
	inR, inW, err := os.Pipe()
	if err != nil {
		return nil, err
	}
	outR, outW, err := os.Pipe()
	if err != nil {
		return nil, err
	}
	cmd.Stdin = inR
	cmd.Stdout = outW
	cmd.Stderr = outW
	if err := cmd.Start(); err != nil {
		return nil, err
	}
	inR.Close()
	outW.Close()
	sc := bufio.NewScanner(outR)
	sc.Buffer(make([]byte, 1<<20), 1<<20)
	return &c15hProc{cmd: cmd, stdin: inW, lines: sc}, nil
}

// run sends one job and waits for its result; an error means the process died (its last output is in the error)
func (p *c15hProc) run(jobFile string, job *c15hJob, res *c15hResult) error {
	b, _ := json.Marshal(job)
	if err := os.WriteFile(jobFile, b, 0644); err != nil {
		return err
	}
	defer os.Remove(jobFile)
	defer os.Remove(jobFile + ".out")
	if _, err := fmt.Fprintln(p.stdin, jobFile); err != nil {
		return fmt.Errorf("worker gone: %v: %s", err, strings.Join(p.tail, "\n"))
	}
	for p.lines.Scan() {
		line := p.lines.Text()
		if line == "C15HOOK-DONE "+jobFile {
			rb, err := os.ReadFile(jobFile + ".out")
			if err != nil {
				return err
			}
			return json.Unmarshal(rb, res)
		}
		p.tail = append(p.tail, line)
		if len(p.tail) > 60 {
			p.tail = p.tail[len(p.tail)-60:]
		}
	}
	err := p.cmd.Wait()
	return fmt.Errorf("worker died (%v): %s", err, strings.Join(p.tail, "\n"))
}

func (p *c15hProc) stop() {
	p.stdin.Close()
	done := make(chan struct{})
	go func() { p.cmd.Wait(); close(done) }()
	select {
	case <-done:
	case <-time.After(10 * time.Minute): // only to turn a worker that never exits into a kill; its results were collected before
		p.cmd.Process.Kill()
	}
}

// c15hPruneProbe is a side probe (recorded in the evidence, not part of the search; only a bound violation
// would be reported): pruneGating assigns its "changed" flag per snap instead of OR-ing it, so when the held
// snap A loses its pending update while another snap (here G) carries only an administrator hold, the removal
// of G's hold on A is written back or not depending on map iteration order. The probe runs that situation
// many times and checks what a surviving record does once A has an update again and G asks to hold it.
func c15hPruneProbe(r *eng.Run) {
	survived, pruned, shortened := 0, 0, 0
	for i := 0; i < 48; i++ {
		w := c15hNewWorld("other")
		w.apply(c15hEvent{K: "hook", S: "hold"}) // G holds A, episode starts at +0
		w.st.Lock()
		err := snapstate.HoldRefreshesBySystem(w.st, snapstate.HoldGeneral, "forever", []string{c15hG})
		if err == nil {
			err = snapstate.VerifC15hookPruneGating(w.st) // no snap has a pending update any more
		}
		var gating map[string]map[string]*c15hHold
		w.st.Get("snaps-hold", &gating)
		w.st.Unlock()
		if err != nil {
			eng.HarnessError("prune probe: %v", err)
		}
		w.ref.end(c15hA + "|" + c15hG) // reference: the prune ends the episode
		if gating[c15hA][c15hG] == nil {
			pruned++
			w.close()
			continue
		}
		survived++
		// 10h later A has an update again and G's hook holds it: a new episode for the reference (until +58h)
		w.setNow(w.getNow().Add(10 * time.Hour))
		w.apply(c15hEvent{K: "hook", S: "hold"})
		for _, p := range w.problems {
			r.Violation("hook|prune-probe|"+p.Class, "after pruneGating left a stale record: "+p.Msg, c15hCase{Part: "C15hook", World: "other", Msg: p.Msg})
		}
		w.st.Lock()
		gating = nil
		w.st.Get("snaps-hold", &gating)
		w.st.Unlock()
		if h := gating[c15hA][c15hG]; h != nil && h.HoldUntil.Equal(c15hBase.Add(c15hMaxOther)) {
			shortened++ // the stale first-held time is kept: the new hold ends 48h after the OLD episode start
		}
		w.close()
	}
	r.Info("prune_probe", map[string]interface{}{"trials": survived + pruned, "record_pruned": pruned, "stale_record_survived": survived,
		"later_hold_bounded_by_stale_first_held": shortened})
	fmt.Printf("prune probe: %d trials, record pruned %d, stale record survived %d, later hold bounded by the stale first-held time %d\n", survived+pruned, pruned, survived, shortened)
}

type c15hFamily struct {
	Name     string `json:"name"`
	Depth    int    `json:"depth"`
	Extended bool   `json:"extended_alphabet"`
	Restart  bool   `json:"successors_by_restart"`
}

func TestVerifC15hook(t *testing.T) {
	if os.Getenv("C15HOOK_WORKER") != "" {
		c15hWorkerLoop()
		os.Exit(0)
	}
	quickBudget, thoroughBudget := 300*time.Second, 14*time.Minute // soft: exceeding them caps the run (exhaustive=false, exit 0)
	r := eng.Start("C15", "model_checking", quickBudget, thoroughBudget)
	r.Assume("hold episode of (held, holder) = from the first accepted hold request (that leaves the snap reported held) after a release (effective proceed) or a refresh of the held snap; a refused request does not end the episode of another snap (it was neither refreshed nor released), so every later request of the holder must be refused too - snapd forgets the episode when it refuses: known finding hook|retry-after-refusal",
		"bounds: 48h after the episode start for another snap, 90 days (95 days minus the 5-day buffer) after the held snap's last refresh for every snap",
		"contract of the gate-auto-refresh hook: exit 0 without --hold as the last snapctl request = proceed; a failing hook = hold request, unless the hook's last request already was --hold (then the answer it got stands)",
		"a hold request of the gating snap covers every snap whose pending refresh affects it (checked against AffectingSnapsForAffectedByRefreshCandidates when a fixture is built); all of them are refused together",
		"refresh(snap) = LastRefreshTime := now + resetGatingForRefreshed(snap); the snap stays a refresh candidate (a newer revision is immediately available)",
		"clock: snapstate.timeNow through an overlay-mounted seam; nothing else in the driven path reads a clock that influences snaps-hold")
	defer c15hCleanupRoot()

	if rc := r.ReplayCase(); rc != nil {
		var c c15hCase
		if err := json.Unmarshal(rc, &c); err != nil {
			eng.HarnessError("%v", err)
		}
		if c.Part != "C15hook" {
			fmt.Println("replay case belongs to another part of C15; nothing to do in C15hook")
			r.Finish("replay (case of another part)")
		}
		w := c15hNewWorld(c.World)
		fmt.Printf("world %s\n", c.World)
		for _, ev := range c.Path {
			w.apply(ev)
			fmt.Printf("  %-32s now=+%-10s %s\n      key=%s\n", ev, w.rel(w.getNow()), w.outcome, w.key())
			for _, p := range w.problems {
				fmt.Println("     PROBLEM:", p.Class+":", p.Msg)
				r.Violation(c15hViolKey(p, c.World, ev), p.Msg, c)
			}
			w.problems = nil
		}
		w.close()
		c15hCleanupRoot()
		r.Finish("replay")
	}

	c15hPruneProbe(r)

	// families: the base alphabet deep, the extended alphabet (every script, more advances) less deep
	families := []c15hFamily{{Name: "base", Depth: 5}}
	if r.Thorough() {
		families = []c15hFamily{{Name: "extended", Depth: 5, Extended: true}, {Name: "base", Depth: 7, Restart: true}}
	}
	if d, err := strconv.Atoi(os.Getenv("C15HOOK_DEPTH")); err == nil && d > 0 {
		families = []c15hFamily{{Name: "base", Depth: d, Extended: os.Getenv("C15HOOK_EXTENDED") != "", Restart: os.Getenv("C15HOOK_RESTART") != ""}} // experiments only
	}
	worlds := []string{"other", "both", "self"}
	bounds := map[string]interface{}{"worlds": worlds, "families": families}
	for _, f := range families {
		sizes := map[string]int{}
		for _, k := range worlds {
			sizes[k] = len(c15hAlphabet(k, f.Extended))
		}
		bounds["alphabet_sizes_"+f.Name] = sizes
		bounds["scripts_"+f.Name] = c15hScripts(f.Extended)
	}
	r.Info("bounds", bounds)

	exe, err := os.Executable()
	if err != nil {
		eng.HarnessError("%v", err)
	}
	workDir := filepath.Join(eng.WorkDir(), "c15hook", fmt.Sprintf("jobs-%d", os.Getpid()))
	os.MkdirAll(workDir, 0755)
	defer os.RemoveAll(workDir)
	budget := quickBudget
	if r.Thorough() {
		budget = thoroughBudget
	}
	if b, err := strconv.Atoi(os.Getenv("VERIF_BUDGET_S")); err == nil {
		budget = time.Duration(b) * time.Second
	}
	deadline := time.Now().Add(budget - r.Elapsed()).UnixNano() // the engine's soft budget as an absolute time for the workers

	nworkers := runtime.NumCPU()
	if nworkers > 16 {
		nworkers = 16
	}
	if nworkers < 1 {
		nworkers = 1
	}
	procs := make([]*c15hProc, nworkers)
	for i := range procs {
		if procs[i], err = c15hStartProc(exe); err != nil {
			os.RemoveAll(workDir)
			eng.HarnessError("cannot start worker: %v", err)
		}
	}
	stopAll := func() { // also removes what this process created under VERIF_WORK (Finish / HarnessError exit the process)
		for i, p := range procs {
			if p != nil {
				p.stop()
				procs[i] = nil
			}
		}
		os.RemoveAll(workDir)
		c15hCleanupRoot()
		os.Remove(filepath.Join(eng.WorkDir(), "c15hook")) // only if empty
	}

	var totalStates, totalTrans, totalNontrivial int64
	maxDepth := 0
	perDepth := map[string][]int{}
	completedAll := true
families:
	for _, fam := range families {
		seen := map[string]bool{}
		var frontier []c15hNode
		for _, k := range worlds {
			w := c15hNewWorld(k)
			key := w.key()
			// determinism of the fixture itself
			w2 := c15hNewWorld(k)
			if k2 := w2.key(); k2 != key {
				stopAll()
				eng.HarnessError("two fresh fixtures differ: %q vs %q", key, k2)
			}
			w.close()
			w2.close()
			seen[key] = true
			frontier = append(frontier, c15hNode{World: k, Path: nil, Key: key})
		}
		states, trans, completed, nontrivial := int64(len(frontier)), int64(0), 0, int64(0)
		perDepth[fam.Name] = []int{len(frontier)}
		for d := 0; d <= fam.Depth && len(frontier) > 0; d++ {
			// in restart mode the states found at the last level are confirmed by a continuous replay as well
			validate := d == fam.Depth
			if validate && !fam.Restart {
				break
			}
			if r.TimeUp() {
				r.Cap("time", fmt.Sprintf("family %s: stopped before depth %d; depth %d fully explored", fam.Name, d+1, completed))
				completedAll = false
				break
			}
			nw := nworkers
			if nw > len(frontier) {
				nw = len(frontier)
			}
			jobs := make([]c15hJob, nw)
			index := make([][]int, nw) // job-local node index -> frontier index
			for i, n := range frontier {
				j := i % nw
				jobs[j].Nodes = append(jobs[j].Nodes, n)
				index[j] = append(index[j], i)
			}
			results := make([]c15hResult, nw)
			crashed := make([]string, nw)
			var wg sync.WaitGroup
			for j := 0; j < nw; j++ {
				jobs[j].Extended = fam.Extended
				jobs[j].Restart = fam.Restart
				jobs[j].Validate = validate
				jobs[j].Deadline = deadline
				wg.Add(1)
				go func(j int) {
					defer wg.Done()
					jf := filepath.Join(workDir, fmt.Sprintf("job-%s-%d-%d.json", fam.Name, d, j))
					if err := procs[j].run(jf, &jobs[j], &results[j]); err != nil {
						crashed[j] = err.Error()
					}
				}(j)
			}
			wg.Wait()
			type succ struct {
				fi, e int
				key   string
				act   bool
			}
			var all []succ
			incomplete := false
			for j := 0; j < nw; j++ {
				if crashed[j] != "" {
					if strings.Contains(crashed[j], "HARNESS-ERROR") {
						stopAll()
						eng.HarnessError("worker %d at depth %d: %s", j, d+1, crashed[j])
					}
					// a worker that died inside the code under test (panic, fatal error)
					tail := crashed[j]
					if len(tail) > 3000 {
						tail = tail[len(tail)-3000:]
					}
					r.Violation(fmt.Sprintf("hook|worker-crash|%s|depth%d", fam.Name, d+1), "worker process died: "+tail, map[string]interface{}{"part": "C15hook", "nodes": len(jobs[j].Nodes)})
					procs[j] = nil
					incomplete = true
					continue
				}
				res := &results[j]
				if res.Error != "" {
					stopAll()
					eng.HarnessError("nondeterministic replay: %s", res.Error)
				}
				if res.Incomplete {
					incomplete = true
				}
				for _, v := range res.Viol {
					r.Violation(v.Key, v.Msg, v.Case)
				}
				for k, v := range res.Stats {
					switch k {
					case "transitions":
						trans += v
					default:
						r.Add(k, v)
					}
				}
				for _, o := range res.Outcomes {
					r.Distinct("outcome", o)
				}
				for _, s := range res.Succ {
					all = append(all, succ{fi: index[j][s.N], e: s.E, key: s.Key, act: s.Act})
				}
			}
			sort.Slice(all, func(a, b int) bool {
				if all[a].fi != all[b].fi {
					return all[a].fi < all[b].fi
				}
				return all[a].e < all[b].e
			})
			var next []c15hNode
			for _, s := range all {
				if s.act {
					nontrivial++
				}
				if seen[s.key] {
					continue
				}
				seen[s.key] = true
				states++
				n := frontier[s.fi]
				r.Add("states_world_"+n.World, 1)
				ev := c15hAlphabet(n.World, fam.Extended)[s.e]
				np := append(append([]c15hEvent(nil), n.Path...), ev)
				next = append(next, c15hNode{World: n.World, Path: np, Key: s.key})
				if ev.K == "hook" && len(np) >= 4 && r.WantSample() {
					r.Sample(map[string]interface{}{"family": fam.Name, "world": n.World, "path": fmt.Sprint(np), "state": s.key})
				}
			}
			if incomplete {
				r.Cap("time", fmt.Sprintf("family %s: stopped inside depth %d; depth %d fully explored", fam.Name, d+1, completed))
				completedAll = false
				break
			}
			if validate {
				break
			}
			frontier = next
			completed = d + 1
			perDepth[fam.Name] = append(perDepth[fam.Name], len(next))
		}
		totalStates += states
		totalTrans += trans
		totalNontrivial += nontrivial
		if completed > maxDepth {
			maxDepth = completed
		}
		r.Info("depth_completed_"+fam.Name, completed)
		r.Add("states_"+fam.Name, states)
		r.Add("transitions_"+fam.Name, trans)
		if !completedAll {
			break families
		}
	}
	stopAll()
	r.Add("states", totalStates)
	r.Add("transitions", totalTrans)
	r.Add("traces_validated_against_impl", totalTrans)
	r.Add("distinct_nontrivial", totalNontrivial)
	r.Max("max_depth", int64(maxDepth))
	r.Info("new_states_per_depth", perDepth)
	if r.NumViolations() == 0 && maxDepth >= 1 && (r.Count("accepted_holds") == 0 || r.Count("running_holds_reported") == 0) {
		eng.HarnessError("vacuous exploration: accepted holds %d, running holds reported %d", r.Count("accepted_holds"), r.Count("running_holds_reported"))
	}
	if maxDepth >= 4 && r.NumViolations() == 0 && r.Count("hook_failures_after_refused_hold") == 0 {
		eng.HarnessError("vacuous exploration: no hook failure after a refused hold was reached")
	}
	r.Finish("BFS (global dedup, successors by replay on a fresh hook-manager fixture in worker processes) over all sequences up to the depth of {runhook(script) for every script = snapctl calls x exit status, clock advances, refresh(snap)} in three worlds (G's hold covers the other snap / the other snap and itself / only itself); after every event HeldSnaps is evaluated at now and at probe times around every bound (episode start + 48h, last refresh + 90d/95d, now + 48h after a refusal); every snapctl --hold result is compared with the reference's accept/refuse verdict; non-trivial = transitions after which some hold episode is running")
}
