// C25 — non-root callers can only run snapctl's read-only commands.
//
// Bounded exhaustive enumeration of snapctl argument vectors against the real ctlcmd.Run (permission
// gate + go-flags parser + the real registered commands, nil hook context):
//
//	part A: every vector of length <= LA over the FULL alphabet (every registered command and
//	        sub-command name, -h, --help, --, x, k=v, and every option spelling of every command,
//	        discovered by reflecting a go-flags parser built like Run's);
//	part B: for every command c, every vector of length LA+1..LB over the focused alphabet
//	        {c, its sub-commands, one other allowed command, one other forbidden command,
//	         -h, --help, --, x, k=v} + every option spelling of c.
//
// Each vector is run as uid 0 and uid 1000. Oracle (from the statement, allowed list hard-coded here):
//
//	uid != 0: Execute ran for command c  =>  c in {get, services, set-health, is-connected, system-mode, model}
//	uid == 0: Run never answers ForbiddenCommandError; every registered command is executed by some vector.
//
// "Execute ran" is observed as: Run returned nil or an error that is neither ForbiddenCommandError nor a
// go-flags parser error (*flags.Error); c is the name carried by MissingContextError (raised from
// inside Execute of the command) or, for other errors, the command a reference go-flags parser (built
// like Run's, with a recording CommandHandler instead of the commands' Execute) dispatches to. The
// observation itself is cross-checked against that reference parser on every root case.
package ctlcmd

import (
	"encoding/json"
	"fmt"
	"reflect"
	"runtime/debug"
	"sort"
	"strings"
	"sync"
	"sync/atomic"
	"testing"
	"time"

	"github.com/jessevdk/go-flags"

	eng "github.com/snapcore/snapd/verifengine"
)

// the statement's list; deliberately NOT read from nonRootAllowed
var c25Allowed = map[string]bool{"get": true, "services": true, "set-health": true, "is-connected": true, "system-mode": true, "model": true}

type c25Case struct {
	Argv []string `json:"argv"`
	Uid  uint32   `json:"uid"`
}

type c25Outcome struct {
	Class    string // forbidden | help | parse | exec | crash
	Cmd      string // for exec: the command whose Execute ran
	Detail   string
	ViaNoCtx bool
}

// c25RefParser builds a go-flags parser exactly like Run does, but with a CommandHandler that only
// records that dispatch happened (the commands' Execute is not called).
func c25RefDispatch(argv []string) (executed bool, top string, err error) {
	parser := flags.NewNamedParser("snapctl", flags.PassDoubleDash|flags.HelpFlag)
	for name, cmdInfo := range commands {
		cmd := cmdInfo.generator()
		cmd.setName(name)
		theCmd, aerr := parser.AddCommand(name, cmdInfo.shortHelp, cmdInfo.longHelp, cmd)
		if aerr != nil {
			return false, "", aerr
		}
		theCmd.Hidden = cmdInfo.hidden
	}
	parser.CommandHandler = func(cmd flags.Commander, args []string) error {
		executed = true
		return nil
	}
	_, err = parser.ParseArgs(argv)
	if parser.Active != nil {
		top = parser.Active.Name
	}
	return executed, top, err
}

func c25Run(argv []string, uid uint32) (out c25Outcome) {
	defer func() {
		if p := recover(); p != nil {
			out = c25Outcome{Class: "crash", Detail: fmt.Sprint(p)}
		}
	}()
	_, _, err := Run(nil, argv, uid)
	switch e := err.(type) {
	case nil:
		out = c25Outcome{Class: "exec", Detail: "ok"}
	case *ForbiddenCommandError:
		return c25Outcome{Class: "forbidden"}
	case ForbiddenCommandError:
		return c25Outcome{Class: "forbidden"}
	case *flags.Error:
		if e.Type == flags.ErrHelp {
			return c25Outcome{Class: "help"}
		}
		return c25Outcome{Class: "parse", Detail: e.Type.String()}
	case *MissingContextError:
		return c25Outcome{Class: "exec", Cmd: e.subcommand, Detail: "nocontext", ViaNoCtx: true}
	default:
		out = c25Outcome{Class: "exec", Detail: "err"}
	}
	// Execute ran but did not name itself: ask the reference parser which command is dispatched
	executed, top, _ := c25RefDispatch(argv)
	if executed {
		out.Cmd = top
	} else {
		out.Cmd = "?"
	}
	return out
}

// ---- alphabet discovery ----

type c25Alphabet struct {
	names     []string            // registered command names, sorted
	subs      map[string][]string // sub-command names per command
	opts      map[string][]string // option spellings per command (incl. its sub-commands' options)
	nOptions  int
	nValued   int
	global    []string
	full      []string
	fullIndex map[string]bool
}

func c25Takes(o *flags.Option) bool {
	t := o.Field().Type
	for t.Kind() == reflect.Ptr || t.Kind() == reflect.Slice {
		t = t.Elem()
	}
	if t.Kind() == reflect.Bool {
		return false
	}
	if t.Kind() == reflect.Func && t.NumIn() == 0 {
		return false
	}
	return true
}

func c25Discover() *c25Alphabet {
	a := &c25Alphabet{subs: map[string][]string{}, opts: map[string][]string{}, fullIndex: map[string]bool{}}
	parser := flags.NewNamedParser("snapctl", flags.PassDoubleDash|flags.HelpFlag)
	for name, cmdInfo := range commands {
		if _, err := parser.AddCommand(name, cmdInfo.shortHelp, cmdInfo.longHelp, cmdInfo.generator()); err != nil {
			eng.HarnessError("cannot add command %q to discovery parser: %v", name, err)
		}
		a.names = append(a.names, name)
	}
	sort.Strings(a.names)
	var walk func(top string, c *flags.Command)
	walk = func(top string, c *flags.Command) {
		var groups func(gs []*flags.Group)
		groups = func(gs []*flags.Group) {
			for _, g := range gs {
				for _, o := range g.Options() {
					a.nOptions++
					var forms []string
					valued := c25Takes(o)
					if valued {
						a.nValued++
					}
					if o.ShortName != 0 {
						s := "-" + string(o.ShortName)
						forms = append(forms, s)
						if valued {
							forms = append(forms, s+"x", s+"-h", s+"=-h", s+"=--help")
						} else {
							// a boolean short option bundled with h (parser: -<s> then -h)
							forms = append(forms, s+"h")
						}
					}
					if o.LongName != "" {
						l := "--" + o.LongName
						forms = append(forms, l)
						if valued {
							forms = append(forms, l+"=x", l+"=-h", l+"=--help")
						}
					}
					a.opts[top] = append(a.opts[top], forms...)
				}
				groups(g.Groups())
			}
		}
		groups([]*flags.Group{c.Group})
		for _, sc := range c.Commands() {
			a.subs[top] = append(a.subs[top], sc.Name)
			walk(top, sc)
		}
	}
	for _, c := range parser.Commands() {
		walk(c.Name, c)
	}
	for _, n := range a.names {
		sort.Strings(a.subs[n])
		a.opts[n] = c25Uniq(a.opts[n])
	}
	a.global = []string{"-h", "--help", "--", "x", "k=v"}
	var full []string
	full = append(full, a.names...)
	for _, n := range a.names {
		full = append(full, a.subs[n]...)
	}
	full = append(full, a.global...)
	for _, n := range a.names {
		full = append(full, a.opts[n]...)
	}
	a.full = c25Uniq(full)
	for _, t := range a.full {
		a.fullIndex[t] = true
	}
	return a
}

func c25Uniq(l []string) []string {
	seen := map[string]bool{}
	var out []string
	for _, s := range l {
		if !seen[s] {
			seen[s] = true
			out = append(out, s)
		}
	}
	return out
}

// focused alphabet of command c
func (a *c25Alphabet) focused(c string) []string {
	otherAllowed, otherForbidden := "get", "set"
	if c == "get" {
		otherAllowed = "model"
	}
	if c == "set" {
		otherForbidden = "stop"
	}
	l := []string{c}
	l = append(l, a.subs[c]...)
	l = append(l, otherAllowed, otherForbidden)
	l = append(l, a.global...)
	l = append(l, a.opts[c]...)
	return c25Uniq(l)
}

// ---- the check of one argument vector ----

type c25Stats struct {
	evals, nontrivial, nonrootExecAllowed, nonrootForbidden, nonrootHelp, nonrootParse, rootExec, rootHelp, rootParse int64
	refChecked                                                                                                        int64
}

type c25Checker struct {
	r        *eng.Run
	a        *c25Alphabet
	isCmd    map[string]bool
	mu       sync.Mutex
	rootExec map[string]bool
	st       c25Stats
}

func c25Key(argv []string, uid uint32) string {
	return fmt.Sprintf("uid%d:%s", uid, strings.Join(argv, "\x1f"))
}

func c25KeyPrintable(law string, argv []string, uid uint32) string {
	return fmt.Sprintf("%s:uid%d:%s", law, uid, strings.Join(argv, ","))
}

// check runs one vector as root and as uid 1000 and applies the oracle. It returns the two outcomes.
func (k *c25Checker) check(argv []string, refAll, verbose bool) (root, user c25Outcome) {
	root = c25Run(argv, 0)
	user = c25Run(argv, 1000)
	atomic.AddInt64(&k.st.evals, 2)

	for _, pair := range []struct {
		uid uint32
		o   c25Outcome
	}{{0, root}, {1000, user}} {
		if pair.o.Class == "crash" {
			k.r.Violation(c25KeyPrintable("crash", argv, pair.uid), fmt.Sprintf("Run(nil, %q, %d) panicked: %s", argv, pair.uid, pair.o.Detail), c25Case{Argv: argv, Uid: pair.uid})
		}
	}

	// law ROOT: nothing is forbidden for uid 0
	if root.Class == "forbidden" {
		k.r.Violation(c25KeyPrintable("root-forbidden", argv, 0), fmt.Sprintf("Run(nil, %q, uid 0) answered ForbiddenCommandError; root may run every command", argv), c25Case{Argv: argv, Uid: 0})
	}
	// law NONROOT: Execute ran for c => c is one of the six read-only commands
	if user.Class == "exec" && !c25Allowed[user.Cmd] {
		k.r.Violation(c25KeyPrintable("nonroot-exec", argv, 1000), fmt.Sprintf("Run(nil, %q, uid 1000): Execute of command %q ran (result: %s); non-root may only execute get, services, set-health, is-connected, system-mode, model", argv, user.Cmd, user.Detail), c25Case{Argv: argv, Uid: 1000})
	}

	// validation of the observation against the reference go-flags parser (root cases; a disagreement
	// means the harness can no longer tell "Execute ran" from the error class: harness error, not a violation)
	if refAll && root.Class != "crash" && root.Class != "forbidden" {
		executed, top, _ := c25RefDispatch(argv)
		atomic.AddInt64(&k.st.refChecked, 1)
		if executed != (root.Class == "exec") || (executed && root.Cmd != top) {
			eng.HarnessError("observation of 'Execute ran' disagrees with the reference go-flags parser for %q: observed %+v, reference executed=%v command=%q", argv, root, executed, top)
		}
	}

	// statistics / vacuity
	namesForbidden := false
	for _, t := range argv {
		if k.isCmd[t] && !c25Allowed[t] {
			namesForbidden = true
		}
	}
	switch user.Class {
	case "forbidden":
		atomic.AddInt64(&k.st.nonrootForbidden, 1)
	case "help":
		atomic.AddInt64(&k.st.nonrootHelp, 1)
	case "parse":
		atomic.AddInt64(&k.st.nonrootParse, 1)
	case "exec":
		if c25Allowed[user.Cmd] {
			atomic.AddInt64(&k.st.nonrootExecAllowed, 1)
		}
	}
	if namesForbidden && user.Class != "forbidden" {
		// the gate let through a vector that names a command non-root must not execute: only the
		// parser's reading of the vector (help / error / which command is active) keeps the property
		atomic.AddInt64(&k.st.nontrivial, 1)
	}
	switch root.Class {
	case "exec":
		atomic.AddInt64(&k.st.rootExec, 1)
		k.mu.Lock()
		k.rootExec[root.Cmd] = true
		k.mu.Unlock()
	case "help":
		atomic.AddInt64(&k.st.rootHelp, 1)
	case "parse":
		atomic.AddInt64(&k.st.rootParse, 1)
	}
	k.r.Distinct("outcome", "root:"+root.Class+":"+root.Cmd+":"+root.Detail)
	k.r.Distinct("outcome", "user:"+user.Class+":"+user.Cmd+":"+user.Detail)
	if verbose {
		fmt.Printf("argv=%q\n  uid 0    -> %+v\n  uid 1000 -> %+v\n", argv, root, user)
	}
	return root, user
}

// c25Block is one exhaustively enumerated family of vectors: first token from firsts, the others from
// rest, every length in [minLen, maxLen], minus the vectors skip() says another block already runs.
type c25Block struct {
	name           string
	firsts, rest   []string
	minLen, maxLen int
	skip           func(v []string) bool
	refAll         bool
}

func TestVerifC25(t *testing.T) {
	r := eng.Start("C25", "exploration", 80*time.Second, 13*time.Minute)
	r.Assume(
		"commands run with a nil hook context: every Execute fails early (MissingContextError or argument validation) without side effects; failing inside Execute still counts as executed",
		"'Execute ran' is observed from Run's result class (nil / non-parser error); sound because Run has no other error source; cross-checked against a reference go-flags parser built like Run's with a recording CommandHandler (on every root case of the blocks listed in coverage.reference_crosscheck_blocks)",
		"go-flags (vendored module version) is trusted to report parser errors as *flags.Error",
		"uids {0, 1000} represent root / non-root (the gate only compares uid with 0)",
	)
	// Run builds a 20-command go-flags parser per call (~130 kB garbage): trade memory for GC time
	debug.SetGCPercent(800)
	// safety net: nothing below reaches these with a nil context, but never touch the host
	kmodLoadModule = func(string, []string) error { return fmt.Errorf("verif: kmod load blocked") }
	kmodUnloadModule = func(string) error { return fmt.Errorf("verif: kmod unload blocked") }

	a := c25Discover()
	k := &c25Checker{r: r, a: a, isCmd: map[string]bool{}, rootExec: map[string]bool{}}
	for _, n := range a.names {
		k.isCmd[n] = true
	}

	if rc := r.ReplayCase(); rc != nil {
		var c c25Case
		if err := json.Unmarshal(rc, &c); err != nil {
			eng.HarnessError("bad replay case: %v", err)
		}
		k.check(c.Argv, true, true)
		r.Finish("replay")
	}

	// base alphabet: every command / sub-command name + the global tokens (no command-specific options)
	var base []string
	base = append(base, a.names...)
	for _, n := range a.names {
		base = append(base, a.subs[n]...)
	}
	base = c25Uniq(append(base, a.global...))
	inBase := map[string]bool{}
	for _, t := range base {
		inBase[t] = true
	}
	allIn := func(v []string, set map[string]bool) bool {
		for _, t := range v {
			if !set[t] {
				return false
			}
		}
		return true
	}
	focus := map[string]map[string]bool{}
	focusToks := map[string][]string{}
	for _, c := range a.names {
		focusToks[c] = a.focused(c)
		focus[c] = map[string]bool{}
		for _, tk := range focusToks[c] {
			focus[c][tk] = true
		}
	}

	LA1 := r.Pick(2, 3)   // full alphabet, all lengths up to this
	LA2 := 3              // base alphabet, lengths LA1+1..LA2 (empty in the thorough tier: subsumed by A1)
	LB := 4               // per command: [c, focused...] lengths LA1+1..LB
	LBany := r.Pick(0, 4) // per command: focused alphabet, any first token, lengths LA1+1..LBany (thorough only)
	LB2 := r.Pick(0, 5)   // thorough only, last, as far as the time budget allows: [c, focused...] of length LB2

	cmdFirst := func(c string, minLen, maxLen int, ref bool) c25Block {
		return c25Block{name: fmt.Sprintf("B-command-first-len%d-%d:%s", minLen, maxLen, c), firsts: []string{c}, rest: focusToks[c], minLen: minLen, maxLen: maxLen, refAll: ref,
			skip: func(v []string) bool { return len(v) <= LA2 && allIn(v, inBase) }}
	}
	var blocks []c25Block
	blocks = append(blocks, c25Block{name: "A1-full-alphabet", firsts: a.full, rest: a.full, minLen: 1, maxLen: LA1, refAll: true})
	// shortest vectors first (a time cap then cuts off the longest ones)
	for l := LA1 + 1; l <= LB; l++ {
		for _, c := range a.names {
			blocks = append(blocks, cmdFirst(c, l, l, r.Thorough()))
		}
	}
	if LA2 > LA1 {
		blocks = append(blocks, c25Block{name: "A2-names-and-global-tokens", firsts: base, rest: base, minLen: LA1 + 1, maxLen: LA2, refAll: true})
	}
	if LBany > LA1 {
		for ci, c := range a.names {
			ci, c := ci, c
			blocks = append(blocks, c25Block{name: "B-any-first:" + c, firsts: focusToks[c], rest: focusToks[c], minLen: LA1 + 1, maxLen: LBany, refAll: false,
				skip: func(v []string) bool {
					if len(v) <= LA2 && allIn(v, inBase) {
						return true
					}
					if f, ok := focus[v[0]]; ok && len(v) <= LB && allIn(v[1:], f) {
						return true // run by block B-command-first:v[0]
					}
					for _, c2 := range a.names[:ci] {
						if allIn(v, focus[c2]) {
							return true // run by an earlier B-any-first block
						}
					}
					return false
				}})
		}
	}
	if LB2 > LB {
		// smallest focused alphabets first, so that a time cap cuts off whole (named) blocks at the end
		order := append([]string(nil), a.names...)
		sort.SliceStable(order, func(i, j int) bool { return len(focusToks[order[i]]) < len(focusToks[order[j]]) })
		for _, c := range order {
			blocks = append(blocks, cmdFirst(c, LB+1, LB2, false))
		}
	}

	perBlock := map[string]int64{}
	var refBlocks []string
	capped := false
	for _, b := range blocks {
		if r.TimeUp() {
			capped = true
			r.Cap("time", fmt.Sprintf("stopped before block %s; completed blocks are listed in coverage.vectors_per_block", b.name))
			break
		}
		b := b
		if b.refAll {
			refBlocks = append(refBlocks, b.name)
		}
		var cnt int64
		run := func(v []string) {
			if len(v) < b.minLen || (b.skip != nil && b.skip(v)) {
				return
			}
			atomic.AddInt64(&cnt, 1)
			root, user := k.check(v, b.refAll, false)
			if len(v) >= 3 && r.WantSample() && k.isCmd[v[0]] && !c25Allowed[v[0]] && v[1] != v[0] && r.Distinct("sample_kind", root.Class+"/"+user.Class) {
				r.Sample(map[string]interface{}{"argv": v, "uid0": root.Class + ":" + root.Cmd + ":" + root.Detail, "uid1000": user.Class + ":" + user.Cmd + ":" + user.Detail})
			}
		}
		// work items: prefixes of length min(2, maxLen)
		type item struct{ i, j int }
		var items []item
		for i := range b.firsts {
			if b.maxLen >= 2 {
				for j := range b.rest {
					items = append(items, item{i, j})
				}
			}
			run([]string{b.firsts[i]})
		}
		var blockCapped int32
		eng.ParallelFor(len(items), func(ii int) {
			if atomic.LoadInt32(&blockCapped) != 0 {
				return
			}
			if r.TimeUp() {
				if atomic.CompareAndSwapInt32(&blockCapped, 0, 1) {
					r.Cap("time", fmt.Sprintf("stopped inside block %s at about work item %d of %d; completed blocks are listed in coverage.vectors_per_block", b.name, ii, len(items)))
				}
				return
			}
			argv := make([]string, 0, b.maxLen)
			argv = append(argv, b.firsts[items[ii].i], b.rest[items[ii].j])
			var rec func()
			rec = func() {
				run(append([]string(nil), argv...))
				if len(argv) == b.maxLen {
					return
				}
				for _, tok := range b.rest {
					argv = append(argv, tok)
					rec()
					argv = argv[:len(argv)-1]
				}
			}
			rec()
		})
		if blockCapped != 0 {
			capped = true
			perBlock[b.name+" (incomplete)"] = cnt
			r.Add("vectors", cnt)
			break
		}
		perBlock[b.name] = cnt
		r.Add("vectors", cnt)
	}
	r.Info("vectors_per_block", perBlock)
	r.Info("reference_crosscheck_blocks", refBlocks)

	// "Root may run every command": every registered command must have been executed by some root vector
	if !capped && r.NumViolations() == 0 {
		for _, c := range a.names {
			if !k.rootExec[c] {
				r.Violation("root-never-executes:"+c, fmt.Sprintf("no argument vector within the bounds makes root execute registered command %q", c), c25Case{Argv: []string{c}, Uid: 0})
			}
		}
	}

	r.Add("evaluations", k.st.evals)
	r.Add("distinct_nontrivial", k.st.nontrivial)
	r.Add("nonroot_forbidden", k.st.nonrootForbidden)
	r.Add("nonroot_help", k.st.nonrootHelp)
	r.Add("nonroot_parse_error", k.st.nonrootParse)
	r.Add("nonroot_executed_allowed_command", k.st.nonrootExecAllowed)
	r.Add("root_executed", k.st.rootExec)
	r.Add("root_help", k.st.rootHelp)
	r.Add("root_parse_error", k.st.rootParse)
	r.Add("observation_crosschecked_against_reference_parser", k.st.refChecked)
	r.Add("root_executed_distinct_commands", int64(len(k.rootExec)))
	maxFocus := 0
	for _, f := range focusToks {
		if len(f) > maxFocus {
			maxFocus = len(f)
		}
	}
	r.Info("bounds", map[string]int{"full_alphabet_max_len": LA1, "base_alphabet_max_len": LA2, "command_first_focused_max_len": LB, "any_first_focused_max_len": LBany, "command_first_focused_extra_len_until_time_cap": LB2,
		"full_alphabet_tokens": len(a.full), "base_alphabet_tokens": len(base), "registered_commands": len(a.names),
		"options_discovered": a.nOptions, "options_taking_a_value": a.nValued, "largest_focused_alphabet": maxFocus, "uids": 2})
	r.Info("full_alphabet", a.full)
	r.Sample(c25Case{Argv: []string{"set", "--", "-h"}, Uid: 1000})
	r.Finish("blocks, each exhaustive: A1 = every vector of length 1..full_alphabet_max_len over the full alphabet (all command/sub-command names, -h, --help, --, x, k=v, every option spelling of every command incl. joined values x/-h/--help and bool-short+h bundles); A2 = longer vectors up to base_alphabet_max_len over names+global tokens; B-command-first:c = [c, t...] up to command_first_focused_max_len with t over {c, its sub-commands, one other allowed and one other forbidden command, global tokens, c's option spellings}; B-any-first:c (thorough) = the same focused alphabet in every position. Every vector runs once, as uid 0 and as uid 1000 (evaluations = Run calls). distinct_nontrivial = distinct vectors that name a command non-root must not execute and that the gate let through for uid 1000 (only the parser's reading keeps the property there)")
}
