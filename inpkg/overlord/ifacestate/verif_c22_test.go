//go:build verif

// C22 — interface connections are transactional; persisted connections == in-memory connections.
//
// States: every distinct (installed snaps, persisted "conns", repository connections, security profile
// contents) state reachable from two root configurations with at most D operations over
// {connect, disconnect, disconnect --forget, install snap (auto-connect), remove snap (auto-disconnect,
// discard-conns), restart (state re-read from the last checkpoint, new managers, reloadConnections)};
// breadth-first, every path replayed on a FRESH interfaceManagerSuite fixture, deduplicated on the canonical
// observation.
// Cases: in every state, every enabled operation without failure and with an injected failure at every
// point k = 0..N of the change it produces (N = number of tasks that complete when nothing fails, including
// the tasks that auto-connect/auto-disconnect inject at run time and every interface hook).
// Oracle: (1) failed change => observation after == observation before; (2) after every settled change and
// after every restart: persisted conns == live conns, {conn | !undesired && !hotplug-gone} == repository
// connections (ids, interface, static and dynamic attributes), and the last security setup of every
// installed snap was made with exactly the connections the repository has now.
// Determinism: one task runs at a time; the runner's visiting order is owned through hook H2 (injected
// failure first, then tasks grouped by the connection they work for, then by task id), because
// batchConnectTasks and Repository.Connections create the task sets of several auto-(dis)connections in Go
// map order. Every reported mismatch is re-run 4 more times on fresh fixtures first.
package ifacestate_test

import (
	"bytes"
	"encoding/json"
	"errors"
	"fmt"
	"os"
	"os/exec"
	"path/filepath"
	"runtime/debug"
	"sort"
	"strconv"
	"strings"
	"sync"
	"sync/atomic"
	"syscall"
	"time"

	. "gopkg.in/check.v1"
	"gopkg.in/tomb.v2"

	"github.com/snapcore/snapd/asserts/assertstest"
	"github.com/snapcore/snapd/dirs"
	"github.com/snapcore/snapd/interfaces"
	"github.com/snapcore/snapd/interfaces/ifacetest"
	"github.com/snapcore/snapd/overlord"
	"github.com/snapcore/snapd/overlord/assertstate"
	"github.com/snapcore/snapd/overlord/hookstate"
	"github.com/snapcore/snapd/overlord/ifacestate"
	"github.com/snapcore/snapd/overlord/snapstate"
	"github.com/snapcore/snapd/overlord/snapstate/snapstatetest"
	"github.com/snapcore/snapd/overlord/state"
	"github.com/snapcore/snapd/snap"
	"github.com/snapcore/snapd/snap/snaptest"
	eng "github.com/snapcore/snapd/verifengine"
)

type verifC22Suite struct{}

var _ = Suite(&verifC22Suite{})

// ---------------------------------------------------------------------------------------------
// the small world: 3 snaps, 2 interfaces, 4 possible connections (one slot with two plugs: A and C; one plug
// with two slots: A and D)

const c22BaseDecl = `
type: base-declaration
authority-id: canonical
series: 16
slots:
  test:
    allow-connection: true
    allow-auto-connection:
      plug-publisher-id:
        - $SLOT_PUBLISHER_ID
  test2:
    allow-connection: true
    allow-auto-connection: false
`

const c22ProducerYaml = `
name: producer
version: 1
slots:
 slot:
  interface: test
  attr2: value2
 slot2:
  interface: test2
 slot3:
  interface: test
  attr2: value3
hooks:
 prepare-slot-slot:
 unprepare-slot-slot:
 connect-slot-slot:
 disconnect-slot-slot:
`

const c22ConsumerYaml = `
name: consumer
version: 1
plugs:
 plug:
  interface: test
  attr1: value1
 otherplug:
  interface: test2
hooks:
 prepare-plug-plug:
 unprepare-plug-plug:
 connect-plug-plug:
 disconnect-plug-plug:
`

const c22Consumer2Yaml = `
name: consumer2
version: 1
plugs:
 plug:
  interface: test
  attr1: value1
`

var c22Snaps = []string{"consumer", "consumer2", "producer"}

var c22Yaml = map[string]string{"producer": c22ProducerYaml, "consumer": c22ConsumerYaml, "consumer2": c22Consumer2Yaml}

type c22ConnDef struct {
	PlugSnap, Plug, SlotSnap, Slot string
}

// A: auto-connectable, hooks on both sides; B: manual only, no hooks; C: auto-connectable, slot-side hooks
// only, shares producer:slot with A (one slot, two plugs); D: manual only (the interface's AutoConnect refuses
// slot3), plug-side hooks only, shares consumer:plug with A (one plug, two slots).
var c22ConnDefs = map[string]c22ConnDef{
	"A": {"consumer", "plug", "producer", "slot"},
	"B": {"consumer", "otherplug", "producer", "slot2"},
	"C": {"consumer2", "plug", "producer", "slot"},
	"D": {"consumer", "plug", "producer", "slot3"},
}

var c22ConnNames = []string{"A", "B", "C", "D"}

func (d c22ConnDef) ref() *interfaces.ConnRef {
	return &interfaces.ConnRef{PlugRef: interfaces.PlugRef{Snap: d.PlugSnap, Name: d.Plug}, SlotRef: interfaces.SlotRef{Snap: d.SlotSnap, Name: d.Slot}}
}

// root configurations: which snaps are installed (without connections) when the fixture starts
var c22Roots = map[string][]string{
	"all":      {"producer", "consumer", "consumer2"},
	"producer": {"producer"},
}

var c22RootNames = []string{"all", "producer"}

// ---------------------------------------------------------------------------------------------
// operations

type c22Op struct {
	K string `json:"k"`           // connect | disconnect | forget | install | remove | restart
	C string `json:"c,omitempty"` // connection name (connect, disconnect, forget)
	S string `json:"s,omitempty"` // snap (install, remove)
	// F: 0 = no failure; k+1 = a failing task is spliced after the first k completed tasks of the change
	F int `json:"f,omitempty"`
}

func (op c22Op) desc() string {
	switch op.K {
	case "connect", "disconnect", "forget":
		return op.K + "(" + op.C + ")"
	case "install", "remove":
		return op.K + "(" + op.S + ")"
	}
	return op.K
}

func (op c22Op) String() string {
	if op.F > 0 {
		return fmt.Sprintf("%s!fail-after-%d", op.desc(), op.F-1)
	}
	return op.desc()
}

type c22Path struct {
	Root string  `json:"root"`
	Ops  []c22Op `json:"ops"`
}

func (p c22Path) String() string {
	var s []string
	for _, o := range p.Ops {
		s = append(s, o.String())
	}
	return p.Root + ":[" + strings.Join(s, " ") + "]"
}

func (p c22Path) plus(op c22Op) c22Path {
	return c22Path{Root: p.Root, Ops: append(append([]c22Op(nil), p.Ops...), op)}
}

// ---------------------------------------------------------------------------------------------
// observation

type c22RepoConn struct {
	Interface   string                 `json:"interface"`
	PlugStatic  map[string]interface{} `json:"plug-static,omitempty"`
	PlugDynamic map[string]interface{} `json:"plug-dynamic,omitempty"`
	SlotStatic  map[string]interface{} `json:"slot-static,omitempty"`
	SlotDynamic map[string]interface{} `json:"slot-dynamic,omitempty"`
}

type c22Obs struct {
	// installed snaps -> active
	Snaps map[string]bool `json:"snaps"`
	// persisted connections: the "conns" entry of the last checkpoint payload handed to the backend
	Conns map[string]map[string]interface{} `json:"conns"`
	// the live state's "conns"
	Live map[string]map[string]interface{} `json:"live"`
	// repository connections with their attributes
	Repo map[string]c22RepoConn `json:"repo"`
	// snaps that have plugs or slots in the repository
	RepoSnaps []string `json:"repo-snaps"`
	// connection ids the repository held for the snap when its security profiles were last set up
	// (absent: never set up, or removed)
	Profiles map[string][]string `json:"profiles"`
}

func c22Norm(v interface{}) interface{} {
	b, _ := json.Marshal(v)
	var out interface{}
	json.Unmarshal(b, &out)
	return out
}

func c22NormAttrs(m map[string]interface{}) map[string]interface{} {
	if len(m) == 0 {
		return nil
	}
	return c22Norm(m).(map[string]interface{})
}

// key is the canonical state key. Argument for merging: the ifacestate handlers and task-set builders read
// only the snap states, "conns", the repository and (through the backend) nothing of the profiles; finished
// changes are consulted only by conflict checks, which look at unfinished changes, and there is never more
// than one change in flight. Profiles are part of the key nevertheless, so a state with stale profiles is
// not merged with a healthy one.
func (o c22Obs) key() string {
	return eng.JSON(map[string]interface{}{"snaps": o.Snaps, "conns": o.Conns, "repo": o.Repo, "repo-snaps": o.RepoSnaps, "profiles": o.Profiles})
}

type c22Problem struct {
	Kind string `json:"kind"`
	Text string `json:"text"`
	// Detail and Subj (a snap name) refine the kind for the canonical violation key
	Detail string `json:"detail,omitempty"`
	Subj   string `json:"subj,omitempty"`
}

// c22SetDetail classifies how two string sets differ.
func c22SetDetail(want, got []string) string {
	w := map[string]bool{}
	for _, x := range want {
		w[x] = true
	}
	g := map[string]bool{}
	for _, x := range got {
		g[x] = true
	}
	extra, missing := false, false
	for x := range g {
		if !w[x] {
			extra = true
		}
	}
	for x := range w {
		if !g[x] {
			missing = true
		}
	}
	switch {
	case extra && missing:
		return "extra+missing"
	case extra:
		return "extra"
	case missing:
		return "missing"
	}
	return "changed"
}

func c22Keys(m interface{}) []string {
	var ks []string
	switch mm := m.(type) {
	case map[string]map[string]interface{}:
		for k := range mm {
			ks = append(ks, k)
		}
	case map[string]c22RepoConn:
		for k := range mm {
			ks = append(ks, k)
		}
	case map[string][]string:
		for k := range mm {
			ks = append(ks, k)
		}
	case map[string]bool:
		for k := range mm {
			ks = append(ks, k)
		}
	}
	sort.Strings(ks)
	return ks
}

func c22Active(cs map[string]interface{}) bool {
	u, _ := cs["undesired"].(bool)
	h, _ := cs["hotplug-gone"].(bool)
	return !u && !h
}

// invariants: oracle (2)
func (o c22Obs) invariants() []c22Problem {
	var ps []c22Problem
	if a, b := eng.JSON(o.Conns), eng.JSON(o.Live); a != b {
		ps = append(ps, c22Problem{Kind: "persisted-vs-live", Text: fmt.Sprintf("conns in the last checkpoint %s differ from the live state's %s", a, b)})
	}
	var act, rep []string
	for id, cs := range o.Conns {
		if c22Active(cs) {
			act = append(act, id)
		}
	}
	for id := range o.Repo {
		rep = append(rep, id)
	}
	sort.Strings(act)
	sort.Strings(rep)
	if eng.JSON(act) != eng.JSON(rep) {
		ps = append(ps, c22Problem{Kind: "conn-set", Detail: "repo-" + c22SetDetail(act, rep), Text: fmt.Sprintf("active persisted connections %v != repository connections %v", act, rep)})
	} else {
		for _, id := range act {
			cs := o.Conns[id]
			want := c22RepoConn{}
			want.Interface, _ = cs["interface"].(string)
			get := func(k string) map[string]interface{} {
				m, _ := cs[k].(map[string]interface{})
				return c22NormAttrs(m)
			}
			want.PlugStatic, want.PlugDynamic, want.SlotStatic, want.SlotDynamic = get("plug-static"), get("plug-dynamic"), get("slot-static"), get("slot-dynamic")
			if a, b := eng.JSON(want), eng.JSON(o.Repo[id]); a != b {
				ps = append(ps, c22Problem{Kind: "conn-attrs", Text: fmt.Sprintf("connection %q persisted as %s but held in memory as %s", id, a, b)})
			}
		}
	}
	for _, name := range c22Snaps {
		active, installed := o.Snaps[name]
		prof, hasProf := o.Profiles[name]
		now := []string{}
		for id := range o.Repo {
			ref, _ := interfaces.ParseConnRef(id)
			if ref != nil && (ref.PlugRef.Snap == name || ref.SlotRef.Snap == name) {
				now = append(now, id)
			}
		}
		sort.Strings(now)
		switch {
		case installed && active:
			if !hasProf {
				ps = append(ps, c22Problem{Kind: "profiles", Detail: "none", Subj: name, Text: fmt.Sprintf("snap %q is installed but its security profiles were never set up / were removed", name)})
			} else if eng.JSON(prof) != eng.JSON(now) {
				ps = append(ps, c22Problem{Kind: "profiles", Detail: "stale-" + c22SetDetail(now, prof), Subj: name, Text: fmt.Sprintf("security profiles of %q were last generated with connections %v but the repository now has %v", name, prof, now)})
			}
		case !installed:
			if hasProf {
				ps = append(ps, c22Problem{Kind: "profiles", Detail: "left-behind", Subj: name, Text: fmt.Sprintf("snap %q is not installed but security profiles (connections %v) are left behind", name, prof)})
			}
		}
	}
	return ps
}

// diff lists the fields of the observation that differ: oracle (1)
func c22Diff(pre, post c22Obs) []c22Problem {
	var ps []c22Problem
	add := func(field string, a, b interface{}) {
		if ja, jb := eng.JSON(a), eng.JSON(b); ja != jb {
			ps = append(ps, c22Problem{Kind: "undo-" + field, Detail: c22SetDetail(c22Keys(a), c22Keys(b)), Text: fmt.Sprintf("%s: before %s after %s", field, ja, jb)})
		}
	}
	add("conns", pre.Conns, post.Conns)
	add("repo", pre.Repo, post.Repo)
	add("profiles", pre.Profiles, post.Profiles)
	add("snaps", pre.Snaps, post.Snaps)
	if ja, jb := eng.JSON(pre.RepoSnaps), eng.JSON(post.RepoSnaps); ja != jb {
		ps = append(ps, c22Problem{Kind: "undo-repo-snaps", Detail: c22SetDetail(pre.RepoSnaps, post.RepoSnaps), Text: fmt.Sprintf("repo-snaps: before %s after %s", ja, jb)})
	}
	return ps
}

// ---------------------------------------------------------------------------------------------
// fixture

type c22Backend struct {
	mu     sync.Mutex
	last   []byte
	ensure int32
	ckpts  int
}

func (b *c22Backend) Checkpoint(data []byte) error {
	b.mu.Lock()
	b.last = append([]byte(nil), data...)
	b.ckpts++
	b.mu.Unlock()
	return nil
}

func (b *c22Backend) EnsureBefore(d time.Duration) { atomic.StoreInt32(&b.ensure, 1) }

func (b *c22Backend) payload() []byte {
	b.mu.Lock()
	defer b.mu.Unlock()
	return append([]byte(nil), b.last...)
}

type c22Fix struct {
	interfaceManagerSuite
	c       *C
	be      *c22Backend
	st      *state.State
	eng     *overlord.StateEngine
	runner  *state.TaskRunner
	mgr     *ifacestate.InterfaceManager
	restore []func()
	rootDir string
	ids     map[string]string // snap name -> snap id

	profiles map[string][]string

	// the change under way
	curChg   string
	failAt   int // k+1, see c22Op.F
	doneSeq  []string
	seenDesc map[string]int
	spliced  bool

	changes  int               // settled changes (cost measure)
	iters    int               // Ensure passes
	groups   map[string]string // task id -> connection id (scheduling order)
	hooksRun []string
}

var c22TmpRoot string

func c22InitTmp() {
	debug.SetGCPercent(400)
	tag := strings.ReplaceAll(os.Getenv("VERIF_SHARD"), "/", "of")
	if w := os.Getenv("VERIF_C22_PMAP"); w != "" {
		tag = "pm" + strings.ReplaceAll(w, "/", "of")
	}
	c22TmpRoot = filepath.Join(eng.WorkDir(), "tmp", fmt.Sprintf("C22-%s-%d", tag, os.Getpid()))
	os.RemoveAll(c22TmpRoot)
	if err := os.MkdirAll(c22TmpRoot, 0755); err != nil {
		eng.HarnessError("cannot create %s: %v", c22TmpRoot, err)
	}
	os.Setenv("TMPDIR", c22TmpRoot)
}

func c22CleanTmp() {
	if c22TmpRoot != "" {
		os.RemoveAll(c22TmpRoot)
	}
}

func c22Finish(r *eng.Run, rule string) {
	c22CleanTmp()
	r.Finish(rule)
}

func c22TaskNum(t *state.Task) int {
	n, _ := strconv.Atoi(t.ID())
	return n
}

func newC22Fix(c *C, root string) *c22Fix {
	installed, ok := c22Roots[root]
	if !ok {
		eng.HarnessError("unknown root configuration %q", root)
	}
	f := &c22Fix{c: c, profiles: map[string][]string{}, ids: map[string]string{}}
	f.interfaceManagerSuite.SetUpTest(c)
	f.rootDir = dirs.GlobalRootDir
	f.restore = append(f.restore, assertstest.MockBuiltinBaseDeclaration([]byte(c22BaseDecl)))
	// the runner visits tasks in a fixed order (hook H2): an injected failure first, then by the connection
	// the task works for (connect/disconnect task and its hooks), then by task id. Task ids alone are not
	// canonical: batchConnectTasks and Repository.Connections iterate Go maps, so the task sets of several
	// auto-(dis)connections are created in random order.
	f.groups = map[string]string{}
	state.VerifOrderTasks = func(ts []*state.Task) {
		sort.SliceStable(ts, func(a, b int) bool {
			fa, fb := ts[a].Kind() == "verif-fail", ts[b].Kind() == "verif-fail"
			if fa != fb {
				return fa
			}
			ga, gb := f.taskGroup(ts[a]), f.taskGroup(ts[b])
			if ga != gb {
				return ga < gb
			}
			return c22TaskNum(ts[a]) < c22TaskNum(ts[b])
		})
	}
	f.restore = append(f.restore, func() { state.VerifOrderTasks = nil })
	// hooks go through hookstate (contexts, interface hook handlers); only the final invocation of
	// "snap run --hook" is replaced: the fixture's mocked snap command does nothing either, but costs a fork+exec
	f.restore = append(f.restore, hookstate.MockRunHook(func(ctx *hookstate.Context, _ *tomb.Tomb) ([]byte, error) {
		f.hooksRun = append(f.hooksRun, ctx.InstanceName()+":"+ctx.HookName())
		return nil, nil
	}))

	f.secBackend.SetupCallback = func(appSet *interfaces.SnapAppSet, opts interfaces.ConfinementOptions, repo *interfaces.Repository) error {
		name := appSet.InstanceName()
		refs, err := repo.Connections(name)
		if err != nil {
			return err
		}
		ids := []string{}
		for _, r := range refs {
			ids = append(ids, r.ID())
		}
		sort.Strings(ids)
		f.profiles[name] = ids
		return nil
	}
	f.secBackend.RemoveCallback = func(name string) error {
		delete(f.profiles, name)
		return nil
	}

	// our own state with a backend that keeps the last checkpoint: that payload is "the persisted state"
	f.be = &c22Backend{}
	st := state.New(f.be)
	f.state = st // used by the fixture's helpers (mockSnapInstance)
	for _, name := range c22Snaps {
		f.MockSnapDecl(c, name, "one-publisher", nil)
	}
	inst := map[string]bool{}
	for _, n := range installed {
		inst[n] = true
	}
	for _, name := range c22Snaps {
		if inst[name] {
			info := f.mockSnap(c, c22Yaml[name])
			f.ids[name] = info.SnapID
		} else {
			// only the files: the snap gets into the state by an install operation
			snaptest.MockSnapInstance(c, "", c22Yaml[name], &snap.SideInfo{Revision: snap.R(1)})
			f.ids[name] = (name + strings.Repeat("id", 16))[:32]
		}
	}
	f.boot(st)
	// the snaps of the root configuration were put into the state, not installed: unless the first StartUp
	// regenerated all profiles, their (connection-less) profiles are taken as given
	for _, name := range installed {
		if _, ok := f.profiles[name]; !ok {
			f.profiles[name] = []string{}
		}
	}
	return f
}

func (f *c22Fix) ifaces() []interfaces.Interface {
	// a dynamic attribute is added by the interface itself, so that connections carry dynamic attributes
	// that undo and reload have to preserve
	return []interfaces.Interface{
		&ifacetest.TestInterface{InterfaceName: "test", AutoConnectCallback: func(plug *snap.PlugInfo, slot *snap.SlotInfo) bool {
			// slot3 is for manual connections only (otherwise consumer:plug would have two candidates and
			// auto-connect, one slot per plug, would pick none)
			return slot.Name != "slot3"
		}, BeforeConnectPlugCallback: func(plug *interfaces.ConnectedPlug) error {
			return plug.SetAttr("dyn-plug", "set-by-"+plug.Snap().InstanceName())
		}, BeforeConnectSlotCallback: func(slot *interfaces.ConnectedSlot) error {
			return slot.SetAttr("dyn-slot", "set-by-producer")
		}},
		&ifacetest.TestInterface{InterfaceName: "test2"},
	}
}

func (f *c22Fix) boot(st *state.State) {
	f.st = st
	f.state = st
	st.Lock()
	assertstate.ReplaceDB(st, f.Db)
	st.Unlock()
	runner := state.NewTaskRunner(st)
	hookMgr, err := hookstate.Manager(st, runner)
	if err != nil {
		eng.HarnessError("hookstate.Manager: %v", err)
	}
	mgr, err := ifacestate.Manager(st, hookMgr, runner, f.ifaces(), nil)
	if err != nil {
		eng.HarnessError("ifacestate.Manager: %v", err)
	}
	mgr.DisableUDevMonitor()
	f.addHandlers(runner)
	// one task at a time: interleavings are the subject of C01-C04/C07, and the k-th completion is then well defined
	runner.AddBlocked(func(t *state.Task, running []*state.Task) bool { return len(running) > 0 })
	se := overlord.NewStateEngine(st)
	se.AddManager(hookMgr)
	se.AddManager(mgr)
	se.AddManager(runner)
	if err := se.StartUp(); err != nil {
		eng.HarnessError("StartUp: %v", err)
	}
	f.runner, f.mgr, f.eng = runner, mgr, se
	st.Lock()
	st.AddTaskStatusChangedHandler(f.onTaskStatus)
	st.Unlock()
}

func (f *c22Fix) close() {
	if f.eng != nil {
		f.eng.Stop()
	}
	for i := len(f.restore) - 1; i >= 0; i-- {
		f.restore[i]()
	}
	f.interfaceManagerSuite.TearDownTest(f.c)
	if f.rootDir != "" && strings.HasPrefix(f.rootDir, c22TmpRoot) && c22TmpRoot != "" {
		os.RemoveAll(f.rootDir)
	}
}

func (f *c22Fix) snapsup(name string) *snapstate.SnapSetup {
	return &snapstate.SnapSetup{SideInfo: &snap.SideInfo{RealName: name, SnapID: f.ids[name], Revision: snap.R(1)}}
}

func (f *c22Fix) addHandlers(runner *state.TaskRunner) {
	st := f.st
	runner.AddHandler("verif-fail", func(t *state.Task, _ *tomb.Tomb) error {
		return errors.New("injected failure")
	}, nil)
	nop := func(t *state.Task, _ *tomb.Tomb) error { return nil }
	runner.AddHandler("verif-nop", nop, nop)
	runner.AddHandler("verif-link-snap", func(t *state.Task, _ *tomb.Tomb) error {
		st.Lock()
		defer st.Unlock()
		snapsup, err := snapstate.TaskSnapSetup(t)
		if err != nil {
			return err
		}
		var snapst snapstate.SnapState
		if err := snapstate.Get(st, snapsup.InstanceName(), &snapst); err != nil && !errors.Is(err, state.ErrNoState) {
			return err
		}
		snapst.Active = true
		snapst.Current = snapsup.SideInfo.Revision
		snapst.Sequence = snapstatetest.NewSequenceFromSnapSideInfos([]*snap.SideInfo{snapsup.SideInfo})
		snapst.SnapType = "app"
		snapstate.Set(st, snapsup.InstanceName(), &snapst)
		return ifacestate.OnSnapLinkageChanged(st, snapsup)
	}, func(t *state.Task, _ *tomb.Tomb) error {
		st.Lock()
		defer st.Unlock()
		snapsup, err := snapstate.TaskSnapSetup(t)
		if err != nil {
			return err
		}
		snapstate.Set(st, snapsup.InstanceName(), nil)
		return nil
	})
	setActive := func(active bool) state.HandlerFunc {
		return func(t *state.Task, _ *tomb.Tomb) error {
			st.Lock()
			defer st.Unlock()
			snapsup, err := snapstate.TaskSnapSetup(t)
			if err != nil {
				return err
			}
			var snapst snapstate.SnapState
			if err := snapstate.Get(st, snapsup.InstanceName(), &snapst); err != nil {
				return err
			}
			snapst.Active = active
			snapstate.Set(st, snapsup.InstanceName(), &snapst)
			return ifacestate.OnSnapLinkageChanged(st, snapsup)
		}
	}
	runner.AddHandler("verif-unlink-snap", setActive(false), setActive(true))
	// as snapstate's discard-snap: no undo
	runner.AddHandler("verif-discard-snap", func(t *state.Task, _ *tomb.Tomb) error {
		st.Lock()
		defer st.Unlock()
		snapsup, err := snapstate.TaskSnapSetup(t)
		if err != nil {
			return err
		}
		snapstate.Set(st, snapsup.InstanceName(), nil)
		return nil
	}, nil)
}

// taskGroup returns the id of the connection a connect/disconnect task or one of its hooks works for
// ("" for every other task). Called with the state lock held.
func (f *c22Fix) taskGroup(t *state.Task) string {
	if g, ok := f.groups[t.ID()]; ok {
		return g
	}
	main := t
	if t.Kind() == "run-hook" {
		var ctx map[string]interface{}
		if err := t.Get("hook-context", &ctx); err == nil {
			if id, ok := ctx["attrs-task"].(string); ok {
				if mt := t.State().Task(id); mt != nil {
					main = mt
				}
			}
		}
	}
	g := ""
	if main.Kind() == "connect" || main.Kind() == "disconnect" {
		var p interfaces.PlugRef
		var sl interfaces.SlotRef
		if main.Get("plug", &p) == nil && main.Get("slot", &sl) == nil {
			g = (&interfaces.ConnRef{PlugRef: p, SlotRef: sl}).ID()
		}
	}
	if g != "" || (t.Kind() != "run-hook" && t.Kind() != "connect" && t.Kind() != "disconnect") {
		f.groups[t.ID()] = g
	}
	return g
}

func c22TaskDesc(t *state.Task) string {
	switch t.Kind() {
	case "run-hook":
		var hs hookstate.HookSetup
		if err := t.Get("hook-setup", &hs); err == nil {
			return "hook:" + hs.Snap + ":" + hs.Hook
		}
	case "connect", "disconnect":
		var p interfaces.PlugRef
		var s interfaces.SlotRef
		t.Get("plug", &p)
		t.Get("slot", &s)
		return fmt.Sprintf("%s:%s:%s-%s:%s", t.Kind(), p.Snap, p.Name, s.Snap, s.Name)
	}
	return t.Kind()
}

// onTaskStatus runs under the state lock at every status change. It records the completion order of the
// change under way and splices the failing task after the k-th completion.
func (f *c22Fix) onTaskStatus(t *state.Task, old, new state.Status) {
	chg := t.Change()
	if f.curChg == "" || chg == nil || chg.ID() != f.curChg || t.Kind() == "verif-fail" {
		return
	}
	if !(new == state.DoneStatus && old == state.DoingStatus) {
		return
	}
	d := c22TaskDesc(t)
	f.seenDesc[d]++
	if n := f.seenDesc[d]; n > 1 {
		d = fmt.Sprintf("%s#%d", d, n)
	}
	f.doneSeq = append(f.doneSeq, d)
	if f.failAt > 1 && !f.spliced && len(f.doneSeq) == f.failAt-1 {
		f.spliced = true
		ft := f.st.NewTask("verif-fail", "injected failure after "+d)
		for _, ht := range t.HaltTasks() {
			ht.WaitFor(ft)
		}
		ft.WaitFor(t)
		f.joinAllLanes(chg, ft)
		chg.AddTask(ft)
	}
}

func (f *c22Fix) joinAllLanes(chg *state.Change, ft *state.Task) {
	lanes := map[int]bool{}
	for _, t := range chg.Tasks() {
		for _, l := range t.Lanes() {
			if l != 0 {
				lanes[l] = true
			}
		}
	}
	for l := range lanes {
		ft.JoinLane(l)
	}
}

func (f *c22Fix) settle() error {
	for i := 0; i < 5000; i++ {
		f.iters++
		atomic.StoreInt32(&f.be.ensure, 0)
		if err := f.eng.Ensure(); err != nil {
			return err
		}
		f.eng.Wait()
		if atomic.LoadInt32(&f.be.ensure) != 0 {
			continue
		}
		f.st.Lock()
		pending := false
		for _, chg := range f.st.Changes() {
			if !chg.IsReady() || !chg.IsClean() {
				pending = true
				break
			}
		}
		f.st.Unlock()
		if !pending {
			return nil
		}
		time.Sleep(time.Millisecond)
	}
	return fmt.Errorf("the change does not settle")
}

func (f *c22Fix) observe() c22Obs {
	o := c22Obs{Snaps: map[string]bool{}, Conns: map[string]map[string]interface{}{}, Live: map[string]map[string]interface{}{}, Repo: map[string]c22RepoConn{}, Profiles: map[string][]string{}}
	f.st.Lock()
	for _, name := range c22Snaps {
		var snapst snapstate.SnapState
		if err := snapstate.Get(f.st, name, &snapst); err == nil {
			o.Snaps[name] = snapst.Active
		}
	}
	var live map[string]map[string]interface{}
	if err := f.st.Get("conns", &live); err != nil && !errors.Is(err, state.ErrNoState) {
		eng.HarnessError("cannot read conns: %v", err)
	}
	f.st.Unlock()
	for k, v := range live {
		o.Live[k] = v
	}
	var payload struct {
		Data struct {
			Conns map[string]map[string]interface{} `json:"conns"`
		} `json:"data"`
	}
	if b := f.be.payload(); len(b) > 0 {
		if err := json.Unmarshal(b, &payload); err != nil {
			eng.HarnessError("cannot parse checkpoint payload: %v", err)
		}
	}
	for k, v := range payload.Data.Conns {
		o.Conns[k] = v
	}
	repo := f.mgr.Repository()
	for _, ref := range repo.Interfaces().Connections {
		conn, err := repo.Connection(ref)
		if err != nil {
			eng.HarnessError("repository lists %s but: %v", ref.ID(), err)
		}
		o.Repo[ref.ID()] = c22RepoConn{Interface: conn.Interface(),
			PlugStatic: c22NormAttrs(conn.Plug.StaticAttrs()), PlugDynamic: c22NormAttrs(conn.Plug.DynamicAttrs()),
			SlotStatic: c22NormAttrs(conn.Slot.StaticAttrs()), SlotDynamic: c22NormAttrs(conn.Slot.DynamicAttrs())}
	}
	for _, name := range c22Snaps {
		if len(repo.Plugs(name))+len(repo.Slots(name)) > 0 {
			o.RepoSnaps = append(o.RepoSnaps, name)
		}
	}
	for k, v := range f.profiles {
		o.Profiles[k] = append([]string{}, v...)
	}
	return o
}

// enabled lists the operations of the alphabet that are enabled in the observed state.
func c22Enabled(o c22Obs) []c22Op {
	var ops []c22Op
	for _, cn := range c22ConnNames {
		d := c22ConnDefs[cn]
		id := d.ref().ID()
		_, pi := o.Snaps[d.PlugSnap]
		_, si := o.Snaps[d.SlotSnap]
		cs, inConns := o.Conns[id]
		_, inRepo := o.Repo[id]
		if pi && si && !(inConns && c22Active(cs)) {
			ops = append(ops, c22Op{K: "connect", C: cn})
		}
		if inRepo {
			ops = append(ops, c22Op{K: "disconnect", C: cn})
		}
		if inConns {
			ops = append(ops, c22Op{K: "forget", C: cn})
		}
	}
	for _, name := range c22Snaps {
		if _, ok := o.Snaps[name]; ok {
			ops = append(ops, c22Op{K: "remove", S: name})
		} else {
			ops = append(ops, c22Op{K: "install", S: name})
		}
	}
	ops = append(ops, c22Op{K: "restart"})
	return ops
}

type c22Res struct {
	Rejected string   `json:"rejected,omitempty"` // the operation was refused before a change was made
	Status   string   `json:"status,omitempty"`
	ChgErr   string   `json:"chg_err,omitempty"`
	Done     []string `json:"done,omitempty"`  // tasks in completion order (Doing -> Done)
	Final    []string `json:"final,omitempty"` // kind=status of every task at the end, in id order
	Undone   int      `json:"undone,omitempty"`
	Fired    bool     `json:"fired,omitempty"` // the injected failure ran
	Settle   string   `json:"settle_err,omitempty"`
	// how many failure points the change offers (only meaningful for runs without failure)
	Points int `json:"points,omitempty"`
}

// run performs one operation and settles.
func (f *c22Fix) run(op c22Op) c22Res {
	var res c22Res
	if op.K == "restart" {
		f.eng.Stop()
		data := f.be.payload()
		if len(data) == 0 {
			eng.HarnessError("restart without any checkpoint")
		}
		st, err := state.ReadState(f.be, bytes.NewReader(data))
		if err != nil {
			eng.HarnessError("cannot re-read the state: %v", err)
		}
		f.boot(st)
		if err := f.settle(); err != nil {
			res.Settle = err.Error()
		}
		res.Status = "restarted"
		return res
	}
	st := f.st
	st.Lock()
	var ts *state.TaskSet
	var err error
	var chg *state.Change
	switch op.K {
	case "connect":
		d := c22ConnDefs[op.C]
		ts, err = ifacestate.Connect(st, d.PlugSnap, d.Plug, d.SlotSnap, d.Slot)
	case "disconnect":
		d := c22ConnDefs[op.C]
		var conn *interfaces.Connection
		conn, err = f.mgr.Repository().Connection(d.ref())
		if err == nil {
			ts, err = ifacestate.Disconnect(st, conn)
		}
	case "forget":
		d := c22ConnDefs[op.C]
		ts, err = ifacestate.Forget(st, f.mgr.Repository(), d.ref())
	case "install":
		// the interface-relevant part of snapstate's install: setup-profiles, link-snap, auto-connect, the rest
		if err = snapstate.CheckChangeConflict(st, op.S, nil); err != nil {
			break
		}
		sp := st.NewTask("setup-profiles", "Setup snap security profiles")
		sp.Set("snap-setup", f.snapsup(op.S))
		sp.Set("component-setup-tasks", []string{})
		ln := st.NewTask("verif-link-snap", "Make snap available")
		ln.Set("snap-setup-task", sp.ID())
		ln.WaitFor(sp)
		ac := st.NewTask("auto-connect", "Automatically connect eligible plugs and slots")
		ac.Set("snap-setup-task", sp.ID())
		ac.WaitFor(ln)
		rest := st.NewTask("verif-nop", "Aliases, services, configure hook")
		rest.Set("snap-setup-task", sp.ID())
		rest.WaitFor(ac)
		ts = state.NewTaskSet(sp, ln, ac, rest)
	case "remove":
		// the interface-relevant part of snapstate's remove: stop services, auto-disconnect, unlink-snap,
		// remove-profiles, discard-snap, discard-conns
		if err = snapstate.CheckChangeConflict(st, op.S, nil); err != nil {
			break
		}
		stop := st.NewTask("verif-nop", "Stop snap services, remove hook")
		stop.Set("snap-setup", f.snapsup(op.S))
		ad := st.NewTask("auto-disconnect", "Disconnect interfaces of snap")
		ad.Set("snap-setup-task", stop.ID())
		ad.WaitFor(stop)
		ul := st.NewTask("verif-unlink-snap", "Make snap unavailable")
		ul.Set("snap-setup-task", stop.ID())
		ul.WaitFor(ad)
		rp := st.NewTask("remove-profiles", "Remove security profiles of snap")
		rp.Set("snap-setup-task", stop.ID())
		rp.WaitFor(ul)
		ds := st.NewTask("verif-discard-snap", "Remove snap from the system")
		ds.Set("snap-setup-task", stop.ID())
		ds.WaitFor(rp)
		dc := st.NewTask("discard-conns", "Discard interface connections of snap")
		dc.Set("snap-setup-task", stop.ID())
		dc.WaitFor(ds)
		ts = state.NewTaskSet(stop, ad, ul, rp, ds, dc)
	default:
		eng.HarnessError("unknown operation %q", op.K)
	}
	if err != nil {
		st.Unlock()
		res.Rejected = err.Error()
		return res
	}
	chg = st.NewChange(op.K, op.desc())
	chg.AddAll(ts)
	f.curChg, f.failAt, f.doneSeq, f.seenDesc, f.spliced = chg.ID(), op.F, nil, map[string]int{}, false
	if op.F == 1 {
		// failure before anything ran: every task without prerequisites waits for the failing task
		ft := st.NewTask("verif-fail", "injected failure before the first task")
		for _, t := range ts.Tasks() {
			if len(t.WaitTasks()) == 0 {
				t.WaitFor(ft)
			}
		}
		f.joinAllLanes(chg, ft)
		chg.AddTask(ft)
		f.spliced = true
	}
	st.Unlock()

	if err := f.settle(); err != nil {
		res.Settle = err.Error()
	}
	f.changes++

	st.Lock()
	defer st.Unlock()
	f.curChg = ""
	res.Status = chg.Status().String()
	if e := chg.Err(); e != nil {
		res.ChgErr = e.Error()
	}
	res.Done = f.doneSeq
	tasks := chg.Tasks()
	sort.Slice(tasks, func(a, b int) bool { return c22TaskNum(tasks[a]) < c22TaskNum(tasks[b]) })
	for _, t := range tasks {
		res.Final = append(res.Final, c22TaskDesc(t)+"="+t.Status().String())
		if t.Status() == state.UndoneStatus {
			res.Undone++
		}
		if t.Kind() == "verif-fail" && t.Status() == state.ErrorStatus {
			res.Fired = true
		}
	}
	// failure points: after 0..N completed tasks. A removal is not undoable once discard-snap ran (no undo
	// handler in snapstate): points after it are not offered.
	res.Points = len(res.Done) + 1
	for i, d := range res.Done {
		if d == "verif-discard-snap" {
			res.Points = i + 1
			break
		}
	}
	return res
}

// c22Replay builds a fresh fixture and replays the path. It returns the fixture, the per-step results and
// the observation reached.
func c22Replay(c *C, p c22Path) (*c22Fix, []c22Res, c22Obs) {
	f := newC22Fix(c, p.Root)
	var rs []c22Res
	for _, op := range p.Ops {
		rs = append(rs, f.run(op))
	}
	return f, rs, f.observe()
}

// ---------------------------------------------------------------------------------------------
// one case = path + operation under test (with or without failure)

type c22Case struct {
	Path c22Path `json:"path"`
	Op   c22Op   `json:"op"`
	// what was seen
	Res      *c22Res      `json:"result,omitempty"`
	Pre      *c22Obs      `json:"before,omitempty"`
	Post     *c22Obs      `json:"after,omitempty"`
	Problems []c22Problem `json:"problems,omitempty"`
}

type c22Out struct {
	PreKey   string       `json:"pre_key"`
	Res      c22Res       `json:"res"`
	Pre      c22Obs       `json:"pre"`
	Post     c22Obs       `json:"post"`
	Key      string       `json:"key"`
	Problems []c22Problem `json:"problems,omitempty"`
	Changes  int          `json:"changes"`
}

// c22FailPoint names the failure point in a state-independent way: the task after which the failure strikes.
func c22FailPoint(op c22Op, res c22Res) string {
	if op.F == 0 {
		return "none"
	}
	if op.F == 1 {
		return "start"
	}
	if op.F-2 < len(res.Done) {
		return res.Done[op.F-2]
	}
	return fmt.Sprintf("after-%d", op.F-1)
}

// c22RunCase replays the path on a fresh fixture, runs the operation and evaluates the oracles.
func c22RunCase(c *C, p c22Path, op c22Op) c22Out {
	f, _, pre := c22Replay(c, p)
	defer f.close()
	var out c22Out
	out.Pre, out.PreKey = pre, pre.key()
	out.Res = f.run(op)
	out.Post = f.observe()
	out.Key = out.Post.key()
	out.Changes = f.changes
	res := out.Res
	add := func(kind, text string) { out.Problems = append(out.Problems, c22Problem{Kind: kind, Text: text}) }
	if res.Rejected != "" {
		if out.Key != out.PreKey {
			add("rejected-changed-state", fmt.Sprintf("the refused operation (%s) changed the state", res.Rejected))
		}
		return out
	}
	if res.Settle != "" {
		add("unsettled", res.Settle)
		return out
	}
	switch {
	case op.K == "restart":
	case op.F == 0:
		if res.Status != "Done" {
			add("status", fmt.Sprintf("the change ended %s without an injected failure: %s", res.Status, res.ChgErr))
		}
	default:
		if !res.Fired {
			eng.HarnessError("failure point %d of %s after %s was not reached (tasks %v)", op.F-1, op, p, res.Final)
		}
		if res.Status != "Error" {
			add("status", fmt.Sprintf("the change with the injected failure ended %s", res.Status))
		}
		out.Problems = append(out.Problems, c22Diff(pre, out.Post)...)
	}
	for _, pr := range out.Post.invariants() {
		pr.Kind = "inv-" + pr.Kind
		out.Problems = append(out.Problems, pr)
	}
	return out
}

func c22ProblemKinds(ps []c22Problem) string {
	var ks []string
	for _, p := range ps {
		ks = append(ks, p.Kind)
	}
	return strings.Join(ks, ",")
}

// c22Phase names the failure point by the last mechanism task (not a hook, not a harness stand-in) that had
// completed when the failure struck, without snap names, so that the key is the same in every state.
func c22Phase(op c22Op, res c22Res) string {
	if op.F == 0 {
		return "nofail"
	}
	phase := "start"
	for i, d := range res.Done {
		if i >= op.F-1 {
			break
		}
		switch {
		case strings.HasPrefix(d, "hook:"), strings.HasPrefix(d, "verif-nop"):
		case strings.HasPrefix(d, "connect:"):
			phase = "connect"
		case strings.HasPrefix(d, "disconnect:"):
			phase = "disconnect"
		case d == "setup-profiles#2":
			phase = "setup-profiles-for-auto-connections"
		default:
			phase = strings.TrimPrefix(d, "verif-")
		}
	}
	return phase
}

// c22Key is the canonical key of a violation: operation kind, phase of the failure, the kind of the first
// problem with its refinement, and for per-snap problems whether the snap is the one the operation is about.
func c22Key(op c22Op, out c22Out) string {
	pr := out.Problems[0]
	// a profile difference after undo shows again as the profiles invariant, which says whose profiles and how
	for _, x := range out.Problems {
		if x.Kind != "undo-profiles" {
			pr = x
			break
		}
	}
	key := fmt.Sprintf("%s@%s:%s", op.K, c22Phase(op, out.Res), pr.Kind)
	if pr.Detail != "" {
		key += ":" + pr.Detail
	}
	if pr.Subj != "" {
		role := "bystander"
		if d, ok := c22ConnDefs[op.C]; ok && (d.PlugSnap == pr.Subj || d.SlotSnap == pr.Subj) {
			role = "party"
		}
		if op.S == pr.Subj {
			role = "self"
		}
		if op.S != "" && op.S != pr.Subj {
			role = "peer"
		}
		key += ":" + role
	}
	return key
}

func c22Report(r *eng.Run, c *C, p c22Path, op c22Op, out c22Out, seen map[string]bool) {
	key := c22Key(op, out)
	if seen[key] {
		r.Add("violations_same_key_other_state", 1)
		return
	}
	seen[key] = true
	// re-run before believing it: the same problems must show every time
	want := c22ProblemKinds(out.Problems)
	for i := 0; i < 4; i++ {
		again := c22RunCase(c, p, op)
		r.Add("settled_changes_total", int64(again.Changes))
		if got := c22ProblemKinds(again.Problems); got != want {
			r.Add("unreproducible_mismatches", 1)
			r.Cap("unreproducible", fmt.Sprintf("%s then %s: %q then %q", p, op, want, got))
			return
		}
	}
	var texts []string
	for _, pr := range out.Problems {
		texts = append(texts, pr.Text)
	}
	msg := fmt.Sprintf("after %s, %s (change %s): %s", p, op, out.Res.Status, strings.Join(texts, "; "))
	r.Violation(key, msg, c22Case{Path: p, Op: op, Res: &out.Res, Pre: &out.Pre, Post: &out.Post, Problems: out.Problems})
}

// ---------------------------------------------------------------------------------------------
// process fan-out for the state generation (the fixture uses process-global mocks)

type c22Item struct {
	Path c22Path `json:"path"`
	Key  string  `json:"key"`
	Ops  []c22Op `json:"ops"`
}

func c22Expand(c *C, it c22Item) []c22Out {
	outs := []c22Out{}
	for _, op := range it.Ops {
		out := c22RunCase(c, it.Path, op)
		if it.Key != "" && out.PreKey != it.Key {
			eng.HarnessError("replay diverged: %s reached\n  %s\nbut was recorded as\n  %s", it.Path, out.PreKey, it.Key)
		}
		outs = append(outs, out)
	}
	return outs
}

func c22PMapWorker(c *C) {
	w := os.Getenv("VERIF_C22_PMAP")
	if w == "" {
		return
	}
	var wi, n int
	fmt.Sscanf(w, "%d/%d", &wi, &n)
	var items []c22Item
	b, err := os.ReadFile(os.Getenv("VERIF_C22_IN"))
	if err != nil || json.Unmarshal(b, &items) != nil {
		eng.HarnessError("pmap worker: cannot read input: %v", err)
	}
	// work units are (item, op) pairs, dealt round-robin
	out := map[string]c22Out{}
	u := 0
	for i, it := range items {
		for j, op := range it.Ops {
			if u%n == wi {
				o := c22Expand(c, c22Item{Path: it.Path, Key: it.Key, Ops: []c22Op{op}})
				out[fmt.Sprintf("%d.%d", i, j)] = o[0]
			}
			u++
		}
	}
	ob, _ := json.Marshal(out)
	if err := os.WriteFile(os.Getenv("VERIF_C22_OUT"), ob, 0644); err != nil {
		eng.HarnessError("pmap worker: %v", err)
	}
	c22CleanTmp()
	os.Exit(0)
}

var c22PMapSeq int

func c22PMap(c *C, nproc int, items []c22Item) [][]c22Out {
	units := 0
	for _, it := range items {
		units += len(it.Ops)
	}
	res := make([][]c22Out, len(items))
	if units < 6 || nproc <= 1 {
		for i, it := range items {
			res[i] = c22Expand(c, it)
		}
		return res
	}
	if units/2 < nproc {
		nproc = units / 2
	}
	dir := filepath.Join(eng.WorkDir(), "pmap", "C22")
	os.MkdirAll(dir, 0755)
	c22PMapSeq++
	inf := filepath.Join(dir, fmt.Sprintf("in-%d-%d.json", os.Getpid(), c22PMapSeq))
	b, _ := json.Marshal(items)
	if err := os.WriteFile(inf, b, 0644); err != nil {
		eng.HarnessError("pmap: %v", err)
	}
	defer os.Remove(inf)
	type wres struct {
		w   int
		out []byte
		err error
	}
	ch := make(chan wres, nproc)
	outf := func(w int) string {
		return filepath.Join(dir, fmt.Sprintf("out-%d-%d-%d.json", os.Getpid(), c22PMapSeq, w))
	}
	for w := 0; w < nproc; w++ {
		go func(w int) {
			os.Remove(outf(w))
			cmd := exec.Command(os.Args[0], os.Args[1:]...)
			cmd.Env = append(os.Environ(), fmt.Sprintf("VERIF_C22_PMAP=%d/%d", w, nproc), "VERIF_C22_IN="+inf, "VERIF_C22_OUT="+outf(w))
			out, err := cmd.CombinedOutput()
			ch <- wres{w, out, err}
		}(w)
	}
	for i, it := range items {
		res[i] = make([]c22Out, len(it.Ops))
	}
	got := 0
	for k := 0; k < nproc; k++ {
		x := <-ch
		ob, err := os.ReadFile(outf(x.w))
		if err != nil {
			tail := string(x.out)
			if len(tail) > 3000 {
				tail = tail[len(tail)-3000:]
			}
			eng.HarnessError("state generation worker %d died: %v\n%s", x.w, x.err, tail)
		}
		os.Remove(outf(x.w))
		var m map[string]c22Out
		if err := json.Unmarshal(ob, &m); err != nil {
			eng.HarnessError("pmap: unreadable worker output: %v", err)
		}
		for k, v := range m {
			var i, j int
			fmt.Sscanf(k, "%d.%d", &i, &j)
			res[i][j] = v
			got++
		}
	}
	if got != units {
		eng.HarnessError("pmap: %d of %d results", got, units)
	}
	return res
}

// ---------------------------------------------------------------------------------------------

type c22State struct {
	Path  c22Path `json:"path"`
	Key   string  `json:"key"`
	Depth int     `json:"depth"`
	// operations that made a change, with the number of failure points each offers
	Ops    []c22Op `json:"ops"`
	Points []int   `json:"points"`
}

const c22Rule = "states: breadth-first from the root configurations over every enabled operation of the alphabet (connect/disconnect/forget of 4 connections - one slot shared by two plugs, one plug shared by two slots -, install/remove of 3 snaps, restart) to the depth bound, every path replayed on a fresh fixture, deduplicated on the canonical observation (installed snaps, persisted conns, repository connections with attributes, profile contents); cases: every state x every enabled operation without failure and x every failure point 0..N (a failing task spliced after the k-th completed task of the change, counting tasks injected by auto-connect/auto-disconnect and hooks; removals up to discard-snap); non-trivial = failure cases in which at least one completed task had to be undone"

func (s *verifC22Suite) TestVerifC22(c *C) {
	r := eng.Start("C22", "model_checking", 100*time.Second, 14*time.Minute)
	c22InitTmp()
	c22PMapWorker(c)
	r.Assume("the package's interfaceManagerSuite fixture: snaps mocked on disk, ifacetest.TestSecurityBackend as the only security backend (its Setup/Remove callbacks record which connections the repository held for the snap: that record stands for the profile files), interface hooks run through the mocked snap command (always succeed, set no attributes), fake model and in-memory assertion database",
		"install/remove changes consist of the real setup-profiles/auto-connect/auto-disconnect/remove-profiles/discard-conns tasks in snapstate's order; link-snap, unlink-snap, discard-snap (no undo, as in snapstate) and the remaining tasks are harness stand-ins that only set the snap state",
		"persisted state = the last checkpoint payload the state handed to its backend; restart = state.ReadState of that payload + new hook/interface managers + StartUp",
		"one task runs at a time, the lowest task id first, an injected failing task before anything else (hook H2 fixes the visiting order); task interleavings are covered by C01-C04 and C07",
		"auto-connection policy: mocked base declaration (interface test: same publisher auto-connects; test2: manual only); hotplug and gadget connections are not in the alphabet")

	seen := map[string]bool{}

	if rc := r.ReplayCase(); rc != nil {
		var cas c22Case
		if err := json.Unmarshal(rc, &cas); err != nil {
			eng.HarnessError("bad replay case: %v", err)
		}
		f, rs, _ := c22Replay(c, cas.Path)
		f.close()
		for i, x := range rs {
			fmt.Printf("history %d %s -> %s %s%s\n", i, cas.Path.Ops[i], x.Status, x.ChgErr, x.Rejected)
		}
		out := c22RunCase(c, cas.Path, cas.Op)
		fmt.Printf("operation under test %s -> change %s %s\n  completed: %v\n  final: %v\n", cas.Op, out.Res.Status, out.Res.ChgErr, out.Res.Done, out.Res.Final)
		fmt.Printf("before: %s\nafter:  %s\n", eng.JSON(out.Pre), eng.JSON(out.Post))
		for _, p := range out.Problems {
			fmt.Printf("  PROBLEM %s: %s\n", p.Kind, p.Text)
		}
		if len(out.Problems) > 0 {
			var texts []string
			for _, pr := range out.Problems {
				texts = append(texts, pr.Text)
			}
			r.Violation(c22Key(cas.Op, out), strings.Join(texts, "; "), cas)
		}
		r.Add("evaluations", 1)
		c22Finish(r, "replay of one stored case")
	}

	if os.Getenv("VERIF_C22_TIMING") != "" { // calibration aid: CPU cost of a fixture and of a change
		cpu := func() time.Duration {
			var ru syscall.Rusage
			syscall.Getrusage(syscall.RUSAGE_SELF, &ru)
			var rc syscall.Rusage
			syscall.Getrusage(syscall.RUSAGE_CHILDREN, &rc)
			return time.Duration(ru.Utime.Nano() + ru.Stime.Nano() + rc.Utime.Nano() + rc.Stime.Nano())
		}
		var tFix, tChg, tClose, tB time.Duration
		n := 20
		for i := 0; i < n; i++ {
			a := cpu()
			f := newC22Fix(c, "all")
			b0 := cpu()
			f.run(c22Op{K: "connect", C: "B"})
			b := cpu()
			tB += b - b0
			f.run(c22Op{K: "connect", C: "A"})
			d := cpu()
			if i == 0 {
				fmt.Printf("C22 timing: install change took %d Ensure passes, %d checkpoints\n", f.iters, f.be.ckpts)
			}
			f.close()
			e := cpu()
			tFix, tChg, tClose = tFix+b-a, tChg+d-b, tClose+e-d
		}
		fmt.Printf("C22 timing: connect(B) (1 task, no hooks) %v\n", tB/time.Duration(n))
		fmt.Printf("C22 timing (cpu, per unit): fixture(+connect B) %v, install change (10 tasks, 4 hooks) %v, close %v\n", tFix/time.Duration(n), tChg/time.Duration(n), tClose/time.Duration(n))
		r.Add("evaluations", 1)
		c22Finish(r, "timing")
	}

	depth := r.Pick(2, 9)
	if v := os.Getenv("VERIF_C22_DEPTH"); v != "" { // calibration aid
		depth, _ = strconv.Atoi(v)
	}
	statesFile := filepath.Join(eng.WorkDir(), "pmap", "C22", "states-"+r.Tier+".json")
	var states []c22State

	if os.Getenv("VERIF_SHARD") == "" {
		// ---- phase 1 (parent): state generation, oracle (2) on every transition without failure ----
		t0 := time.Now()
		visited := map[string]bool{}
		var frontier []c22State
		for _, root := range c22RootNames {
			f, _, o := c22Replay(c, c22Path{Root: root})
			f.close()
			for _, pr := range o.invariants() {
				eng.HarnessError("root configuration %s does not satisfy the invariants: %s: %s", root, pr.Kind, pr.Text)
			}
			k := o.key()
			if visited[k] {
				continue
			}
			visited[k] = true
			frontier = append(frontier, c22State{Path: c22Path{Root: root}, Key: k})
		}
		closure := false
		byDepth := map[string]int{}
		for d := 0; len(frontier) > 0; d++ {
			byDepth[fmt.Sprint(d)] = len(frontier)
			// expand every frontier state (also at the depth bound: its operations are cases; only their
			// successors are not explored further)
			var items []c22Item
			for _, s := range frontier {
				var o c22Obs
				// the enabled set is a function of the observation: recompute it from the key
				json.Unmarshal([]byte(s.Key), &o)
				items = append(items, c22Item{Path: s.Path, Key: s.Key, Ops: c22Enabled(o)})
			}
			res := c22PMap(c, 16, items)
			var next []c22State
			for i, outs := range res {
				s := frontier[i]
				for j, out := range outs {
					op := items[i].Ops[j]
					r.Add("settled_changes_total", int64(out.Changes))
					if out.Res.Rejected != "" {
						r.Add("refused_operations", 1)
						r.Distinct("refused", op.desc()+": "+out.Res.Rejected)
						if len(out.Problems) > 0 {
							c22Report(r, c, s.Path, op, out, seen)
						}
						continue
					}
					r.Add("transitions", 1)
					r.Add("transitions_without_failure", 1)
					r.Distinct("outcome", op.K+":"+out.Res.Status+":"+fmt.Sprint(len(out.Res.Done)))
					if op.K != "restart" {
						s.Ops = append(s.Ops, op)
						s.Points = append(s.Points, out.Res.Points)
						r.Max("max_failure_points", int64(out.Res.Points))
						for _, dn := range out.Res.Done {
							r.Distinct("task_seen", dn)
						}
					} else if out.Key != out.PreKey {
						r.Add("restarts_that_changed_the_state", 1)
					}
					if len(out.Problems) > 0 {
						c22Report(r, c, s.Path, op, out, seen)
						continue // a state that violates the invariants is not expanded
					}
					if r.WantSample() && len(out.Res.Done) > 8 {
						r.Sample(map[string]interface{}{"path": s.Path.String(), "op": op.String(), "status": out.Res.Status, "completed": out.Res.Done, "after": out.Post})
					}
					if visited[out.Key] {
						continue
					}
					visited[out.Key] = true
					if d+1 <= depth {
						next = append(next, c22State{Path: s.Path.plus(op), Key: out.Key, Depth: d + 1})
					} else {
						r.Add("states_beyond_depth_bound", 1)
					}
				}
				states = append(states, s)
			}
			frontier = next
			if len(frontier) == 0 && r.Count("states_beyond_depth_bound") == 0 {
				closure = true
			}
			if r.TimeUp() && len(frontier) > 0 {
				r.Cap("time", fmt.Sprintf("state generation stopped after depth %d with %d unexpanded states", d, len(frontier)))
				break
			}
		}
		os.MkdirAll(filepath.Dir(statesFile), 0755)
		if err := os.WriteFile(statesFile, []byte(eng.JSON(states)), 0644); err != nil {
			eng.HarnessError("cannot write %s: %v", statesFile, err)
		}
		r.Add("states", int64(len(states)))
		r.Info("bounds", map[string]interface{}{"depth": depth, "roots": c22RootNames, "snaps": 3, "connections": len(c22ConnNames), "states_by_depth": byDepth,
			"closure_reached": closure, "generation_seconds": int(time.Since(t0).Seconds())})
		fmt.Printf("C22: %d states %v closure=%v in %v\n", len(states), byDepth, closure, time.Since(t0))
		if os.Getenv("VERIF_C22_LIST") != "" {
			for _, s := range states {
				fmt.Println(s.Depth, s.Path, s.Ops, s.Points)
			}
		}
	} else {
		b, err := os.ReadFile(statesFile)
		if err != nil || json.Unmarshal(b, &states) != nil {
			eng.HarnessError("cannot read %s: %v", statesFile, err)
		}
	}

	// ---- phase 2 (sharded): every state x every change-making operation x every failure point ----
	if r.Sharded(16) {
		os.Remove(statesFile)
		r.Add("traces_validated_against_impl", r.Count("transitions"))
		r.Add("evaluations", r.Count("transitions"))
		c22Finish(r, c22Rule)
	}
	idx := 0
	done := 0
	capped := false
	for _, s := range states {
		for j, op := range s.Ops {
			for k := 1; k <= s.Points[j]; k++ {
				idx++
				if !r.Mine(idx) || capped {
					continue
				}
				if r.TimeUp() {
					r.Cap("time", fmt.Sprintf("shard stopped after %d of its failure cases (breadth-first order)", done))
					capped = true
					continue
				}
				op.F = k
				r.NoteCurrent(eng.JSON(c22Case{Path: s.Path, Op: op}))
				out := c22RunCase(c, s.Path, op)
				if out.PreKey != s.Key {
					eng.HarnessError("replay diverged: %s reached\n  %s\nbut was recorded as\n  %s", s.Path, out.PreKey, s.Key)
				}
				done++
				r.Add("settled_changes_total", int64(out.Changes))
				r.Add("transitions", 1)
				r.Add("failure_cases", 1)
				if out.Res.Undone > 0 {
					r.Add("distinct_nontrivial", 1)
				}
				fp := c22FailPoint(op, out.Res)
				r.Distinct("failure_point", op.desc()+"@"+fp)
				r.Distinct("outcome", fmt.Sprintf("%s!%s:%s:undone=%d", op.K, fp, out.Res.Status, out.Res.Undone))
				if len(out.Problems) > 0 {
					c22Report(r, c, s.Path, op, out, seen)
				} else if r.WantSample() && out.Res.Undone > 4 {
					r.Sample(map[string]interface{}{"path": s.Path.String(), "op": op.String(), "status": out.Res.Status, "final": out.Res.Final, "restored": out.Post})
				}
			}
		}
	}
	if os.Getenv("VERIF_SHARD") == "" {
		// not sharded (single process run): finish the bookkeeping here
		r.Add("traces_validated_against_impl", r.Count("transitions"))
		r.Add("evaluations", r.Count("transitions"))
	}
	c22Finish(r, c22Rule)
}
