//go:build verif

// Overlay-mounted (never written to /repo) export for the C34 check: the two unexported wrappers through
// which every install/refresh/switch request reaches channel.Resolve / channel.ResolvePinned.
package snapstate

// VerifResolveChannel is resolveChannel.
func VerifResolveChannel(snapName, oldChannel, newChannel string, deviceCtx DeviceContext) (string, error) {
	return resolveChannel(snapName, oldChannel, newChannel, deviceCtx)
}

// VerifRevOptsResolveChannel is (*RevisionOptions).resolveChannel.
func VerifRevOptsResolveChannel(r *RevisionOptions, snapName, fallback string, deviceCtx DeviceContext) error {
	return r.resolveChannel(snapName, fallback, deviceCtx)
}
