//go:build verif

// C14 — no two in-progress changes ever operate on the same snap (conflict detection at request time).
//
// Explicit-state exploration of the real request functions (snapstate.Install/Update/Revert/Remove/Enable/
// Disable/Switch/Alias/DisableAllAliases/InstallMany/UpdateMany (named and of all snaps)/AutoRefresh/RemoveMany,
// ifacestate.Connect/Disconnect, snapstate.CheckChangeConflictRunExclusively) on the package's own fixture (fake
// store, fake backend). Every refresh request is also issued in "scenes" in which the snap-declarations list other
// automatic aliases than the state records (see c14Scenes), so that refresh-aliases / prune-auto-aliases tasks for
// snaps that are not themselves refreshed are part of the alphabet.
// Changes never run: after an accepted request the harness does what the API layer does (a new change of the
// API's kind, all returned task sets added to it) and "progress" is an explicit event that rewrites the task
// statuses of one unready change (half done / being undone / waiting / finished / failed).
// A state is never cloned: every explored step runs on a fresh fixture on which the shortest path to the
// state is replayed first.
//
// Oracle (reference model written against the statement, see c14Expect):
//   - after every accepted request, for every snap, at most one unready non-exempt change has a task that
//     affects it; affected snaps are computed twice, with snapstate.SnapsAffectedByTask and with the harness's
//     own decoding of the raw task data (snap-setup / snap-setup-task / plug+slot refs / hook-setup / snaps);
//   - no single task of a newly accepted change refers (by either decoding) to a snap that an unready non-exempt
//     change was operating on, and the snap names the request function reports (updated/installed/removed) do not
//     contain such a snap;
//   - a request on a snap that an unready non-exempt change affects is rejected, with *ChangeConflictError,
//     and creates nothing observable (same changes, same tasks linked to changes, same "snaps" entry);
//   - while an exclusive change (remodel, transition-ubuntu-core, transition-to-snapd-snap,
//     create-recovery-system, remove-recovery-system, revert-snap/refresh-snap that downgrades snapd) is
//     unready, every request is rejected (a refresh of all snaps returns no tasks);
//   - pre-download and become-operational changes do not make a snap busy;
//   - a request whose snap record is changed by somebody else while the store is being asked (state unlocked)
//     is rejected.
package snapstate_test

import (
	"context"
	"encoding/json"
	"errors"
	"fmt"
	"os"
	"path/filepath"
	"runtime/debug"
	"sort"
	"strings"
	"time"

	. "gopkg.in/check.v1"

	"github.com/snapcore/snapd/interfaces"
	"github.com/snapcore/snapd/overlord/auth"
	"github.com/snapcore/snapd/overlord/hookstate"
	"github.com/snapcore/snapd/overlord/ifacestate"
	"github.com/snapcore/snapd/overlord/snapstate"
	"github.com/snapcore/snapd/overlord/snapstate/snapstatetest"
	"github.com/snapcore/snapd/overlord/state"
	"github.com/snapcore/snapd/snap"
	"github.com/snapcore/snapd/store"
	eng "github.com/snapcore/snapd/verifengine"
)

type verifC14Suite struct{}

var _ = Suite(&verifC14Suite{})

const (
	c14A     = "some-snap"       // active, revisions [5 7], current 7, app cmd1, plug "plug", manual alias alias0, automatic alias a-auto
	c14B     = "some-other-snap" // active, revision [3], slot "slot", automatic alias b-auto
	c14C     = "snap-c"          // not installed
	c14D     = "snap-d"          // not installed (second target of install-many)
	c14I     = "inactive-snap"   // installed, disabled, automatic alias i-auto, store snap without a newer revision
	c14Snapd = "snapd"           // active, revisions [1 2] = versions 2.51 2.52, current 2
)

// ---------------------------------------------------------------------------------------------------------
// steps

type c14Step struct {
	K   string `json:"k"`             // "pre": pre-existing change (first step only) | "req": request | "ev": progress event
	Op  string `json:"op,omitempty"`  // request name (c14Ops) / kind of the pre-existing change
	Chg int    `json:"chg,omitempty"` // ev: index of the change in harness creation order
	To  string `json:"to,omitempty"`  // ev: doing | undoing | wait | done | error
}

func (s c14Step) String() string {
	switch s.K {
	case "pre":
		return "pre(" + s.Op + ")"
	case "ev":
		return fmt.Sprintf("%s(#%d)", s.To, s.Chg)
	}
	return s.Op
}

func c14PathString(p []c14Step) string {
	var l []string
	for _, s := range p {
		l = append(l, s.String())
	}
	return strings.Join(l, " ; ")
}

// c14Op describes one request of the menu for the reference model.
type c14Op struct {
	Name      string
	Targets   []string // snaps the request operates on (what the statement calls "the snap")
	Kind      string   // kind of the change the API layer creates for it
	Exclusive bool     // the request starts an exclusive change (must find the system quiet: model-only expectation)
	All       bool     // refresh of all snaps: conflicting snaps are skipped instead of failing the request
	Stale     string   // stale-record scenario: what the store callback does while the state is unlocked
	Scene     string   // refresh requests: what the snap-declarations / the store say at request time (c14Scenes), "" = nothing new
	Leaf      bool     // states reached through this request are not expanded further
	Thorough  bool     // only in the thorough tier
}

func c14Menu(thorough bool) []c14Op {
	all := []c14Op{
		{Name: "update(A)", Targets: []string{c14A}, Kind: "refresh-snap"},
		{Name: "revert(A)", Targets: []string{c14A}, Kind: "revert-snap"},
		{Name: "remove(A)", Targets: []string{c14A}, Kind: "remove-snap"},
		{Name: "disable(A)", Targets: []string{c14A}, Kind: "disable-snap"},
		{Name: "switch(A)", Targets: []string{c14A}, Kind: "switch-snap"},
		{Name: "alias(A)", Targets: []string{c14A}, Kind: "alias"},
		{Name: "unalias-all(A)", Targets: []string{c14A}, Kind: "unalias"},
		{Name: "update(B)", Targets: []string{c14B}, Kind: "refresh-snap"},
		{Name: "enable(I)", Targets: []string{c14I}, Kind: "enable-snap"},
		{Name: "install(C)", Targets: []string{c14C}, Kind: "install-snap"},
		{Name: "install-many(C,D)", Targets: []string{c14C, c14D}, Kind: "install-snap"},
		{Name: "update-many(A,B)", Targets: []string{c14A, c14B}, Kind: "refresh-snap"},
		{Name: "remove-many(A,B)", Targets: []string{c14A, c14B}, Kind: "remove-snap"},
		{Name: "refresh-all", Kind: "refresh-snap", All: true},
		{Name: "auto-refresh", Kind: "auto-refresh", All: true},
		{Name: "connect(A,B)", Targets: []string{c14A, c14B}, Kind: "connect-snap"},
		{Name: "disconnect(A,B)", Targets: []string{c14A, c14B}, Kind: "disconnect-snap"},
		{Name: "update(snapd)", Targets: []string{c14Snapd}, Kind: "refresh-snap"},
		{Name: "revert(snapd)", Targets: []string{c14Snapd}, Kind: "revert-snap", Exclusive: true},
		{Name: "exclusive(remodel)", Kind: "remodel", Exclusive: true},
		// remove of one named revision: a kept revision that is not the current one (A keeps [5 7], current 7) and
		// the current one (I keeps only [2] and is disabled; the current revision of an active snap cannot be named).
		// Same conflict verdict as a plain remove of the snap.
		{Name: "remove-revision(A,5)", Targets: []string{c14A}, Kind: "remove-snap"},
		{Name: "remove-revision(I,2)", Targets: []string{c14I}, Kind: "remove-snap"},
		// stale-record scenarios (leaves)
		{Name: "update(A)/stale:A-changed", Targets: []string{c14A}, Kind: "refresh-snap", Stale: "mutA", Leaf: true},
		{Name: "update(A)/stale:B-changed", Targets: []string{c14A}, Kind: "refresh-snap", Stale: "mutB", Leaf: true},
		{Name: "update(A)/stale:change-sneaks-in", Targets: []string{c14A}, Kind: "refresh-snap", Stale: "sneak", Leaf: true},
		{Name: "install(C)/stale:C-appears", Targets: []string{c14C}, Kind: "install-snap", Stale: "setC", Leaf: true},
		// thorough only
		{Name: "unalias(alias0)", Targets: []string{c14A}, Kind: "unalias", Thorough: true},
		{Name: "prefer(A)", Targets: []string{c14A}, Kind: "prefer", Thorough: true},
		{Name: "remove(B)", Targets: []string{c14B}, Kind: "remove-snap", Thorough: true},
		{Name: "disable(B)", Targets: []string{c14B}, Kind: "disable-snap", Thorough: true},
		{Name: "remove(I)", Targets: []string{c14I}, Kind: "remove-snap", Thorough: true},
		{Name: "downgrade(snapd)", Targets: []string{c14Snapd}, Kind: "refresh-snap", Exclusive: true, Thorough: true},
		{Name: "exclusive(create-recovery-system)", Kind: "create-recovery-system", Exclusive: true, Thorough: true},
		{Name: "exclusive(remove-recovery-system)", Kind: "remove-recovery-system", Exclusive: true, Thorough: true},
		{Name: "update-many(A,B)/stale:A-changed", Targets: []string{c14A, c14B}, Kind: "refresh-snap", Stale: "mutA", Leaf: true, Thorough: true},
	}
	// every request that ends in doUpdate, in every auto-alias scene (see c14Scenes): the snap-declarations that
	// the refresh fetched differ from the aliases recorded in the state
	for _, base := range []string{"refresh-all", "auto-refresh", "update(A)", "update(B)", "update-many(A,B)"} {
		for _, o := range all {
			if o.Name != base {
				continue
			}
			for _, scene := range c14SceneNames {
				v := o
				v.Name = base + "@" + scene
				v.Scene = scene
				v.Thorough = c14Scenes[scene].Thorough
				if !v.All {
					v.Targets = c14TargetsInScene(o.Targets, scene)
				}
				all = append(all, v)
			}
		}
	}
	var ops []c14Op
	for _, o := range all {
		if o.Thorough && !thorough {
			continue
		}
		ops = append(ops, o)
	}
	return ops
}

// ---------------------------------------------------------------------------------------------------------
// automatic aliases
//
// The state records for A, B and I one automatic alias each (c14StateAuto); snapstate.AutoAliases (the hook through
// which snapstate reads the snap-declarations) answers from the world's current declaration table, which says the
// same on the idle system: no delta. A refresh request issued "@scene" finds other declarations (a refresh fetches
// the snap-declarations before anything else) and possibly a store without a newer revision of some snap; after
// the request the table is back to the base one (issuing the same "@scene" request again is the case of a
// declaration that stays changed; nothing runs here, so the recorded aliases never catch up).

var c14StateAuto = map[string]map[string]string{
	c14A: {"a-auto": "cmd1"},
	c14B: {"b-auto": "cmd1"},
	c14I: {"i-auto": "cmd1"},
}

type c14SceneDef struct {
	Decl     map[string]map[string]string // snap -> alias -> app, as the snap-declarations say at request time
	NoUpdate []string                     // the store has no newer revision of these (I never has one)
	Thorough bool
}

var c14SceneNames = []string{"delta", "move"}

var c14Scenes = map[string]c14SceneDef{
	// every snap's declaration lists a new automatic alias and no longer lists the recorded one (a snap that is not
	// refreshed itself gets a prune-auto-aliases and a refresh-aliases task); the store has nothing newer for A
	"delta": {Decl: map[string]map[string]string{c14A: {"a-new": "cmd1"}, c14B: {"b-new": "cmd1"}, c14I: {"i-new": "cmd1"}},
		NoUpdate: []string{c14A}},
	// the automatic aliases moved round: A's to B, B's to I, I's to A (every snap is source and target of a transfer:
	// the refresh of the target includes a prune-auto-aliases task for the source)
	"move": {Decl: map[string]map[string]string{c14A: {"i-auto": "cmd1"}, c14B: {"a-auto": "cmd1"}, c14I: {"b-auto": "cmd1"}}},
}

// c14AliasDelta is the harness's own reading of "automatic-alias delta" of a snap in a scene: aliases its
// declaration lists and its state lacks (gained), automatic aliases of its state the declaration no longer lists (lost).
func c14AliasDelta(name, scene string) (gained, lost []string) {
	decl, ok := c14Scenes[scene].Decl[name]
	if !ok {
		decl = c14StateAuto[name]
	}
	for a, app := range decl {
		if c14StateAuto[name][a] != app {
			gained = append(gained, a)
		}
	}
	for a := range c14StateAuto[name] {
		if decl[a] == "" {
			lost = append(lost, a)
		}
	}
	sort.Strings(gained)
	sort.Strings(lost)
	return gained, lost
}

// c14TargetsInScene: a named refresh of X also operates on the snaps an automatic alias of which moves to X (the
// alias has to be pruned there first: a prune-auto-aliases task for that snap is part of the refresh).
func c14TargetsInScene(targets []string, scene string) []string {
	out := append([]string(nil), targets...)
	for _, t := range targets {
		gained, _ := c14AliasDelta(t, scene)
		for _, a := range gained {
			for _, other := range []string{c14A, c14B, c14I} {
				_, lost := c14AliasDelta(other, scene)
				if _, hit := c14Intersects([]string{a}, lost); hit {
					if _, have := c14Intersects([]string{other}, out); !have {
						out = append(out, other)
					}
				}
			}
		}
	}
	return out
}

// kinds of pre-existing changes (roots): the exclusive kinds that are not started through a request function of
// this menu, and the two kinds that are exempt by design.
var c14PreKinds = []string{"remodel", "transition-ubuntu-core", "transition-to-snapd-snap", "create-recovery-system",
	"remove-recovery-system", "pre-download", "become-operational"}

var c14ExclusiveKinds = map[string]bool{"remodel": true, "transition-ubuntu-core": true, "transition-to-snapd-snap": true,
	"create-recovery-system": true, "remove-recovery-system": true}
var c14ExemptKinds = map[string]bool{"pre-download": true, "become-operational": true}

// ---------------------------------------------------------------------------------------------------------
// fixture

type c14Store struct {
	*fakeStore
	hook     func()
	noUpdate map[string]bool // scene: the store has no newer revision of these snaps
}

func (s *c14Store) SnapAction(ctx context.Context, currentSnaps []*store.CurrentSnap, actions []*store.SnapAction, assertQuery store.AssertionQuery, user *auth.UserState, opts *store.RefreshOptions) ([]store.SnapActionResult, []store.AssertionResult, error) {
	if h := s.hook; h != nil {
		// one shot: this is "somebody else" acting while the request has the state unlocked
		s.hook = nil
		h()
	}
	res, ares, err := s.fakeStore.SnapAction(ctx, currentSnaps, actions, assertQuery, user, opts)
	for _, r := range res {
		if r.Info != nil && r.Info.SnapName() == c14Snapd {
			r.Info.Version = c14SnapdVersion(r.Info.Revision)
		}
	}
	if len(s.noUpdate) > 0 {
		// answer as the fake store does for a snap that is up to date: no result + a per-snap refresh error
		var kept []store.SnapActionResult
		var current []string
		for _, r := range res {
			if r.Info != nil && s.noUpdate[r.Info.InstanceName()] {
				current = append(current, r.Info.InstanceName())
				continue
			}
			kept = append(kept, r)
		}
		if len(current) > 0 {
			saErr, _ := err.(*store.SnapActionError)
			if err != nil && saErr == nil {
				return res, ares, err
			}
			if saErr == nil {
				saErr = &store.SnapActionError{}
			}
			if saErr.Refresh == nil {
				saErr.Refresh = map[string]error{}
			}
			for _, n := range current {
				saErr.Refresh[n] = store.ErrNoUpdateAvailable
			}
			saErr.NoResults = false
			return kept, ares, saErr
		}
	}
	return res, ares, err
}

func c14SnapdVersion(rev snap.Revision) string { return fmt.Sprintf("2.%d", 50+rev.N) }

type c14Chg struct {
	ID string
	Op string
}

type c14World struct {
	snapmgrBaseTest
	c        *C
	restore  []func()
	st       *state.State
	store    *c14Store
	changes  []c14Chg
	menu     map[string]c14Op
	requests int                          // requests issued on this fixture
	decl     map[string]map[string]string // what the snap-declarations say right now (read through snapstate.AutoAliases)
	preDl    []*state.TaskSet             // pre-download task sets returned by the last auto-refresh
	// set by a stale-scenario callback
	hookSnapshot *c14Snapshot
	hookObs      *c14Obs
}

var c14TmpRoot string // scratch of this process (TMPDIR: gocheck's c.MkDir, hence the fixture's root directories)
var c14TmpBase string // scratch of the whole run, removed by the parent process

// c14InitTmp chooses where the fixtures' root directories live. A fixture costs ~17 ms on the disk under
// $VERIF_WORK and ~5 ms on a tmpfs (it is mostly mkdir/unlink/fsync), so /dev/shm is used when it is there;
// otherwise $VERIF_WORK/tmp. The parent process picks the place, hands it to the workers and removes it at the end;
// leftovers of runs that died are removed at the next start.
func c14InitTmp() {
	debug.SetGCPercent(400)
	c14TmpBase = os.Getenv("VERIF_C14_TMPBASE")
	if c14TmpBase == "" {
		for _, root := range []string{"/dev/shm", filepath.Join(eng.WorkDir(), "tmp")} {
			if fi, err := os.Stat(root); root == "/dev/shm" && (err != nil || !fi.IsDir()) {
				continue
			}
			old, _ := filepath.Glob(filepath.Join(root, "verif-C14-*"))
			for _, d := range old {
				var pid int
				fmt.Sscanf(filepath.Base(d), "verif-C14-%d", &pid)
				if _, err := os.Stat(fmt.Sprintf("/proc/%d", pid)); err != nil {
					os.RemoveAll(d)
				}
			}
			base := filepath.Join(root, fmt.Sprintf("verif-C14-%d", os.Getpid()))
			os.RemoveAll(base)
			if err := os.MkdirAll(base, 0755); err == nil {
				c14TmpBase = base
				break
			}
		}
		if c14TmpBase == "" {
			eng.HarnessError("no place for scratch directories")
		}
		os.Setenv("VERIF_C14_TMPBASE", c14TmpBase)
		os.Setenv("VERIF_C14_TMPOWNER", fmt.Sprint(os.Getpid()))
	}
	sh := strings.ReplaceAll(os.Getenv("VERIF_SHARD"), "/", "of")
	c14TmpRoot = filepath.Join(c14TmpBase, fmt.Sprintf("w%s-%d", sh, os.Getpid()))
	if err := os.MkdirAll(c14TmpRoot, 0755); err != nil {
		eng.HarnessError("cannot create %s: %v", c14TmpRoot, err)
	}
	os.Setenv("TMPDIR", c14TmpRoot)
}

func c14CleanTmp() {
	if c14TmpRoot != "" {
		os.RemoveAll(c14TmpRoot)
	}
	if c14TmpBase != "" && os.Getenv("VERIF_C14_TMPOWNER") == fmt.Sprint(os.Getpid()) {
		os.RemoveAll(c14TmpBase)
	}
}

func c14Finish(r *eng.Run, rule string) {
	c14CleanTmp()
	r.Finish(rule)
}

var c14Fixtures int64

func c14New(c *C, menu map[string]c14Op) *c14World {
	w := &c14World{c: c, menu: menu}
	c14Fixtures++
	w.snapmgrBaseTest.SetUpTest(c)
	w.st = w.state
	// the managers whose tasks the request functions of the menu create: they register how their tasks affect
	// snaps ("hook-setup" attribute, connect/disconnect kinds), exactly as in the real overlord
	hookMgr, err := hookstate.Manager(w.st, w.o.TaskRunner())
	if err != nil {
		eng.HarnessError("hookstate.Manager: %v", err)
	}
	if _, err := ifacestate.Manager(w.st, hookMgr, w.o.TaskRunner(), nil, nil); err != nil {
		eng.HarnessError("ifacestate.Manager: %v", err)
	}
	w.restore = append(w.restore, snapstate.MockSnapReadInfo(func(name string, si *snap.SideInfo) (*snap.Info, error) {
		info, err := w.fakeBackend.ReadInfo(name, si)
		if err != nil {
			return info, err
		}
		switch name {
		case c14A:
			info.Apps = map[string]*snap.AppInfo{"cmd1": {Snap: info, Name: "cmd1"}}
			info.Plugs = map[string]*snap.PlugInfo{"plug": {Snap: info, Name: "plug", Interface: "content", Attrs: map[string]interface{}{"content": "x"}}}
		case c14B:
			info.Slots = map[string]*snap.SlotInfo{"slot": {Snap: info, Name: "slot", Interface: "content", Attrs: map[string]interface{}{"content": "x"}}}
		case c14Snapd:
			info.Version = c14SnapdVersion(si.Revision)
		}
		return info, nil
	}))
	w.store = &c14Store{fakeStore: w.fakeStore}
	// the fixture's AutoAliases knows no aliases; ours reads the world's declaration table (TearDownTest resets the hook)
	w.decl = c14StateAuto
	snapstate.AutoAliases = func(_ *state.State, info *snap.Info) (map[string]string, error) {
		m := map[string]string{}
		for a, app := range w.decl[info.InstanceName()] {
			m[a] = app
		}
		return m, nil
	}
	w.st.Lock()
	defer w.st.Unlock()
	snapstate.ReplaceStore(w.st, w.store)
	snapstate.Set(w.st, c14A, &snapstate.SnapState{
		Active: true,
		Sequence: snapstatetest.NewSequenceFromSnapSideInfos([]*snap.SideInfo{
			{RealName: c14A, SnapID: "some-snap-id", Revision: snap.R(5)},
			{RealName: c14A, SnapID: "some-snap-id", Revision: snap.R(7)},
		}),
		Current:         snap.R(7),
		SnapType:        "app",
		TrackingChannel: "latest/stable",
		Aliases:         map[string]*snapstate.AliasTarget{"alias0": {Manual: "cmd1"}, "a-auto": {Auto: c14StateAuto[c14A]["a-auto"]}},
	})
	snapstate.Set(w.st, c14B, &snapstate.SnapState{
		Active: true,
		Sequence: snapstatetest.NewSequenceFromSnapSideInfos([]*snap.SideInfo{
			{RealName: c14B, SnapID: "some-other-snap-id", Revision: snap.R(3)},
		}),
		Current:         snap.R(3),
		SnapType:        "app",
		TrackingChannel: "latest/stable",
		Aliases:         map[string]*snapstate.AliasTarget{"b-auto": {Auto: c14StateAuto[c14B]["b-auto"]}},
	})
	snapstate.Set(w.st, c14I, &snapstate.SnapState{
		Active: false,
		Sequence: snapstatetest.NewSequenceFromSnapSideInfos([]*snap.SideInfo{
			{RealName: c14I, SnapID: "other-snap-id", Revision: snap.R(2)}, // the fake store never has a newer revision for this id
		}),
		Current:         snap.R(2),
		SnapType:        "app",
		TrackingChannel: "latest/stable",
		Aliases:         map[string]*snapstate.AliasTarget{"i-auto": {Auto: c14StateAuto[c14I]["i-auto"]}},
	})
	snapstate.Set(w.st, c14Snapd, &snapstate.SnapState{
		Active: true,
		Sequence: snapstatetest.NewSequenceFromSnapSideInfos([]*snap.SideInfo{
			{RealName: c14Snapd, SnapID: "snapd-snap-id", Revision: snap.R(1)},
			{RealName: c14Snapd, SnapID: "snapd-snap-id", Revision: snap.R(2)},
		}),
		Current:         snap.R(2),
		SnapType:        "snapd",
		TrackingChannel: "latest/stable",
	})
	return w
}

func (w *c14World) close() {
	w.snapmgrBaseTest.TearDownTest(w.c)
	for i := len(w.restore) - 1; i >= 0; i-- {
		w.restore[i]()
	}
	if c14TmpRoot != "" {
		ents, _ := os.ReadDir(c14TmpRoot)
		for _, e := range ents {
			p := filepath.Join(c14TmpRoot, e.Name())
			if strings.HasPrefix(e.Name(), "check-") {
				// gocheck's MkDir root must stay, its numbered children can go
				sub, _ := os.ReadDir(p)
				for _, se := range sub {
					os.RemoveAll(filepath.Join(p, se.Name()))
				}
				continue
			}
			os.RemoveAll(p)
		}
	}
}

// ---------------------------------------------------------------------------------------------------------
// observation

// c14OwnAffected decodes the snaps a task operates on from its raw data, without snapstate's helpers.
func c14OwnAffected(st *state.State, t *state.Task) []string {
	nameOf := func(raw map[string]interface{}) string {
		si, _ := raw["side-info"].(map[string]interface{})
		name, _ := si["name"].(string)
		if key, _ := raw["instance-key"].(string); key != "" {
			name += "_" + key
		}
		return name
	}
	var raw map[string]interface{}
	switch {
	case t.Has("snap-setup"):
		if err := t.Get("snap-setup", &raw); err != nil {
			eng.HarnessError("cannot decode snap-setup of %s: %v", t.Kind(), err)
		}
		return []string{nameOf(raw)}
	case t.Has("snap-setup-task"):
		var id string
		if err := t.Get("snap-setup-task", &id); err != nil {
			eng.HarnessError("cannot decode snap-setup-task of %s: %v", t.Kind(), err)
		}
		t2 := st.Task(id)
		if t2 == nil {
			return []string{"<dangling snap-setup-task>"}
		}
		if err := t2.Get("snap-setup", &raw); err != nil {
			eng.HarnessError("cannot decode snap-setup of %s: %v", t2.Kind(), err)
		}
		return []string{nameOf(raw)}
	case t.Kind() == "connect" || t.Kind() == "disconnect":
		var plug, slot map[string]interface{}
		t.Get("plug", &plug)
		t.Get("slot", &slot)
		p, _ := plug["snap"].(string)
		s, _ := slot["snap"].(string)
		return []string{p, s}
	case t.Kind() == "conditional-auto-refresh":
		var snaps map[string]interface{}
		t.Get("snaps", &snaps)
		var l []string
		for n := range snaps {
			l = append(l, n)
		}
		return l
	case t.Has("hook-setup"):
		if err := t.Get("hook-setup", &raw); err != nil {
			eng.HarnessError("cannot decode hook-setup of %s: %v", t.Kind(), err)
		}
		s, _ := raw["snap"].(string)
		return []string{s}
	}
	return nil
}

type c14ChgObs struct {
	ID        string   `json:"id"`
	Kind      string   `json:"kind"`
	Status    string   `json:"status"`
	Exempt    bool     `json:"exempt,omitempty"`
	Exclusive bool     `json:"exclusive,omitempty"`
	Impl      []string `json:"affected_impl"` // union over the tasks, snapstate.SnapsAffectedByTask
	Own       []string `json:"affected_own"`  // union over the tasks, harness decoding
	Tasks     int      `json:"tasks"`
}

// c14Obs is what the reference model looks at: the unready changes.
type c14Obs struct {
	Unready []c14ChgObs `json:"unready"`
	Ready   int         `json:"ready"`
}

func c14Sorted(m map[string]bool) []string {
	l := make([]string, 0, len(m))
	for k := range m {
		l = append(l, k)
	}
	sort.Strings(l)
	return l
}

// observe must be called with the state locked.
func (w *c14World) observe() c14Obs {
	var o c14Obs
	for _, chg := range w.st.Changes() {
		// "unfinished" in the sense of the statement. IsReady and Status().Ready() are both looked at by the
		// implementation; the events of this harness keep them in step (checked here).
		if chg.IsReady() != chg.Status().Ready() {
			eng.HarnessError("change %s: IsReady %v but status %s", chg.ID(), chg.IsReady(), chg.Status())
		}
		if chg.IsReady() {
			o.Ready++
			continue
		}
		co := c14ChgObs{ID: chg.ID(), Kind: chg.Kind(), Status: chg.Status().String(), Exempt: c14ExemptKinds[chg.Kind()],
			Exclusive: c14ExclusiveKinds[chg.Kind()], Tasks: len(chg.Tasks())}
		impl, own := map[string]bool{}, map[string]bool{}
		for _, t := range chg.Tasks() {
			l, err := snapstate.SnapsAffectedByTask(t)
			if err != nil {
				impl["<error: "+err.Error()+">"] = true
			}
			for _, n := range l {
				impl[n] = true
			}
			for _, n := range c14OwnAffected(w.st, t) {
				own[n] = true
			}
			// own notion of "snapd downgrade": a refresh/revert change whose prepare/download task carries a
			// snapd snap-setup with a version below the installed one (2.52), or no version at all
			if (chg.Kind() == "refresh-snap" || chg.Kind() == "revert-snap") && (t.Kind() == "prepare-snap" || t.Kind() == "download-snap") && t.Has("snap-setup") {
				var raw map[string]interface{}
				t.Get("snap-setup", &raw)
				si, _ := raw["side-info"].(map[string]interface{})
				if name, _ := si["name"].(string); name == c14Snapd {
					v, _ := raw["version"].(string)
					if v == "" || v < c14SnapdVersion(snap.R(2)) { // "2.NN" strings of equal length
						co.Exclusive = true
					}
				}
			}
		}
		co.Impl, co.Own = c14Sorted(impl), c14Sorted(own)
		o.Unready = append(o.Unready, co)
	}
	sort.Slice(o.Unready, func(i, j int) bool { return o.Unready[i].ID < o.Unready[j].ID })
	return o
}

// key is the canonical state key. Argument for merging: the request functions read, besides the snap records
// (part of the key), only (a) the kind and readiness of every change and (b) for the tasks of unready changes
// the data from which the affected snaps are computed (conflict.go: checkChangeConflictExclusiveKinds,
// isIrrelevantChange, CheckChangeConflictMany, changeIsSnapdDowngrade). Ready changes are skipped by all of them at
// the first test, so they are left out; the status of an unready change is kept (a changed implementation might
// look at it). Of the kind only its class matters to that code (see c14KindClass).
func (w *c14World) key() string {
	k, _, _ := w.statLocked()
	return k
}

// c14KindClass: the only distinctions the conflict code makes between change kinds.
func c14KindClass(kind string) string {
	if c14ExclusiveKinds[kind] || c14ExemptKinds[kind] || kind == "refresh-snap" || kind == "revert-snap" {
		return kind
	}
	return "other"
}

// c14KeyPart gives the key fragments of one unready change: full (with the change kind) and abstract (with the
// class of the kind). States with one unready change are keyed with the full fragment, so that every ordered pair
// of menu requests is run; states with two or more are keyed with the abstract one; states with three or more
// unready changes are merged over the statuses as well (the conflict code reads a status only through Ready()).
func c14KeyPart(c c14ChgObs) (full, abstract, suffix string) {
	x := ""
	if c.Exclusive {
		x = "!"
	}
	return c.Kind + x + "/", c14KindClass(c.Kind) + x + "/", "[" + strings.Join(c.Impl, ",") + "|" + strings.Join(c.Own, ",") + "]"
}

func c14JoinKey(parts []string, snapsDigest string) string {
	parts = append([]string(nil), parts...)
	sort.Strings(parts)
	return strings.Join(parts, " + ") + " snaps:" + snapsDigest
}

func (w *c14World) rawSnaps() string {
	var m map[string]*json.RawMessage
	if err := w.st.Get("snaps", &m); err != nil && !errors.Is(err, state.ErrNoState) {
		eng.HarnessError("cannot read snaps: %v", err)
	}
	b, _ := json.Marshal(m)
	return string(b)
}

var c14BaseSnaps string

func (w *c14World) snapsDigest() string {
	s := w.rawSnaps()
	if s == c14BaseSnaps {
		return "base"
	}
	return s
}

// c14Snapshot is "everything observable" a rejected request must leave alone.
type c14Snapshot struct {
	Changes  []string `json:"changes"` // id kind status [task-id:kind:status ...]
	Snaps    string   `json:"snaps"`
	Linked   int      `json:"linked_tasks"`
	Unlinked int      `json:"unlinked_tasks"`
}

func (w *c14World) snapshot() c14Snapshot {
	var s c14Snapshot
	for _, chg := range w.st.Changes() {
		var ts []string
		for _, t := range chg.Tasks() {
			ts = append(ts, t.ID()+":"+t.Kind()+":"+t.Status().String())
		}
		sort.Strings(ts)
		s.Changes = append(s.Changes, fmt.Sprintf("%s %s %s ready=%v %v", chg.ID(), chg.Kind(), chg.Status(), chg.IsReady(), ts))
	}
	sort.Strings(s.Changes)
	for _, t := range w.st.Tasks() {
		if t.Change() != nil {
			s.Linked++
		} else {
			s.Unlinked++
		}
	}
	s.Snaps = w.rawSnaps()
	return s
}

// ---------------------------------------------------------------------------------------------------------
// requests

func (w *c14World) connection() *interfaces.Connection {
	var sa, sb snapstate.SnapState
	if err := snapstate.Get(w.st, c14A, &sa); err != nil {
		eng.HarnessError("%v", err)
	}
	if err := snapstate.Get(w.st, c14B, &sb); err != nil {
		eng.HarnessError("%v", err)
	}
	ia, err := sa.CurrentInfo()
	if err != nil {
		eng.HarnessError("%v", err)
	}
	ib, err := sb.CurrentInfo()
	if err != nil {
		eng.HarnessError("%v", err)
	}
	seta, err := interfaces.NewSnapAppSet(ia, nil)
	if err != nil {
		eng.HarnessError("%v", err)
	}
	setb, err := interfaces.NewSnapAppSet(ib, nil)
	if err != nil {
		eng.HarnessError("%v", err)
	}
	return &interfaces.Connection{
		Plug: interfaces.NewConnectedPlug(ia.Plugs["plug"], seta, nil, nil),
		Slot: interfaces.NewConnectedSlot(ib.Slots["slot"], setb, nil, nil),
	}
}

func c14One(ts *state.TaskSet, err error) ([]*state.TaskSet, error) {
	if err != nil || ts == nil {
		return nil, err
	}
	return []*state.TaskSet{ts}, nil
}

func c14Names(tss []*state.TaskSet, err error) ([]string, []*state.TaskSet, error) {
	return nil, tss, err
}

// staleHook builds the callback the store wrapper runs (once) while the request has the state unlocked.
func (w *c14World) staleHook(what string) func() {
	return func() {
		w.st.Lock()
		defer w.st.Unlock()
		switch what {
		case "mutA", "mutB":
			name := c14A
			if what == "mutB" {
				name = c14B
			}
			var snapst snapstate.SnapState
			if err := snapstate.Get(w.st, name, &snapst); err != nil {
				eng.HarnessError("%v", err)
			}
			// what a finished "snap switch" of somebody else leaves behind
			snapst.TrackingChannel = "latest/edge"
			snapstate.Set(w.st, name, &snapst)
		case "setC":
			// somebody else finished installing the snap meanwhile
			snapstate.Set(w.st, c14C, &snapstate.SnapState{
				Active:   true,
				Sequence: snapstatetest.NewSequenceFromSnapSideInfos([]*snap.SideInfo{{RealName: c14C, SnapID: "snap-c-id", Revision: snap.R(4)}}),
				Current:  snap.R(4),
				SnapType: "app",
			})
		case "sneak":
			// somebody else's complete request sneaks in: the record is untouched, but there is a new change
			ts, err := snapstate.Disable(w.st, c14A)
			if err == nil {
				chg := w.st.NewChange("disable-snap", "sneaked in")
				chg.AddAll(ts)
				w.changes = append(w.changes, c14Chg{ID: chg.ID(), Op: "disable(A)@store-callback"})
			}
			// (if it was itself rejected nothing sneaks in; the model looks at the observation below)
		}
		snap := w.snapshot()
		obs := w.observe()
		w.hookSnapshot, w.hookObs = &snap, &obs
	}
}

// issue calls the request function (state locked). names is what the request function reports as the snaps it
// operates on (nil for the functions that do not report any).
func (w *c14World) issue(op c14Op) (names []string, tss []*state.TaskSet, err error) {
	st := w.st
	uid := w.user.ID
	w.requests++
	w.preDl = nil
	name := op.Name
	if i := strings.Index(name, "@"); i >= 0 {
		name = name[:i]
		sc, ok := c14Scenes[op.Scene]
		if !ok || name+"@"+op.Scene != op.Name {
			eng.HarnessError("%s: unknown scene", op.Name)
		}
		decl := map[string]map[string]string{}
		for n, m := range c14StateAuto {
			decl[n] = m
		}
		for n, m := range sc.Decl {
			decl[n] = m
		}
		w.decl = decl
		w.store.noUpdate = map[string]bool{}
		for _, n := range sc.NoUpdate {
			w.store.noUpdate[n] = true
		}
		defer func() {
			w.decl = c14StateAuto
			w.store.noUpdate = nil
		}()
	}
	if i := strings.Index(name, "/stale:"); i >= 0 {
		name = name[:i]
		w.store.hook = w.staleHook(op.Stale)
		defer func() {
			if w.store.hook != nil {
				eng.HarnessError("%s: the store was not asked, the stale-record callback did not run", op.Name)
			}
		}()
	}
	switch name {
	case "update(A)":
		return c14Names(c14One(snapstate.Update(st, c14A, nil, uid, snapstate.Flags{})))
	case "revert(A)":
		return c14Names(c14One(snapstate.Revert(st, c14A, snapstate.Flags{}, "")))
	case "remove(A)":
		return c14Names(c14One(snapstate.Remove(st, c14A, snap.R(0), nil)))
	case "remove-revision(A,5)":
		return c14Names(c14One(snapstate.Remove(st, c14A, snap.R(5), nil)))
	case "remove-revision(I,2)":
		return c14Names(c14One(snapstate.Remove(st, c14I, snap.R(2), nil)))
	case "disable(A)":
		return c14Names(c14One(snapstate.Disable(st, c14A)))
	case "switch(A)":
		return c14Names(c14One(snapstate.Switch(st, c14A, &snapstate.RevisionOptions{Channel: "some-channel"})))
	case "alias(A)":
		return c14Names(c14One(snapstate.Alias(st, c14A, "cmd1", "alias1")))
	case "unalias-all(A)":
		return c14Names(c14One(snapstate.DisableAllAliases(st, c14A)))
	case "unalias(alias0)":
		ts, _, err := snapstate.RemoveManualAlias(st, "alias0")
		return c14Names(c14One(ts, err))
	case "prefer(A)":
		return c14Names(c14One(snapstate.Prefer(st, c14A)))
	case "update(B)":
		return c14Names(c14One(snapstate.Update(st, c14B, nil, uid, snapstate.Flags{})))
	case "remove(B)":
		return c14Names(c14One(snapstate.Remove(st, c14B, snap.R(0), nil)))
	case "disable(B)":
		return c14Names(c14One(snapstate.Disable(st, c14B)))
	case "enable(I)":
		return c14Names(c14One(snapstate.Enable(st, c14I)))
	case "remove(I)":
		return c14Names(c14One(snapstate.Remove(st, c14I, snap.R(0), nil)))
	case "install(C)":
		return c14Names(c14One(snapstate.Install(context.Background(), st, c14C, nil, uid, snapstate.Flags{})))
	case "install-many(C,D)":
		return snapstate.InstallMany(st, []string{c14C, c14D}, nil, uid, nil)
	case "update-many(A,B)":
		return snapstate.UpdateMany(context.Background(), st, []string{c14A, c14B}, nil, uid, nil)
	case "remove-many(A,B)":
		return snapstate.RemoveMany(st, []string{c14A, c14B}, nil)
	case "refresh-all":
		return snapstate.UpdateMany(context.Background(), st, nil, nil, uid, nil)
	case "auto-refresh":
		// the entry point of the auto-refresh manager (launchAutoRefresh); gate-auto-refresh-hook is off, so this is
		// a refresh of all snaps with Flags.IsAutoRefresh
		names, uts, err := snapstate.AutoRefresh(context.Background(), st)
		if err != nil || uts == nil {
			return nil, nil, err
		}
		w.preDl = uts.PreDownload
		return names, uts.Refresh, nil
	case "connect(A,B)":
		return c14Names(c14One(ifacestate.Connect(st, c14A, "plug", c14B, "slot")))
	case "disconnect(A,B)":
		return c14Names(c14One(ifacestate.Disconnect(st, w.connection())))
	case "update(snapd)":
		return c14Names(c14One(snapstate.Update(st, c14Snapd, nil, uid, snapstate.Flags{})))
	case "downgrade(snapd)":
		return c14Names(c14One(snapstate.Update(st, c14Snapd, &snapstate.RevisionOptions{Revision: snap.R(1)}, uid, snapstate.Flags{})))
	case "revert(snapd)":
		return c14Names(c14One(snapstate.Revert(st, c14Snapd, snapstate.Flags{}, "")))
	}
	if strings.HasPrefix(name, "exclusive(") {
		// what devicestate.Remodel / CreateRecoverySystem / RemoveRecoverySystem do before they build their change
		kind := strings.TrimSuffix(strings.TrimPrefix(name, "exclusive("), ")")
		if err := snapstate.CheckChangeConflictRunExclusively(st, kind); err != nil {
			return nil, nil, err
		}
		return nil, []*state.TaskSet{state.NewTaskSet(st.NewTask("c14-"+kind+"-step1", "..."), st.NewTask("c14-"+kind+"-step2", "..."))}, nil
	}
	eng.HarnessError("unknown request %q", op.Name)
	return nil, nil, nil
}

// pre creates a pre-existing change of the given kind (state locked).
func (w *c14World) pre(kind string) {
	st := w.st
	chg := st.NewChange(kind, "pre-existing "+kind)
	t1 := st.NewTask("c14-"+kind+"-step1", "...")
	t2 := st.NewTask("c14-"+kind+"-step2", "...")
	switch kind {
	case "pre-download":
		// as doInstall builds it for a busy snap during auto-refresh
		t1 = st.NewTask("pre-download-snap", "Pre-download snap A")
		t1.Set("snap-setup", &snapstate.SnapSetup{SideInfo: &snap.SideInfo{RealName: c14A, SnapID: "some-snap-id", Revision: snap.R(11)}})
		t2.Set("snap-setup-task", t1.ID())
	case "become-operational":
		// "on its own just runs a hook on gadget": here a hook of snap A, so that the change does touch a menu snap
		t1 = hookstate.HookTask(st, "Run prepare-device hook", &hookstate.HookSetup{Snap: c14A, Hook: "prepare-device", Optional: true}, nil)
	}
	t2.WaitFor(t1)
	chg.AddTask(t1)
	chg.AddTask(t2)
	w.changes = append(w.changes, c14Chg{ID: chg.ID(), Op: "pre(" + kind + ")"})
}

// event rewrites the task statuses of an unready change (state locked). Returns false if not enabled.
func (w *c14World) event(idx int, to string) bool {
	if idx < 0 || idx >= len(w.changes) {
		return false
	}
	chg := w.st.Change(w.changes[idx].ID)
	if chg == nil || chg.IsReady() {
		return false
	}
	if !c14EventEnabled(chg.Status().String(), to) {
		return false
	}
	tasks := chg.Tasks()
	sort.Slice(tasks, func(i, j int) bool { return c14TaskNum(tasks[i]) < c14TaskNum(tasks[j]) })
	// Creation order, except that tasks of the same kind swap places so that their snaps come in name order: some
	// request functions create the per-snap tasks in map order (applyAutoAliasesDelta), and an implementation that
	// looks at task statuses must meet the same half-done change every time the path is replayed.
	{
		byKind := map[string][]int{}
		for i, t := range tasks {
			byKind[t.Kind()] = append(byKind[t.Kind()], i)
		}
		canon := append([]*state.Task(nil), tasks...)
		for _, pos := range byKind {
			if len(pos) < 2 {
				continue
			}
			same := make([]*state.Task, 0, len(pos))
			for _, i := range pos {
				same = append(same, tasks[i])
			}
			snapOf := func(t *state.Task) string { return strings.Join(c14OwnAffected(w.st, t), ",") }
			sort.SliceStable(same, func(i, j int) bool { return snapOf(same[i]) < snapOf(same[j]) })
			for k, i := range pos {
				canon[i] = same[k]
			}
		}
		tasks = canon
	}
	set := func(first, second, rest state.Status) {
		for i, t := range tasks {
			s := rest
			switch {
			case len(tasks) == 1:
				s = second
			case i == 0:
				s = first
			case i == 1:
				s = second
			}
			t.SetStatus(s)
		}
	}
	switch to {
	case "doing": // half done
		set(state.DoneStatus, state.DoingStatus, state.DoStatus)
	case "undoing": // something failed, undo under way (a single task: abort requested)
		if len(tasks) == 1 {
			set(state.AbortStatus, state.AbortStatus, state.AbortStatus)
		} else {
			set(state.UndoingStatus, state.ErrorStatus, state.HoldStatus)
		}
	case "wait": // everything done, the last task waits for a restart
		for i, t := range tasks {
			if i == len(tasks)-1 {
				t.SetToWait(state.DoneStatus)
			} else {
				t.SetStatus(state.DoneStatus)
			}
		}
	case "done":
		set(state.DoneStatus, state.DoneStatus, state.DoneStatus)
	case "error":
		set(state.UndoneStatus, state.ErrorStatus, state.HoldStatus)
	}
	return true
}

func c14TaskNum(t *state.Task) int {
	n := 0
	fmt.Sscanf(t.ID(), "%d", &n)
	return n
}

// which events are enabled in which change status (realistic progress only: nothing comes back from undoing)
func c14EventEnabled(status, to string) bool {
	switch status {
	case "Do":
		return true
	case "Doing", "Wait":
		return to == "undoing" || to == "done" || to == "error"
	case "Undoing", "Abort":
		return to == "error"
	}
	return false
}

// ---------------------------------------------------------------------------------------------------------
// reference model + step execution

type c14Problem struct {
	Key string `json:"key"`
	Msg string `json:"msg"`
}

type c14Outcome struct {
	Step         string              `json:"step"`
	Before       c14Obs              `json:"before"`
	Expect       string              `json:"expect"` // accept | reject:<class>
	Got          string              `json:"got"`    // accepted | accepted-empty | rejected | event | pre
	Err          string              `json:"err,omitempty"`
	ErrType      string              `json:"err_type,omitempty"`
	After        c14Obs              `json:"after"`
	Mismatch     string              `json:"model_mismatch,omitempty"` // disagreement with the model that is not a violation of the statement
	Problems     []c14Problem        `json:"problems,omitempty"`
	Unlinked     int                 `json:"unlinked_tasks_left,omitempty"`
	Reported     []string            `json:"reported_snaps,omitempty"` // the names the request function returned
	NewTasks     map[string][]string `json:"new_tasks,omitempty"`      // task kind -> snaps the tasks of the new change refer to
	PreDownloads int                 `json:"pre_download_tasksets,omitempty"`
	TasksDropped int                 `json:"tasks_not_put_in_a_change,omitempty"` // auto-refresh with an empty list of updated snaps
	NonTrivial   bool                `json:"nontrivial,omitempty"`
}

func c14Intersects(a, b []string) (string, bool) {
	for _, x := range a {
		for _, y := range b {
			if x == y {
				return x, true
			}
		}
	}
	return "", false
}

// c14Expect is the reference model of the statement: must this request be rejected in this situation?
func c14Expect(op c14Op, o c14Obs) (class string, with *c14ChgObs) {
	for i, c := range o.Unready {
		if c.Exclusive {
			return "exclusive", &o.Unready[i]
		}
	}
	for i, c := range o.Unready {
		if c.Exempt {
			continue
		}
		if _, hit := c14Intersects(op.Targets, c.Own); hit {
			return "overlap", &o.Unready[i]
		}
	}
	if op.Exclusive && len(o.Unready) > 0 {
		// Not part of the statement and not judged: whether an exclusive change may be started while other
		// changes are in progress. (Observed: refused, except when the only changes in progress are
		// refresh-snap/revert-snap changes that do not downgrade snapd.) Recorded under coverage.distinct_quiet.
		return "quiet", &o.Unready[0]
	}
	return "", nil
}

func c14Describe(c *c14ChgObs) string {
	if c == nil {
		return "-"
	}
	return c.Kind + "/" + c.Status
}

// invariant: at most one unready non-exempt change per snap, with both decodings
func c14Invariant(o c14Obs) (snapName, decoding string, chgs []string) {
	for _, dec := range []string{"impl", "own"} {
		by := map[string][]string{}
		for _, c := range o.Unready {
			if c.Exempt {
				continue
			}
			l := c.Impl
			if dec == "own" {
				l = c.Own
			}
			for _, n := range l {
				by[n] = append(by[n], c.Kind+"/"+c.Status)
			}
		}
		names := make([]string, 0, len(by))
		for n := range by {
			names = append(names, n)
		}
		sort.Strings(names)
		for _, n := range names {
			if len(by[n]) > 1 {
				return n, dec, by[n]
			}
		}
	}
	return "", "", nil
}

func c14TaskKinds(chg *state.Change) []string {
	var l []string
	for _, t := range chg.Tasks() {
		l = append(l, t.Kind())
	}
	sort.Strings(l)
	return l
}

func (w *c14World) opOf(id string) string {
	for _, c := range w.changes {
		if c.ID == id {
			return c.Op
		}
	}
	return "?"
}

// apply executes one step and evaluates the oracle for it.
func (w *c14World) apply(s c14Step) c14Outcome {
	w.st.Lock()
	defer w.st.Unlock()
	out := c14Outcome{Step: s.String()}
	out.Before = w.observe()
	switch s.K {
	case "pre":
		w.pre(s.Op)
		out.Got = "pre"
		out.After = w.observe()
		return out
	case "ev":
		if !w.event(s.Chg, s.To) {
			out.Got = "event-not-enabled"
		} else {
			out.Got = "event"
		}
		out.After = w.observe()
		return out
	}
	op, ok := w.menu[s.Op]
	if !ok {
		eng.HarnessError("request %q is not in the menu of this tier", s.Op)
	}
	before := w.snapshot()
	obs := out.Before
	w.hookSnapshot, w.hookObs = nil, nil
	names, tss, err := w.issue(op)
	if w.hookSnapshot != nil {
		// the world as it was when the request got the state back
		before, obs = *w.hookSnapshot, *w.hookObs
	}
	class, with := c14Expect(op, obs)
	if class == "" && (op.Stale == "mutA" || op.Stale == "setC") {
		class = "stale"
	}
	out.Expect = "accept"
	if class == "quiet" {
		out.Expect = "not-judged:quiet"
	} else if class != "" {
		out.Expect = "reject:" + class
	}
	out.NonTrivial = len(obs.Unready) > 0 || op.Stale != ""
	ntasks := 0
	for _, ts := range tss {
		ntasks += len(ts.Tasks())
	}
	problem := func(key, f string, a ...interface{}) {
		out.Problems = append(out.Problems, c14Problem{Key: key, Msg: fmt.Sprintf(f, a...)})
	}
	withOp := "-"
	if with != nil {
		withOp = w.opOf(with.ID)
	}
	// the snaps that had an unfinished non-exempt change operating on them when the request was decided (either decoding)
	busy := map[string]*c14ChgObs{}
	for i, c := range obs.Unready {
		if c.Exempt {
			continue
		}
		for _, l := range [][]string{c.Own, c.Impl} {
			for _, n := range l {
				if busy[n] == nil {
					busy[n] = &obs.Unready[i]
				}
			}
		}
	}
	out.Reported = append([]string(nil), names...)
	sort.Strings(out.Reported)
	// an accepted request must not report a snap as one it operates on (updated/installed/removed names of the
	// *Many functions and of AutoRefresh) while another unfinished change operates on that snap
	checkReported := func() {
		for _, n := range out.Reported {
			if c := busy[n]; c != nil && len(out.Problems) == 0 {
				problem(fmt.Sprintf("reported-busy-snap|%s|%s|while|%s/%s", op.Name, n, w.opOf(c.ID), c14Describe(c)),
					"%s reports %q among the snaps it operates on %v although change %s (%s, %s, from %s) operating on %v is in progress", op.Name, n, out.Reported, c.ID, c.Kind, c.Status, w.opOf(c.ID), c.Own)
			}
		}
	}
	if err != nil {
		out.Got = "rejected"
		out.Err = err.Error()
		out.ErrType = fmt.Sprintf("%T", err)
		var cce *snapstate.ChangeConflictError
		isConflict := errors.As(err, &cce)
		switch {
		case class == "":
			out.Mismatch = fmt.Sprintf("%s rejected (%T: %v) although the model sees no conflict", op.Name, err, err)
		case !isConflict:
			problem(fmt.Sprintf("wrong-error|%s|%s|while|%s/%s", op.Name, class, withOp, c14Describe(with)),
				"%s was refused with %T (%v) instead of a conflict error; in progress: %s", op.Name, err, err, eng.JSON(obs.Unready))
		}
		if ntasks > 0 {
			problem("rejected-with-tasks|"+op.Name, "%s returned an error and %d tasks", op.Name, ntasks)
		}
		// nothing observable was created
		after := w.snapshot()
		out.Unlinked = after.Unlinked - before.Unlinked
		if eng.JSON(after.Changes) != eng.JSON(before.Changes) || after.Linked != before.Linked {
			problem("rejected-but-created|"+op.Name+"|changes", "rejected %s left changes/tasks behind: before %v after %v", op.Name, before.Changes, after.Changes)
		}
		if after.Snaps != before.Snaps {
			problem("rejected-but-created|"+op.Name+"|snaps", "rejected %s changed the snap records: before %s after %s", op.Name, before.Snaps, after.Snaps)
		}
		out.After = w.observe()
		return out
	}
	// accepted
	if len(w.preDl) > 0 {
		// what launchAutoRefresh does first (createPreDownloadChange): one pre-download change for all the snaps that
		// cannot be refreshed right now because their apps are running. (No app runs on this fixture: not expected.)
		pre := w.st.NewChange("pre-download", op.Name+": pre-download")
		for _, ts := range w.preDl {
			pre.AddAll(ts)
		}
		w.changes = append(w.changes, c14Chg{ID: pre.ID(), Op: op.Name + "#pre-download"})
		out.PreDownloads = len(w.preDl)
	}
	if ntasks > 0 && op.Kind == "auto-refresh" && len(names) == 0 {
		// launchAutoRefresh: an empty list of updated snaps gives an empty summary, "all snaps are up-to-date", and no
		// change (the tasks stay unlinked)
		out.TasksDropped = ntasks
		ntasks = 0
	}
	if ntasks == 0 {
		out.Got = "accepted-empty" // nothing to do (refresh-all with everything busy): the API creates no change
		if class != "" && !op.All {
			out.Mismatch = fmt.Sprintf("%s returned neither tasks nor an error", op.Name)
		}
		checkReported()
		out.After = w.observe()
		return out
	}
	out.Got = "accepted"
	// what the API layer does: a new change with all the task sets
	chg := w.st.NewChange(op.Kind, op.Name)
	for _, ts := range tss {
		chg.AddAll(ts)
	}
	w.changes = append(w.changes, c14Chg{ID: chg.ID(), Op: op.Name})
	out.After = w.observe()
	var mine *c14ChgObs
	for i := range out.After.Unready {
		if out.After.Unready[i].ID == chg.ID() {
			mine = &out.After.Unready[i]
		}
	}
	if mine == nil {
		eng.HarnessError("new change %s not observed", chg.ID())
	}
	switch class {
	case "exclusive":
		if op.All && len(mine.Own)+len(mine.Impl) == 0 {
			// one canonical key for "a refresh of all snaps skipped every snap and still came back with tasks"
			problem("started-during-exclusive|refresh-of-all-snaps|change-refers-to-no-snap",
				"%s returned %d task(s) %v that refer to no snap, and the API layer started a %s change with them, while the exclusive change %s (%s, %s, from %s) is in progress",
				op.Name, ntasks, c14TaskKinds(chg), op.Kind, with.ID, with.Kind, with.Status, withOp)
			break
		}
		problem(fmt.Sprintf("started-during-exclusive|%s|while|%s/%s", op.Name, withOp, c14Describe(with)),
			"%s was accepted (%d tasks, affecting %v) while the exclusive change %s (%s, %s) is in progress", op.Name, ntasks, mine.Own, with.ID, with.Kind, with.Status)
	case "overlap":
		if !op.All {
			problem(fmt.Sprintf("overlap|%s|while|%s/%s", op.Name, withOp, c14Describe(with)),
				"%s was accepted (%d tasks, affecting %v) while change %s (%s, %s, from %s) operating on %v is in progress", op.Name, ntasks, mine.Own, with.ID, with.Kind, with.Status, withOp, with.Own)
		}
	case "stale":
		problem("stale-accepted|"+op.Name, "%s was accepted although the snap record changed while the store was being asked", op.Name)
	}
	// every single task of the new change: none may refer (snap-setup, snap-setup-task, plug/slot, hook-setup, snaps;
	// by either decoding) to a snap that another unfinished non-exempt change was operating on when the request was decided
	out.NewTasks = map[string][]string{}
	type offence struct {
		kind, summary, snap string
	}
	var offences []offence
	for _, t := range chg.Tasks() {
		impl, _ := snapstate.SnapsAffectedByTask(t)
		refs := map[string]bool{}
		for _, n := range impl {
			refs[n] = true
		}
		for _, n := range c14OwnAffected(w.st, t) {
			refs[n] = true
		}
		for _, n := range c14Sorted(refs) {
			if _, have := c14Intersects([]string{n}, out.NewTasks[t.Kind()]); !have {
				out.NewTasks[t.Kind()] = append(out.NewTasks[t.Kind()], n)
			}
			if busy[n] != nil {
				offences = append(offences, offence{t.Kind(), t.Summary(), n})
			}
		}
	}
	for k := range out.NewTasks {
		sort.Strings(out.NewTasks[k])
	}
	// (tasks are created in map order by some request functions: report the same offence every time)
	sort.Slice(offences, func(i, j int) bool {
		if offences[i].snap != offences[j].snap {
			return offences[i].snap < offences[j].snap
		}
		return offences[i].kind < offences[j].kind
	})
	if len(offences) > 0 && len(out.Problems) == 0 {
		o := offences[0]
		c := busy[o.snap]
		problem(fmt.Sprintf("task-on-busy-snap|%s|%s|%s|while|%s/%s", op.Name, o.kind, o.snap, w.opOf(c.ID), c14Describe(c)),
			"%s was accepted and its task %q (%s) refers to snap %q while change %s (%s, %s, from %s) operating on %v is in progress (%d such tasks)", op.Name, o.kind, o.summary, o.snap, c.ID, c.Kind, c.Status, w.opOf(c.ID), c.Own, len(offences))
	}
	checkReported()
	// the invariant of the statement, on the state itself (covers requests whose tasks touch more than their targets,
	// refresh-all, and the implementation's own decoding of affected snaps)
	if name, dec, chgs := c14Invariant(out.After); name != "" && len(out.Problems) == 0 {
		problem(fmt.Sprintf("invariant|%s|%s|%s", op.Name, dec, strings.Join(chgs, "+")),
			"after %s snap %q is operated on by %d unready changes %v (affected snaps decoded by: %s)", op.Name, name, len(chgs), chgs, dec)
	}
	// the two decodings must agree on the change just created (else one of them is blind)
	if eng.JSON(mine.Impl) != eng.JSON(mine.Own) {
		problem("affected-snaps-disagree|"+op.Name, "change created by %s: SnapsAffectedByTask says %v, the raw task data say %v", op.Name, mine.Impl, mine.Own)
	}
	return out
}

// ---------------------------------------------------------------------------------------------------------
// exploration

type c14Case struct {
	Path    []c14Step   `json:"path"`
	Text    string      `json:"text,omitempty"`
	Outcome *c14Outcome `json:"outcome,omitempty"`
}

type c14State struct {
	Path     []c14Step    `json:"path"`
	Key      string       `json:"key"`
	Unready  []c14ChgStat `json:"unready,omitempty"` // unready changes by harness index
	Snaps    string       `json:"snaps"`             // digest of the snap records (part of the key)
	Requests int          `json:"requests"`
	Leaf     bool         `json:"leaf,omitempty"`
}

type c14ChgStat struct {
	Idx    int
	Status string
	Tasks  int
	Full   string // key fragment before the status: with the change kind / with the class of the kind
	Abs    string
	Suffix string // key fragment after the status
}

func c14StateKey(l []c14ChgStat, snaps string) string {
	var parts []string
	for _, u := range l {
		pre, status := u.Full, u.Status
		if len(l) >= 2 {
			pre = u.Abs
		}
		if len(l) >= 3 {
			status = "*"
		}
		parts = append(parts, pre+status+u.Suffix)
	}
	return c14JoinKey(parts, snaps)
}

// after computes the state an event leads to without running it: an event rewrites the task statuses of one
// change and nothing else, so the key of the target follows from the key fragments. Whenever such a state is
// expanded its path (with the events) is replayed on a fresh fixture and the real key is compared with this one.
func (st *c14State) after(idx int, to string) *c14State {
	ns := &c14State{Path: c14Extend(st.Path, c14Step{K: "ev", Chg: idx, To: to}), Snaps: st.Snaps, Requests: st.Requests}
	for _, u := range st.Unready {
		if u.Idx == idx {
			switch to {
			case "doing":
				u.Status = "Doing"
			case "undoing":
				u.Status = "Undoing"
				if u.Tasks == 1 {
					u.Status = "Abort"
				}
			case "wait":
				u.Status = "Wait"
			case "done", "error":
				continue
			}
		}
		ns.Unready = append(ns.Unready, u)
	}
	ns.Key = c14StateKey(ns.Unready, ns.Snaps)
	return ns
}

type c14Explorer struct {
	r           *eng.Run
	c           *C
	ops         []c14Op
	menu        map[string]c14Op
	events      []string
	seen        map[string]bool
	reported    map[string]bool
	count       bool // false while a worker other than worker 0 runs the part every worker runs
	mmFile      string
	stopFile    string // created by the first worker that confirms a violation: the others stop at their next state
	leafScenes  bool   // states reached through a request issued in an automatic-alias scene are not expanded
	tag         string // part of the exploration (prefix of the level records)
	capped      bool
	completed   int
	dir         string // where the workers exchange the states of a level (one directory per part)
	runDir      string
	seenLeaf    map[string]bool // keys of states that are not expanded (they do not shadow an expandable state with the same key)
	barrierWait time.Duration
}

// halt reports (and records) that the worker must stop: soft budget used up, or a violation confirmed somewhere.
func (x *c14Explorer) halt(where string) bool {
	r := x.r
	if x.capped {
		return true
	}
	if r.TimeUp() {
		x.capped = true
		r.Cap("time", fmt.Sprintf("worker stopped in %s; request sequences of length <= %d fully explored by this worker", where, x.completed))
	} else if _, err := os.Stat(x.stopFile); err == nil && x.stopFile != "" {
		// shortest counterexamples first: once a violation is confirmed nothing deeper is explored
		x.capped = true
		r.Cap("violation-found", fmt.Sprintf("a violation was confirmed; worker stopped in %s", where))
	}
	return x.capped
}

// run replays path on a fresh fixture and returns the world (to be closed by the caller) and the last outcome.
func (x *c14Explorer) run(path []c14Step) (*c14World, c14Outcome) {
	w := c14New(x.c, x.menu)
	var out c14Outcome
	for _, s := range path {
		out = w.apply(s)
	}
	return w, out
}

func (w *c14World) stat() (key string, unready []c14ChgStat, snaps string) {
	w.st.Lock()
	defer w.st.Unlock()
	return w.statLocked()
}

func (w *c14World) statLocked() (key string, unready []c14ChgStat, snaps string) {
	o := w.observe()
	byID := map[string]c14ChgObs{}
	for _, c := range o.Unready {
		byID[c.ID] = c
	}
	for i, c := range w.changes {
		co, ok := byID[c.ID]
		if !ok {
			continue
		}
		delete(byID, c.ID)
		full, abs, suf := c14KeyPart(co)
		unready = append(unready, c14ChgStat{Idx: i, Status: co.Status, Tasks: co.Tasks, Full: full, Abs: abs, Suffix: suf})
	}
	if len(byID) > 0 {
		eng.HarnessError("unready changes the harness did not create: %v", byID)
	}
	snaps = w.snapsDigest()
	return c14StateKey(unready, snaps), unready, snaps
}

func c14Extend(p []c14Step, s c14Step) []c14Step {
	return append(append([]c14Step(nil), p...), s)
}

// step executes path+s on a fresh fixture, checks the oracle for s and returns the successor state.
func (x *c14Explorer) step(from *c14State, s c14Step) (*c14State, c14Outcome) {
	r := x.r
	np := c14Extend(from.Path, s)
	r.NoteCurrent(eng.JSON(np))
	w := c14New(x.c, x.menu)
	for _, ps := range from.Path {
		w.apply(ps)
	}
	if k, _, _ := w.stat(); k != from.Key {
		// replaying a prefix gave another state: the machinery is at fault, never a violation
		r.Add("replay_divergences", 1)
		r.Info("replay_divergence", map[string]string{"path": c14PathString(from.Path), "expected": from.Key, "got": k})
	}
	out := w.apply(s)
	key, unready, snapsDigest := w.stat()
	nreq := w.requests
	w.close()
	ns := &c14State{Path: np, Key: key, Unready: unready, Snaps: snapsDigest, Requests: from.Requests}
	if s.K == "req" {
		ns.Requests++
		ns.Leaf = x.menu[s.Op].Leaf || (x.leafScenes && x.menu[s.Op].Scene != "")
	}
	if x.count {
		r.Add("requests_issued_including_replays", int64(nreq))
		r.Add("transitions", 1)
		r.Add("traces_validated_against_impl", 1)
	}
	if s.K == "req" && x.count {
		r.Add("evaluations", 1)
		if out.NonTrivial {
			r.Add("distinct_nontrivial", 1)
		}
		r.Distinct("outcome", out.Expect+"->"+out.Got)
		r.Distinct("request_outcome", s.Op+":"+out.Expect+"->"+out.Got)
		if out.Expect == "not-judged:quiet" {
			var kinds []string
			for _, c := range out.Before.Unready {
				kinds = append(kinds, c.Kind)
			}
			sort.Strings(kinds)
			if r.Distinct("quiet", fmt.Sprintf("%s while %s in progress: %s", s.Op, strings.Join(kinds, "+"), out.Got)) {
				r.Info(fmt.Sprintf("exclusive_request_on_busy_system: %s while %s in progress", s.Op, strings.Join(kinds, "+")), out.Got)
			}
		}
		if out.Got == "accepted" && len(out.NewTasks) == 0 && !x.menu[s.Op].Exclusive {
			// a change was started whose tasks refer to no snap at all
			r.Add("accepted_requests_whose_change_refers_to_no_snap", 1)
			r.Distinct("change_without_snaps", s.Op)
		}
		if op := x.menu[s.Op]; op.Scene != "" {
			// vacuity guards of the automatic-alias dimension: which alias tasks were created for which snaps, and how
			// often a refresh of all snaps met a snap that has an alias delta and an unfinished change (and left it alone)
			for _, kind := range []string{"refresh-aliases", "prune-auto-aliases"} {
				if l := out.NewTasks[kind]; len(l) > 0 {
					r.Distinct("alias_tasks", fmt.Sprintf("%s:%s:%s", s.Op, kind, strings.Join(l, ",")))
				}
			}
			if op.All && out.Got != "rejected" {
				for _, n := range []string{c14A, c14B, c14I} {
					gained, lost := c14AliasDelta(n, op.Scene)
					if len(gained)+len(lost) == 0 {
						continue
					}
					isBusy := false
					for _, c := range out.Before.Unready {
						if _, hit := c14Intersects([]string{n}, c.Own); hit && !c.Exempt {
							isBusy = true
						}
					}
					_, r1 := c14Intersects([]string{n}, out.NewTasks["refresh-aliases"])
					_, r2 := c14Intersects([]string{n}, out.NewTasks["prune-auto-aliases"])
					if isBusy && !r1 && !r2 {
						r.Add("refresh_all_left_alone_a_busy_snap_with_alias_delta", 1)
						r.Distinct("busy_alias_delta_snap", fmt.Sprintf("%s:%s", s.Op, n))
					}
				}
			}
		}
		if out.Got == "rejected" {
			r.Distinct("error_type", out.ErrType)
			if out.Unlinked > 0 {
				r.Add("rejected_requests_leaving_unlinked_tasks", 1)
				r.Max("max_unlinked_tasks_left_by_a_rejected_request", int64(out.Unlinked))
			}
		}
		if len(from.Unready) >= 2 && out.Got == "rejected" && r.WantSample() {
			r.Sample(map[string]interface{}{"path": c14PathString(np), "in_progress": out.Before.Unready, "expect": out.Expect, "got": out.Got, "error": out.Err})
		}
	}
	if s.K == "req" && out.Mismatch != "" {
		r.Add("model_mismatches", 1)
		if r.Distinct("model_mismatch", s.Op+":"+out.Expect+"->"+out.Got) {
			x.noteMismatch(fmt.Sprintf("%s: expected %s got %s: %s [path: %s]", s.Op, out.Expect, out.Got, out.Mismatch, c14PathString(np)))
		}
	}
	for _, p := range out.Problems {
		if x.reported[p.Key] {
			r.Add("violations_duplicate_key", 1)
			continue
		}
		// re-run from scratch before believing it
		same := 0
		for i := 0; i < 3; i++ {
			w2, out2 := x.run(np)
			w2.close()
			for _, p2 := range out2.Problems {
				if p2.Key == p.Key {
					same++
					break
				}
			}
		}
		if same != 3 {
			r.Add("unreproducible_problems", 1)
			r.Cap("unreproducible", map[string]interface{}{"path": c14PathString(np), "problem": p, "reproduced": same})
			continue
		}
		x.reported[p.Key] = true
		o := out
		nv := r.NumViolations()
		r.Violation(p.Key, p.Msg+" [path: "+c14PathString(np)+"]", c14Case{Path: np, Text: c14PathString(np), Outcome: &o})
		if x.stopFile != "" && r.NumViolations() > nv {
			// (a key listed in known-findings.txt does not stop the exploration)
			os.WriteFile(x.stopFile, []byte(p.Key+"\n"), 0644)
		}
	}
	return ns, out
}

func (x *c14Explorer) noteMismatch(line string) {
	f, err := os.OpenFile(x.mmFile, os.O_APPEND|os.O_CREATE|os.O_WRONLY, 0644)
	if err != nil {
		return
	}
	defer f.Close()
	fmt.Fprintln(f, line)
}

func (x *c14Explorer) newState(ns *c14State) bool {
	if x.seen[ns.Key] || (ns.Leaf && x.seenLeaf[ns.Key]) {
		return false
	}
	counted := x.seenLeaf[ns.Key]
	if ns.Leaf {
		x.seenLeaf[ns.Key] = true
	} else {
		x.seen[ns.Key] = true
	}
	if x.count && !counted {
		x.r.Add("states", 1)
	}
	return true
}

// closure adds to l every state reachable from the states of l by progress events only (computed, not run: see
// c14State.after). Every worker computes the same list.
func (x *c14Explorer) closure(l []*c14State) []*c14State {
	for i := 0; i < len(l); i++ {
		st := l[i]
		if st.Leaf {
			continue
		}
		for _, u := range st.Unready {
			for _, to := range x.events {
				if !c14EventEnabled(u.Status, to) {
					continue
				}
				if x.count {
					x.r.Add("event_edges", 1)
				}
				ns := st.after(u.Idx, to)
				if x.newState(ns) {
					l = append(l, ns)
				}
			}
		}
	}
	return l
}

type c14LevelFile struct {
	Partial bool        `json:"partial"`
	States  []*c14State `json:"states"`
}

// exchange publishes the states this worker found at a level and collects those of all workers (file barrier in
// $VERIF_WORK/shards/C14). The merged list is the same, in the same order, in every worker.
func (x *c14Explorer) exchange(level int, found []*c14State, partial bool) (all []*c14State, anyPartial bool) {
	shard, n := x.r.ShardIndex()
	if n <= 1 {
		return found, partial
	}
	name := func(i int) string { return filepath.Join(x.dir, fmt.Sprintf("L%d-%d.json", level, i)) }
	b, _ := json.Marshal(c14LevelFile{Partial: partial, States: found})
	if err := os.WriteFile(name(shard)+".tmp", b, 0644); err != nil {
		eng.HarnessError("%v", err)
	}
	if err := os.Rename(name(shard)+".tmp", name(shard)); err != nil {
		eng.HarnessError("%v", err)
	}
	deadline := time.Now().Add(x.barrierWait)
	for i := 0; i < n; i++ {
		var lf c14LevelFile
		for {
			b, err := os.ReadFile(name(i))
			if err == nil && json.Unmarshal(b, &lf) == nil {
				break
			}
			if time.Now().After(deadline) {
				// a sibling died or is hopelessly late: go on without it, the run is not exhaustive
				x.r.Cap("barrier", fmt.Sprintf("worker %d did not deliver its level-%d states in time", i, level))
				lf = c14LevelFile{Partial: true}
				break
			}
			time.Sleep(50 * time.Millisecond)
		}
		anyPartial = anyPartial || lf.Partial
		all = append(all, lf.States...)
	}
	return all, anyPartial
}

const c14Rule = "breadth-first over request sequences up to the bound (a pre-existing exclusive/exempt change counts as one request), every request of the menu in every state (every refresh request also in every automatic-alias scene: declarations listing other aliases than the state records), progress events (half done / being undone / [waiting] / finished / failed, on any unready change) between requests without counting towards the bound; successors by replay on a fresh fixture; states deduplicated on (kind [class of the kind when two or more changes are unready], status [merged when three or more are unready], affected snaps by both decodings, exclusive?) of the unready changes + snap records, level-synchronous across the 16 worker processes (the states found at a level are exchanged and merged before the next level is dealt out); thorough tier: first the exploration of the quick tier as it is (3 requests, scene requests in any position), then the thorough menu and events to 4 requests with a scene request only as the last request of a sequence (states reached through a scene request are not expanded and do not shadow expandable states with the same key); non-trivial = requests issued while at least one change is unready, or with a stale-record callback"

// explore runs one breadth-first exploration (x.ops, x.events) from the idle system to the given request depth.
func (x *c14Explorer) explore(tag string, depth int) {
	r, c, menu, ops := x.r, x.c, x.menu, x.ops
	shard, _ := r.ShardIndex()
	x.tag = tag
	x.seen, x.seenLeaf = map[string]bool{}, map[string]bool{}
	x.completed = 0
	x.dir = filepath.Join(x.runDir, "part-"+tag)
	if err := os.MkdirAll(x.dir, 0755); err != nil {
		eng.HarnessError("%v", err)
	}
	// what every worker computes identically (merged state lists, event closures) is counted by worker 0 only
	x.count = shard == 0

	// level 0: the idle system
	idle := &c14State{}
	{
		w := c14New(c, menu)
		idle.Key, _, idle.Snaps = w.stat()
		w.close()
	}
	x.newState(idle)
	frontier := []*c14State{idle}
	for level := 1; level <= depth; level++ {
		// work items of the level: every request in every state of the frontier; at level 1 also the pre-existing
		// changes (a pre-existing change counts as one request of the sequence). Dealt round-robin.
		type item struct {
			st   *c14State
			step c14Step
		}
		var items []item
		for _, st := range frontier {
			if st.Leaf {
				continue
			}
			for _, op := range ops {
				items = append(items, item{st, c14Step{K: "req", Op: op.Name}})
			}
			if level == 1 {
				for _, k := range c14PreKinds {
					items = append(items, item{st, c14Step{K: "pre", Op: k}})
				}
			}
		}
		var found []*c14State
		local := map[string]bool{}
		partial := false
		x.count = true
		for i, it := range items {
			if !r.Mine(i) {
				continue
			}
			if x.halt(fmt.Sprintf("request level %d", level)) {
				partial = true
				break
			}
			ns, out := x.step(it.st, it.step)
			if level == 1 && it.step.K == "req" {
				// calibration of the menu: on the idle system every entry is accepted (the stale-record ones refused)
				op := menu[it.step.Op]
				want := "accepted"
				if op.Stale == "mutA" || op.Stale == "setC" || op.Stale == "sneak" {
					want = "rejected"
				}
				if out.Got != want && len(out.Problems) == 0 && out.Mismatch == "" {
					r.Add("model_mismatches", 1)
					x.noteMismatch(fmt.Sprintf("menu entry %s is not valid on the idle system: %s %s", op.Name, out.Got, out.Err))
				}
			}
			lk := ns.Key
			if ns.Leaf {
				lk += " (leaf)"
			}
			if !(x.seen[ns.Key] || (ns.Leaf && x.seenLeaf[ns.Key])) && !local[lk] {
				local[lk] = true
				found = append(found, ns)
			}
		}
		x.count = shard == 0
		all, anyPartial := x.exchange(level, found, partial)
		var merged []*c14State
		for _, st := range all {
			if x.newState(st) {
				merged = append(merged, st)
			}
		}
		if anyPartial {
			if !x.capped {
				x.capped = true
				r.Cap("incomplete-level", fmt.Sprintf("another worker stopped early in request level %d", level))
			}
			break
		}
		x.completed = level
		if level < depth {
			frontier = x.closure(merged)
		}
		if shard == 0 {
			r.Info(fmt.Sprintf("%slevel_%d", x.tag, level), map[string]int{"requests_and_pre_existing_changes_run": len(items), "new_states_reached_by_requests": len(merged), "new_states_with_event_closure": len(frontier)})
		}
	}
}

func (s *verifC14Suite) TestVerifC14(c *C) {
	r := eng.Start("C14", "model_checking", 300*time.Second, 14*time.Minute) // quick: ~30 s on 16 idle cores (17.4k fixtures of ~5 ms + 3 requests each); the soft budget leaves room for a loaded machine
	c14InitTmp()
	r.Assume("the package's fake store stands for the store (it is called with the state unlocked; a wrapper runs the stale-record callback there and gives snapd revisions the versions 2.(50+revision))",
		"changes do not run: an accepted request is followed by what the API layer does (one new change of the API's kind holding all returned task sets); progress is modelled by rewriting the task statuses of one unready change (Done+Doing+Do, Undoing+Error+Hold, Done+Wait+Do, all Done, Undone+Error+Hold)",
		"snap records never change (except in the stale-record leaves): every menu entry is valid on the idle system (checked at depth 1), so every refusal deeper down is a conflict refusal",
		"hookstate.Manager and ifacestate.Manager are instantiated on the fixture's runner so that hook and connect/disconnect tasks register their affected snaps as in the real overlord",
		"pre-existing changes of the exclusive and exempt kinds are built by hand (two plain tasks; pre-download: a pre-download-snap task with A's snap-setup; become-operational: a run-hook task of snap A)",
		"whether an exclusive request (snapd downgrade, remodel, recovery system) may start while other changes are in progress is not part of the statement: not judged, outcomes recorded",
		"snap-declarations are read through the hook snapstate.AutoAliases, answered from a table of the harness; a refresh request issued '@scene' finds other declarations than the state records (and, in 'delta', a store without a newer revision of A) for the duration of the request only; the recorded aliases never change (nothing runs)",
		"API layer of AutoRefresh as in launchAutoRefresh: pre-download task sets go to a pre-download change, the refresh task sets to an 'auto-refresh' change unless the list of updated snaps is empty (then no change); API layer of the other requests as in the daemon: one change with all returned task sets")
	thorough := r.Thorough()
	ops := c14Menu(thorough)
	menu := map[string]c14Op{}
	for _, o := range c14Menu(true) {
		menu[o.Name] = o // replay files of either tier can be replayed
	}
	x := &c14Explorer{r: r, c: c, ops: ops, menu: menu, seen: map[string]bool{}, reported: map[string]bool{},
		events: []string{"doing", "undoing", "done", "error"}}
	if thorough {
		x.events = []string{"doing", "undoing", "wait", "done", "error"}
	}
	// base snap records (for the digest in the state key)
	{
		w := c14New(c, menu)
		w.st.Lock()
		c14BaseSnaps = w.rawSnaps()
		w.st.Unlock()
		w.close()
	}

	if rc := r.ReplayCase(); rc != nil {
		var cas c14Case
		if err := json.Unmarshal(rc, &cas); err != nil {
			eng.HarnessError("bad replay case: %v", err)
		}
		w := c14New(c, menu)
		for i, s := range cas.Path {
			out := w.apply(s)
			k, _, _ := w.stat()
			fmt.Printf("step %d %-40s expect=%-18s got=%-14s %s\n        state: %s\n", i+1, s, out.Expect, out.Got, out.Err, k)
			if out.Mismatch != "" {
				fmt.Printf("        MODEL-MISMATCH: %s\n", out.Mismatch)
			}
			for _, p := range out.Problems {
				fmt.Printf("        PROBLEM %s: %s\n", p.Key, p.Msg)
				if i == len(cas.Path)-1 {
					o := out
					r.Violation(p.Key, p.Msg, c14Case{Path: cas.Path, Text: c14PathString(cas.Path), Outcome: &o})
				}
			}
		}
		w.close()
		r.Add("evaluations", 1)
		c14Finish(r, "replay of one stored path")
	}

	if os.Getenv("VERIF_C14_BENCH") != "" { // calibration aid: cost of a fixture and of a request
		t0 := time.Now()
		for i := 0; i < 100; i++ {
			w := c14New(c, menu)
			w.close()
		}
		t1 := time.Now()
		for i := 0; i < 100; i++ {
			w := c14New(c, menu)
			w.apply(c14Step{K: "req", Op: "update(A)"})
			w.apply(c14Step{K: "req", Op: "install(C)"})
			w.apply(c14Step{K: "req", Op: "connect(A,B)"})
			w.close()
		}
		fmt.Printf("C14 bench: fixture %v, fixture+3 requests %v\n", t1.Sub(t0)/100, time.Since(t1)/100)
		r.Add("evaluations", 1)
		c14Finish(r, "bench")
	}
	depth := r.Pick(3, 4)
	r.Info("bounds", map[string]interface{}{"max_requests_per_sequence": depth, "requests_in_menu": len(ops), "progress_events": x.events,
		"pre_existing_change_kinds": c14PreKinds, "snaps": []string{c14A, c14B, c14C, c14D, c14I, c14Snapd},
		"auto_alias_scenes": c14Scenes, "recorded_auto_aliases": c14StateAuto})
	var names []string
	for _, o := range ops {
		names = append(names, o.Name)
	}
	r.Info("menu", names)
	// directory through which the workers of this run talk to each other (level files, stop flag, mismatch notes):
	// named after the parent process so that concurrent runs (e.g. --mutants next to a plain run) do not mix
	mmDir := os.Getenv("VERIF_C14_RUNDIR")
	if mmDir == "" {
		mmDir = filepath.Join(eng.WorkDir(), "shards", "C14", fmt.Sprintf("run-%d", os.Getpid()))
		os.RemoveAll(mmDir)
		os.Setenv("VERIF_C14_RUNDIR", mmDir)
	}
	if err := os.MkdirAll(mmDir, 0755); err != nil {
		eng.HarnessError("%v", err)
	}
	if r.Sharded(16) {
		if n := r.Count("replay_divergences"); n > 0 {
			os.RemoveAll(mmDir)
			c14CleanTmp()
			eng.HarnessError("%d replays of a path prefix did not reproduce the recorded (or predicted) state", n)
		}
		if n := r.Count("model_mismatches"); n > 0 {
			files, _ := filepath.Glob(filepath.Join(mmDir, "mismatch-*.txt"))
			for _, f := range files {
				b, _ := os.ReadFile(f)
				fmt.Print(string(b))
			}
			os.RemoveAll(mmDir)
			c14CleanTmp()
			eng.HarnessError("%d requests disagreed with the reference model in a way that is no violation of the statement (spurious refusal, menu entry invalid on the idle system): the model needs calibration", n)
		}
		os.RemoveAll(mmDir)
		c14Finish(r, c14Rule)
	}
	shard, nshards := r.ShardIndex()
	x.runDir = mmDir
	x.mmFile = filepath.Join(mmDir, fmt.Sprintf("mismatch-%d.txt", shard))
	x.stopFile = filepath.Join(mmDir, "violation-found")
	x.barrierWait = 20 * time.Minute
	if thorough {
		x.barrierWait = 40 * time.Minute
	}
	if thorough {
		// part 1: exactly the exploration of the quick tier (scene requests in any position, sequences of <= 3 requests)
		x.ops, x.events, x.leafScenes = c14Menu(false), []string{"doing", "undoing", "done", "error"}, false
		x.explore("quickpart_", 3)
		r.Max("max_request_level_completed_in_quick_part", int64(x.completed))
		// part 2: the thorough menu and events to depth 4; a scene request may be the last request of a sequence only
		x.ops, x.events, x.leafScenes = ops, []string{"doing", "undoing", "wait", "done", "error"}, true
		x.explore("", depth)
	} else {
		x.explore("", depth)
	}
	_ = nshards
	r.Add("fixtures_built", c14Fixtures)
	r.Add("workers_total", 1)
	if !x.capped {
		r.Add("workers_completed_all_levels", 1)
	}
	r.Max("max_request_level_completed", int64(x.completed))
	c14Finish(r, c14Rule)
}
