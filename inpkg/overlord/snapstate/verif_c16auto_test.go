// C16 (part C16auto) — the caller side of the auto-refresh timer: autoRefresh.Ensure.
//
// The timeutil part of C16 (harness/c16) checks the window search and timeutil.Next on their own. This
// part drives the REAL autoRefresh.Ensure of the snap manager (fresh state and fresh autoRefresh per
// case, refresh.timer in the core configuration, last-refresh in the state, the store replaced by a
// counting fake, the clocks read through timeutil.timeNow and snapstate.timeNow pinned to the instant of
// the case) over the exhaustive product
//
//	timer (menu) x start date x now position relative to the timer's windows x age of the last refresh
//
// plus a second family in which refresh.timer is changed between two Ensure calls of the same
// autoRefresh. After every Ensure the outcome (the store was asked now / a next refresh is planned at t)
// is judged against a reference written here from the property statement: windows are laid out by a
// small calendar model from hand-written specs of the menu timers (the parser is NOT used to build the
// reference), the maximum postponement is last-refresh + 95 days.
//
// Ensure adds the delay computed by timeutil.Next to the REAL clock (time.Now) to obtain nextRefresh. The
// harness brackets the Ensure call with two readings of the real clock: the delay lies in
// [next-t1, next-t0]. Every law is evaluated on that interval (and on the whole window for '~' timers),
// so the verdict depends neither on the random spread nor on how long the call took.
package snapstate_test

import (
	"context"
	"encoding/json"
	"fmt"
	"os"
	"runtime"
	"sort"
	"strings"
	"testing"
	"time"

	"github.com/snapcore/snapd/asserts"
	"github.com/snapcore/snapd/asserts/snapasserts"
	"github.com/snapcore/snapd/dirs"
	"github.com/snapcore/snapd/interfaces"
	"github.com/snapcore/snapd/logger"
	"github.com/snapcore/snapd/overlord/auth"
	"github.com/snapcore/snapd/overlord/configstate/config"
	"github.com/snapcore/snapd/overlord/ifacestate/ifacerepo"
	"github.com/snapcore/snapd/overlord/snapstate"
	"github.com/snapcore/snapd/overlord/snapstate/snapstatetest"
	"github.com/snapcore/snapd/overlord/state"
	"github.com/snapcore/snapd/snap"
	"github.com/snapcore/snapd/store"
	"github.com/snapcore/snapd/store/storetest"
	"github.com/snapcore/snapd/timeutil"
	eng "github.com/snapcore/snapd/verifengine"
)

// ---------------------------------------------------------------------------------------------------
// reference: what a menu timer means (hand-written, independent of timeutil.ParseSchedule)

// the property's "maximum postponement": 95 days after the last refresh (the number is the value of the
// constant snapstate.maxPostponement; the statement itself only says "the maximum postponement")
const c16aLimit = 95 * 24 * time.Hour

const c16aDay = 24 * time.Hour

// c16aDaySpec selects calendar days: a weekday, every week (Nth=0), the Nth of the month (1..4) or the last (5)
type c16aDaySpec struct {
	Wd  time.Weekday
	Nth int
}

// c16aClock is one window of a matching day, minutes after 00:00 UTC; End < Start: ends on the next day
type c16aClock struct {
	Start, End int
	Spread     bool
}

// c16aSet is one event set (the parts separated by ",,"): Days empty = every day
type c16aSet struct {
	Days   []c16aDaySpec
	Clocks []c16aClock
}

type c16aTimer struct {
	Expr     string
	Sets     []c16aSet
	Thorough bool // only part of the thorough menu
}

func c16aHM(h, m int) int { return h*60 + m }

func c16aWds(wds ...time.Weekday) []c16aDaySpec {
	var out []c16aDaySpec
	for _, w := range wds {
		out = append(out, c16aDaySpec{Wd: w})
	}
	return out
}

// The menu. Every /N split is written out as its N consecutive windows; no split span crosses midnight
// (known findings of the timeutil part), no two windows of one timer start at the same instant.
var c16aMenu = []c16aTimer{
	{Expr: "10:00-11:00", Sets: []c16aSet{{Clocks: []c16aClock{{c16aHM(10, 0), c16aHM(11, 0), false}}}}},
	{Expr: "02:00-03:00,14:30-16:00", Sets: []c16aSet{{Clocks: []c16aClock{{c16aHM(2, 0), c16aHM(3, 0), false}, {c16aHM(14, 30), c16aHM(16, 0), false}}}}},
	{Expr: "mon,wed,10:00-11:00", Sets: []c16aSet{{Days: c16aWds(time.Monday, time.Wednesday), Clocks: []c16aClock{{c16aHM(10, 0), c16aHM(11, 0), false}}}}},
	{Expr: "mon1,10:00-11:00", Sets: []c16aSet{{Days: []c16aDaySpec{{time.Monday, 1}}, Clocks: []c16aClock{{c16aHM(10, 0), c16aHM(11, 0), false}}}}},
	{Expr: "10:00~12:00", Sets: []c16aSet{{Clocks: []c16aClock{{c16aHM(10, 0), c16aHM(12, 0), true}}}}},
	{Expr: "08:00-12:00/2", Sets: []c16aSet{{Clocks: []c16aClock{{c16aHM(8, 0), c16aHM(10, 0), false}, {c16aHM(10, 0), c16aHM(12, 0), false}}}}},
	{Expr: "00:00~24:00/4", Sets: []c16aSet{{Clocks: []c16aClock{{0, c16aHM(6, 0), true}, {c16aHM(6, 0), c16aHM(12, 0), true}, {c16aHM(12, 0), c16aHM(18, 0), true}, {c16aHM(18, 0), c16aHM(24, 0), true}}}}},
	{Expr: "sat-sun,06:00~07:00", Sets: []c16aSet{{Days: c16aWds(time.Saturday, time.Sunday), Clocks: []c16aClock{{c16aHM(6, 0), c16aHM(7, 0), true}}}}},
	{Expr: "tue2,23:00-23:30,,thu,05:00", Sets: []c16aSet{
		{Days: []c16aDaySpec{{time.Tuesday, 2}}, Clocks: []c16aClock{{c16aHM(23, 0), c16aHM(23, 30), false}}},
		{Days: c16aWds(time.Thursday), Clocks: []c16aClock{{c16aHM(5, 0), c16aHM(5, 0), false}}}}},
	{Expr: "fri5,18:00-19:00", Sets: []c16aSet{{Days: []c16aDaySpec{{time.Friday, 5}}, Clocks: []c16aClock{{c16aHM(18, 0), c16aHM(19, 0), false}}}}},
	{Expr: "mon-fri,12:00", Sets: []c16aSet{{Days: c16aWds(time.Monday, time.Tuesday, time.Wednesday, time.Thursday, time.Friday), Clocks: []c16aClock{{c16aHM(12, 0), c16aHM(12, 0), false}}}}},
	{Expr: "23:00-01:00", Sets: []c16aSet{{Clocks: []c16aClock{{c16aHM(23, 0), c16aHM(1, 0), false}}}}},
	// thorough only
	{Thorough: true, Expr: "sun,00:00-00:30", Sets: []c16aSet{{Days: c16aWds(time.Sunday), Clocks: []c16aClock{{0, 30, false}}}}},
	{Thorough: true, Expr: "wed3,09:00~09:04", Sets: []c16aSet{{Days: []c16aDaySpec{{time.Wednesday, 3}}, Clocks: []c16aClock{{c16aHM(9, 0), c16aHM(9, 4), true}}}}},
	{Thorough: true, Expr: "fri-mon,20:00-23:59", Sets: []c16aSet{{Days: c16aWds(time.Friday, time.Saturday, time.Sunday, time.Monday), Clocks: []c16aClock{{c16aHM(20, 0), c16aHM(23, 59), false}}}}},
	{Thorough: true, Expr: "sat4,04:00-05:00,,sun1,16:00~18:00/2", Sets: []c16aSet{
		{Days: []c16aDaySpec{{time.Saturday, 4}}, Clocks: []c16aClock{{c16aHM(4, 0), c16aHM(5, 0), false}}},
		{Days: []c16aDaySpec{{time.Sunday, 1}}, Clocks: []c16aClock{{c16aHM(16, 0), c16aHM(17, 0), true}, {c16aHM(17, 0), c16aHM(18, 0), true}}}}},
	{Thorough: true, Expr: "06:00-18:00/3", Sets: []c16aSet{{Clocks: []c16aClock{{c16aHM(6, 0), c16aHM(10, 0), false}, {c16aHM(10, 0), c16aHM(14, 0), false}, {c16aHM(14, 0), c16aHM(18, 0), false}}}}},
	{Thorough: true, Expr: "tue,thu,07:15,19:45-20:15", Sets: []c16aSet{{Days: c16aWds(time.Tuesday, time.Thursday), Clocks: []c16aClock{{c16aHM(7, 15), c16aHM(7, 15), false}, {c16aHM(19, 45), c16aHM(20, 15), false}}}}},
}

func c16aTimerByExpr(expr string) *c16aTimer {
	for i := range c16aMenu {
		if c16aMenu[i].Expr == expr {
			return &c16aMenu[i]
		}
	}
	return nil
}

type c16aWin struct {
	Start, End time.Time
	Spread     bool
}

func (w c16aWin) contains(t time.Time) bool { return !t.Before(w.Start) && !t.After(w.End) }

func (w c16aWin) String() string {
	sep := "-"
	if w.Spread {
		sep = "~"
	}
	return c16aFmt(w.Start) + sep + w.End.UTC().Format("15:04")
}

func c16aFmt(t time.Time) string { return t.UTC().Format("Mon 2006-01-02 15:04:05") }

func c16aMidnight(t time.Time) time.Time {
	t = t.UTC()
	return time.Date(t.Year(), t.Month(), t.Day(), 0, 0, 0, 0, time.UTC)
}

func (ds c16aDaySpec) match(d time.Time) bool { // d = 00:00 UTC of a day
	if d.Weekday() != ds.Wd {
		return false
	}
	switch {
	case ds.Nth == 0:
		return true
	case ds.Nth == 5: // the last one of the month
		return d.AddDate(0, 0, 7).Month() != d.Month()
	default:
		return (d.Day()-1)/7+1 == ds.Nth
	}
}

func (s c16aSet) matchDay(d time.Time) bool {
	if len(s.Days) == 0 {
		return true
	}
	for _, ds := range s.Days {
		if ds.match(d) {
			return true
		}
	}
	return false
}

// windows returns every window of the timer that starts on a day in [from, to] (midnights), sorted by start.
func (tm *c16aTimer) windows(from, to time.Time) []c16aWin {
	var out []c16aWin
	for d := c16aMidnight(from); !d.After(to); d = d.AddDate(0, 0, 1) {
		for _, s := range tm.Sets {
			if !s.matchDay(d) {
				continue
			}
			for _, c := range s.Clocks {
				w := c16aWin{Start: d.Add(time.Duration(c.Start) * time.Minute), End: d.Add(time.Duration(c.End) * time.Minute), Spread: c.Spread}
				if c.End < c.Start {
					w.End = w.End.Add(c16aDay)
				}
				out = append(out, w)
			}
		}
	}
	sort.SliceStable(out, func(i, j int) bool { return out[i].Start.Before(out[j].Start) })
	return out
}

func (tm *c16aTimer) inAnyWindow(t time.Time) (c16aWin, bool) {
	for _, w := range tm.windows(c16aMidnight(t).AddDate(0, 0, -2), c16aMidnight(t)) {
		if w.contains(t) {
			return w, true
		}
	}
	return c16aWin{}, false
}

// meetsWindow: does some window of the timer intersect [lo, hi]?
func (tm *c16aTimer) meetsWindow(lo, hi time.Time) bool {
	for _, w := range tm.windows(c16aMidnight(lo).AddDate(0, 0, -2), c16aMidnight(hi)) {
		if !w.End.Before(lo) && !w.Start.After(hi) {
			return true
		}
	}
	return false
}

// meetsWindowStartingBy: does some window that starts no later than by intersect [lo, hi]?
func (tm *c16aTimer) meetsWindowStartingBy(lo, hi, by time.Time) bool {
	for _, w := range tm.windows(c16aMidnight(lo).AddDate(0, 0, -2), c16aMidnight(hi)) {
		if !w.End.Before(lo) && !w.Start.After(hi) && !w.Start.After(by) {
			return true
		}
	}
	return false
}

// nextWindow is the reference meaning of "the next window": the earliest-starting window that is not over
// at now and does not contain the last refresh (the refresh of that window has happened). ok=false when
// there is none before horizon.
func (tm *c16aTimer) nextWindow(last, now, horizon time.Time) (c16aWin, bool) {
	for _, w := range tm.windows(c16aMidnight(now).AddDate(0, 0, -2), c16aMidnight(horizon)) {
		if w.End.Before(now) || w.contains(last) {
			continue
		}
		return w, true
	}
	return c16aWin{}, false
}

// c16aExpect is what the statement allows after one Ensure.
type c16aExpect struct {
	MayAttempt bool // asking the store now is a correct outcome
	MayPlan    bool // planning a later attempt is a correct outcome
	Lo, Hi     time.Time
	Class      string
	Desc       string
}

func (tm *c16aTimer) expect(last, now time.Time) c16aExpect {
	limit := last.Add(c16aLimit)
	horizon := now
	if limit.After(horizon) {
		horizon = limit
	}
	w, ok := tm.nextWindow(last, now, horizon.Add(2*c16aDay))
	if !ok || !w.Start.Before(limit) {
		// the maximum postponement comes first
		switch {
		case limit.Before(now):
			return c16aExpect{MayAttempt: true, Class: "attempt-overdue", Desc: "overdue since " + c16aFmt(limit)}
		case limit.Equal(now):
			return c16aExpect{MayAttempt: true, Class: "attempt-at-limit-instant", Desc: "limit reached at " + c16aFmt(limit)}
		}
		return c16aExpect{MayPlan: true, Lo: limit, Hi: limit, Class: "planned-at-limit", Desc: "limit " + c16aFmt(limit) + " before any window"}
	}
	switch {
	case w.Start.Before(now):
		cl := "attempt-open-window"
		if !limit.After(now) {
			cl = "attempt-open-window-and-overdue"
		}
		return c16aExpect{MayAttempt: true, Class: cl, Desc: "open window " + w.String()}
	case w.Start.Equal(now) && !w.Spread:
		return c16aExpect{MayAttempt: true, Class: "attempt-window-opens-now", Desc: "window opens now " + w.String()}
	case w.Start.Equal(now): // a spread window opening now: the draw may be zero
		return c16aExpect{MayAttempt: true, MayPlan: true, Lo: w.Start, Hi: w.End, Class: "spread-window-opens-now", Desc: "window " + w.String()}
	case w.Spread:
		return c16aExpect{MayPlan: true, Lo: w.Start, Hi: w.End, Class: "planned-in-spread-window", Desc: "window " + w.String()}
	}
	cl := "planned-at-window-start"
	if cw, in := tm.inAnyWindow(now); in && cw.contains(last) {
		cl = "planned-after-window-of-last-refresh"
	}
	return c16aExpect{MayPlan: true, Lo: w.Start, Hi: w.Start, Class: cl, Desc: "window " + w.String()}
}

// ---------------------------------------------------------------------------------------------------
// the world around Ensure

type c16aStore struct {
	storetest.Store
	queries int
}

func (s *c16aStore) SnapAction(ctx context.Context, currentSnaps []*store.CurrentSnap, actions []*store.SnapAction, assertQuery store.AssertionQuery, user *auth.UserState, opts *store.RefreshOptions) ([]store.SnapActionResult, []store.AssertionResult, error) {
	s.queries++
	return nil, nil, nil
}

var c16aNow time.Time // the instant of the running case, read by timeutil and snapstate

func c16aSetupProcess(t *testing.T) {
	dirs.SetRootDir(t.TempDir())
	timeutil.MockTimeNow(func() time.Time { return c16aNow })
	snapstate.MockTimeNow(func() time.Time { return c16aNow })
	snapstate.CanAutoRefresh = func(*state.State) (bool, error) { return true, nil }
	snapstate.AutoAliases = func(*state.State, *snap.Info) (map[string]string, error) { return nil, nil }
	snapstate.IsOnMeteredConnection = func() (bool, error) { return false, nil }
	snapstatetest.MockDeviceModel(DefaultModel())
	snapstate.MockEnforcedValidationSets(func(st *state.State, extraVss ...*asserts.ValidationSet) (*snapasserts.ValidationSets, error) {
		return snapasserts.NewValidationSets(), nil
	})
	logger.MockLogger()
}

type c16aWorld struct {
	st    *state.State
	store *c16aStore
	af    interface {
		Ensure() error
		NextRefresh() time.Time
	}
}

func c16aNewWorld(last time.Time) *c16aWorld {
	w := &c16aWorld{st: state.New(nil), store: &c16aStore{}}
	w.st.Lock()
	defer w.st.Unlock()
	snapstate.ReplaceStore(w.st, w.store)
	ifacerepo.Replace(w.st, interfaces.NewRepository())
	snapstate.Set(w.st, "some-snap", &snapstate.SnapState{
		Active: true,
		Sequence: snapstatetest.NewSequenceFromSnapSideInfos([]*snap.SideInfo{
			{RealName: "some-snap", Revision: snap.R(5), SnapID: "some-snap-id"},
		}),
		Current:  snap.R(5),
		SnapType: "app",
		UserID:   1,
	})
	w.st.Set("seeded", true)
	w.st.Set("seed-time", last.Add(-c16aDay))
	w.st.Set("refresh-privacy-key", "privacy-key")
	w.st.Set("last-refresh", last)
	w.af = snapstate.NewAutoRefresh(w.st)
	return w
}

func (w *c16aWorld) setTimer(expr string) {
	w.st.Lock()
	defer w.st.Unlock()
	tr := config.NewTransaction(w.st)
	tr.Set("core", "refresh.timer", expr)
	tr.Commit()
}

func (w *c16aWorld) lastRefresh() time.Time {
	w.st.Lock()
	defer w.st.Unlock()
	var t time.Time
	w.st.Get("last-refresh", &t)
	return t
}

// ---------------------------------------------------------------------------------------------------
// cases

type c16aCase struct {
	Timers []string `json:"timers"`  // refresh.timer before the i-th Ensure (same autoRefresh, same instant)
	Now    string   `json:"now"`     // RFC3339, the instant of every step
	AgeMin int64    `json:"age_min"` // last-refresh = now - age
	Pos    string   `json:"pos,omitempty"`
}

type c16aObs struct {
	Attempted bool
	NextZero  bool
	Lo, Hi    time.Time // the planned instant on the clock of the case lies in [Lo, Hi]
}

func (o c16aObs) String() string {
	switch {
	case o.Attempted:
		return "the store was asked now"
	case o.NextZero:
		return "no store query and no next refresh planned"
	}
	// the planned instant lies in [Lo, Hi] (Hi-Lo = duration of the Ensure call): print it to the second
	if lo, hi := c16aFmt(o.Lo.Add(500*time.Millisecond)), c16aFmt(o.Hi.Add(500*time.Millisecond)); lo != hi {
		return "next refresh planned between " + lo + " and " + hi
	}
	return "next refresh planned at " + c16aFmt(o.Hi.Add(500*time.Millisecond))
}

func (w *c16aWorld) ensure(r *eng.Run) (c16aObs, error) {
	before := w.store.queries
	t0 := time.Now()
	err := w.af.Ensure()
	t1 := time.Now()
	if us := int64(t1.Sub(t0) / time.Microsecond); r != nil {
		r.Max("max_ensure_us", us)
	}
	o := c16aObs{Attempted: w.store.queries > before}
	next := w.af.NextRefresh()
	if next.IsZero() {
		o.NextZero = true
		return o, err
	}
	// Ensure computed next = (a reading of the real clock inside [t0,t1]) + delay
	o.Lo, o.Hi = c16aNow.Add(next.Sub(t1)), c16aNow.Add(next.Sub(t0))
	return o, err
}

// judge returns the violation class ("" = fine) of one observed outcome.
func c16aJudge(tm *c16aTimer, last, now time.Time, exp c16aExpect, o c16aObs) (class, msg string) {
	limit := last.Add(c16aLimit)
	_, inWin := tm.inAnyWindow(now)
	if o.Attempted {
		switch {
		case exp.MayAttempt:
			return "", ""
		case !inWin && now.Before(limit):
			return "refresh-outside-window-before-limit", fmt.Sprintf("the store was asked at an instant that is in no window of the timer although the maximum postponement (%s) is not reached; expected: %s", c16aFmt(limit), exp.Desc)
		}
		return "refresh-not-due", fmt.Sprintf("the store was asked now; expected: %s", exp.Desc)
	}
	switch {
	case !now.Before(limit):
		return "overdue-not-refreshed", fmt.Sprintf("the maximum postponement was reached at %s but the store was not asked (%s)", c16aFmt(limit), o)
	case o.NextZero:
		return "nothing-planned", fmt.Sprintf("no store query and no next refresh; expected: %s", exp.Desc)
	case !exp.MayPlan:
		return "open-window-not-used", fmt.Sprintf("%s although a refresh is due now: %s", o, exp.Desc)
	case o.Lo.After(limit) && !tm.meetsWindowStartingBy(o.Lo, o.Hi, limit):
		// (a '~' window that starts before the limit may place the refresh after it: the statement bounds the start of the chosen window)
		return "planned-after-limit", fmt.Sprintf("%s, later than the maximum postponement %s and not inside a window that starts before it", o, c16aFmt(limit))
	case o.Hi.Before(now):
		return "planned-in-the-past", fmt.Sprintf("%s, before now, without asking the store", o)
	}
	atLimit := !o.Lo.After(limit) && !o.Hi.Before(limit)
	if !tm.meetsWindow(o.Lo, o.Hi) && !atLimit {
		return "planned-outside-window", fmt.Sprintf("%s, which is in no window of the timer and is not the limit %s; expected: %s", o, c16aFmt(limit), exp.Desc)
	}
	if o.Hi.Before(exp.Lo) || o.Lo.After(exp.Hi) {
		return "planned-not-next-window", fmt.Sprintf("%s; expected: %s", o, exp.Desc)
	}
	return "", ""
}

type c16aStepResult struct {
	Class, Key, Msg string
	Exp             c16aExpect
	Obs             c16aObs
	Last            time.Time
}

// run executes one case on a fresh world; judged[i] tells whether step i was judged.
func c16aRun(r *eng.Run, c c16aCase, verbose bool) []c16aStepResult {
	now, err := time.Parse(time.RFC3339, c.Now)
	if err != nil {
		eng.HarnessError("bad now %q: %v", c.Now, err)
	}
	c16aNow = now.UTC()
	last := c16aNow.Add(-time.Duration(c.AgeMin) * time.Minute)
	w := c16aNewWorld(last)
	var out []c16aStepResult
	for i, expr := range c.Timers {
		tm := c16aTimerByExpr(expr)
		if tm == nil {
			eng.HarnessError("timer %q is not in the menu", expr)
		}
		w.setTimer(expr)
		curLast := w.lastRefresh()
		exp := tm.expect(curLast, c16aNow)
		o, err := w.ensure(r)
		if err != nil {
			eng.HarnessError("Ensure failed in case %s: %v", eng.JSON(c), err)
		}
		res := c16aStepResult{Exp: exp, Obs: o, Last: curLast}
		res.Class, res.Msg = c16aJudge(tm, curLast, c16aNow, exp, o)
		if res.Class != "" {
			// few canonical keys: the broken law and where in the case it broke (the timer is in the message and the case)
			res.Key = "ensure:" + res.Class
			if len(c.Timers) > 1 {
				res.Key = fmt.Sprintf("ensure:%s:retimed-step%d", res.Class, i+1)
			}
			res.Msg = fmt.Sprintf("refresh.timer=%q (step %d of %v) now=%s last-refresh=%s (%s ago): %s", expr, i+1, c.Timers, c16aFmt(c16aNow), c16aFmt(curLast), c16aAge(c16aNow.Sub(curLast)), res.Msg)
		}
		if verbose {
			fmt.Printf("replay step %d: timer=%q now=%s last=%s limit=%s reference=%s (%s) observed: %s => %q\n", i+1, expr, c16aFmt(c16aNow), c16aFmt(curLast), c16aFmt(curLast.Add(c16aLimit)), exp.Class, exp.Desc, o, res.Class)
		}
		out = append(out, res)
		if o.Attempted {
			// a refresh was launched: what a later Ensure does is governed by the retry delay, not by the timer
			break
		}
	}
	return out
}

func c16aAge(d time.Duration) string {
	if d%c16aDay == 0 {
		return fmt.Sprintf("%dd", d/c16aDay)
	}
	return fmt.Sprintf("%dd%s", d/c16aDay, d%c16aDay)
}

// ---------------------------------------------------------------------------------------------------
// the space

type c16aPos struct {
	T    time.Time
	Name string
}

// positions of "now" around the first nWin windows of the timer that start at or after day.
func (tm *c16aTimer) positions(day time.Time, nWin int) []c16aPos {
	ws := tm.windows(day, day.AddDate(0, 0, 45))
	var out []c16aPos
	seen := map[int64]bool{}
	add := func(t time.Time, name string) {
		if !seen[t.Unix()] {
			seen[t.Unix()] = true
			out = append(out, c16aPos{t, name})
		}
	}
	for i := 0; i < nWin && i+1 < len(ws); i++ {
		w, nx := ws[i], ws[i+1]
		add(w.Start.Add(-time.Minute), "1min-before-open")
		if !w.Spread {
			add(w.Start, "at-open")
		}
		if w.End.After(w.Start) {
			add(w.Start.Add(w.End.Sub(w.Start)/2), "inside")
			add(w.End, "at-close")
		}
		add(w.End.Add(time.Minute), "1min-after-close")
		if gap := nx.Start.Sub(w.End); gap >= 4*time.Hour {
			add(w.End.Add(gap/2).Truncate(time.Minute), "far-from-windows")
		}
	}
	return out
}

func c16aMinutes(ds ...time.Duration) []int64 {
	var out []int64
	for _, d := range ds {
		out = append(out, int64(d/time.Minute))
	}
	return out
}

const c16aRule = "one case = refresh.timer from the menu x start date x position of now relative to the first windows on/after that date (1 min before opening, at opening, middle, at closing, 1 min after, middle of the gap to the following window) x age of the last refresh, run on a fresh state + autoRefresh (family 'single'); family 'retimed' = ordered pairs of different menu timers set one after the other on the same autoRefresh at the same instant, judged after both Ensure calls. Non-trivial = now is not inside a window in which a refresh is due, so Ensure has to choose between the next window, the limit and an overdue refresh"

func TestVerifC16auto(t *testing.T) {
	r := eng.Start("C16", "exploration", 60*time.Second, 8*time.Minute)
	r.Assume(
		"maximum postponement = last-refresh + 95 days (the number is read off snapstate.maxPostponement; everything else about the limit comes from the statement: the refresh happens at the limit when it comes before the next window, immediately when the limit is past)",
		"meaning of the menu timers: hand-written window lists (weekday sets, nth/last weekday of the month, /N written out as N equal consecutive windows, a single time = zero-length window), laid out on the UTC calendar; the parser is only asked to accept each menu timer",
		"next window = earliest-starting window that is not over at now and does not contain the last refresh (closed intervals), as in the timeutil part of C16",
		"'a refresh was attempted now' = the fake store received a SnapAction query during Ensure",
		"Ensure adds the computed delay to the real clock: the planned instant is recovered as an interval from two readings of the real clock around the call, every law is evaluated on the interval; a '~' timer may plan anywhere inside its window",
		"time only stands still: the clocks are pinned to the instant of the case, the arrival of the planned instant (real clock inside Ensure) and the recomputation after an expired refresh.hold are not driven",
	)
	c16aSetupProcess(t)
	for i := range c16aMenu {
		if _, err := timeutil.ParseSchedule(c16aMenu[i].Expr); err != nil {
			eng.HarnessError("menu timer %q is not valid: %v", c16aMenu[i].Expr, err)
		}
	}

	if rc := r.ReplayCase(); rc != nil {
		var c c16aCase
		if err := json.Unmarshal(rc, &c); err != nil {
			eng.HarnessError("bad replay case: %v", err)
		}
		if len(c.Timers) == 0 {
			// a case recorded by the timeutil part of C16: the driver hands every replay to all parts
			fmt.Println("replay: the case belongs to the timeutil part of C16, nothing to do in part C16auto")
			r.Finish("replay")
		}
		var first string
		for i := 0; i < 5; i++ { // the verdict must not depend on the spread draw or on timing
			var keys []string
			for _, res := range c16aRun(r, c, i == 0) {
				keys = append(keys, res.Key)
				if i == 0 && res.Key != "" {
					r.Violation(res.Key, res.Msg, c)
				}
			}
			k := strings.Join(keys, "|")
			if i == 0 {
				first = k
			} else if k != first {
				eng.HarnessError("verdict of the replayed case is not stable: %q vs %q", first, k)
			}
		}
		r.Finish("replay")
	}

	var menu []*c16aTimer
	for i := range c16aMenu {
		if !c16aMenu[i].Thorough || r.Thorough() {
			menu = append(menu, &c16aMenu[i])
		}
	}
	utc := func(y int, m time.Month, d int) time.Time { return time.Date(y, m, d, 0, 0, 0, 0, time.UTC) }
	// start dates: a month end on a Wednesday, a Saturday near the end of February, a first Monday
	dates := []time.Time{utc(2018, 1, 31), utc(2018, 2, 24), utc(2018, 3, 5)}
	nWin := 2
	ages := c16aMinutes(time.Hour, c16aDay, 30*c16aDay, 89*c16aDay, 90*c16aDay-time.Hour, 90*c16aDay, 90*c16aDay+time.Hour,
		92*c16aDay, 95*c16aDay-time.Hour, 95*c16aDay, 95*c16aDay+time.Hour, 96*c16aDay, 200*c16aDay)
	pairAges := c16aMinutes(c16aDay, 30*c16aDay, 92*c16aDay, 95*c16aDay-time.Hour)
	pairDates := dates[:2]
	if r.Thorough() {
		dates = nil
		for d := utc(2018, 1, 20); d.Before(utc(2018, 3, 3)); d = d.AddDate(0, 0, 1) { // 42 consecutive days, 28-day February
			dates = append(dates, d)
		}
		for d := utc(2020, 2, 22); d.Before(utc(2020, 3, 4)); d = d.AddDate(0, 0, 1) { // leap February
			dates = append(dates, d)
		}
		for d := utc(2018, 12, 26); d.Before(utc(2019, 1, 3)); d = d.AddDate(0, 0, 1) { // year end
			dates = append(dates, d)
		}
		nWin = 3
		ages = append(ages, c16aMinutes(0, time.Minute, 7*c16aDay, 60*c16aDay, 94*c16aDay, 95*c16aDay-time.Minute, 95*c16aDay+time.Minute, 100*c16aDay)...)
		pairAges = c16aMinutes(time.Hour, c16aDay, 30*c16aDay, 89*c16aDay, 92*c16aDay, 95*c16aDay-time.Hour, 96*c16aDay)
		pairDates = []time.Time{utc(2018, 1, 31), utc(2018, 2, 24), utc(2018, 3, 5), utc(2018, 12, 28), utc(2020, 2, 27)}
	}
	r.Info("bounds", map[string]int{"timers": len(menu), "start_dates": len(dates), "windows_per_date": nWin, "ages": len(ages),
		"retimed_ages": len(pairAges), "retimed_dates": len(pairDates)})

	if r.Sharded(16) {
		r.Finish(c16aRule)
	}
	if os.Getenv("VERIF_SHARD") != "" {
		runtime.GOMAXPROCS(2)
	}

	seedLo, seedHi := 90*c16aDay, 95*c16aDay
	account := func(c c16aCase, results []c16aStepResult, fam string) {
		r.Add("evaluations", int64(len(results)))
		r.Add("cases_"+fam, 1)
		for i, res := range results {
			if res.Key != "" {
				r.Violation(res.Key, res.Msg, c)
			}
			tm := c16aTimerByExpr(c.Timers[i])
			age := c16aNow.Sub(res.Last)
			_, inWin := tm.inAnyWindow(c16aNow)
			r.Distinct("reference_outcome", res.Exp.Class)
			r.Distinct("timer_x_outcome", c.Timers[i]+"/"+res.Exp.Class)
			switch {
			case res.Obs.Attempted:
				r.Add("attempts_now", 1)
				if !inWin {
					r.Add("attempts_now_outside_every_window_overdue", 1)
				}
			case res.Exp.Class == "planned-at-limit":
				r.Add("scheduled_at_limit", 1)
			case !res.Obs.NextZero:
				r.Add("scheduled_in_window", 1)
			}
			if !inWin && age > seedLo && age < seedHi {
				r.Add("age_between_90d_and_95d_outside_every_window", 1)
			}
			if inWin && res.Exp.MayPlan && !res.Exp.MayAttempt {
				r.Add("now_in_window_of_last_refresh", 1)
			}
			if !strings.HasPrefix(res.Exp.Class, "attempt-open-window") && res.Exp.Class != "attempt-window-opens-now" {
				r.Add("distinct_nontrivial", 1)
			}
			if i == 1 {
				r.Add("retimed_second_step_judged", 1)
				if results[0].Exp.MayPlan && (results[0].Exp.Hi.Before(res.Exp.Lo) || results[0].Exp.Lo.After(res.Exp.Hi)) {
					r.Add("retimed_plan_must_move", 1)
				}
			}
		}
	}

	item := 0
	capped := false
	// family single
	for _, tm := range menu {
		for _, d := range dates {
			item++
			if !r.Mine(item) {
				continue
			}
			if capped || r.TimeUp() {
				capped = true
				continue
			}
			for _, p := range tm.positions(d, nWin) {
				for _, age := range ages {
					c := c16aCase{Timers: []string{tm.Expr}, Now: p.T.Format(time.RFC3339), AgeMin: age, Pos: p.Name}
					res := c16aRun(r, c, false)
					account(c, res, "single")
					r.Distinct("position", p.Name)
					if item%7 == 1 && age == ages[3] && p.Name == "far-from-windows" && r.WantSample() {
						r.Sample(map[string]interface{}{"case": c, "reference": res[0].Exp.Class, "expected": res[0].Exp.Desc, "observed": res[0].Obs.String()})
					}
				}
			}
		}
	}
	// family retimed: timer A, Ensure, timer B, Ensure (same autoRefresh, same instant)
	for _, a := range menu {
		for _, b := range menu {
			if a == b {
				continue
			}
			item++
			if !r.Mine(item) {
				continue
			}
			if capped || r.TimeUp() {
				capped = true
				continue
			}
			for _, d := range pairDates {
				var ps []c16aPos
				seen := map[int64]bool{}
				for _, p := range append(a.positions(d, 1), b.positions(d, 1)...) {
					if !seen[p.T.Unix()] {
						seen[p.T.Unix()] = true
						ps = append(ps, p)
					}
				}
				for _, p := range ps {
					for _, age := range pairAges {
						c := c16aCase{Timers: []string{a.Expr, b.Expr}, Now: p.T.Format(time.RFC3339), AgeMin: age, Pos: p.Name}
						account(c, c16aRun(r, c, false), "retimed")
					}
				}
			}
		}
	}
	if capped {
		r.Cap("time", "some (timer,date) / (timer,timer) work items were skipped after the soft budget")
	}
	r.Finish(c16aRule)
}
