//go:build verif

// Overlay-mounted (never written to /repo) seams for the C15hook part of the C15 check, which lives in
// package hookstate_test and therefore cannot reach snapstate's unexported clock and gating reset.
package snapstate

import (
	"time"

	"github.com/snapcore/snapd/overlord/state"
)

// VerifC15hookMockTimeNow replaces the clock read by HoldRefresh / HeldSnaps / doLinkSnap (timeNow).
func VerifC15hookMockTimeNow(f func() time.Time) (restore func()) {
	old := timeNow
	timeNow = f
	return func() { timeNow = old }
}

// VerifC15hookResetGatingForRefreshed is resetGatingForRefreshed, which the refresh path calls with the
// name of every snap it is about to refresh.
func VerifC15hookResetGatingForRefreshed(st *state.State, refreshedSnaps ...string) error {
	return resetGatingForRefreshed(st, refreshedSnaps...)
}

// VerifC15hookPruneGating is pruneGating called with a candidate set that contains exactly the named
// snaps (what the refresh-hints / auto-refresh path does after asking the store).
func VerifC15hookPruneGating(st *state.State, candidateNames ...string) error {
	cands := map[string]*refreshCandidate{}
	for _, n := range candidateNames {
		cands[n] = &refreshCandidate{}
	}
	return pruneGating(st, cands)
}
