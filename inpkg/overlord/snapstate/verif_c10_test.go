//go:build verif

// C10 — a failed install/refresh/revert leaves the snap exactly as it was.
//
// States: every distinct state of one snap reachable with at most D operations of the generating alphabet
// (breadth-first, replay from a fresh fixture, deduplicated on the canonical state key).
// Cases: in every state, every operation under test (install / refresh to a new revision / sideload from a
// local file / refresh to each kept revision / revert to each kept revision, with and without flag+channel changes) × every failure
// point (an error-trigger task spliced after the first k tasks of the generated change, for every k up to
// the check-rerefresh task; plus the mid-task failures the fake backend can inject).
// Oracle: the change ends in Error and the recorded state (fields of the statement), the configuration and
// the world folded from the backend log equal the pre-operation ones, modulo exactly the revisions whose
// discard-snap task completed in the failed change (irreversible garbage collection, recorded separately).
package snapstate_test

import (
	"encoding/json"
	"fmt"
	"os"
	"path/filepath"
	"sort"
	"strings"
	"time"

	. "gopkg.in/check.v1"

	eng "github.com/snapcore/snapd/verifengine"
)

type verifC10Suite struct{}

var _ = Suite(&verifC10Suite{})

type c10Case struct {
	Path    vPath  `json:"path"` // history replayed on a fresh fixture (may contain earlier failed operations)
	Op      vOp    `json:"op"`   // operation under test with its failure
	Minimal bool   `json:"minimal"`
	Pre     *vSnap `json:"pre,omitempty"`
	Post    *vSnap `json:"post,omitempty"`
	PreW    string `json:"pre_world,omitempty"`
	PostW   string `json:"post_world,omitempty"`
	Disc    []int  `json:"discarded,omitempty"`
	Res     *vRes  `json:"result,omitempty"`
	Diffs   []string `json:"diffs,omitempty"`
}

type c10Diff struct {
	Field string
	Text  string
}



// c10Compare lists the fields of the statement that differ, in a fixed order. Kept revisions, blocked
// revisions, revert status and mounted revisions are compared modulo the revisions in disc.
func c10Compare(name string, pre, post vSnap, preW, postW vWorld, disc []int, inAll bool, rawEntry bool) []c10Diff {
	var d []c10Diff
	add := func(field string, a, b interface{}) {
		ja, jb := eng.JSON(a), eng.JSON(b)
		if ja != jb {
			d = append(d, c10Diff{field, fmt.Sprintf("%s: before %s after %s", field, ja, jb)})
		}
	}
	add("installed", pre.Installed, post.Installed)
	if !pre.Installed {
		add("all-entry", false, inAll || rawEntry)
	}
	add("current", pre.Cur, post.Cur)
	add("sequence", vWithout(pre.Seq, disc), post.Seq)
	add("active", pre.Active, post.Active)
	add("channel", pre.Chan, post.Chan)
	add("devmode", pre.Dev, post.Dev)
	add("jailmode", pre.Jail, post.Jail)
	add("classic", pre.Classic, post.Classic)
	add("trymode", pre.Try, post.Try)
	add("ignore-validation", pre.IV, post.IV)
	add("cohort", pre.Cohort, post.Cohort)
	add("last-refresh-time", pre.LRT, post.LRT)
	add("refresh-inhibited-time", pre.RIT, post.RIT)
	add("block", vWithout(pre.Block, disc), post.Block)
	add("revert-status", vMapWithout(pre.RS, disc), vMapWithout(post.RS, nil))
	add("config", pre.Config, post.Config)
	add("mounted", vWithout(preW.Mounted[name], disc), postW.Mounted[name])
	add("link", preW.Link[name], postW.Link[name])
	add("aliases", preW.Aliases[name], postW.Aliases[name])
	add("aliases-state", pre.Aliases, post.Aliases)
	add("aliases-pending", pre.AlPending, post.AlPending)
	return d
}

func c10RelTarget(pre vSnap, target int) string {
	ti := vIndexOf(pre.Seq, target)
	ci := vIndexOf(pre.Seq, pre.Cur)
	switch {
	case ti < 0 || ci < 0:
		return "new"
	case ti > ci:
		return "later"
	}
	return "earlier"
}

func c10OpDesc(op vOp) string {
	s := op.K
	if op.NB {
		s += "+nb"
	}
	if op.W != "" {
		s += "+w"
	}
	return s
}

// c10Key is the canonical identity of a finding: operation kind (+nb, +w), position of the target relative to
// the current revision, whether link-snap had run, first differing field.
func c10Key(op vOp, pre vSnap, res vRes, field string) string {
	if op.W != "" && field == "config" {
		// configuration written by the failed change itself is still there: one key per operation kind
		return "written-config-survives-undo:" + op.K
	}
	return fmt.Sprintf("%s:%s:%s:%s", c10OpDesc(op), c10RelTarget(pre, res.Target), c10Phase(op, res), field)
}

func c10Phase(op vOp, res vRes) string {
	for i, k := range res.Kinds {
		if k == "link-snap" && i < len(res.Final) && res.Final[i] == "Error" {
			return "in-link"
		}
	}
	if res.LinkRan {
		return "after-link"
	}
	return "before-link"
}

// c10OpsUnderTest lists the operations under test for a state (without failure).
// Refreshes come in two variants: plain, and with a channel switch, a cohort key (new revision only; the API
// refuses revision+cohort), --ignore-validation and --devmode at once. The quick tier runs only the second
// variant (it changes a superset of the fields).
func c10OpsUnderTest(a vSnap, thorough bool) []vOp {
	var ops []vOp
	if !a.Installed {
		return []vOp{{K: "install"}, {K: "install", Dv: true, Ch: "other-channel", IV: true}, {K: "sideload"}}
	}
	ci := vIndexOf(a.Seq, a.Cur)
	if thorough {
		ops = append(ops, vOp{K: "refresh-new"})
	}
	ops = append(ops, vOp{K: "refresh-new", Ch: "other-channel", Co: "cohort-x", IV: true, Dv: true})
	for p := range a.Seq {
		if p == ci {
			continue
		}
		if thorough {
			ops = append(ops, vOp{K: "refresh-kept", P: p})
		}
		ops = append(ops, vOp{K: "refresh-kept", P: p, Ch: "other-channel", IV: true, Dv: true})
		ops = append(ops, vOp{K: "revert-to", P: p}, vOp{K: "revert-to", P: p, NB: true})
	}
	// refresh from a local file, no revision given: snapd numbers it (x1, x2, …) in prepare-snap, after the
	// change was planned
	ops = append(ops, vOp{K: "sideload", Dv: true})
	return ops
}

func c10Triggers(kind string) []string {
	switch kind {
	case "install":
		return []string{"link", "copy", "op:setup-profiles:Doing", "op:auto-connect:Doing", "op:update-aliases", "op:setup-snap-save-data"}
	case "refresh-new", "refresh-kept", "sideload":
		return []string{"link", "copy", "op:setup-profiles:Doing", "op:auto-connect:Doing", "op:update-aliases", "op:setup-snap-save-data", "op:unlink-snap", "op:remove-snap-aliases"}
	case "revert-to", "revert":
		return []string{"link", "op:setup-profiles:Doing", "op:auto-connect:Doing", "op:update-aliases", "op:unlink-snap", "op:remove-snap-aliases"}
	}
	return nil
}

// c10TagInhibited tags the quick tier's twin states that carry the inhibited-refresh mark.
const c10TagInhibited = "inhibited-twin"

const c10InjectedErr = "cannot perform the following tasks:\n- injected failure (error out)"

type c10Runner struct {
	r        *eng.Run
	c        *C
	reported map[string]bool
}

// runOne runs the operation under test on the fixture and returns the result and the differences.
func c10RunOne(f *vFix, name string, op vOp) (vRes, []c10Diff, vSnap, vSnap, vWorld, vWorld) {
	pre, preW := f.observe(name), f.world()
	res := f.vRun(op)
	post, postW := f.observe(name), f.world()
	if res.Rejected {
		return res, nil, pre, post, preW, postW
	}
	inAll := vIndexOfStr(f.allSnaps(), name) >= 0
	raw := vIndexOfStr(f.rawSnapsKeys(), name) >= 0
	diffs := c10Compare(name, pre, post, preW, postW, res.Disc, inAll, raw)
	return res, diffs, pre, post, preW, postW
}


func c10DiffFields(d []c10Diff) string {
	var f []string
	for _, x := range d {
		f = append(f, x.Field)
	}
	return strings.Join(f, ",")
}

// confirm replays history+op on a fresh fixture n times and reports whether every run shows the same differing fields.
func (cr *c10Runner) confirm(path vPath, op vOp, want string, n int) bool {
	for i := 0; i < n; i++ {
		f, _ := vReplay(cr.c, path)
		res, diffs, _, _, _, _ := c10RunOne(f, vSnapA, op)
		f.close()
		got := c10DiffFields(diffs)
		if res.Status != "Error" {
			got = "status=" + res.Status + "," + got
		}
		if got != want {
			return false
		}
	}
	return true
}

func (cr *c10Runner) checkState(st vState, onlyOp int) {
	r, c := cr.r, cr.c
	name := vSnapA
	var f *vFix
	var hist []vOp
	rebuild := func() {
		if f != nil {
			f.close()
		}
		f, _ = vReplay(c, st.Path)
		k, _, _ := f.vStateKey()
		if k != st.Key {
			eng.HarnessError("replay diverged: path %s reached\n  %s\nbut was recorded as\n  %s", eng.JSON(st.Path), k, st.Key)
		}
		hist = append([]vOp(nil), st.Path.Ops...)
	}
	rebuild()
	defer func() { f.close() }()

	runCase := func(op vOp) (res vRes, stop bool) {
		r.NoteCurrent(eng.JSON(c10Case{Path: vPath{Cfg: st.Path.Cfg, Ops: hist}, Op: op}))
		res, diffs, pre, post, preW, postW := c10RunOne(f, name, op)
		if res.Rejected {
			r.Add("refused_operations", 1)
			return res, true
		}
		if op.T != "" && !res.Fired {
			// the trigger names a backend operation this change does not perform: the change went through
			r.Add("triggers_not_reached", 1)
			r.Distinct("trigger_not_reached", op.K+":"+op.T)
			r.Info("trigger_not_reached:"+op.K+":"+op.T, eng.JSON(st.Path))
			rebuild()
			return res, false
		}
		if op.F > 0 && res.Status == "Error" && strings.TrimSpace(res.ChgErr) != c10InjectedErr {
			// some task other than the spliced one failed (seen only on an overloaded machine): the case did not
			// test what it was meant to; it is recorded, not judged
			r.Add("cases_with_unexpected_task_errors", 1)
			r.Cap("unexpected_task_error", map[string]interface{}{"history": st.Path, "op": op, "error": res.ChgErr, "tasks": res.Kinds, "final": res.Final})
			rebuild()
			return res, false
		}
		r.Add("evaluations", 1)
		r.Add("transitions", 1)
		r.Add("traces_validated_against_impl", 1)
		r.Distinct("opkind", c10OpDesc(op)+":"+c10RelTarget(pre, res.Target))
		undone := 0
		for _, s := range res.Final {
			if s == "Undone" {
				undone++
			}
		}
		if undone > 0 || res.Fired {
			r.Add("distinct_nontrivial", 1)
		}
		r.Distinct("outcome", fmt.Sprintf("%s:%s:undone=%d:disc=%d", c10OpDesc(op), c10Phase(op, res), undone, len(res.Disc)))
		want := c10DiffFields(diffs)
		if res.Status != "Error" {
			want = "status=" + res.Status + "," + want
		}
		if len(res.Disc) > 0 {
			// irreversible garbage collection (by design): recorded, compared modulo the discarded revisions
			var pos []string
			for _, d := range res.Disc {
				pos = append(pos, c10RelTarget(pre, d))
			}
			sort.Strings(pos)
			gk := fmt.Sprintf("%s:%s:discarded=%s", c10OpDesc(op), c10RelTarget(pre, res.Target), strings.Join(pos, ","))
			if r.Distinct("gc_irreversible", gk) {
				r.Info("gc_irreversible:"+gk, map[string]interface{}{"history": st.Path, "op": op, "before": pre.Seq, "after": post.Seq})
			}
		}
		if want != "" {
			field := "status"
			if res.Status == "Error" {
				field = diffs[0].Field
			}
			key := c10Key(op, pre, res, field)
			if cr.reported[key] {
				// same canonical finding as one already confirmed and reported by this process
				r.Add("violations_duplicate_key", 1)
				rebuild()
				return res, false
			}
			// re-run on fresh fixtures before believing it: first the minimal history, then the actual one
			cas := c10Case{Path: st.Path, Op: op, Minimal: true, Pre: &pre, Post: &post, PreW: eng.JSON(preW), PostW: eng.JSON(postW), Disc: res.Disc, Res: &res}
			for _, d := range diffs {
				cas.Diffs = append(cas.Diffs, d.Text)
			}
			actual := vPath{Cfg: st.Path.Cfg, Ops: append([]vOp(nil), hist...)}
			f.close()
			f = nil
			confirmed := cr.confirm(st.Path, op, want, 3)
			if !confirmed && len(hist) > len(st.Path.Ops) {
				cas.Path, cas.Minimal = actual, false
				confirmed = cr.confirm(actual, op, want, 3)
			}
			if confirmed {
				cr.reported[key] = true
				msg := fmt.Sprintf("after the failed %s (change %s) the snap is not as before: %s", op, res.Status, strings.Join(cas.Diffs, "; "))
				r.Violation(key, msg, cas)
			} else {
				r.Add("unreproducible_mismatches", 1)
				r.Cap("unreproducible", eng.JSON(cas))
			}
			rebuild()
			return res, false
		}
		// chain the next case on this fixture only if the complete state key is unchanged
		hist = append(hist, op)
		if k, _, _ := f.vStateKey(); k != st.Key {
			r.Add("rebuilds_key_changed", 1)
			rebuild()
		}
		if r.WantSample() && undone > 3 {
			r.Sample(map[string]interface{}{"history": st.Path, "op": op, "status": res.Status, "task_kinds": res.Kinds, "task_final": res.Final})
		}
		return res, false
	}

	withTriggers := r.Thorough() || st.Tag == "full" || st.Tag == "config-per-revision"
	if st.A.RIT != "" {
		r.Distinct("state_with_inhibited_mark", st.Key)
	}
	for oi, op := range c10OpsUnderTest(st.A, r.Thorough()) {
		if oi != onlyOp {
			continue
		}
		limit := -1
		for k := 0; limit < 0 || k <= limit; k++ {
			op.F, op.T = k+1, ""
			res, stop := runCase(op)
			if stop {
				break
			}
			limit = res.NTasks
			if res.ReIdx >= 0 {
				limit = res.ReIdx
			}
			r.Max("max_failure_points", int64(limit+1))
		}
		if limit < 0 {
			continue
		}
		// the change itself writes configuration (as a hook would) right after link-snap / after the configure
		// hook, and fails at every later splice point
		for _, w := range []string{"link", "configure"} {
			if st.Tag == c10TagInhibited {
				break // twin of a state checked in full: splice points only
			}
			op.T, op.W = "", w
			first := limit
			for k := limit; k >= first && k > 0; k-- {
				op.F = k + 1
				res, stop := runCase(op)
				if stop {
					break
				}
				if k == limit {
					first = res.WIdx + 1
				}
			}
		}
		op.W = ""
		if !withTriggers {
			continue
		}
		for _, t := range c10Triggers(op.K) {
			op.F, op.T = 0, t
			runCase(op)
		}
	}
}

const c10Rule = "states: breadth-first over the generating alphabet to the depth bound, deduplicated on the canonical state key; cases: every state x every operation under test x every splice point 0..check-rerefresh (error-trigger joined to all lanes) + backend triggers; non-trivial = the failure struck after at least one task had completed (something was undone) or a mid-task trigger fired"

func (s *verifC10Suite) TestVerifC10(c *C) {
	r := eng.Start("C10", "model_checking", 300*time.Second, 14*time.Minute) // sized for ~30 s on 16 idle cores; the soft budget leaves room for a loaded machine
	vInitTmp("C10")
	vPMapWorker(map[string]func(string) string{"expand": vExpandFn(c)})
	r.Assume("fake backend (fakeSnappyBackend) and fake store of the package's own test fixture stand for the file system and the store; the world (mounted revisions, current link, aliases) is folded from the backend's operation log, unlink removes the current link whatever it points to (as backend.UnlinkSnap does)",
		"hooks (configure, install, refresh, health) are no-ops in the fixture: configuration only changes through set-config and the per-revision save/restore of link-snap",
		"state key merges fixtures that are equal up to a renaming of revisions and up to clock values: snapstate compares store revisions only for equality",
		"sequential settle: one change at a time, handlers complete in the order the runner starts them (interleavings are C01-C04)",
		"failed operations that restore the complete state key are followed by the next case on the same fixture (the history then contains the earlier failed operations); every reported mismatch is re-run 3x from a fresh fixture, on the minimal history first")
	cr := &c10Runner{r: r, c: c, reported: map[string]bool{}}

	if rc := r.ReplayCase(); rc != nil {
		var cas c10Case
		if err := json.Unmarshal(rc, &cas); err != nil {
			eng.HarnessError("bad replay case: %v", err)
		}
		f, pres := vReplay(c, cas.Path)
		for i, x := range pres {
			fmt.Printf("history %d %s -> %s %s\n", i, cas.Path.Ops[i], x.Status, x.Err)
		}
		res, diffs, pre, post, preW, postW := c10RunOne(f, vSnapA, cas.Op)
		f.close()
		fmt.Printf("operation under test %s -> change %s (%s)\n  tasks %v\n  final %v\n  discarded %v\n", cas.Op, res.Status, res.ChgErr, res.Kinds, res.Final, res.Disc)
		fmt.Printf("before: %s\n        %s\nafter:  %s\n        %s\n", eng.JSON(pre), eng.JSON(preW), eng.JSON(post), eng.JSON(postW))
		if res.Status != "Error" || len(diffs) > 0 {
			field := "status"
			var texts []string
			for _, d := range diffs {
				texts = append(texts, d.Text)
			}
			if res.Status == "Error" {
				field = diffs[0].Field
			}
			r.Violation(c10Key(cas.Op, pre, res, field), strings.Join(texts, "; "), cas)
		}
		r.Add("evaluations", 1)
		vFinish(r, "replay of one stored case")
	}

	// generation plan: (root history, alphabet, depth). The quick tier replaces the deep breadth-first
	// generation of the shape alphabet by two canned root histories that lead straight to the deep shapes.
	type genPlan struct {
		Name  string `json:"name"`
		Root  []vOp  `json:"root"`
		Shape bool   `json:"shape_alphabet"`
		Depth int    `json:"depth"`
	}
	rootKept4 := []vOp{{K: "set-retain", V: "4"}, {K: "install"}, {K: "refresh-new"}, {K: "refresh-new"}, {K: "refresh-new"}, {K: "set-retain", V: ""}}
	rootConfig := []vOp{{K: "install"}, {K: "set-config"}, {K: "refresh-new"}, {K: "set-config"}}
	// sideloaded (local) revisions: x1, x2 kept with x1 current; a local revision kept below a store revision
	// (the generating alphabets themselves stay store-only: local x store shapes would multiply the state count)
	rootLocal := []vOp{{K: "sideload"}, {K: "sideload"}, {K: "revert-to", P: 0}}
	rootLocalStore := []vOp{{K: "sideload"}, {K: "refresh-new"}}
	var plans []genPlan
	if r.Quick() {
		plans = []genPlan{{"kept4-retain-lowered", rootKept4, true, 1}, {"config-per-revision", rootConfig, false, 0}, {"local-revisions", rootLocal, true, 0}, {"local-below-store", rootLocalStore, true, 0}, {"full", nil, false, 3}}
	} else {
		plans = []genPlan{{"full", nil, false, 5}, {"shape", nil, true, 7}, {"local-revisions", rootLocal, true, 2}, {"local-below-store", rootLocalStore, true, 2}}
	}
	if v := os.Getenv("VERIF_C10_DEPTH"); v != "" { // calibration aid: "full,shape" depths from the empty root
		var d1, d2 int
		fmt.Sscanf(v, "%d,%d", &d1, &d2)
		plans = []genPlan{{"full", nil, false, d1}, {"shape", nil, true, d2}}
	}
	statesFile := filepath.Join(eng.WorkDir(), "pmap", "C10", "states-"+r.Tier+".json")
	var states []vState
	if os.Getenv("VERIF_SHARD") == "" {
		t0 := time.Now()
		var trans int
		seen := map[string]bool{}
		for _, pl := range plans {
			gen := vGenFull(r.Thorough())
			if pl.Shape {
				gen = vGenShape
			}
			more, t2 := vBFS("C10", c, []vPath{{Ops: pl.Root}}, gen, pl.Depth, 16)
			trans += t2
			for _, s := range more {
				if !seen[s.Key] {
					seen[s.Key] = true
					s.Tag = pl.Name
					states = append(states, s)
				}
			}
		}
		// quick tier: the full alphabet has no inhibited-refresh mark (it would double the breadth-first
		// generation), so every installed state generated above except the 4-kept-revisions family gets a twin
		// "same history, then an earlier refresh was held back because the snap was running" (RefreshInhibitedTime
		// set). The twins are checked with every operation under test x every splice point (no written-config
		// variants, no backend triggers: those are independent of the mark).
		inhibitedTwins := 0
		if r.Quick() && os.Getenv("VERIF_C10_DEPTH") == "" {
			var fr []vState
			depthOf := map[string]int{}
			for _, s := range states {
				if s.A.Installed && s.A.RIT == "" && s.Tag != "kept4-retain-lowered" {
					fr = append(fr, s)
					depthOf[eng.JSON(s.Path.Ops)] = s.Depth
				}
			}
			tw, t2 := vBFSFrom("C10", c, fr, seen, func(vState) []vOp { return []vOp{{K: "inhibit"}} }, 0, 1, 16)
			trans += t2
			var twins []vState
			for _, s := range tw {
				if s.A.RIT == "" {
					eng.HarnessError("inhibit left RefreshInhibitedTime unset: %s", eng.JSON(s.Path))
				}
				s.Depth = depthOf[eng.JSON(s.Path.Ops[:len(s.Path.Ops)-1])] + 1
				s.Tag = c10TagInhibited
				twins = append(twins, s)
				inhibitedTwins++
			}
			// the twins are the cheapest family (splice points only): they are checked first, so that a time cap on
			// a loaded machine cuts the tail of the large families, not a whole family
			states = append(twins, states...)
		}
		os.MkdirAll(filepath.Dir(statesFile), 0755)
		if err := os.WriteFile(statesFile, []byte(eng.JSON(states)), 0644); err != nil {
			eng.HarnessError("cannot write %s: %v", statesFile, err)
		}
		r.Add("states", int64(len(states)))
		r.Add("transitions", int64(trans))
		byDepth := map[string]int{}
		for _, s := range states {
			byDepth[fmt.Sprint(s.Depth)]++
		}
		r.Info("bounds", map[string]interface{}{"generation_plans": plans, "states_by_depth_below_root": byDepth, "generation_seconds": int(time.Since(t0).Seconds()), "inhibited_twin_states": inhibitedTwins})
		fmt.Printf("C10: %d states %v in %v\n", len(states), byDepth, time.Since(t0))
		if os.Getenv("VERIF_C10_LIST") != "" {
			for _, s := range states {
				fmt.Println(s.Depth, s.Key)
			}
		}
		if os.Getenv("VERIF_C10_GENONLY") != "" {
			r.Add("evaluations", 1)
			vFinish(r, "generation only")
		}
	} else {
		b, err := os.ReadFile(statesFile)
		if err != nil || json.Unmarshal(b, &states) != nil {
			eng.HarnessError("cannot read %s: %v", statesFile, err)
		}
	}
	vSetDeadline(r, 300*time.Second, 14*time.Minute)
	if r.Sharded(16) {
		os.Remove(statesFile)
		vFinish(r, c10Rule)
	}
	// work items are (state, operation under test) pairs, dealt round-robin to the shards
	done, item := 0, 0
	checked := map[int]bool{}
	for si, st := range states {
		for oi := range c10OpsUnderTest(st.A, r.Thorough()) {
			item++
			if !r.Mine(item) {
				continue
			}
			if vTimeUp(r) {
				r.Cap("time", fmt.Sprintf("shard stopped after %d of its (state, operation) items (breadth-first order)", done))
				vFinish(r, c10Rule)
			}
			cr.checkState(st, oi)
			done++
			if !checked[si] {
				checked[si] = true
				r.Distinct("state_checked", fmt.Sprint(si))
			}
		}
	}
	vFinish(r, c10Rule)
}
