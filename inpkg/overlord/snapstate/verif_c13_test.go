//go:build verif

// C13 — revert switches to a kept revision in place and blocks the reverted-from ones.
//
// States: every distinct state of one snap reachable with at most D operations of the full generating
// alphabet (shared with C10). In every state every revert request: RevertToRevision to each kept position
// (including the current one), to a revision that is not kept, and the default Revert, each with flags
// {none, RevertStatus NotBlocked}. Oracle: a reference model of the statement (refusal condition, order of
// kept revisions, new current, no data copy, configuration of the target's snapshot, Block()).
package snapstate_test

import (
	"encoding/json"
	"fmt"
	"os"
	"path/filepath"
	"strings"
	"time"

	. "gopkg.in/check.v1"

	eng "github.com/snapcore/snapd/verifengine"
)

type verifC13Suite struct{}

var _ = Suite(&verifC13Suite{})

type c13Case struct {
	Path  vPath    `json:"path"`
	Op    vOp      `json:"op"`
	Pre   *vSnap   `json:"pre,omitempty"`
	Post  *vSnap   `json:"post,omitempty"`
	Res   *vRes    `json:"result,omitempty"`
	Diffs []string `json:"diffs,omitempty"`
}

// c13Requests lists the revert requests for a state with n kept revisions.
func c13Requests(a vSnap) []vOp {
	var ops []vOp
	for _, nb := range []bool{false, true} {
		ops = append(ops, vOp{K: "revert", NB: nb})
		for p := 0; p <= len(a.Seq); p++ { // p == len: a revision that is not kept
			ops = append(ops, vOp{K: "revert-to", P: p, NB: nb})
		}
	}
	return ops
}

type c13Expect struct {
	Refused bool
	Why     string
	Target  int
	Block   []int
	RS      map[int]string
	Config  string
}

// c13Reference is the reference model of the statement.
func c13Reference(pre vSnap, op vOp) c13Expect {
	var e c13Expect
	ci := vIndexOf(pre.Seq, pre.Cur)
	ti := op.P
	if op.K == "revert" {
		ti = ci - 1
		if !pre.Installed || ci <= 0 {
			return c13Expect{Refused: true, Why: "no previous revision"}
		}
	}
	switch {
	case !pre.Installed:
		return c13Expect{Refused: true, Why: "not installed"}
	case ti < 0 || ti >= len(pre.Seq):
		return c13Expect{Refused: true, Why: "revision not kept"}
	case ti == ci:
		return c13Expect{Refused: true, Why: "already current"}
	case !pre.Active:
		return c13Expect{Refused: true, Why: "snap disabled"}
	}
	e.Target = pre.Seq[ti]
	e.RS = map[int]string{}
	for k, v := range pre.RS {
		e.RS[k] = v
	}
	if op.NB {
		e.RS[pre.Cur] = "1" // NotBlocked
	} else {
		delete(e.RS, pre.Cur)
	}
	for _, r := range pre.Seq[ti+1:] {
		if e.RS[r] != "1" {
			e.Block = append(e.Block, r)
		}
	}
	e.Config = pre.Config
	if c, ok := pre.RevConfig[e.Target]; ok {
		e.Config = c
	}
	return e
}

func c13Where(pre vSnap, op vOp) string {
	ci := vIndexOf(pre.Seq, pre.Cur)
	ti := op.P
	if op.K == "revert" {
		return "default"
	}
	switch {
	case ti >= len(pre.Seq):
		return "not-kept"
	case ti == ci:
		return "current"
	case ti < ci:
		return "earlier"
	}
	return "later"
}

// c13Check runs one revert request on the fixture and compares with the reference.
func c13Check(f *vFix, op vOp) (vRes, vSnap, vSnap, []string, bool) {
	name := vSnapA
	pre, preW := f.observe(name), f.world()
	preKey, _, _ := f.vStateKey()
	n0 := f.opCount()
	res := f.vRun(op)
	post, postW := f.observe(name), f.world()
	exp := c13Reference(pre, op)
	var d []string
	add := func(field string, want, got interface{}) {
		if jw, jg := eng.JSON(want), eng.JSON(got); jw != jg {
			d = append(d, fmt.Sprintf("%s: expected %s got %s", field, jw, jg))
		}
	}
	if exp.Refused != res.Rejected {
		d = append(d, fmt.Sprintf("refusal: expected refused=%v (%s) got refused=%v (%s)", exp.Refused, exp.Why, res.Rejected, res.Err))
	}
	if res.Rejected {
		if k, _, _ := f.vStateKey(); k != preKey {
			d = append(d, fmt.Sprintf("refused-with-effect: state changed from %s to %s", preKey, k))
		}
		return res, pre, post, d, false
	}
	if exp.Refused {
		return res, pre, post, d, true
	}
	add("change-status", "Done", res.Status)
	add("sequence-order", pre.Seq, post.Seq)
	add("current", exp.Target, post.Cur)
	add("active", true, post.Active)
	for _, o := range f.opsSince(n0) {
		if strings.HasPrefix(o.op, "copy-data") {
			n, rv := vRevFromMountDir(o.path) // not the path itself: it contains the fixture's temporary root
			d = append(d, fmt.Sprintf("data-copied: backend operation %s for %s revision %d", o.op, n, rv))
		}
	}
	add("config", exp.Config, post.Config)
	add("block", exp.Block, post.Block)
	add("revert-status", exp.RS, vMapWithout(post.RS, nil))
	add("mounted", preW.Mounted[name], postW.Mounted[name])
	add("link", exp.Target, postW.Link[name])
	return res, pre, post, d, true
}

func c13Key(diff string, pre vSnap, op vOp) string {
	k := strings.SplitN(diff, ":", 2)[0] + ":" + op.K
	if op.NB {
		k += "+nb"
	}
	return k + ":" + c13Where(pre, op)
}

const c13Rule = "states: breadth-first over the full generating alphabet to the depth bound, deduplicated on the canonical state key; in every state every revert request (default, each kept position incl. current, a revision not kept) x {blocking, not-blocked}, each on a fresh replay of the state's path; non-trivial = requests that were accepted and ran a change"

func (s *verifC13Suite) TestVerifC13(c *C) {
	r := eng.Start("C13", "model_checking", 300*time.Second, 14*time.Minute)
	vInitTmp("C13")
	vPMapWorker(map[string]func(string) string{"expand": vExpandFn(c)})
	r.Assume("fake backend/store of the package's fixture stand for the system (copy-data is observed in the backend log); hooks are no-ops, so the configuration after a revert is exactly what link-snap's per-revision restore leaves",
		"reference for Block(): revisions after the new current one, except those whose RevertStatus is NotBlocked; a not-blocking revert marks the reverted-from revision NotBlocked, a blocking one clears that mark (snapmgr.go SnapState.Block / handlers.go doLinkSnap)",
		"state key merges fixtures equal up to renaming of revisions and clock values; sequential settle")

	if rc := r.ReplayCase(); rc != nil {
		var cas c13Case
		if err := json.Unmarshal(rc, &cas); err != nil {
			eng.HarnessError("bad replay case: %v", err)
		}
		f, pres := vReplay(c, cas.Path)
		for i, x := range pres {
			fmt.Printf("history %d %s -> %s %s\n", i, cas.Path.Ops[i], x.Status, x.Err)
		}
		res, pre, post, diffs, _ := c13Check(f, cas.Op)
		f.close()
		fmt.Printf("request %s -> refused=%v %s change=%s\nbefore: %s\nafter:  %s\nreference: %s\ndiffs: %v\n", cas.Op, res.Rejected, res.Err, res.Status, eng.JSON(pre), eng.JSON(post), eng.JSON(c13Reference(pre, cas.Op)), diffs)
		for _, d := range diffs {
			r.Violation(c13Key(d, pre, cas.Op), d, cas)
		}
		r.Add("evaluations", 1)
		vFinish(r, "replay of one stored case")
	}

	depth := r.Pick(4, 5)
	if v := os.Getenv("VERIF_C13_DEPTH"); v != "" {
		fmt.Sscanf(v, "%d", &depth)
	}
	statesFile := filepath.Join(eng.WorkDir(), "pmap", "C13", "states-"+r.Tier+".json")
	var states []vState
	if os.Getenv("VERIF_SHARD") == "" {
		t0 := time.Now()
		var trans int
		// three roots: a classic device (refresh.retain default 2), a core device (default 3) and refresh.retain=4 from the
		// start — with the latter two, three and four kept revisions (a NotBlocked revision between the current one and
		// a blocked one) are inside the quick depth
		states, trans = vBFS("C13", c, []vPath{{}, {Cfg: vCfg{Core: true}}, {Cfg: vCfg{Retain: "4"}}}, vGenFull(r.Thorough()), depth, 16)
		os.MkdirAll(filepath.Dir(statesFile), 0755)
		if err := os.WriteFile(statesFile, []byte(eng.JSON(states)), 0644); err != nil {
			eng.HarnessError("cannot write %s: %v", statesFile, err)
		}
		r.Add("states", int64(len(states)))
		r.Add("transitions", int64(trans))
		byDepth := map[string]int{}
		for _, s := range states {
			byDepth[fmt.Sprint(s.Depth)]++
		}
		r.Info("bounds", map[string]interface{}{"generation_depth": depth, "states_by_depth": byDepth, "generation_seconds": int(time.Since(t0).Seconds())})
		fmt.Printf("C13: %d states %v in %v\n", len(states), byDepth, time.Since(t0))
	} else {
		b, err := os.ReadFile(statesFile)
		if err != nil || json.Unmarshal(b, &states) != nil {
			eng.HarnessError("cannot read %s: %v", statesFile, err)
		}
	}
	vSetDeadline(r, 300*time.Second, 14*time.Minute)
	if r.Sharded(16) {
		os.Remove(statesFile)
		vFinish(r, c13Rule)
	}
	done := 0
	for i, st := range states {
		if !r.Mine(i) {
			continue
		}
		if vTimeUp(r) {
			r.Cap("time", fmt.Sprintf("shard stopped after %d of its states (breadth-first order)", done))
			break
		}
		var f *vFix
		for _, op := range c13Requests(st.A) {
			if f == nil {
				f, _ = vReplay(c, st.Path)
				if k, _, _ := f.vStateKey(); k != st.Key {
					eng.HarnessError("replay diverged: path %s reached\n  %s\nbut was recorded as\n  %s", eng.JSON(st.Path), k, st.Key)
				}
			}
			r.NoteCurrent(eng.JSON(c13Case{Path: st.Path, Op: op}))
			res, pre, post, diffs, changed := c13Check(f, op)
			r.Add("evaluations", 1)
			r.Add("transitions", 1)
			r.Add("traces_validated_against_impl", 1)
			if !res.Rejected {
				r.Add("distinct_nontrivial", 1)
			}
			oc := "refused"
			if !res.Rejected {
				oc = "accepted"
			}
			nb := ""
			if op.NB {
				nb = "+nb"
			}
			r.Distinct("outcome", fmt.Sprintf("%s%s:%s:%s:n=%d:active=%v", op.K, nb, c13Where(pre, op), oc, len(pre.Seq), pre.Active))
			if len(diffs) > 0 {
				// every request runs on a fresh replay or on a fixture whose key was verified unchanged; re-run once more to be sure
				f.close()
				f, _ = vReplay(c, st.Path)
				_, _, _, d2, _ := c13Check(f, op)
				changed = true
				if eng.JSON(d2) == eng.JSON(diffs) {
					for _, d := range diffs {
						r.Violation(c13Key(d, pre, op), fmt.Sprintf("%s in history %s: %s", op, eng.JSON(st.Path.Ops), d), c13Case{Path: st.Path, Op: op, Pre: &pre, Post: &post, Res: &res, Diffs: diffs})
					}
				} else {
					r.Add("unreproducible_mismatches", 1)
					r.Cap("unreproducible", eng.JSON(c13Case{Path: st.Path, Op: op, Diffs: diffs}))
				}
			} else if !res.Rejected && r.WantSample() {
				r.Sample(map[string]interface{}{"history": st.Path, "request": op, "before": pre, "after": post})
			}
			if changed {
				f.close()
				f = nil
			}
		}
		if f != nil {
			f.close()
		}
		done++
	}
	vFinish(r, c13Rule)
}
