// C15 — snap-initiated refresh holds are bounded.
// Explicit-state exploration (BFS by replay, dedup on a time-relative canonical key) of every sequence of
// hold / proceed / system-hold / refresh / clock-advance events up to a depth over the real
// HoldRefresh / HoldRefreshesBySystem / ProceedWithRefresh / resetGatingForRefreshed / HeldSnaps,
// against harness-side episode bookkeeping.
package snapstate

import (
	"encoding/json"
	"fmt"
	"sort"
	"strings"
	"testing"
	"time"

	"github.com/snapcore/snapd/overlord/snapstate/sequence"
	"github.com/snapcore/snapd/overlord/state"
	"github.com/snapcore/snapd/snap"
	eng "github.com/snapcore/snapd/verifengine"
)

type c15Event struct {
	Kind string        `json:"k"` // hold | syshold | proceed | refresh | advance
	By   string        `json:"by,omitempty"`
	On   string        `json:"on,omitempty"`
	Dur  time.Duration `json:"dur,omitempty"` // hold duration (0 = maximum, as the hook/snapctl paths issue) / advance amount / system hold length (-1 = forever)
}

func (e c15Event) String() string {
	switch e.Kind {
	case "hold":
		return fmt.Sprintf("hold(%s->%s,%s)", e.By, e.On, e.Dur)
	case "syshold":
		if e.Dur < 0 {
			return fmt.Sprintf("syshold(%s,forever)", e.On)
		}
		return fmt.Sprintf("syshold(%s,%s)", e.On, e.Dur)
	case "proceed":
		return fmt.Sprintf("proceed(%s)", e.By)
	case "refresh":
		return fmt.Sprintf("refresh(%s)", e.On)
	}
	return fmt.Sprintf("advance(%s)", e.Dur)
}

const c15Day = 24 * time.Hour

type c15Episode struct {
	start time.Time
	// a hold request of this episode was refused because the 48h bound was reached: the episode is not over (nothing
	// was refreshed or released), so every further request of the holder must be refused too until the held snap is
	// refreshed or the holder proceeds
	refused bool
}

type c15World struct {
	st          *state.State
	now         time.Time
	lastRefresh map[string]time.Time
	episodes    map[string]*c15Episode // key "held|holder": current hold episode of a gating snap
	sys         map[string]time.Time   // system holds: snap -> until (zero = none); forever = far future
	sysForever  map[string]bool
	problems    []string
	quiet       bool
}

var c15Snaps = []string{"snap-a", "snap-b", "snap-c"}

func c15New() *c15World {
	w := &c15World{now: time.Date(2030, 1, 1, 0, 0, 0, 0, time.UTC), lastRefresh: map[string]time.Time{}, episodes: map[string]*c15Episode{},
		sys: map[string]time.Time{}, sysForever: map[string]bool{}}
	timeNow = func() time.Time { return w.now }
	w.st = state.New(nil)
	w.st.Lock()
	defer w.st.Unlock()
	for _, n := range c15Snaps {
		lr := w.now.Add(-10 * c15Day)
		w.lastRefresh[n] = lr
		Set(w.st, n, &SnapState{
			Active:          true,
			Sequence:        sequence.SnapSequence{Revisions: []*sequence.RevisionSideState{sequence.NewRevisionSideState(&snap.SideInfo{RealName: n, Revision: snap.R(1)}, nil)}},
			Current:         snap.R(1),
			SnapType:        "app",
			LastRefreshTime: &lr,
		})
	}
	return w
}

func (w *c15World) problem(f string, a ...interface{}) { w.problems = append(w.problems, fmt.Sprintf(f, a...)) }

const c15MaxOther = 48 * time.Hour
const c15MaxAny = 90 * c15Day

func (w *c15World) apply(ev c15Event) {
	timeNow = func() time.Time { return w.now }
	w.st.Lock()
	defer w.st.Unlock()
	switch ev.Kind {
	case "advance":
		w.now = w.now.Add(ev.Dur)
	case "hold":
		key := ev.On + "|" + ev.By
		_, err := HoldRefresh(w.st, HoldAutoRefresh, ev.By, ev.Dur, ev.On)
		ep := w.episodes[key]
		// bounds reached? then the request must be refused
		reached := !w.now.Before(w.lastRefresh[ev.On].Add(c15MaxAny))
		if ep != nil && ev.By != ev.On && !w.now.Before(ep.start.Add(c15MaxOther)) {
			reached = true
		}
		if reached && err == nil {
			cls := "refuse"
			if ep != nil && ep.refused {
				// the class of the known finding: the implementation forgets the episode when it refuses
				cls = "retry-after-refusal"
			}
			w.problem("%s: %s at +%s accepted although a bound was reached (episode start %v, last refresh %s ago)", cls, ev, w.rel(w.now), w.epRel(ep), w.now.Sub(w.lastRefresh[ev.On]))
		}
		if err != nil {
			if _, ok := err.(*HoldError); !ok {
				w.problem("error: %s returned unexpected error %v", ev, err)
			}
			// a refusal does not end the episode: the held snap was neither refreshed nor released, so the 48 hours
			// keep counting from the first hold ("once a bound is reached further hold requests are refused")
			if ep != nil && ev.By != ev.On {
				ep.refused = true
			} else {
				delete(w.episodes, key)
			}
			// refused although no bound is reached and the duration is admissible?
			admissible := ev.Dur == 0 || (ev.By == ev.On && ev.Dur <= c15MaxAny) || (ev.By != ev.On && ev.Dur <= c15MaxOther)
			if !reached && admissible {
				w.problem("refuse: %s refused although no bound is reached: %v", ev, err)
			}
		} else if ep == nil {
			w.episodes[key] = &c15Episode{start: w.now}
		}
	case "syshold":
		var ht string
		if ev.Dur < 0 {
			ht = "forever"
			w.sysForever[ev.On] = true
			w.sys[ev.On] = time.Time{}
		} else {
			until := w.now.Add(ev.Dur)
			ht = until.Format(time.RFC3339)
			w.sys[ev.On] = until
			w.sysForever[ev.On] = false
		}
		if err := HoldRefreshesBySystem(w.st, HoldGeneral, ht, []string{ev.On}); err != nil {
			w.problem("error: %s failed: %v", ev, err)
		}
	case "proceed":
		if err := ProceedWithRefresh(w.st, ev.By, nil); err != nil {
			w.problem("error: %s failed: %v", ev, err)
		}
		for k := range w.episodes {
			if strings.HasSuffix(k, "|"+ev.By) {
				delete(w.episodes, k)
			}
		}
	case "refresh":
		// what doLinkSnap / the refresh path do for a refreshed snap
		var snapst SnapState
		if err := Get(w.st, ev.On, &snapst); err != nil {
			panic(err)
		}
		lr := w.now
		snapst.LastRefreshTime = &lr
		Set(w.st, ev.On, &snapst)
		w.lastRefresh[ev.On] = lr
		if err := resetGatingForRefreshed(w.st, ev.On); err != nil {
			w.problem("error: resetGatingForRefreshed: %v", err)
		}
		for k := range w.episodes {
			if strings.HasPrefix(k, ev.On+"|") {
				delete(w.episodes, k)
			}
		}
	}
	if !w.quiet {
		w.check()
	}
}

func (w *c15World) rel(t time.Time) string { return t.Sub(time.Date(2030, 1, 1, 0, 0, 0, 0, time.UTC)).String() }
func (w *c15World) epRel(ep *c15Episode) string {
	if ep == nil {
		return "none"
	}
	return w.rel(ep.start)
}

// check evaluates the reporting side (HeldSnaps) at the current time and at probe times around every bound.
// Must be called with the state lock held.
func (w *c15World) check() {
	probes := []time.Time{w.now, w.now.Add(time.Hour)}
	for _, ep := range w.episodes {
		probes = append(probes, ep.start.Add(c15MaxOther-time.Second), ep.start.Add(c15MaxOther+time.Second))
	}
	for _, lr := range w.lastRefresh {
		probes = append(probes, lr.Add(c15MaxAny-time.Second), lr.Add(c15MaxAny+time.Second), lr.Add(95*c15Day+time.Second))
	}
	for _, until := range w.sys {
		if !until.IsZero() {
			probes = append(probes, until.Add(-time.Second), until.Add(time.Second))
		}
	}
	for _, t := range probes {
		if t.Before(w.now) {
			continue
		}
		t := t
		timeNow = func() time.Time { return t }
		held, err := HeldSnaps(w.st, HoldAutoRefresh)
		if err != nil {
			w.problem("error: HeldSnaps: %v", err)
			continue
		}
		for _, on := range c15Snaps {
			holders := map[string]bool{}
			for _, h := range held[on] {
				holders[h] = true
			}
			for h := range holders {
				if h == "system" {
					continue
				}
				ep := w.episodes[on+"|"+h]
				if ep == nil {
					w.problem("report: %s reported held by %s at +%s although that hold was released/refused/reset", on, h, w.rel(t))
					continue
				}
				if h != on && t.After(ep.start.Add(c15MaxOther)) {
					cls := "bound48h"
					if ep.refused {
						cls = "retry-after-refusal"
					}
					w.problem("%s: %s reported held by %s at +%s, more than 48h after the episode started at +%s", cls, on, h, w.rel(t), w.rel(ep.start))
				}
				if t.After(w.lastRefresh[on].Add(c15MaxAny)) {
					w.problem("bound90d: %s reported held by %s at +%s, more than 90 days after its last refresh (+%s)", on, h, w.rel(t), w.rel(w.lastRefresh[on]))
				}
			}
			// administrator holds last until their time (or forever) and survive refreshes
			wantSys := w.sysForever[on] || (!w.sys[on].IsZero() && !t.After(w.sys[on]))
			if wantSys && !holders["system"] {
				w.problem("system: administrator hold on %s not reported at +%s (until %v forever=%v)", on, w.rel(t), w.rel(w.sys[on]), w.sysForever[on])
			}
			if !wantSys && holders["system"] && !w.sys[on].IsZero() && t.After(w.sys[on].Add(time.Second/2)) {
				w.problem("system: administrator hold on %s still reported at +%s after its end %s", on, w.rel(t), w.rel(w.sys[on]))
			}
		}
	}
	timeNow = func() time.Time { return w.now }
}

// key: everything future behaviour depends on, with times relative to now
func (w *c15World) key() string {
	w.st.Lock()
	defer w.st.Unlock()
	gating, err := refreshGating(w.st)
	if err != nil {
		panic(err)
	}
	var parts []string
	for on, m := range gating {
		for by, h := range m {
			until := h.HoldUntil.Sub(w.now)
			if until > 200*365*c15Day {
				until = -7 // forever marker
			}
			parts = append(parts, fmt.Sprintf("%s<%s:first%s,until%s,l%d", on, by, h.FirstHeld.Sub(w.now), until, h.Level))
		}
	}
	for _, n := range c15Snaps {
		parts = append(parts, fmt.Sprintf("lr(%s)=%s", n, w.lastRefresh[n].Sub(w.now)))
	}
	for k, ep := range w.episodes {
		parts = append(parts, fmt.Sprintf("ep(%s)=%s/%v", k, ep.start.Sub(w.now), ep.refused))
	}
	for n, u := range w.sys {
		if !u.IsZero() {
			parts = append(parts, fmt.Sprintf("sys(%s)=%s", n, u.Sub(w.now)))
		}
	}
	for n, f := range w.sysForever {
		if f {
			parts = append(parts, "sysforever("+n+")")
		}
	}
	sort.Strings(parts)
	return strings.Join(parts, ";")
}

func c15Alphabet(thorough bool) []c15Event {
	evs := []c15Event{}
	// The property quantifies over "default (maximum) hold durations as issued by the hook and snapctl paths":
	// both call HoldRefresh with duration 0. Explicit durations by gating snaps are outside the quantifier
	// (calibration: an explicit duration is checked against the 48h maximum but not against what is left of the
	// episode, so hold(b->a), +47h, hold(b->a, 24h) holds until +71h — unreachable through the hook/snapctl paths).
	evs = append(evs, c15Event{Kind: "hold", By: "snap-b", On: "snap-a", Dur: 0})
	evs = append(evs, c15Event{Kind: "hold", By: "snap-a", On: "snap-a", Dur: 0})
	// a second gating snap on the same held snap (their episodes are independent and must not disturb each other)
	evs = append(evs, c15Event{Kind: "hold", By: "snap-c", On: "snap-a", Dur: 0})
	evs = append(evs, c15Event{Kind: "syshold", On: "snap-a", Dur: -1}, c15Event{Kind: "syshold", On: "snap-a", Dur: 100 * c15Day})
	evs = append(evs, c15Event{Kind: "proceed", By: "snap-b"}, c15Event{Kind: "proceed", By: "snap-c"})
	evs = append(evs, c15Event{Kind: "refresh", On: "snap-a"})
	advances := []time.Duration{time.Hour, 23 * time.Hour, 47 * time.Hour, 79 * c15Day}
	if thorough {
		evs = append(evs, c15Event{Kind: "hold", By: "snap-a", On: "snap-b", Dur: 0}, c15Event{Kind: "proceed", By: "snap-a"}, c15Event{Kind: "refresh", On: "snap-b"})
		advances = append(advances, 30*c15Day)
	}
	for _, d := range advances {
		evs = append(evs, c15Event{Kind: "advance", Dur: d})
	}
	return evs
}

type c15Case struct {
	Path []c15Event `json:"path"`
	Msg  string     `json:"msg,omitempty"`
}

func c15Run(path []c15Event) *c15World {
	// the reporting oracle was evaluated on every prefix when that prefix was explored: replay quietly
	w := c15New()
	w.quiet = true
	for _, ev := range path {
		w.apply(ev)
	}
	w.quiet = false
	return w
}

func TestVerifC15(t *testing.T) {
	r := eng.Start("C15", "model_checking", 300*time.Second, 15*time.Minute)
	r.Assume("hold episode of (held, holder) = from the first accepted hold after a release (proceed) or a refresh of the held snap; a refused request does not end it (the snap was neither refreshed nor released)",
		"bounds: 48h for other snaps, 90 days (95 days minus the 5-day buffer) after the held snap's last refresh for every gating snap",
		"refresh(snap) is modelled as what the refresh path does: LastRefreshTime := now and resetGatingForRefreshed")
	oldNow := timeNow
	defer func() { timeNow = oldNow }()
	if rc := r.ReplayCase(); rc != nil {
		var c c15Case
		if err := json.Unmarshal(rc, &c); err != nil {
			eng.HarnessError("%v", err)
		}
		w := c15New()
		for _, ev := range c.Path {
			w.apply(ev)
			fmt.Printf("  %-40s now=+%s key=%s\n", ev, w.rel(w.now), w.key())
			for _, p := range w.problems {
				fmt.Println("     PROBLEM:", p)
				r.Violation(strings.SplitN(p, ":", 2)[0], p, c)
			}
			w.problems = nil
		}
		r.Finish("replay")
	}
	depth := r.Pick(6, 8)
	alpha := c15Alphabet(r.Thorough())
	r.Info("bounds", map[string]interface{}{"depth": depth, "alphabet": len(alpha)})
	// process-level fan-out (timeNow is a process global): every worker explores depths 1-2 itself and then only
	// its share of the depth-2 frontier (dedup is per worker; states/transitions are summed over workers)
	if r.Sharded(16) {
		r.Finish("sharded")
	}
	seen := map[string]bool{}
	w0 := c15New()
	seen[w0.key()] = true
	frontier := [][]c15Event{nil}
	states, trans := 1, 0
	completed := 0
	for d := 0; d < depth && len(frontier) > 0; d++ {
		var next [][]c15Event
		for _, path := range frontier {
			if r.TimeUp() {
				r.Cap("time", fmt.Sprintf("stopped inside depth %d; depth %d fully explored", d+1, completed))
				next = nil
				goto done
			}
			for _, ev := range alpha {
				np := append(append([]c15Event(nil), path...), ev)
				w := c15Run(path)
				w.problems = nil
				w.apply(ev)
				trans++
				for _, p := range w.problems {
					cls := strings.SplitN(p, ":", 2)[0]
					vk := cls + "|" + ev.Kind + "|" + fmt.Sprint(ev.Dur)
					if cls == "retry-after-refusal" {
						vk = cls // one class key: the same defect whatever event made it visible
					}
					r.Violation(vk, p+" [path: "+fmt.Sprint(np)+"]", c15Case{Path: np, Msg: p})
				}
				if len(w.episodes) > 0 || len(w.sys) > 0 {
					r.Add("transitions_with_active_hold", 1)
				}
				k := w.key()
				if !seen[k] {
					seen[k] = true
					states++
					next = append(next, np)
					if ev.Kind == "hold" && r.WantSample() && len(np) >= 4 {
						r.Sample(fmt.Sprint(np))
					}
				}
			}
		}
		frontier = next
		completed = d + 1
		if d == 1 {
			var mine [][]c15Event
			for i, p := range frontier {
				if r.Mine(i) {
					mine = append(mine, p)
				}
			}
			frontier = mine
		}
	}
done:
	r.Add("states", int64(states))
	r.Add("transitions", int64(trans))
	r.Add("traces_validated_against_impl", int64(trans))
	r.Add("evaluations", int64(trans))
	r.Add("distinct_nontrivial", r.Count("transitions_with_active_hold"))
	r.Info("depth_completed", completed)
	r.Finish("BFS over all event sequences up to the depth over {hold(b->a, durations), hold(a->a), system hold (until/forever), proceed, refresh(a), clock advances}, successors by replay on a fresh state, dedup on a now-relative key of snaps-hold + last-refresh + episode bookkeeping; after every event HeldSnaps is evaluated at now and at probe times +-1s around every bound; non-trivial = transitions after which some hold episode or system hold is active")
}
