//go:build verif

// C12 — refresh keeps at most refresh.retain revisions and never discards ones in use.
//
// Histories of at most D operations over {refresh->new, sideload (local revision), refresh->kept r, revert->kept r, set refresh.retain to
// one of {unset, 2, 3, 5, "2", "4", 20}} after the install, on a classic device and a core device (app snap),
// and on a core device for the model's kernel snap with every boot in-use answer {kernel} / {kernel, try-kernel}
// over the kept revisions as an additional environment operation, and likewise for the UC16 OS snap "core"
// (type os, in-use answers {core} / {core, try-core}; refresh.retain settings {unset, 2}). Breadth-first with state deduplication;
// the oracle is evaluated after every settled refresh.
package snapstate_test

import (
	"encoding/json"
	"fmt"
	"os"
	"strconv"
	"strings"
	"time"

	. "gopkg.in/check.v1"

	eng "github.com/snapcore/snapd/verifengine"
)

type verifC12Suite struct{}

var _ = Suite(&verifC12Suite{})

type c12Case struct {
	Path vPath    `json:"path"`
	Viol []string `json:"violations,omitempty"`
	Pre  *vSnap   `json:"pre,omitempty"`
	Post *vSnap   `json:"post,omitempty"`
}

var c12RetainValues = []string{"", "2", "3", "5", `"2"`, `"4"`, "20"}

// c12RefRetain is the reference reading of the refresh.retain setting: a number, also as a legacy string;
// unset means the default (2 on classic, 3 on core).
func c12RefRetain(raw string, core bool) int {
	def := 2
	if core {
		def = 3
	}
	if raw == "" || raw == "null" {
		return def
	}
	var v interface{}
	if err := json.Unmarshal([]byte(raw), &v); err != nil {
		return def
	}
	switch x := v.(type) {
	case float64:
		if x >= 1 {
			return int(x)
		}
	case string:
		if n, err := strconv.Atoi(x); err == nil && n >= 1 {
			return n
		}
	}
	return def
}

type c12Pre struct {
	snap   vSnap
	retain string
	inUse  []int
	name   string
}

var c12Before c12Pre

// c12Oracle evaluates the statement after a settled refresh.
func c12Oracle(core bool, pre c12Pre, op vOp, res vRes, post vSnap) []string {
	// a sideload over an installed snap is a refresh to a new (local) revision: same garbage collection
	if op.K != "refresh-new" && op.K != "refresh-kept" && op.K != "sideload" {
		return nil
	}
	var v []string
	vExpandTags = append(vExpandTags, "refresh")
	if res.Status != "Done" {
		return []string{fmt.Sprintf("refresh-failed: change ended %s: %s", res.Status, res.ChgErr)}
	}
	R := c12RefRetain(pre.retain, core)
	if len(res.Disc) > 0 {
		vExpandTags = append(vExpandTags, "discarded")
	}
	if len(pre.inUse) > 0 {
		vExpandTags = append(vExpandTags, "inuse")
	}
	target := res.Target
	isNew := vIndexOf(pre.snap.Seq, target) < 0
	nb, na := len(pre.snap.Seq), len(post.Seq)
	// in-use revisions (other than the target) that survived
	extras := 0
	for _, u := range pre.inUse {
		if u != target && vIndexOf(post.Seq, u) >= 0 {
			extras++
		}
	}
	max := R
	if nb > max {
		max = nb
	}
	if na > max+extras {
		v = append(v, fmt.Sprintf("more-than-before-and-retain: %d kept after the refresh, retain %d (setting %q), %d before, %d in use", na, R, pre.retain, nb, extras))
	}
	if isNew && na > R+extras {
		v = append(v, fmt.Sprintf("new-revision-over-retain: %d kept after refreshing to new revision %d, retain %d (setting %q), %d in use", na, target, R, pre.retain, extras))
	}
	ci := vIndexOf(pre.snap.Seq, pre.snap.Cur)
	// revisions left over after the pre-refresh current must be gone, unless it is the target or it is in
	// use for booting (the in-use clause takes precedence: such a revision must survive, checked below)
	for _, r := range pre.snap.Seq[ci+1:] {
		if r != target && vIndexOf(pre.inUse, r) < 0 && vIndexOf(post.Seq, r) >= 0 {
			v = append(v, fmt.Sprintf("after-current-survived: revision %d was after the current one %d, is neither the target nor in use for booting, and survived (kept %v -> %v)", r, pre.snap.Cur, pre.snap.Seq, post.Seq))
		}
	}
	if post.Cur != target || vIndexOf(post.Seq, target) < 0 {
		v = append(v, fmt.Sprintf("target-not-current-and-kept: target %d, current %d, kept %v", target, post.Cur, post.Seq))
	}
	for _, u := range pre.inUse {
		if ui := vIndexOf(pre.snap.Seq, u); ui >= 0 && vIndexOf(post.Seq, u) < 0 {
			inv := "in-use-discarded" // by the normal garbage collection of old revisions
			if ui > ci {
				inv = "in-use-after-current-discarded" // by the clean-up of revisions left over after current
			}
			v = append(v, fmt.Sprintf("%s: revision %d is needed for booting and was discarded (kept %v -> %v, current was %d)", inv, u, pre.snap.Seq, post.Seq, pre.snap.Cur))
		}
	}
	return v
}

func c12Key(viol string, op vOp, cfg vCfg) string {
	dev := "classic"
	if cfg.Core {
		dev = "core"
	}
	if cfg.Kernel {
		dev += "-kernel"
	}
	if cfg.OS {
		dev += "-os"
	}
	return strings.SplitN(viol, ":", 2)[0] + ":" + op.K + ":" + dev
}

func c12Gen(st vState) []vOp { return c12GenRetain(st, c12RetainValues) }

// c12GenOS is the alphabet of the UC16 OS snap root ("core", type os, a boot participant on a core device like
// the kernel): the same operations and the same in-use answers as on the kernel root, with the refresh.retain
// settings cut down to {unset, 2} (the retain reading itself is covered on the other roots).
func c12GenOS(st vState) []vOp { return c12GenRetain(st, c12RetainValuesOS) }

var c12RetainValuesOS = []string{"", "2"}

func c12GenRetain(st vState, retainValues []string) []vOp {
	a := st.A
	if !a.Installed {
		return nil
	}
	ci := vIndexOf(a.Seq, a.Cur)
	ops := []vOp{{K: "refresh-new"}}
	for p := range a.Seq {
		if p != ci {
			ops = append(ops, vOp{K: "refresh-kept", P: p}, vOp{K: "revert-to", P: p})
		}
	}
	for _, rv := range retainValues {
		ops = append(ops, vOp{K: "set-retain", V: rv})
	}
	// boot snaps of the core device (the kernel snap; the OS snap "core" of a UC16 model): every in-use answer
	if st.Path.Cfg.Kernel || st.Path.Cfg.OS {
		for p := range a.Seq {
			ops = append(ops, vOp{K: "inuse", P: p})
			for q := p + 1; q < len(a.Seq); q++ {
				ops = append(ops, vOp{K: "inuse", P: p, V: fmt.Sprint(q)})
			}
		}
	}
	return ops
}

// c12GenLocal is the alphabet of the "-local" roots: store and sideloaded revisions mixed. sideload refreshes
// from a local file; snapd numbers the revision itself (x1, x2, …) and plans the garbage collection while the
// revision is still unset. refresh.retain stays at the device default (set-retain x local revisions would
// multiply the state count by ~6 for a mechanism that compares revisions only for equality).
func c12GenLocal(st vState) []vOp {
	a := st.A
	if !a.Installed {
		return nil
	}
	ci := vIndexOf(a.Seq, a.Cur)
	ops := []vOp{{K: "refresh-new"}, {K: "sideload"}}
	for p := range a.Seq {
		if p != ci {
			ops = append(ops, vOp{K: "refresh-kept", P: p}, vOp{K: "revert-to", P: p})
		}
	}
	return ops
}

const c12Rule = "all histories up to the depth bound over {refresh->new, refresh->each kept, revert->each kept, set refresh.retain in {unset,2,3,5,\"2\",\"4\",20}, boot in-use answer (kernel snap; OS snap core of type os, with set refresh.retain in {unset,2} only)} from an installed snap, per device root, states deduplicated on the canonical key (breadth-first, replay from a fresh fixture); on the -local roots the alphabet is {refresh->new (--amend when the current revision is a sideloaded one), sideload (refresh from a local file to a new local revision), refresh->each kept, revert->each kept} at the device's default retain; the oracle is evaluated after every settled refresh (sideloads included); non-trivial = refreshes in which at least one revision was discarded"

func (s *verifC12Suite) TestVerifC12(c *C) {
	r := eng.Start("C12", "model_checking", 300*time.Second, 14*time.Minute)
	vInitTmp("C12")
	vExpandBefore = func(f *vFix, op vOp) {
		name := f.nameOf(op.S)
		c12Before = c12Pre{snap: f.observe(name), retain: f.retainRaw(), inUse: append([]int(nil), f.inUse[name]...), name: name}
	}
	vExpandCheck = func(f *vFix, op vOp, res vRes) []string {
		post := f.observe(c12Before.name)
		return c12Oracle(f.cfg.Core, c12Before, op, res, post)
	}
	vPMapWorker(map[string]func(string) string{"expand": vExpandFn(c)})
	r.Assume("fake backend/store of the package's fixture; kept revisions are read from SnapState after the change settled",
		"boot in-use answers are given by setting snap_kernel/snap_try_kernel of the fixture's mock bootloader to kept revisions of the model's kernel snap, resp. snap_core/snap_try_core to kept revisions of the OS snap core (core device, UC16-style model); app snaps are never in use for booting",
		"reference reading of refresh.retain: a JSON number or a string holding one; unset = 2 on classic, 3 on core",
		"state key merges fixtures equal up to renaming of revisions and clock values; sequential settle")

	if rc := r.ReplayCase(); rc != nil {
		var cas c12Case
		if err := json.Unmarshal(rc, &cas); err != nil {
			eng.HarnessError("bad replay case: %v", err)
		}
		f := vNewFix(c, cas.Path.Cfg)
		for i, op := range cas.Path.Ops {
			vExpandBefore(f, op)
			res := f.vRun(op)
			viol := vExpandCheck(f, op, res)
			fmt.Printf("%d %s -> %s %s %s retain=%q in-use=%v\n   before %s\n   after  %s\n   oracle: %v\n", i, op, res.Status, res.Err, res.ChgErr, c12Before.retain, c12Before.inUse, eng.JSON(c12Before.snap), eng.JSON(f.observe(c12Before.name)), viol)
			for _, v := range viol {
				r.Violation(c12Key(v, op, cas.Path.Cfg), v, cas)
			}
		}
		f.close()
		r.Add("evaluations", int64(len(cas.Path.Ops)))
		vFinish(r, "replay of one stored path")
	}

	depth := r.Pick(5, 7)
	kdepth := r.Pick(4, 6)
	if v := os.Getenv("VERIF_C12_DEPTH"); v != "" {
		fmt.Sscanf(v, "%d,%d", &depth, &kdepth)
	}
	report := func(path vPath, op vOp, out vExpandOut) {
		np := vPath{Cfg: path.Cfg, Ops: append(append([]vOp(nil), path.Ops...), op)}
		for _, v := range out.Viol {
			r.Violation(c12Key(v, op, path.Cfg), fmt.Sprintf("after %s (history %s, cfg %s): %s", op, eng.JSON(path.Ops), eng.JSON(path.Cfg), v), c12Case{Path: np, Viol: out.Viol, Post: &out.A})
		}
	}
	vBFSViolation = report
	vBFSEach = func(path vPath, op vOp, out vExpandOut) {
		for _, t := range out.Tags {
			switch t {
			case "refresh":
				r.Add("evaluations", 1)
				r.Add("traces_validated_against_impl", 1)
				r.Distinct("outcome", fmt.Sprintf("%s:kept=%d:discarded=%d", op.K, len(out.A.Seq), len(out.Res.Disc)))
			case "discarded":
				r.Add("distinct_nontrivial", 1)
			case "inuse":
				r.Add("refreshes_with_in_use_answer", 1)
			}
		}
	}
	vBFSNotDone = func(path vPath, op vOp, out vExpandOut) {
		if len(out.Viol) == 0 {
			out.Viol = []string{fmt.Sprintf("change-failed: %s ended %s: %s", op.K, out.Res.Status, out.Res.ChgErr)}
			report(path, op, out)
		}
	}
	type root struct {
		Name  string `json:"name"`
		Path  vPath  `json:"path"`
		Depth int    `json:"depth"`
		gen   func(st vState) []vOp
	}
	ldepth := r.Pick(5, 7)
	roots := []root{
		{"classic-app", vPath{Cfg: vCfg{}, Ops: []vOp{{K: "install"}}}, depth, c12Gen},
		{"core-app", vPath{Cfg: vCfg{Core: true}, Ops: []vOp{{K: "install"}}}, depth, c12Gen},
		{"core-kernel", vPath{Cfg: vCfg{Core: true, Kernel: true}, Ops: []vOp{{K: "install"}, {K: "inuse", P: 0}}}, kdepth, c12Gen},
		{"core-os", vPath{Cfg: vCfg{Core: true, OS: true}, Ops: []vOp{{K: "inuse", P: 0}}}, kdepth, c12GenOS},
		{"classic-app-local", vPath{Cfg: vCfg{}, Ops: []vOp{{K: "sideload"}}}, ldepth, c12GenLocal},
		{"core-app-local", vPath{Cfg: vCfg{Core: true}, Ops: []vOp{{K: "sideload"}}}, ldepth, c12GenLocal},
	}
	total := 0
	byRoot := map[string]interface{}{}
	for _, rt := range roots {
		if r.TimeUp() {
			r.Cap("time", "root "+rt.Name+" not explored")
			continue
		}
		t0 := time.Now()
		states, trans := vBFS("C12", c, []vPath{rt.Path}, rt.gen, rt.Depth, 16)
		total += len(states)
		r.Add("states", int64(len(states)))
		r.Add("transitions", int64(trans))
		byDepth := map[string]int{}
		maxKept := 0
		for _, s := range states {
			byDepth[fmt.Sprint(s.Depth)]++
			if len(s.A.Seq) > maxKept {
				maxKept = len(s.A.Seq)
			}
			r.Distinct("shape", fmt.Sprintf("%s:n=%d:cur=%d", rt.Name, len(s.A.Seq), vIndexOf(s.A.Seq, s.A.Cur)))
		}
		byRoot[rt.Name] = map[string]interface{}{"depth": rt.Depth, "states": len(states), "transitions": trans, "states_by_depth": byDepth, "max_kept": maxKept, "seconds": int(time.Since(t0).Seconds())}
		fmt.Printf("C12: root %s: %d states, %d transitions, %v in %v\n", rt.Name, len(states), trans, byDepth, time.Since(t0))
		if len(states) > 2 {
			r.Sample(map[string]interface{}{"root": rt.Name, "path": states[len(states)-1].Path, "state": states[len(states)-1].Key})
		}
	}
	r.Info("bounds", map[string]interface{}{"roots": byRoot, "retain_values": c12RetainValues})
	vFinish(r, c12Rule)
}
