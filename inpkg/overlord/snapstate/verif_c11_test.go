//go:build verif

// C11 — after every settled change the recorded snap state matches the system.
//
// Two snaps (some-snap, some-other-snap), refresh.retain 3. Every sequence of at most D operations over
// {install, refresh->new, refresh->kept r, revert->kept r, enable, disable, remove revision r, remove all} x snap
// plus sideload (install/refresh from a local file, revision x1, x2, … chosen by snapd) on the first snap,
// with at most one (thorough: two) of the operations carrying an injected failure at any task of its change.
// After every settled change the invariants of the statement are evaluated on snapstate.All, the raw "snaps"
// entry, the configuration and the world folded from the backend's operation log.
package snapstate_test

import (
	"encoding/json"
	"fmt"
	"os"
	"path/filepath"
	"sort"
	"strings"
	"time"

	. "gopkg.in/check.v1"

	"github.com/snapcore/snapd/dirs"
	eng "github.com/snapcore/snapd/verifengine"
)

type verifC11Suite struct{}

var _ = Suite(&verifC11Suite{})

type c11Case struct {
	Path vPath    `json:"path"`
	Viol []string `json:"violations,omitempty"`
	A    *vSnap   `json:"a,omitempty"`
	B    *vSnap   `json:"b,omitempty"`
	W    string   `json:"world,omitempty"`
}

func vSetEq(a, b []int) bool {
	x := append([]int(nil), a...)
	y := append([]int(nil), b...)
	sort.Ints(x)
	sort.Ints(y)
	return eng.JSON(x) == eng.JSON(y) || (len(x) == 0 && len(y) == 0)
}

func (f *vFix) snapsHoldHas(name string) bool {
	f.state.Lock()
	defer f.state.Unlock()
	var held map[string]json.RawMessage
	if err := f.state.Get("snaps-hold", &held); err != nil {
		return false
	}
	_, ok := held[name]
	return ok
}

// c11Observations collects leftovers of a removed snap that the statement does not name (aliases on the
// system, snaps-hold entries); the runner records them in the evidence without failing.
var c11Observations []string

// c11Invariants evaluates the statement on the current fixture; each entry is "<invariant>: details".
func c11Invariants(f *vFix) []string {
	var v []string
	c11Observations = nil
	w := f.world()
	all := f.allSnaps()
	raw := f.rawSnapsKeys()
	for _, name := range []string{vSnapA, vSnapB} {
		o := f.observe(name)
		inAll := vIndexOfStr(all, name) >= 0
		inRaw := vIndexOfStr(raw, name) >= 0
		link, linked := w.Link[name]
		if inAll != o.Installed || inRaw != inAll {
			v = append(v, fmt.Sprintf("entry-without-revisions: %s: in All=%v, raw entry=%v, installed=%v", name, inAll, inRaw, o.Installed))
		}
		if o.Installed {
			if vIndexOf(o.Seq, o.Cur) < 0 {
				v = append(v, fmt.Sprintf("current-not-kept: %s: current %d not in %v", name, o.Cur, o.Seq))
			}
			if !vSetEq(o.Seq, w.Mounted[name]) {
				v = append(v, fmt.Sprintf("kept-ne-mounted: %s: kept %v, mounted %v", name, o.Seq, w.Mounted[name]))
			}
			if o.Active && (!linked || link != o.Cur) {
				v = append(v, fmt.Sprintf("active-not-linked: %s: active, current %d, linked %v (%d)", name, o.Cur, linked, link))
			}
			if !o.Active && linked {
				v = append(v, fmt.Sprintf("inactive-but-linked: %s: inactive, linked revision %d", name, link))
			}
			continue
		}
		if len(w.Mounted[name]) > 0 {
			v = append(v, fmt.Sprintf("removed-but-mounted: %s: %v", name, w.Mounted[name]))
		}
		if linked {
			v = append(v, fmt.Sprintf("removed-but-linked: %s: %d", name, link))
		}
		if o.Config != "" || len(o.RevConfig) > 0 {
			v = append(v, fmt.Sprintf("removed-but-config: %s: config %q, per-revision %v", name, o.Config, o.RevConfig))
		}
		// not part of the statement, recorded as observations only (see c11Observations)
		if len(w.Aliases[name]) > 0 {
			c11Observations = append(c11Observations, fmt.Sprintf("removed-but-aliases: %s: %v", name, w.Aliases[name]))
		}
		if f.snapsHoldHas(name) {
			c11Observations = append(c11Observations, fmt.Sprintf("removed-but-held: %s still in snaps-hold", name))
		}
	}
	return v
}

// c11AuxFault is the environment fault "the auxiliary store info cannot be written" (vOp.T): for the time of
// the change a regular file stands where dirs.SnapAuxStoreInfoDir should be, so that link-snap's own handler
// fails after backend.LinkSnap succeeded (keepAuxStoreInfo runs for every revision that has a snap-id). The
// task-level splice points cannot place a failure there.
const c11AuxFault = "aux"

// c11Links says whether the operation links a revision (its change has a link-snap task for a revision that
// may carry a snap-id); sideload never has a snap-id, the remove/disable family links nothing.
func c11Links(op vOp) bool {
	switch op.K {
	case "install", "refresh-new", "refresh-kept", "revert-to", "enable":
		return true
	}
	return false
}

// c11Run is vFix.vRun plus the environment fault c11AuxFault; every operation of a C11 path goes through it.
func c11Run(f *vFix, op vOp) vRes {
	if op.T != c11AuxFault {
		return f.vRun(op)
	}
	dir := dirs.SnapAuxStoreInfoDir
	aside := dir + ".verif-aside"
	had := false
	if _, err := os.Lstat(dir); err == nil {
		if err := os.Rename(dir, aside); err != nil {
			eng.HarnessError("cannot move %s aside: %v", dir, err)
		}
		had = true
	}
	if err := os.MkdirAll(filepath.Dir(dir), 0755); err != nil {
		eng.HarnessError("cannot create %s: %v", filepath.Dir(dir), err)
	}
	if err := os.WriteFile(dir, []byte("not a directory\n"), 0644); err != nil {
		eng.HarnessError("cannot block %s: %v", dir, err)
	}
	plain := op
	plain.T = ""
	res := f.vRun(plain)
	// the fault is over with the change: what was there before is back
	if err := os.Remove(dir); err != nil {
		eng.HarnessError("cannot unblock %s: %v", dir, err)
	}
	if had {
		if err := os.Rename(aside, dir); err != nil {
			eng.HarnessError("cannot move %s back: %v", aside, err)
		}
	}
	return res
}

// c11Replay is vReplay through c11Run. The caller must close the fixture.
func c11Replay(c *C, p vPath) (*vFix, []vRes) {
	f := vNewFix(c, p.Cfg)
	res := make([]vRes, 0, len(p.Ops))
	for _, op := range p.Ops {
		res = append(res, c11Run(f, op))
	}
	return f, res
}

func c11Key(viol string, op vOp) string {
	inv := strings.SplitN(viol, ":", 2)[0]
	k := inv + ":" + op.K
	if op.F > 0 || op.T != "" {
		k += ":failed"
	}
	return k
}

// c11Gen lists the operations (without failures) offered in a state, for both snaps.
func c11Gen(st vState) []vOp {
	var ops []vOp
	for _, sn := range []struct {
		S string
		o vSnap
	}{{"A", st.A}, {"B", st.B}} {
		a := sn.o
		// sideload (install/refresh from a local file, revision numbered by snapd: x1, x2, …) is offered for
		// snap A only: B stays a store snap, it is there to catch effects leaking from one snap to the other
		if !a.Installed {
			ops = append(ops, vOp{K: "install", S: sn.S})
			if sn.S == "A" {
				ops = append(ops, vOp{K: "sideload", S: sn.S})
			}
			continue
		}
		ci := vIndexOf(a.Seq, a.Cur)
		ops = append(ops, vOp{K: "refresh-new", S: sn.S})
		if sn.S == "A" {
			ops = append(ops, vOp{K: "sideload", S: sn.S})
		}
		for p := range a.Seq {
			if p != ci {
				ops = append(ops, vOp{K: "refresh-kept", S: sn.S, P: p}, vOp{K: "revert-to", S: sn.S, P: p})
			}
			if p != ci || !a.Active {
				ops = append(ops, vOp{K: "remove-rev", S: sn.S, P: p})
			}
		}
		ops = append(ops, vOp{K: "remove-all", S: sn.S}, vOp{K: "disable", S: sn.S}, vOp{K: "enable", S: sn.S})
		if a.Config == "" {
			ops = append(ops, vOp{K: "set-config", S: sn.S}) // once: so that there is configuration to leave behind
		}
	}
	return ops
}

// c11GenOne is the same alphabet restricted to snap A: the one-snap family is explored deeper than the
// two-snap product (e.g. install, refresh, revert, disable, remove the current revision needs 5 operations).
func c11GenOne(st vState) []vOp {
	var ops []vOp
	for _, op := range c11Gen(st) {
		if op.S == "A" {
			ops = append(ops, op)
		}
	}
	return ops
}

type c11Runner struct {
	r     *eng.Run
	c     *C
	depth int
	seen  map[string]bool // states already explored further by this process (key + budget left)
	known map[string]bool // keys of the failure-free breadth-first generation
}

func (cr *c11Runner) report(path vPath, op vOp, viol []string, f *vFix) {
	a, b := f.observe(vSnapA), f.observe(vSnapB)
	cas := c11Case{Path: path, Viol: viol, A: &a, B: &b, W: eng.JSON(f.world())}
	for _, v := range viol {
		cr.r.Violation(c11Key(v, op), fmt.Sprintf("after %s (history %s): %s", op, eng.JSON(path.Ops[:len(path.Ops)-1]), v), cas)
	}
}

// observe records leftovers outside the statement (first path per kind goes into the evidence).
func (cr *c11Runner) observe(path vPath) {
	for _, o := range c11Observations {
		kind := strings.SplitN(o, ":", 2)[0]
		cr.r.Add("observations_outside_statement", 1)
		if cr.r.Distinct("observation", kind) {
			cr.r.Info("observation:"+kind, map[string]interface{}{"path": path, "what": o})
		}
	}
	c11Observations = nil
}

func (cr *c11Runner) count(res vRes, op vOp) {
	r := cr.r
	r.Add("evaluations", 1)
	r.Add("transitions", 1)
	r.Add("traces_validated_against_impl", 1)
	undone := 0
	for _, s := range res.Final {
		if s == "Undone" {
			undone++
		}
	}
	if res.Status == "Done" || undone > 0 {
		r.Add("distinct_nontrivial", 1)
	}
	fl := ""
	if op.F > 0 {
		fl = ":failed"
	}
	if op.T != "" {
		fl = ":" + op.T
		if res.Status != "Done" {
			r.Add("aux_store_info_faults_that_failed_the_change", 1)
		}
	}
	r.Distinct("outcome", fmt.Sprintf("%s%s:%s:undone=%v:disc=%d", op.K, fl, res.Status, undone > 0, len(res.Disc)))
}

// continueFrom explores failure-free (and, with failures left, failing) operations from a state that was
// produced by a failed operation, depth-first by replay, until the path length bound.
func (cr *c11Runner) continueFrom(path vPath, key string, a, b vSnap, failuresLeft int) {
	left := cr.depth - len(path.Ops)
	if left <= 0 {
		return
	}
	sk := fmt.Sprintf("%s|%d|%d", key, left, failuresLeft)
	if cr.seen[sk] {
		return
	}
	cr.seen[sk] = true
	if vTimeUp(cr.r) {
		cr.r.Cap("time", "continuations after a failed operation were cut short")
		return
	}
	st := vState{Path: path, Key: key, A: a, B: b}
	for _, op := range c11Gen(st) {
		np := vPath{Cfg: path.Cfg, Ops: append(append([]vOp(nil), path.Ops...), op)}
		cr.r.NoteCurrent(eng.JSON(c11Case{Path: np}))
		f, ress := c11Replay(cr.c, np)
		res := ress[len(ress)-1]
		if res.Rejected {
			f.close()
			continue
		}
		cr.count(res, op)
		if res.Status != "Done" {
			cr.r.Violation("change-failed:"+op.K, fmt.Sprintf("%s without injected failure ended %s (history %s): %s", op, res.Status, eng.JSON(path.Ops), res.ChgErr), c11Case{Path: np})
		}
		if viol := c11Invariants(f); len(viol) > 0 {
			cr.report(np, op, viol, f)
		}
		cr.observe(np)
		k2, a2, b2 := f.vStateKey()
		f.close()
		if !cr.known[k2] {
			cr.r.Distinct("state_after_failure", k2)
			cr.continueFrom(np, k2, a2, b2, failuresLeft)
		}
	}
	if failuresLeft > 0 {
		for oi := range c11Gen(st) {
			cr.failingOps(st, oi, failuresLeft)
		}
	}
}

// failingOps runs one operation of the state's alphabet with every failure point. Failed operations that
// leave the complete state key unchanged are followed by the next failure point on the same fixture.
func (cr *c11Runner) failingOps(st vState, onlyOp int, failuresLeft int) {
	r, c := cr.r, cr.c
	if len(st.Path.Ops) >= cr.depth {
		return
	}
	op := c11Gen(st)[onlyOp]
	if op.K == "set-config" {
		return // a configuration transaction, not a change: nothing to inject a failure into
	}
	var f *vFix
	var hist []vOp
	rebuild := func() {
		if f != nil {
			f.close()
		}
		f, _ = c11Replay(c, st.Path)
		if k, _, _ := f.vStateKey(); k != st.Key {
			eng.HarnessError("replay diverged: path %s reached\n  %s\nbut was recorded as\n  %s", eng.JSON(st.Path), k, st.Key)
		}
		hist = append([]vOp(nil), st.Path.Ops...)
	}
	rebuild()
	defer func() { f.close() }()
	limit := -1
	for k := 0; limit < 0 || k <= limit+1; k++ {
		op.F, op.T = k+1, ""
		if limit >= 0 && k == limit+1 {
			// after the splice points: the environment fault inside link-snap's handler
			if !c11Links(op) {
				break
			}
			op.F, op.T = 0, c11AuxFault
		}
		np := vPath{Cfg: st.Path.Cfg, Ops: append(append([]vOp(nil), hist...), op)}
		r.NoteCurrent(eng.JSON(c11Case{Path: np}))
		res := c11Run(f, op)
		if res.Rejected {
			r.Add("refused_operations", 1)
			return
		}
		if op.T == "" {
			limit = res.NTasks
			if res.ReIdx >= 0 {
				limit = res.ReIdx
			}
		}
		cr.count(res, op)
		if op.T != "" && res.Status == "Done" {
			// the linked revision has no snap-id (a sideloaded one): no auxiliary store info is written, the
			// fault is not hit and the change is a failure-free one
		} else if !strings.HasPrefix(res.Status, "Error") {
			r.Violation("unsettled-or-not-failed:"+op.K, fmt.Sprintf("change with injected failure ended %s (%s)", res.Status, res.ChgErr), c11Case{Path: np})
		}
		viol := c11Invariants(f)
		cr.observe(np)
		if len(viol) > 0 {
			// confirm on the minimal history (fresh fixture) before reporting
			mp := vPath{Cfg: st.Path.Cfg, Ops: append(append([]vOp(nil), st.Path.Ops...), op)}
			f.close()
			f, _ = c11Replay(c, mp)
			if v2 := c11Invariants(f); len(v2) > 0 {
				cr.report(mp, op, v2, f)
			} else {
				f.close()
				f, _ = c11Replay(c, np)
				if v3 := c11Invariants(f); len(v3) > 0 {
					cr.report(np, op, v3, f)
				} else {
					r.Add("unreproducible_mismatches", 1)
					r.Cap("unreproducible", eng.JSON(c11Case{Path: np, Viol: viol}))
				}
			}
			rebuild()
			continue
		}
		k2, a2, b2 := f.vStateKey()
		if k2 == st.Key {
			hist = append(hist, op)
			continue
		}
		// the failed operation changed the state (e.g. irreversible discards): explore on from there
		if !cr.known[k2] && r.Distinct("state_after_failure", k2) {
			if r.WantSample() {
				r.Sample(map[string]interface{}{"history": np, "state_after_failed_operation": k2})
			}
		}
		f.close()
		f = nil
		if !cr.known[k2] {
			cr.continueFrom(np, k2, a2, b2, failuresLeft-1)
		}
		rebuild()
	}
}

const c11Rule = "all operation sequences up to the length bound over the alphabet x {A,B} (store operations on both snaps, sideload from a local file on A), states deduplicated on the canonical key (breadth-first, replay from a fresh fixture); on every generated state every operation x every splice point 0..last task (error-trigger joined to all lanes) and, for the operations that link a revision (install, refresh->new, refresh->kept, revert, enable), the environment fault \"auxiliary store info cannot be written\" (a regular file in place of its directory for the time of the change: link-snap fails inside its handler after the backend link) within the failure budget, continuing from states a failed operation produced; invariants evaluated after every settled change; non-trivial = the change completed or had completed tasks to undo"

func (s *verifC11Suite) TestVerifC11(c *C) {
	r := eng.Start("C11", "model_checking", 300*time.Second, 14*time.Minute)
	vInitTmp("C11")
	vExpandCheck = func(f *vFix, op vOp, res vRes) []string { return c11Invariants(f) }
	vPMapWorker(map[string]func(string) string{"expand": vExpandFn(c)})
	r.Assume("fake backend/store of the package's fixture stand for the system; world = fold of the backend operation log (setup-snap/undo-setup-snap/remove-snap-files: mounted; link-snap/unlink-snap: current link, unlink removes it whatever it points to; update-aliases/remove-snap-aliases); snap data directories are kept in step with copy-data/remove-snap-data so that undo of unlink-snap can link back",
		"refresh.retain=3, classic device; hooks are no-ops",
		"state key merges fixtures equal up to renaming of revisions and clock values; sequential settle")
	cfg := vCfg{Retain: "3"}
	depth := r.Pick(4, 5)
	budget := r.Pick(1, 2)
	oneDepth := r.Pick(5, 7) // failure-free sequences on one snap only
	if v := os.Getenv("VERIF_C11_DEPTH"); v != "" {
		fmt.Sscanf(v, "%d,%d,%d", &depth, &budget, &oneDepth)
	}
	cr := &c11Runner{r: r, c: c, depth: depth, seen: map[string]bool{}, known: map[string]bool{}}

	if rc := r.ReplayCase(); rc != nil {
		var cas c11Case
		if err := json.Unmarshal(rc, &cas); err != nil {
			eng.HarnessError("bad replay case: %v", err)
		}
		f := vNewFix(c, cas.Path.Cfg)
		for i, op := range cas.Path.Ops {
			res := c11Run(f, op)
			viol := c11Invariants(f)
			fmt.Printf("%d %s -> %s %s %s\n   A=%s\n   B=%s\n   world=%s\n   invariants: %v\n", i, op, res.Status, res.Err, res.ChgErr, eng.JSON(f.observe(vSnapA)), eng.JSON(f.observe(vSnapB)), eng.JSON(f.world()), viol)
			for _, v := range viol {
				r.Violation(c11Key(v, op), v, cas)
			}
		}
		f.close()
		r.Add("evaluations", int64(len(cas.Path.Ops)))
		vFinish(r, "replay of one stored path")
	}

	statesFile := filepath.Join(eng.WorkDir(), "pmap", "C11", "states-"+r.Tier+".json")
	var states []vState
	if os.Getenv("VERIF_SHARD") == "" {
		t0 := time.Now()
		vBFSViolation = func(path vPath, op vOp, out vExpandOut) {
			np := vPath{Cfg: path.Cfg, Ops: append(append([]vOp(nil), path.Ops...), op)}
			for _, v := range out.Viol {
				r.Violation(c11Key(v, op), fmt.Sprintf("after %s (history %s): %s", op, eng.JSON(path.Ops), v), c11Case{Path: np, Viol: out.Viol, A: &out.A, B: &out.B})
			}
		}
		vBFSNotDone = func(path vPath, op vOp, out vExpandOut) {
			// a failure-free operation whose change fails: the handlers' own consistency checks tripped
			// (the invariants evaluated after it are reported by vBFSViolation as well)
			np := vPath{Cfg: path.Cfg, Ops: append(append([]vOp(nil), path.Ops...), op)}
			r.Violation("change-failed:"+op.K, fmt.Sprintf("%s without injected failure ended %s (history %s): %s", op, out.Res.Status, eng.JSON(path.Ops), out.Res.ChgErr), c11Case{Path: np, A: &out.A, B: &out.B})
		}
		// the generation phase may use up to 60% of the soft budget; a level that would start later is not generated
		genBudget := time.Duration(r.Pick(180, 500)) * time.Second
		if s := os.Getenv("VERIF_BUDGET_S"); s != "" {
			var n int
			if _, err := fmt.Sscanf(s, "%d", &n); err == nil {
				genBudget = time.Duration(n) * time.Second * 6 / 10
			}
		}
		vBFSStop = func(level, frontier int) bool {
			if r.Elapsed() < genBudget {
				return false
			}
			r.Cap("generation_time", fmt.Sprintf("state generation stopped before level %d (%d states left unexpanded)", level, frontier))
			return true
		}
		var trans int
		states, trans = vBFS("C11", c, []vPath{{Cfg: cfg}}, c11Gen, depth, 16)
		seenKeys := map[string]bool{}
		for _, s := range states {
			seenKeys[s.Key] = true
		}
		// the one-snap family goes on from the deepest level of the two-snap product: every state of that level in
		// which B is absent (all shorter one-snap histories are part of the product already)
		var oneFrontier []vState
		for _, s := range states {
			if s.Depth == depth && !strings.Contains(s.Key, " B{") {
				oneFrontier = append(oneFrontier, s)
			}
		}
		one, t1 := vBFSFrom("C11", c, oneFrontier, seenKeys, c11GenOne, depth, oneDepth-depth, 16)
		trans += t1
		oneNew := len(one)
		for _, s := range one {
			s.Tag = "one-snap"
			states = append(states, s)
		}
		os.MkdirAll(filepath.Dir(statesFile), 0755)
		if err := os.WriteFile(statesFile, []byte(eng.JSON(states)), 0644); err != nil {
			eng.HarnessError("cannot write %s: %v", statesFile, err)
		}
		r.Add("states", int64(len(states)))
		r.Add("transitions", int64(trans))
		r.Add("evaluations", int64(trans))
		r.Add("traces_validated_against_impl", int64(trans))
		r.Add("distinct_nontrivial", int64(trans))
		byDepth := map[string]int{}
		for _, s := range states {
			byDepth[fmt.Sprint(s.Depth)]++
		}
		r.Info("bounds", map[string]interface{}{"max_operations": depth, "max_operations_one_snap_failure_free": oneDepth, "one_snap_states_beyond_two_snap_bound": oneNew, "failure_budget": budget, "snaps": 2, "refresh_retain": 3, "states_by_depth": byDepth, "generation_seconds": int(time.Since(t0).Seconds())})
		fmt.Printf("C11: %d failure-free states %v in %v\n", len(states), byDepth, time.Since(t0))
		if len(states) > 3 {
			r.Sample(map[string]interface{}{"state": states[len(states)/2].Key, "path": states[len(states)/2].Path})
		}
	} else {
		b, err := os.ReadFile(statesFile)
		if err != nil || json.Unmarshal(b, &states) != nil {
			eng.HarnessError("cannot read %s: %v", statesFile, err)
		}
	}
	vSetDeadline(r, 300*time.Second, 14*time.Minute)
	if r.Sharded(16) {
		os.Remove(statesFile)
		vFinish(r, c11Rule)
	}
	for _, st := range states {
		cr.known[st.Key] = true
	}
	item, done := 0, 0
	for _, st := range states {
		if st.Depth >= depth {
			continue
		}
		for oi := range c11Gen(st) {
			item++
			if !r.Mine(item) {
				continue
			}
			if vTimeUp(r) {
				r.Cap("time", fmt.Sprintf("shard stopped after %d of its (state, operation) items (breadth-first order)", done))
				vFinish(r, c11Rule)
			}
			cr.failingOps(st, oi, budget)
			done++
		}
	}
	vFinish(r, c11Rule)
}
