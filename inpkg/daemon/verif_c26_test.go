// C26 — REST API requests are served only to callers the endpoint's access level allows.
//
// The real router (Daemon.addRoutes over the real `api` table) and the real Command.ServeHTTP, access
// checkers, checkPolkitActionImpl, userFromRequest/auth.CheckMacaroon, ifacestate.ConnectionStates and
// ucrednet parser are driven with every combination of
//
//	endpoint x method {GET, PUT, POST, DELETE, HEAD}
//	x remote-address form {well-formed, well-formed with a pre-attached iface field, 18 missing/garbled forms}
//	x socket {snapd.socket, snapd-snap.socket, a third path, empty} x uid {0, 1000}
//	x Authorization {none, valid macaroon, validly signed macaroon of a removed user, malformed header}
//	x polkit answer {allow, deny, error, dismissed}
//	x (snap socket only) pid->snap lookup {ok, error} x connection scenario: each of the three gating
//	  interfaces independently in {absent, active plug of the caller, undesired, hotplug-gone,
//	  plugged by another snap, caller on the slot side} (interface-gated endpoints: all 216; others: 2)
//
// Handlers are replaced by spies. Oracle: a decision table written from the statement per access level
// (handler ran <=> the level allows this caller), evaluated twice: against the level attached to the
// endpoint in the live table, and against the level pinned in this file from the reviewed source (so a
// silently weakened endpoint is caught). Second part: ucrednet encode / attach-interface / decode
// round trip over all field combinations, and "undecodable stays undecodable".
package daemon

import (
	"encoding/json"
	"errors"
	"fmt"
	"net/http"
	"net/http/httptest"
	"os"
	"path/filepath"
	"regexp"
	"sort"
	"strconv"
	"strings"
	"testing"
	"time"

	"github.com/snapcore/snapd/dirs"
	"github.com/snapcore/snapd/logger"
	"github.com/snapcore/snapd/overlord/auth"
	"github.com/snapcore/snapd/overlord/state"
	"github.com/snapcore/snapd/polkit"
	eng "github.com/snapcore/snapd/verifengine"
)

// ---------------------------------------------------------------------------------------------
// access levels

type c26Level struct {
	Kind   string   // open | auth | root | snap | ifopen | ifauth | none | unknown
	Polkit string   // auth, ifauth
	Ifaces []string // ifopen, ifauth
}

func (l c26Level) String() string {
	s := l.Kind
	if l.Polkit != "" {
		s += " polkit=" + l.Polkit
	}
	if len(l.Ifaces) > 0 {
		s += " ifaces=" + strings.Join(l.Ifaces, ",")
	}
	return s
}

func c26LevelOf(ac accessChecker) c26Level {
	switch a := ac.(type) {
	case nil:
		return c26Level{Kind: "none"}
	case openAccess:
		return c26Level{Kind: "open"}
	case authenticatedAccess:
		return c26Level{Kind: "auth", Polkit: a.Polkit}
	case rootAccess:
		return c26Level{Kind: "root"}
	case snapAccess:
		return c26Level{Kind: "snap"}
	case interfaceOpenAccess:
		return c26Level{Kind: "ifopen", Ifaces: a.Interfaces}
	case interfaceAuthenticatedAccess:
		return c26Level{Kind: "ifauth", Polkit: a.Polkit, Ifaces: a.Interfaces}
	}
	return c26Level{Kind: fmt.Sprintf("unknown(%T)", ac)}
}

// c26Pinned: the access level declared for every endpoint and method, transcribed from the reviewed
// source (daemon/api_*.go). "METHOD path" -> level. An endpoint/method missing here is judged against
// its live level only and listed in the evidence (coverage.unpinned).
const (
	c26Manage      = "io.snapcraft.snapd.manage"
	c26Login       = "io.snapcraft.snapd.login"
	c26ManageIface = "io.snapcraft.snapd.manage-interfaces"
	c26ManageConf  = "io.snapcraft.snapd.manage-configuration"
)

var c26Pinned = map[string]string{
	"GET /":                                        "open",
	"GET /v2/system-info":                          "ifopen ifaces=snap-interfaces-requests-control",
	"POST /v2/login":                               "auth polkit=" + c26Login,
	"POST /v2/logout":                              "auth polkit=" + c26Login,
	"GET /v2/icons/{name}/icon":                    "open",
	"GET /v2/find":                                 "open",
	"GET /v2/snaps":                                "ifopen ifaces=snap-refresh-observe",
	"POST /v2/snaps":                               "auth polkit=" + c26Manage,
	"GET /v2/snaps/{name}":                         "ifopen ifaces=snap-refresh-observe",
	"POST /v2/snaps/{name}":                        "auth polkit=" + c26Manage,
	"GET /v2/snaps/{name}/file":                    "open",
	"POST /v2/download":                            "auth polkit=" + c26Manage,
	"GET /v2/snaps/{name}/conf":                    "auth polkit=" + c26ManageConf,
	"PUT /v2/snaps/{name}/conf":                    "auth polkit=" + c26ManageConf,
	"GET /v2/interfaces":                           "open",
	"POST /v2/interfaces":                          "auth polkit=" + c26ManageIface,
	"GET /v2/assertions":                           "open",
	"POST /v2/assertions":                          "auth",
	"GET /v2/assertions/{assertType}":              "open",
	"GET /v2/changes/{id}":                         "ifopen ifaces=snap-refresh-observe",
	"POST /v2/changes/{id}":                        "auth polkit=" + c26Manage,
	"GET /v2/changes":                              "ifopen ifaces=snap-refresh-observe",
	"POST /v2/create-user":                         "root",
	"POST /v2/buy":                                 "auth",
	"GET /v2/buy/ready":                            "auth",
	"POST /v2/snapctl":                             "snap",
	"GET /v2/users":                                "root",
	"POST /v2/users":                               "root",
	"GET /v2/sections":                             "open",
	"GET /v2/categories":                           "open",
	"GET /v2/aliases":                              "open",
	"POST /v2/aliases":                             "auth",
	"GET /v2/apps":                                 "open",
	"POST /v2/apps":                                "auth polkit=" + c26Manage,
	"GET /v2/logs":                                 "auth polkit=" + c26Manage,
	"GET /v2/warnings":                             "open",
	"POST /v2/warnings":                            "auth polkit=" + c26Manage,
	"GET /v2/debug/pprof/":                         "root",
	"GET /v2/debug":                                "open",
	"POST /v2/debug":                               "root",
	"GET /v2/snapshots":                            "open",
	"POST /v2/snapshots":                           "auth polkit=" + c26Manage,
	"GET /v2/snapshots/{id}/export":                "auth",
	"GET /v2/connections":                          "open",
	"GET /v2/model":                                "open",
	"POST /v2/model":                               "root",
	"POST /v2/cohorts":                             "auth",
	"GET /v2/model/serial":                         "open",
	"POST /v2/model/serial":                        "root",
	"GET /v2/systems":                              "auth",
	"POST /v2/systems":                             "root",
	"GET /v2/systems/{label}":                      "root",
	"POST /v2/systems/{label}":                     "root",
	"GET /v2/accessories/themes":                   "ifopen ifaces=snap-themes-control",
	"POST /v2/accessories/themes":                  "ifauth polkit=" + c26Manage + " ifaces=snap-themes-control",
	"GET /v2/accessories/changes/{id}":             "ifopen ifaces=snap-themes-control",
	"GET /v2/validation-sets":                      "auth",
	"GET /v2/validation-sets/{account}/{name}":     "auth",
	"POST /v2/validation-sets/{account}/{name}":    "auth",
	"POST /v2/internal/console-conf-start":         "auth",
	"GET /v2/system-recovery-keys":                 "root",
	"POST /v2/system-recovery-keys":                "root",
	"GET /v2/quotas":                               "open",
	"POST /v2/quotas":                              "root",
	"GET /v2/quotas/{group}":                       "open",
	"GET /v2/registry/{account}/{registry}/{view}": "auth polkit=" + c26Manage,
	"PUT /v2/registry/{account}/{registry}/{view}": "auth polkit=" + c26Manage,
	"GET /v2/notices":                              "ifopen ifaces=snap-refresh-observe,snap-interfaces-requests-control",
	"POST /v2/notices":                             "open",
	"GET /v2/notices/{id}":                         "ifopen ifaces=snap-refresh-observe,snap-interfaces-requests-control",
}

func c26ParseLevel(s string) c26Level {
	var l c26Level
	for i, f := range strings.Fields(s) {
		switch {
		case i == 0:
			l.Kind = f
		case strings.HasPrefix(f, "polkit="):
			l.Polkit = strings.TrimPrefix(f, "polkit=")
		case strings.HasPrefix(f, "ifaces="):
			l.Ifaces = strings.Split(strings.TrimPrefix(f, "ifaces="), ",")
		}
	}
	return l
}

// ---------------------------------------------------------------------------------------------
// callers

const (
	c26Pid        = 4242
	c26CallerSnap = "callersnap"
)

var c26GatingIfaces = []string{"snap-themes-control", "snap-refresh-observe", "snap-interfaces-requests-control"}

// per-interface connection states of a scenario
var c26ConnStates = []string{"absent", "active", "undesired", "hotplug-gone", "other-snap-plug", "caller-slot-side"}

type c26Caller struct {
	Addr     string   `json:"addr"`      // remote address form
	Socket   string   `json:"socket"`    // snapd | snap | other | empty
	Uid      uint32   `json:"uid"`       // 0 | 1000
	User     string   `json:"user"`      // none | valid | removed | malformed
	Polkit   string   `json:"polkit"`    // allow | deny | error | dismissed
	SnapName string   `json:"snap_name"` // ok | error  (pid -> snap lookup)
	Conns    []string `json:"conns"`     // state per gating interface (same order as c26GatingIfaces)
}

type c26Case struct {
	Method string    `json:"method"`
	Path   string    `json:"path"`
	Caller c26Caller `json:"caller"`
}

var c26AddrForms = []string{"wf", "wf+iface",
	"empty", "nil-ucred", "no-pid", "no-uid", "pid-zero", "uid-nobody", "uid-overflow", "pid-overflow", "uid-negative", "uid-hex",
	"no-trailing-semicolon", "reordered", "leading-junk", "trailing-junk", "duplicate-uid", "spaces", "no-socket-field", "uppercase-keys"}

func c26SocketPath(kind string) string {
	switch kind {
	case "snapd":
		return dirs.SnapdSocket
	case "snap":
		return dirs.SnapSocket
	case "other":
		return filepath.Join(dirs.GlobalRootDir, "/run/other.socket")
	}
	return ""
}

func c26RemoteAddr(c c26Caller) string {
	sock := c26SocketPath(c.Socket)
	switch c.Addr {
	case "wf":
		return (&ucrednet{Pid: c26Pid, Uid: c.Uid, Socket: sock}).String()
	case "wf+iface":
		return (&ucrednet{Pid: c26Pid, Uid: c.Uid, Socket: sock}).String() + "iface=" + strings.Join(c26GatingIfaces, "&") + ";"
	case "empty":
		return ""
	case "nil-ucred":
		return (*ucrednet)(nil).String()
	case "no-pid":
		return fmt.Sprintf("pid=;uid=%d;socket=%s;", c.Uid, sock)
	case "no-uid":
		return fmt.Sprintf("pid=%d;uid=;socket=%s;", c26Pid, sock)
	case "pid-zero":
		return fmt.Sprintf("pid=0;uid=%d;socket=%s;", c.Uid, sock)
	case "uid-nobody":
		return fmt.Sprintf("pid=%d;uid=4294967295;socket=%s;", c26Pid, sock)
	case "uid-overflow": // 2^32 + uid: wraps to uid if truncated
		return fmt.Sprintf("pid=%d;uid=%d;socket=%s;", c26Pid, uint64(1<<32)+uint64(c.Uid), sock)
	case "pid-overflow":
		return fmt.Sprintf("pid=%d;uid=%d;socket=%s;", uint64(1<<32)+c26Pid, c.Uid, sock)
	case "uid-negative":
		return fmt.Sprintf("pid=%d;uid=-%d;socket=%s;", c26Pid, c.Uid, sock)
	case "uid-hex":
		return fmt.Sprintf("pid=%d;uid=0x%x;socket=%s;", c26Pid, c.Uid, sock)
	case "no-trailing-semicolon":
		return fmt.Sprintf("pid=%d;uid=%d;socket=%s", c26Pid, c.Uid, sock)
	case "reordered":
		return fmt.Sprintf("uid=%d;pid=%d;socket=%s;", c.Uid, c26Pid, sock)
	case "leading-junk":
		return fmt.Sprintf("x;pid=%d;uid=%d;socket=%s;", c26Pid, c.Uid, sock)
	case "trailing-junk":
		return fmt.Sprintf("pid=%d;uid=%d;socket=%s;x", c26Pid, c.Uid, sock)
	case "duplicate-uid":
		return fmt.Sprintf("pid=%d;uid=1000;uid=%d;socket=%s;", c26Pid, c.Uid, sock)
	case "spaces":
		return fmt.Sprintf("pid=%d; uid=%d; socket=%s;", c26Pid, c.Uid, sock)
	case "no-socket-field":
		return fmt.Sprintf("pid=%d;uid=%d;", c26Pid, c.Uid)
	case "uppercase-keys":
		return fmt.Sprintf("PID=%d;UID=%d;SOCKET=%s;", c26Pid, c.Uid, sock)
	}
	eng.HarnessError("unknown addr form %q", c.Addr)
	return ""
}

// reference decoder of the peer credential encoding, written from the format description
// "pid=<digits>;uid=<digits>;socket=<path>;[iface=<name>&<name>...;]" without regular expressions.
type c26Cred struct {
	Pid    int32
	Uid    uint32
	Socket string
	Ifaces []string
}

func c26AllDigits(s string) bool {
	if s == "" {
		return false
	}
	for _, ch := range s {
		if ch < '0' || ch > '9' {
			return false
		}
	}
	return true
}

func c26RefDecode(addr string) (*c26Cred, bool) {
	if !strings.HasSuffix(addr, ";") {
		return nil, false
	}
	fields := strings.Split(strings.TrimSuffix(addr, ";"), ";")
	if len(fields) != 3 && len(fields) != 4 {
		return nil, false
	}
	if !strings.HasPrefix(fields[0], "pid=") || !strings.HasPrefix(fields[1], "uid=") || !strings.HasPrefix(fields[2], "socket=") {
		return nil, false
	}
	ps, us := fields[0][4:], fields[1][4:]
	if !c26AllDigits(ps) || !c26AllDigits(us) {
		return nil, false
	}
	pid, err := strconv.ParseInt(ps, 10, 32)
	if err != nil || pid == 0 {
		return nil, false
	}
	uid, err := strconv.ParseUint(us, 10, 32)
	if err != nil || uid == (1<<32)-1 {
		return nil, false
	}
	c := &c26Cred{Pid: int32(pid), Uid: uint32(uid), Socket: fields[2][len("socket="):]}
	if len(fields) == 4 {
		if !strings.HasPrefix(fields[3], "iface=") {
			return nil, false
		}
		c.Ifaces = strings.Split(fields[3][len("iface="):], "&")
	}
	return c, true
}

// expected set of interfaces through which the caller snap is (actively, on the plug side) connected
func c26ActiveIfaces(c c26Caller) map[string]bool {
	m := map[string]bool{}
	for i, st := range c.Conns {
		if st == "active" {
			m[c26GatingIfaces[i]] = true
		}
	}
	return m
}

// c26Allowed is the decision table: does access level l admit caller c (whose credentials decode to cred)?
func c26Allowed(l c26Level, c c26Caller, cred *c26Cred) (allowed bool, why string) {
	if cred == nil {
		return false, "peer credentials missing or unparsable"
	}
	onSnapd := cred.Socket == dirs.SnapdSocket
	onSnap := cred.Socket == dirs.SnapSocket
	admin := func() (bool, string) {
		switch {
		case c.User == "valid":
			return true, "logged-in user"
		case cred.Uid == 0:
			return true, "root"
		case l.Polkit != "" && c.Polkit == "allow":
			return true, "polkit-authorized"
		}
		return false, "not root, not logged in, not polkit-authorized"
	}
	ifaceOK := func() (bool, string) {
		if onSnapd {
			return true, "snapd socket"
		}
		if !onSnap {
			return false, "unknown socket"
		}
		if c.SnapName != "ok" {
			return false, "calling snap cannot be determined"
		}
		act := c26ActiveIfaces(c)
		for _, i := range l.Ifaces {
			if act[i] {
				return true, "snap socket with active plug of " + i
			}
		}
		return false, "snap socket without an active connection of a listed interface"
	}
	switch l.Kind {
	case "open":
		return onSnapd, "open: snapd socket only"
	case "auth":
		if !onSnapd {
			return false, "authenticated: snapd socket only"
		}
		return admin()
	case "root":
		return onSnapd && cred.Uid == 0, "root: snapd socket and uid 0 only"
	case "snap":
		return onSnap, "snapctl: snap socket only"
	case "ifopen":
		return ifaceOK()
	case "ifauth":
		if ok, why := ifaceOK(); !ok {
			return false, why
		}
		return admin()
	}
	return false, "no access level"
}

// ---------------------------------------------------------------------------------------------
// fixture

type c26SpyResp struct{}

func (c26SpyResp) ServeHTTP(w http.ResponseWriter, r *http.Request) { w.WriteHeader(299) }

type c26Obs struct {
	ran         int
	ranAddr     string
	ranUser     *auth.UserState
	polkitCalls []string
}

type c26Fixture struct {
	r        *eng.Run
	d        *Daemon
	st       *state.State
	validHdr string
	goneHdr  string
	validID  int
	obs      c26Obs
	cur      c26Caller
	routes   []c26Route
	unpinned map[string]bool
	differ   map[string]string
	sampled  map[string]bool
}

type c26Route struct {
	cmd  *Command
	name string // Path or PathPrefix (the pinned-table key)
	url  string
}

var c26VarRe = regexp.MustCompile(`\{[^}]+\}`)

func c26Setup(t *testing.T, r *eng.Run) *c26Fixture {
	f := &c26Fixture{r: r, unpinned: map[string]bool{}, differ: map[string]string{}, sampled: map[string]bool{}}
	root := t.TempDir()
	dirs.SetRootDir(root)
	if err := os.MkdirAll(filepath.Dir(dirs.SnapdSocket), 0755); err != nil {
		eng.HarnessError("%v", err)
	}
	logger.SetLogger(logger.NullLogger)

	f.st = state.New(nil)
	f.d = &Daemon{state: f.st}
	f.d.addRoutes()

	f.st.Lock()
	u1, err := auth.NewUser(f.st, auth.NewUserParams{Username: "valid", Email: "valid@example.com", Macaroon: "store-macaroon", Discharges: []string{"d"}})
	if err != nil {
		eng.HarnessError("cannot create user: %v", err)
	}
	u2, err := auth.NewUser(f.st, auth.NewUserParams{Username: "gone", Email: "gone@example.com", Macaroon: "store-macaroon-2", Discharges: []string{"d"}})
	if err != nil {
		eng.HarnessError("cannot create user: %v", err)
	}
	if _, err := auth.RemoveUser(f.st, u2.ID); err != nil {
		eng.HarnessError("cannot remove user: %v", err)
	}
	f.st.Unlock()
	f.validHdr = fmt.Sprintf(`Macaroon root="%s"`, u1.Macaroon)
	f.goneHdr = fmt.Sprintf(`Macaroon root="%s"`, u2.Macaroon)
	f.validID = u1.ID

	// spies instead of the handlers (nil stays nil: no handler for that method)
	spy := func(c *Command, req *http.Request, user *auth.UserState) Response {
		f.obs.ran++
		f.obs.ranAddr = req.RemoteAddr
		f.obs.ranUser = user
		return c26SpyResp{}
	}
	for _, c := range api {
		if c.GET != nil {
			c.GET = spy
		}
		if c.PUT != nil {
			c.PUT = spy
		}
		if c.POST != nil {
			c.POST = spy
		}
		name, url := c.Path, c26VarRe.ReplaceAllString(c.Path, "x")
		if c.PathPrefix != "" {
			name, url = c.PathPrefix, c.PathPrefix+"x"
		}
		f.routes = append(f.routes, c26Route{cmd: c, name: name, url: url})
	}

	// the environment: polkit daemon and the cgroup lookup (the implementation's own
	// checkPolkitActionImpl and requireInterfaceApiAccessImpl stay in place)
	polkitCheckAuthorization = func(pid int32, uid uint32, actionId string, details map[string]string, flags polkit.CheckFlags) (bool, error) {
		f.obs.polkitCalls = append(f.obs.polkitCalls, fmt.Sprintf("pid=%d uid=%d action=%s", pid, uid, actionId))
		if uid == 0 {
			return true, nil // polkit authorizes root for everything
		}
		switch f.cur.Polkit {
		case "allow":
			return true, nil
		case "deny":
			return false, nil
		case "dismissed":
			return false, polkit.ErrDismissed
		}
		return false, errors.New("polkit: cannot talk to the authority")
	}
	cgroupSnapNameFromPid = func(pid int) (string, error) {
		if pid != c26Pid {
			return "some-other-snap", nil
		}
		if f.cur.SnapName == "ok" {
			return c26CallerSnap, nil
		}
		return "", errors.New("not a snap cgroup")
	}
	return f
}

func (f *c26Fixture) setConns(conns []string) {
	m := map[string]interface{}{
		// an unrelated active connection of the caller and one of another snap: must never matter
		c26CallerSnap + ":network slotsnap:network": map[string]interface{}{"interface": "network"},
		"othersnap:home slotsnap:home":              map[string]interface{}{"interface": "home", "auto": true},
	}
	for i, st := range conns {
		iface := c26GatingIfaces[i]
		switch st {
		case "absent":
		case "active":
			m[c26CallerSnap+":"+iface+" slotsnap:"+iface] = map[string]interface{}{"interface": iface}
		case "undesired":
			m[c26CallerSnap+":"+iface+" slotsnap:"+iface] = map[string]interface{}{"interface": iface, "undesired": true, "auto": true}
		case "hotplug-gone":
			m[c26CallerSnap+":"+iface+" slotsnap:"+iface] = map[string]interface{}{"interface": iface, "hotplug-gone": true}
		case "other-snap-plug":
			m["othersnap:"+iface+" slotsnap:"+iface] = map[string]interface{}{"interface": iface}
		case "caller-slot-side":
			m["othersnap:"+iface+" "+c26CallerSnap+":"+iface] = map[string]interface{}{"interface": iface}
		default:
			eng.HarnessError("unknown conn state %q", st)
		}
	}
	f.st.Lock()
	f.st.Set("conns", m)
	f.st.Unlock()
}

type c26Result struct {
	Ran    bool
	Status int
	Crash  string
}

// serve sends one request through the real router
func (f *c26Fixture) serve(method, url string, c c26Caller) (res c26Result) {
	f.cur = c
	f.obs = c26Obs{}
	req, err := http.NewRequest(method, url, nil)
	if err != nil {
		eng.HarnessError("%v", err)
	}
	req.RemoteAddr = c26RemoteAddr(c)
	switch c.User {
	case "valid":
		req.Header.Set("Authorization", f.validHdr)
	case "removed":
		req.Header.Set("Authorization", f.goneHdr)
	case "malformed":
		req.Header.Set("Authorization", `Macaroon root="not-a-macaroon"`)
	}
	rec := httptest.NewRecorder()
	func() {
		defer func() {
			if p := recover(); p != nil {
				res.Crash = fmt.Sprint(p)
			}
		}()
		f.d.router.ServeHTTP(rec, req)
	}()
	res.Ran = f.obs.ran > 0
	res.Status = rec.Code
	return res
}

func c26CaseKey(law, method, name string, c c26Caller) string {
	return fmt.Sprintf("%s:%s:%s:addr=%s,socket=%s,uid=%d,user=%s,polkit=%s,snapname=%s,conns=%s", law, method, name, c.Addr, c.Socket, c.Uid, c.User, c.Polkit, c.SnapName, strings.Join(c.Conns, "/"))
}

type c26Counters struct {
	evals, served, refused, methodNotAllowed, noCreds, polkitConsulted, ifaceGranted, nontrivial int64
}

// checkOne runs one request and applies every law
func (f *c26Fixture) checkOne(rt c26Route, method string, c c26Caller, cnt *c26Counters, verbose bool) {
	r := f.r
	cas := c26Case{Method: method, Path: rt.name, Caller: c}
	var handler ResponseFunc
	var live c26Level
	switch method {
	case "GET":
		handler, live = rt.cmd.GET, c26LevelOf(rt.cmd.ReadAccess)
	case "PUT":
		handler, live = rt.cmd.PUT, c26LevelOf(rt.cmd.WriteAccess)
	case "POST":
		handler, live = rt.cmd.POST, c26LevelOf(rt.cmd.WriteAccess)
	}
	res := f.serve(method, rt.url, c)
	cnt.evals++
	cred, credOK := c26RefDecode(c26RemoteAddr(c))
	if !credOK {
		cred = nil
		cnt.noCreds++
	}
	if verbose {
		fmt.Printf("%s %s (%s)\n  caller: %+v\n  remote address: %q (reference decoder: %+v)\n  live level: %s, pinned level: %q\n  -> handler ran=%v status=%d crash=%q polkit calls=%v handler saw remote address %q\n",
			method, rt.url, rt.name, c, c26RemoteAddr(c), cred, live, c26Pinned[method+" "+rt.name], res.Ran, res.Status, res.Crash, f.obs.polkitCalls, f.obs.ranAddr)
	}
	if res.Crash != "" {
		r.Violation(c26CaseKey("crash", method, rt.name, c), fmt.Sprintf("%s %s panicked instead of taking an access decision: %s", method, rt.url, res.Crash), cas)
		return
	}
	if handler == nil {
		cnt.methodNotAllowed++
		if res.Ran || res.Status != 405 {
			r.Violation(c26CaseKey("no-handler", method, rt.name, c), fmt.Sprintf("%s %s has no handler for this method: expected 405 and no handler run; got ran=%v status=%d", method, rt.url, res.Ran, res.Status), cas)
		}
		return
	}
	if strings.HasPrefix(live.Kind, "unknown") {
		r.Cap("unknown_access_checker", live.Kind)
		return
	}
	r.Distinct("level", live.String())

	// law 1: decision table on the level attached in the live table, both directions
	allowed, why := c26Allowed(live, c, cred)
	if res.Ran && !allowed {
		r.Violation(c26CaseKey("served-not-allowed", method, rt.name, c), fmt.Sprintf("%s %s [%s] was served (status %d) to a caller the level does not admit: %s; remote address %q", method, rt.url, live, res.Status, why, c26RemoteAddr(c)), cas)
	}
	if !res.Ran && allowed {
		r.Violation(c26CaseKey("allowed-not-served", method, rt.name, c), fmt.Sprintf("%s %s [%s] was refused (status %d) although the level admits the caller (%s); remote address %q", method, rt.url, live, res.Status, why, c26RemoteAddr(c)), cas)
	}
	// law 2: the declared (pinned) level
	if ps, ok := c26Pinned[method+" "+rt.name]; ok {
		pl := c26ParseLevel(ps)
		if pl.String() != live.String() {
			f.differ[method+" "+rt.name] = fmt.Sprintf("declared (pinned) [%s], table carries [%s]", pl, live)
		}
		if pallowed, pwhy := c26Allowed(pl, c, cred); res.Ran && !pallowed {
			r.Violation(c26CaseKey("served-beyond-declared-level", method, rt.name, c), fmt.Sprintf("%s %s is declared [%s] but the table now carries [%s] and the request was served: %s", method, rt.url, pl, live, pwhy), cas)
		}
	} else {
		f.unpinned[method+" "+rt.name] = true
	}
	// law 3: no credentials, no service (whatever the level)
	if cred == nil && res.Ran {
		r.Violation(c26CaseKey("served-without-credentials", method, rt.name, c), fmt.Sprintf("%s %s served a request whose peer credentials %q are missing or unparsable", method, rt.url, c26RemoteAddr(c)), cas)
	}
	// law 4: status codes
	if res.Ran && res.Status != 299 {
		r.Violation(c26CaseKey("status", method, rt.name, c), fmt.Sprintf("handler ran but status is %d", res.Status), cas)
	}
	if !res.Ran && res.Status != 401 && res.Status != 403 {
		r.Violation(c26CaseKey("status", method, rt.name, c), fmt.Sprintf("%s %s refused with status %d, expected 401 or 403", method, rt.url, res.Status), cas)
	}
	// law 5: polkit is asked about the real peer and the declared action only
	for _, call := range f.obs.polkitCalls {
		cnt.polkitConsulted++
		if !f.sampled["polkit-"+c.Polkit] && c.Addr == "wf" {
			f.sampled["polkit-"+c.Polkit] = true
			if c.Polkit == "allow" || c.Polkit == "dismissed" {
				r.Sample(map[string]interface{}{"case": cas, "served": res.Ran, "status": res.Status, "polkit_asked": call})
			}
		}
		want := ""
		if cred != nil {
			want = fmt.Sprintf("pid=%d uid=%d action=%s", cred.Pid, cred.Uid, live.Polkit)
		}
		if call != want || live.Polkit == "" {
			r.Violation(c26CaseKey("polkit-subject", method, rt.name, c), fmt.Sprintf("%s %s [%s]: polkit consulted with %q, expected %q", method, rt.url, live, call, want), cas)
		}
	}
	// law 6: what the handler sees
	if res.Ran {
		cnt.served++
		seen, ok := c26RefDecode(f.obs.ranAddr)
		if !ok || cred == nil || seen.Pid != cred.Pid || seen.Uid != cred.Uid || seen.Socket != cred.Socket {
			r.Violation(c26CaseKey("handler-credentials", method, rt.name, c), fmt.Sprintf("handler saw remote address %q, request carried %q", f.obs.ranAddr, c26RemoteAddr(c)), cas)
		} else {
			want := map[string]bool{}
			for _, i := range cred.Ifaces {
				want[i] = true
			}
			if (live.Kind == "ifopen" || live.Kind == "ifauth") && cred.Socket == dirs.SnapSocket {
				cnt.ifaceGranted++
				if !f.sampled["iface"] && c.Conns[0] != c.Conns[1] {
					f.sampled["iface"] = true
					r.Sample(map[string]interface{}{"case": cas, "served": true, "handler_saw_remote_address": f.obs.ranAddr})
				}
				act := c26ActiveIfaces(c)
				for _, i := range live.Ifaces {
					if act[i] {
						want[i] = true
					}
				}
			}
			got := map[string]bool{}
			for _, i := range seen.Ifaces {
				if got[i] {
					r.Violation(c26CaseKey("handler-ifaces", method, rt.name, c), fmt.Sprintf("duplicate interface in %q", f.obs.ranAddr), cas)
				}
				got[i] = true
			}
			if fmt.Sprint(c26Sorted(got)) != fmt.Sprint(c26Sorted(want)) {
				r.Violation(c26CaseKey("handler-ifaces", method, rt.name, c), fmt.Sprintf("%s %s [%s]: handler saw interfaces %v attached to the peer, expected %v (remote address %q)", method, rt.url, live, c26Sorted(got), c26Sorted(want), f.obs.ranAddr), cas)
			}
		}
		if (c.User == "valid") != (f.obs.ranUser != nil) || (f.obs.ranUser != nil && f.obs.ranUser.ID != f.validID) {
			r.Violation(c26CaseKey("handler-user", method, rt.name, c), fmt.Sprintf("handler received user %+v for Authorization kind %q", f.obs.ranUser, c.User), cas)
		}
	} else {
		cnt.refused++
	}
	r.Distinct("outcome", fmt.Sprintf("%s/%v/%d", live.Kind, res.Ran, res.Status))
	if cred != nil {
		cnt.nontrivial++
	}
}

func c26Sorted(m map[string]bool) []string {
	var l []string
	for k := range m {
		l = append(l, k)
	}
	sort.Strings(l)
	return l
}

// ---------------------------------------------------------------------------------------------
// enumeration

var (
	c26Methods = []string{"GET", "PUT", "POST", "DELETE", "HEAD"}
	c26Sockets = []string{"snapd", "snap", "other", "empty"}
	c26Uids    = []uint32{0, 1000}
	c26Users   = []string{"none", "valid", "removed", "malformed"}
	c26Polkits = []string{"allow", "deny", "error", "dismissed"}
)

func c26AllConnScenarios() [][]string {
	var out [][]string
	n := len(c26ConnStates)
	for a := 0; a < n; a++ {
		for b := 0; b < n; b++ {
			for c := 0; c < n; c++ {
				out = append(out, []string{c26ConnStates[a], c26ConnStates[b], c26ConnStates[c]})
			}
		}
	}
	return out
}

func TestVerifC26(t *testing.T) {
	r := eng.Start("C26", "exploration", 80*time.Second, 13*time.Minute)
	r.Assume(
		"handlers are replaced by spies; everything between the router and the handler is the real code (Command.ServeHTTP, access checkers, checkPolkitActionImpl, userFromRequest + auth.CheckMacaroon, ifacestate.ConnectionStates, ucrednet decoding)",
		"environment models: polkit authority (answers allow/deny/error/dismissed, always authorizes uid 0), pid->snap cgroup lookup (ok/error); daemon not in degraded mode",
		"decision table per access level written from the property statement and the checkers' doc comments (caller on the slot side of a listed interface is not admitted: 'snaps that plug one of the provided interfaces')",
		"pinned declared levels transcribed from daemon/api_*.go at authoring time; the reference decoder of the peer-credential string is written from the format, without regular expressions",
	)
	f := c26Setup(t, r)

	if rc := r.ReplayCase(); rc != nil {
		var raw map[string]json.RawMessage
		json.Unmarshal(rc, &raw)
		if _, isRT := raw["base"]; isRT {
			var c c26RTCase
			if err := json.Unmarshal(rc, &c); err != nil {
				eng.HarnessError("bad replay case: %v", err)
			}
			var n c26RTCounters
			c26CheckRoundTrip(r, c, &n, true)
			r.Finish("replay")
		}
		var c c26Case
		if err := json.Unmarshal(rc, &c); err != nil {
			eng.HarnessError("bad replay case: %v", err)
		}
		found := false
		for _, rt := range f.routes {
			if rt.name == c.Path {
				found = true
				f.setConns(c.Caller.Conns)
				var cnt c26Counters
				f.checkOne(rt, c.Method, c.Caller, &cnt, true)
			}
		}
		if !found {
			eng.HarnessError("replay: no endpoint %q in the api table", c.Path)
		}
		r.Finish("replay")
	}

	if r.Sharded(16) {
		r.Finish(c26Rule)
	}

	if r.Thorough() {
		c26Methods = append(c26Methods, "PATCH", "OPTIONS", "get")
		c26Uids = append(c26Uids, 1)
	}
	var cnt c26Counters
	allScen := c26AllConnScenarios()
	twoScen := [][]string{{"absent", "absent", "absent"}, {"active", "active", "active"}}
	item := 0
	for _, rt := range f.routes {
		for _, method := range c26Methods {
			item++
			if !r.Mine(item) {
				continue
			}
			if r.TimeUp() {
				r.Cap("time", "stopped before "+method+" "+rt.name)
				continue
			}
			r.NoteCurrent(method + " " + rt.name)
			var lvl c26Level
			var handler ResponseFunc
			switch method {
			case "GET":
				lvl, handler = c26LevelOf(rt.cmd.ReadAccess), rt.cmd.GET
			case "PUT":
				lvl, handler = c26LevelOf(rt.cmd.WriteAccess), rt.cmd.PUT
			case "POST":
				lvl, handler = c26LevelOf(rt.cmd.WriteAccess), rt.cmd.POST
			}
			gated := lvl.Kind == "ifopen" || lvl.Kind == "ifauth"
			if pl, ok := c26Pinned[method+" "+rt.name]; ok && strings.HasPrefix(pl, "if") {
				gated = true
			}
			polkits := c26Polkits
			if handler == nil {
				polkits = []string{"allow"} // no handler for this method: the answer is 405 before any access decision
			}
			for _, sock := range c26Sockets {
				scens := twoScen
				if len(polkits) == 1 {
					scens = twoScen[1:]
				}
				snapNames := []string{"ok"}
				if sock == "snap" {
					snapNames = []string{"ok", "error"}
					if gated || (r.Thorough() && handler != nil) {
						scens = allScen
					}
				}
				for _, scen := range scens {
					f.setConns(scen)
					for _, addr := range c26AddrForms {
						if len(scens) > 2 && addr != "wf" && addr != "wf+iface" && fmt.Sprint(scen) != fmt.Sprint(twoScen[0]) && fmt.Sprint(scen) != fmt.Sprint(twoScen[1]) {
							continue // garbled addresses x all 216 scenarios adds nothing: credentials are rejected before connections are read
						}
						pks := polkits
						if r.Quick() && addr != "wf" && addr != "wf+iface" {
							pks = []string{"allow"} // quick: missing/garbled credentials only against the most permissive polkit answer
						}
						for _, uid := range c26Uids {
							for _, user := range c26Users {
								for _, pk := range pks {
									for _, sn := range snapNames {
										c := c26Caller{Addr: addr, Socket: sock, Uid: uid, User: user, Polkit: pk, SnapName: sn, Conns: scen}
										f.checkOne(rt, method, c, &cnt, false)
										if cnt.evals%200003 == 1 {
											r.Sample(c26Case{Method: method, Path: rt.name, Caller: c})
										}
									}
								}
							}
						}
					}
				}
			}
		}
	}
	r.Add("requests", cnt.evals)
	r.Add("requests_served", cnt.served)
	r.Add("requests_refused", cnt.refused)
	r.Add("requests_method_without_handler", cnt.methodNotAllowed)
	r.Add("requests_with_missing_or_unparsable_credentials", cnt.noCreds)
	r.Add("polkit_consultations", cnt.polkitConsulted)
	r.Add("served_through_interface_connection", cnt.ifaceGranted)

	// ---- part 2: peer credential encoding round trip (shard 0 only; pure functions) ----
	var rtc c26RTCounters
	if sh, _ := r.ShardIndex(); sh == 0 {
		c26RoundTrip(r, &rtc)
	}
	r.Add("roundtrip_cases", rtc.cases)
	r.Add("roundtrip_decodable", rtc.decodable)
	r.Add("roundtrip_undecodable", rtc.undecodable)

	r.Add("evaluations", cnt.evals+rtc.cases)
	r.Add("distinct_nontrivial", cnt.nontrivial)
	for k, v := range f.differ {
		r.Info("level_differs_from_pinned: "+k, v)
	}
	var unp []string
	for k := range f.unpinned {
		unp = append(unp, k)
	}
	sort.Strings(unp)
	for _, k := range unp {
		r.Info("unpinned: "+k, "judged against the live table only")
	}
	r.Info("bounds", map[string]int{"endpoints": len(f.routes), "methods": len(c26Methods), "address_forms": len(c26AddrForms), "sockets": len(c26Sockets), "uids": len(c26Uids),
		"authorization_kinds": len(c26Users), "polkit_answers": len(c26Polkits), "connection_scenarios_gated": len(allScen), "connection_scenarios_other": r.Pick(2, len(allScen)), "pinned_levels": len(c26Pinned)})
	r.Finish(c26Rule)
}

const c26Rule = "every endpoint of the api table x methods (quick: GET, PUT, POST, DELETE, HEAD; thorough adds PATCH, OPTIONS, lower-case get) x 20 remote-address forms x 4 sockets x uids (quick 0, 1000; thorough adds 1) x 4 Authorization kinds x 4 polkit answers (quick: missing/garbled credentials only with the most permissive answer, allow) x (snap socket: 2 pid->snap answers) x connection scenarios (on the snap socket with well-formed credentials: all 6^3 per-interface states for interface-gated endpoints, in the thorough tier for every endpoint; otherwise none / all-active), one request each through the real router (methods without a handler: polkit and connection dimensions collapsed, the answer is 405 before any access decision); plus the ucrednet encode/attach/decode round trip over all field combinations (coverage.roundtrip_bounds). distinct_nontrivial = requests to an existing handler with decodable credentials (the access level, not the credential parser, decides them)"

// ---------------------------------------------------------------------------------------------
// part 2: encode / attach / decode

type c26RTCase struct {
	Base   string   `json:"base"` // "cred" or a garbled form name
	Pid    int32    `json:"pid"`
	Uid    uint32   `json:"uid"`
	Socket string   `json:"socket"`
	Attach []string `json:"attach"` // interfaces attached in this order
}

type c26RTCounters struct{ cases, decodable, undecodable int64 }

func c26CheckRoundTrip(r *eng.Run, c c26RTCase, n *c26RTCounters, verbose bool) {
	n.cases++
	var addr string
	valid := false
	if c.Base == "cred" {
		addr = (&ucrednet{Pid: c.Pid, Uid: c.Uid, Socket: c.Socket}).String()
		valid = c.Pid > 0 && c.Uid != ucrednetNobody && !strings.Contains(c.Socket, ";")
	} else {
		sock := "snapd"
		addr = c26RemoteAddr(c26Caller{Addr: c.Base, Socket: sock, Uid: c.Uid})
	}
	var want []string
	for _, i := range c.Attach {
		addr = ucrednetAttachInterface(addr, i)
		dup := false
		for _, w := range want {
			if w == i {
				dup = true
			}
		}
		if !dup {
			want = append(want, i)
		}
	}
	u, ifaces, err := ucrednetGetWithInterfacesImpl(addr)
	u2, err2 := ucrednetGetImpl(addr)
	if verbose {
		fmt.Printf("round trip %+v\n  encoded: %q\n  decoded: %+v ifaces=%q err=%v\n", c, addr, u, ifaces, err)
	}
	key := fmt.Sprintf("roundtrip:%s:pid=%d,uid=%d,socket=%q,attach=%q", c.Base, c.Pid, c.Uid, c.Socket, c.Attach)
	if (err == nil) != (err2 == nil) || (u2 != nil && u != nil && *u2 != *u) {
		r.Violation(key, fmt.Sprintf("ucrednetGet and ucrednetGetWithInterfaces disagree on %q", addr), c)
	}
	if !valid {
		n.undecodable++
		switch {
		case err == nil && c.Base != "cred" && (len(c.Attach) == 0 || u.Socket == dirs.SnapdSocket || u.Socket == dirs.SnapSocket):
			// (attaching to an undecodable string may yield a decodable one whose socket field has swallowed the
			// attachment; such a peer is on no known socket and is admitted nowhere)
			r.Violation(key, fmt.Sprintf("garbled peer credentials %q decode to %+v after attaching %q", addr, *u, c.Attach), c)
		case err == nil && c.Base == "cred" && (u.Pid != c.Pid || u.Uid != c.Uid || c.Pid <= 0 || c.Uid == ucrednetNobody):
			r.Violation(key, fmt.Sprintf("credentials that must not decode (%q) decode to %+v", addr, *u), c)
		case err != nil && (u != nil || err != errNoID):
			r.Violation(key, fmt.Sprintf("decode of %q: err=%v ucred=%v, expected nil, errNoID", addr, err, u), c)
		}
		return
	}
	n.decodable++
	if err != nil || u == nil {
		r.Violation(key, fmt.Sprintf("valid credentials %q do not decode: %v", addr, err), c)
		return
	}
	if u.Pid != c.Pid || u.Uid != c.Uid || u.Socket != c.Socket || fmt.Sprintf("%q", ifaces) != fmt.Sprintf("%q", want) {
		r.Violation(key, fmt.Sprintf("round trip is not exact: encoded pid=%d uid=%d socket=%q ifaces=%q as %q, decoded pid=%d uid=%d socket=%q ifaces=%q", c.Pid, c.Uid, c.Socket, want, addr, u.Pid, u.Uid, u.Socket, ifaces), c)
	}
	// the reference decoder must agree too (keeps the two decoders of this harness honest)
	if ref, ok := c26RefDecode(addr); !ok || ref.Pid != u.Pid || ref.Uid != u.Uid || ref.Socket != u.Socket || fmt.Sprintf("%q", ref.Ifaces) != fmt.Sprintf("%q", ifaces) {
		eng.HarnessError("reference decoder disagrees with the implementation on the valid address %q: ref=%+v ok=%v impl=%+v %q", addr, ref, ok, *u, ifaces)
	}
}

func c26RoundTrip(r *eng.Run, n *c26RTCounters) {
	pids := []int32{1, c26Pid, 2147483647, 0, -1}
	uids := []uint32{0, 1, 1000, 4294967294, 4294967295}
	sockets := []string{dirs.SnapdSocket, dirs.SnapSocket, "", "/run/with space.socket", "/run/a=b&c.socket", "pid=1", "/run/a;b.socket", "/run/snapd.socket;iface=snap-themes-control", ";"}
	ifaceAlpha := []string{"snap-themes-control", "snap-refresh-observe", "a", ""}
	maxAttach := r.Pick(3, 4)
	var seqs [][]string
	var gen func(cur []string)
	gen = func(cur []string) {
		seqs = append(seqs, append([]string(nil), cur...))
		if len(cur) == maxAttach {
			return
		}
		for _, i := range ifaceAlpha {
			gen(append(cur, i))
		}
	}
	gen(nil)
	first := true
	for _, p := range pids {
		for _, u := range uids {
			for _, s := range sockets {
				for _, seq := range seqs {
					c := c26RTCase{Base: "cred", Pid: p, Uid: u, Socket: s, Attach: seq}
					c26CheckRoundTrip(r, c, n, false)
					if first && len(seq) == 2 {
						r.Sample(c)
						first = false
					}
				}
			}
		}
	}
	for _, form := range c26AddrForms {
		if form == "wf" || form == "wf+iface" {
			continue
		}
		for _, u := range c26Uids {
			for _, seq := range seqs {
				c26CheckRoundTrip(r, c26RTCase{Base: form, Uid: u, Attach: seq}, n, false)
			}
		}
	}
	r.Info("roundtrip_bounds", map[string]int{"pids": len(pids), "uids": len(uids), "sockets": len(sockets), "iface_alphabet": len(ifaceAlpha), "max_attachments": maxAttach, "garbled_forms": len(c26AddrForms) - 2})
}
