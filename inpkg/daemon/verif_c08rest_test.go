// C08 (part C08rest) — the owner rule of notices at the REST layer: GET /v2/notices.
//
// A daemon over a mock overlord whose state holds notices for owners {public, uid 0, uid 1000, uid 1001}
// x 2 types (one per gating interface) x 2 keys, plus two "warning" notices (a type no interface
// grants), three of them repeated later so that last-repeated order differs from id order. Every
// combination of caller x user-id x users x types x keys x after x timeout is sent through the real
// router -> Command.ServeHTTP -> interfaceOpenAccess -> getNotices -> State.Notices/WaitNotices and the
// JSON answer is compared with a reference written from the statement and the handler's documentation.
package daemon

import (
	"encoding/json"
	"errors"
	"fmt"
	"net/http"
	"net/http/httptest"
	"net/url"
	"os"
	"path/filepath"
	"sort"
	"strconv"
	"strings"
	"testing"
	"time"

	"github.com/snapcore/snapd/dirs"
	"github.com/snapcore/snapd/logger"
	"github.com/snapcore/snapd/overlord"
	"github.com/snapcore/snapd/overlord/state"
	eng "github.com/snapcore/snapd/verifengine"
)

const (
	c08rPid        = 4242
	c08rCallerSnap = "callersnap"
	c08rT1         = "change-update"              // readable through snap-refresh-observe
	c08rT2         = "interfaces-requests-prompt" // readable through snap-interfaces-requests-control
	c08rTW         = "warning"                    // readable through no interface
	c08rObserve    = "snap-refresh-observe"
	c08rControl    = "snap-interfaces-requests-control"
)

// what each gating interface lets a snap read (transcribed from the documentation of the interfaces)
var c08rIfaceTypes = map[string][]string{
	c08rObserve: {"change-update", "refresh-inhibit", "snap-run-inhibit"},
	c08rControl: {"interfaces-requests-prompt", "interfaces-requests-rule-update"},
}

var c08rValidTypes = map[string]bool{"change-update": true, "warning": true, "refresh-inhibit": true, "snap-run-inhibit": true,
	"interfaces-requests-prompt": true, "interfaces-requests-rule-update": true}

type c08rNotice struct {
	ID           string
	Owner        int64 // -1 = public
	Type, Key    string
	LastRepeated time.Time
}

type c08rCaller struct {
	Name   string `json:"name"`
	Addr   string `json:"addr"`   // wf | wf+iface | nil-ucred
	Socket string `json:"socket"` // snapd | snap
	Uid    uint32 `json:"uid"`
	Conns  string `json:"conns"` // none | observe | control | both   (snap socket)
}

type c08rCase struct {
	Caller c08rCaller          `json:"caller"`
	Query  map[string][]string `json:"query"`
}

type c08rFixture struct {
	r       *eng.Run
	d       *Daemon
	st      *state.State
	notices []c08rNotice
	byID    map[string]c08rNotice
	base    time.Time
}

func c08rSetup(t *testing.T, r *eng.Run) *c08rFixture {
	f := &c08rFixture{r: r, byID: map[string]c08rNotice{}}
	dirs.SetRootDir(t.TempDir())
	if err := os.MkdirAll(filepath.Dir(dirs.SnapdSocket), 0755); err != nil {
		eng.HarnessError("%v", err)
	}
	logger.SetLogger(logger.NullLogger)
	o := overlord.Mock()
	f.st = o.State()
	f.d = &Daemon{overlord: o, state: f.st}
	f.d.addRoutes()
	cgroupSnapNameFromPid = func(pid int) (string, error) {
		if pid == c08rPid {
			return c08rCallerSnap, nil
		}
		return "", errors.New("not a snap")
	}

	// notices: well inside the 7-day expiry, whole seconds apart
	f.base = time.Now().Add(-2 * time.Hour).UTC().Truncate(time.Second)
	owners := []int64{-1, 0, 1000, 1001}
	type ident struct {
		owner    int64
		typ, key string
	}
	var idents []ident
	for _, key := range []string{"k1", "k2"} {
		for _, typ := range []string{c08rT1, c08rT2} {
			for _, ow := range owners {
				idents = append(idents, ident{ow, typ, key})
			}
		}
	}
	idents = append(idents, ident{-1, c08rTW, "w1"}, ident{1001, c08rTW, "w1"})
	add := func(id ident, at time.Time) string {
		var uid *uint32
		if id.owner >= 0 {
			u := uint32(id.owner)
			uid = &u
		}
		nid, err := f.st.AddNotice(uid, state.NoticeType(id.typ), id.key, &state.AddNoticeOptions{Time: at})
		if err != nil {
			eng.HarnessError("AddNotice: %v", err)
		}
		return nid
	}
	f.st.Lock()
	for i, id := range idents {
		at := f.base.Add(time.Duration(i) * time.Second)
		nid := add(id, at)
		f.notices = append(f.notices, c08rNotice{ID: nid, Owner: id.owner, Type: id.typ, Key: id.key, LastRepeated: at})
	}
	// repeats: last-repeated order is no longer id order nor first-occurred order
	for j, idx := range []int{0, 15, 1} {
		at := f.base.Add(time.Duration(100+j) * time.Second)
		id := idents[idx]
		if nid := add(id, at); nid != f.notices[idx].ID {
			eng.HarnessError("repeat got a new id")
		}
		f.notices[idx].LastRepeated = at
	}
	f.st.Unlock()
	for _, n := range f.notices {
		f.byID[n.ID] = n
	}
	return f
}

func (f *c08rFixture) setConns(kind string) {
	m := map[string]interface{}{
		c08rCallerSnap + ":network slotsnap:network": map[string]interface{}{"interface": "network"},
		// another snap has both gating interfaces: must never help the caller
		"othersnap:" + c08rObserve + " slotsnap:" + c08rObserve: map[string]interface{}{"interface": c08rObserve},
		"othersnap:" + c08rControl + " slotsnap:" + c08rControl: map[string]interface{}{"interface": c08rControl},
	}
	if kind == "observe" || kind == "both" {
		m[c08rCallerSnap+":"+c08rObserve+" slotsnap:"+c08rObserve] = map[string]interface{}{"interface": c08rObserve}
	}
	if kind == "control" || kind == "both" {
		m[c08rCallerSnap+":"+c08rControl+" slotsnap:"+c08rControl] = map[string]interface{}{"interface": c08rControl}
	}
	f.st.Lock()
	f.st.Set("conns", m)
	f.st.Unlock()
}

func c08rRemoteAddr(c c08rCaller) string {
	sock := dirs.SnapdSocket
	if c.Socket == "snap" {
		sock = dirs.SnapSocket
	}
	switch c.Addr {
	case "wf":
		return fmt.Sprintf("pid=%d;uid=%d;socket=%s;", c08rPid, c.Uid, sock)
	case "wf+iface": // an iface field nobody attached on the daemon side proves nothing
		return fmt.Sprintf("pid=%d;uid=%d;socket=%s;iface=%s&%s;", c08rPid, c.Uid, sock, c08rObserve, c08rControl)
	case "nil-ucred":
		return "pid=;uid=;socket=;"
	}
	eng.HarnessError("unknown addr form %q", c.Addr)
	return ""
}

// ---- reference ----

type c08rExpect struct {
	statuses map[int]bool // acceptable status codes
	exact    bool         // 200 with exactly list
	list     []string     // expected ids in order
	why      string
}

func c08rOne(q map[string][]string, k string) (string, bool) {
	v, ok := q[k]
	if !ok || len(v) == 0 {
		return "", false
	}
	return v[0], true
}

func c08rSplit(vals []string) []string {
	var out []string
	for _, v := range vals {
		for _, p := range strings.Split(v, ",") {
			if p = strings.TrimSpace(p); p != "" {
				out = append(out, p)
			}
		}
	}
	return out
}

func (f *c08rFixture) expect(c c08rCaller, q map[string][]string) c08rExpect {
	only := func(code int, why string) c08rExpect { return c08rExpect{statuses: map[int]bool{code: true}, why: why} }
	// access level of the endpoint: open on snapd.socket; on snapd-snap.socket only with an active plug of a listed interface
	if c.Addr == "nil-ucred" {
		return only(403, "no peer credentials")
	}
	granted := map[string]bool{} // notice types the calling snap may read
	if c.Socket == "snap" {
		if c.Conns == "none" {
			return only(403, "snap socket without a connected gating interface")
		}
		if c.Conns == "observe" || c.Conns == "both" {
			for _, t := range c08rIfaceTypes[c08rObserve] {
				granted[t] = true
			}
		}
		if c.Conns == "control" || c.Conns == "both" {
			for _, t := range c08rIfaceTypes[c08rControl] {
				granted[t] = true
			}
		}
	}
	_, hasUserID := q["user-id"]
	_, hasUsers := q["users"]
	admin := c.Uid == 0
	if !admin && (hasUserID || hasUsers) {
		return only(403, "only admins may select users")
	}
	faults := map[int]bool{}
	var why []string
	emptyTypes := false
	// effective user filter
	userFilter := int64(c.Uid) // own + public
	allUsers := false
	if hasUserID {
		vals := c08rSplit(q["user-id"])
		ok := len(vals) == 1
		if ok {
			n, err := strconv.ParseInt(vals[0], 10, 64)
			if err != nil || n < 0 || n > 4294967295 {
				ok = false
			} else {
				userFilter = n
			}
		}
		if !ok {
			faults[400] = true
			why = append(why, "invalid user-id")
		}
	}
	if hasUsers {
		v, _ := c08rOne(q, "users")
		switch {
		case hasUserID:
			faults[400] = true
			why = append(why, "users together with user-id")
		case v != "all":
			faults[400] = true
			why = append(why, "users must be all")
		default:
			allUsers = true
		}
	}
	// types
	var types map[string]bool
	if tl := c08rSplit(q["types"]); len(tl) > 0 {
		types = map[string]bool{}
		for _, t := range tl {
			if c08rValidTypes[t] {
				types[t] = true
			}
		}
		if len(types) == 0 {
			emptyTypes = true // only unknown types requested: nothing, not everything
			why = append(why, "only unknown types")
		}
	}
	if c.Socket == "snap" {
		if types == nil {
			types = granted
		} else {
			for t := range types {
				if !granted[t] {
					faults[403] = true
					why = append(why, "snap may not read type "+t)
				}
			}
		}
	}
	var keys map[string]bool
	if kl := c08rSplit(q["keys"]); len(kl) > 0 {
		keys = map[string]bool{}
		for _, k := range kl {
			keys[k] = true
		}
	}
	var after time.Time
	if a, ok := c08rOne(q, "after"); ok && a != "" {
		tm, err := time.Parse(time.RFC3339, a)
		if err != nil {
			faults[400] = true
			why = append(why, "invalid after")
		}
		after = tm
	}
	if to, ok := c08rOne(q, "timeout"); ok && to != "" {
		if _, err := time.ParseDuration(to); err != nil {
			faults[400] = true
			why = append(why, "invalid timeout")
		}
	}
	if len(faults) > 0 || emptyTypes {
		e := c08rExpect{statuses: faults, why: strings.Join(why, "; ")}
		if emptyTypes {
			e.statuses[200] = true // with an empty list (checked by the caller: exact=false, list=nil)
		}
		return e
	}
	var sel []c08rNotice
	for _, n := range f.notices {
		if !allUsers && n.Owner != -1 && n.Owner != userFilter {
			continue
		}
		if types != nil && !types[n.Type] {
			continue
		}
		if keys != nil && !keys[n.Key] {
			continue
		}
		if !after.IsZero() && !n.LastRepeated.After(after) {
			continue
		}
		sel = append(sel, n)
	}
	sort.SliceStable(sel, func(i, j int) bool { return sel[i].LastRepeated.Before(sel[j].LastRepeated) })
	e := c08rExpect{statuses: map[int]bool{200: true}, exact: true, why: "no fault"}
	for _, n := range sel {
		e.list = append(e.list, n.ID)
	}
	return e
}

// ---- one request ----

type c08rJSONNotice struct {
	ID           string    `json:"id"`
	UserID       *uint32   `json:"user-id"`
	Type         string    `json:"type"`
	Key          string    `json:"key"`
	LastRepeated time.Time `json:"last-repeated"`
}

type c08rCounters struct {
	evals, ok200, nonEmpty, refused403, bad400, emptyWaits, nontrivial, userSpecificReturned int64
}

func c08rKey(law string, c c08rCaller, q map[string][]string) string {
	return law + ":" + c.Name + ":" + url.Values(q).Encode()
}

// resolve replaces the symbolic after values (@mid, @equal, @late, @early: positions relative to the
// notices of this run) by timestamps; cases and violation keys keep the symbolic form so that they replay.
func (f *c08rFixture) resolve(sym map[string][]string) map[string][]string {
	q := map[string][]string{}
	for k, v := range sym {
		q[k] = v
		if k == "after" && len(v) == 1 {
			switch v[0] {
			case "@mid": // between the 9th and the 10th notice
				q[k] = []string{f.base.Add(8*time.Second + 500*time.Millisecond).Format(time.RFC3339Nano)}
			case "@equal": // exactly the last-repeated time of the 10th notice
				q[k] = []string{f.base.Add(9 * time.Second).Format(time.RFC3339Nano)}
			case "@late": // after everything but two of the repeats
				q[k] = []string{f.base.Add(100*time.Second + 500*time.Millisecond).Format(time.RFC3339Nano)}
			case "@early": // before everything
				q[k] = []string{f.base.Add(-time.Hour).Format(time.RFC3339)}
			}
		}
	}
	return q
}

func (f *c08rFixture) checkOne(c c08rCaller, sym map[string][]string, cnt *c08rCounters, verbose bool) {
	r := f.r
	cas := c08rCase{Caller: c, Query: sym}
	q := f.resolve(sym)
	req, err := http.NewRequest("GET", "/v2/notices?"+url.Values(q).Encode(), nil)
	if err != nil {
		eng.HarnessError("%v", err)
	}
	req.RemoteAddr = c08rRemoteAddr(c)
	rec := httptest.NewRecorder()
	crash := ""
	func() {
		defer func() {
			if p := recover(); p != nil {
				crash = fmt.Sprint(p)
			}
		}()
		f.d.router.ServeHTTP(rec, req)
	}()
	cnt.evals++
	exp := f.expect(c, q)
	if verbose {
		fmt.Printf("GET %s\n  caller %+v remote address %q\n  expected: statuses %v exact=%v ids=%v (%s)\n  got: status %d body %s\n", req.URL, c, req.RemoteAddr, exp.statuses, exp.exact, exp.list, exp.why, rec.Code, strings.TrimSpace(rec.Body.String()))
	}
	if crash != "" {
		r.Violation(c08rKey("crash", c, sym), "GET /v2/notices panicked: "+crash, cas)
		return
	}
	var body struct {
		Type       string          `json:"type"`
		StatusCode int             `json:"status-code"`
		Result     json.RawMessage `json:"result"`
	}
	if err := json.Unmarshal(rec.Body.Bytes(), &body); err != nil || body.StatusCode != rec.Code {
		r.Violation(c08rKey("malformed-response", c, sym), fmt.Sprintf("status %d, body %q", rec.Code, rec.Body.String()), cas)
		return
	}
	r.Distinct("status", strconv.Itoa(rec.Code))
	var got []c08rJSONNotice
	if rec.Code == 200 {
		cnt.ok200++
		if err := json.Unmarshal(body.Result, &got); err != nil || got == nil {
			r.Violation(c08rKey("malformed-result", c, sym), fmt.Sprintf("result is not a list: %s", body.Result), cas)
			return
		}
		// the owner rule itself, independent of everything else
		granted := map[string]bool{}
		if c.Conns == "observe" || c.Conns == "both" {
			for _, t := range c08rIfaceTypes[c08rObserve] {
				granted[t] = true
			}
		}
		if c.Conns == "control" || c.Conns == "both" {
			for _, t := range c08rIfaceTypes[c08rControl] {
				granted[t] = true
			}
		}
		for i, n := range got {
			ref, known := f.byID[n.ID]
			owner := int64(-1)
			if n.UserID != nil {
				owner = int64(*n.UserID)
				cnt.userSpecificReturned++
			}
			if !known || ref.Owner != owner || ref.Type != n.Type || ref.Key != n.Key || !ref.LastRepeated.Equal(n.LastRepeated) {
				r.Violation(c08rKey("unknown-notice", c, sym), fmt.Sprintf("returned notice %+v does not match what was recorded (%+v)", n, ref), cas)
			}
			if c.Addr == "nil-ucred" || (owner != -1 && c.Uid != 0 && owner != int64(c.Uid)) {
				r.Violation(c08rKey("foreign-notice", c, sym), fmt.Sprintf("caller uid %d received notice %s owned by uid %d (type %s key %s)", c.Uid, n.ID, owner, n.Type, n.Key), cas)
			}
			if c.Socket == "snap" && !granted[n.Type] {
				r.Violation(c08rKey("snap-foreign-type", c, sym), fmt.Sprintf("snap with connections %q received a %s notice", c.Conns, n.Type), cas)
			}
			if i > 0 && n.LastRepeated.Before(got[i-1].LastRepeated) {
				r.Violation(c08rKey("order", c, sym), fmt.Sprintf("notices not ordered by last-repeated: %s (%s) after %s (%s)", n.ID, n.LastRepeated, got[i-1].ID, got[i-1].LastRepeated), cas)
			}
		}
	}
	switch rec.Code {
	case 403:
		cnt.refused403++
	case 400:
		cnt.bad400++
	}
	if !exp.statuses[rec.Code] {
		var want []int
		for s := range exp.statuses {
			want = append(want, s)
		}
		sort.Ints(want)
		law := "status"
		if rec.Code == 200 && len(got) > 0 {
			law = "served-instead-of-refused"
		}
		r.Violation(c08rKey(law, c, sym), fmt.Sprintf("GET %s by %s: status %d (%d notices), expected %v: %s", req.URL, c.Name, rec.Code, len(got), want, exp.why), cas)
		return
	}
	if rec.Code != 200 {
		return
	}
	var ids []string
	for _, n := range got {
		ids = append(ids, n.ID)
	}
	if !exp.exact {
		if len(ids) != 0 {
			r.Violation(c08rKey("list", c, sym), fmt.Sprintf("GET %s by %s: expected an empty list (%s), got ids %v", req.URL, c.Name, exp.why, ids), cas)
		}
		return
	}
	if fmt.Sprint(ids) != fmt.Sprint(exp.list) {
		r.Violation(c08rKey("list", c, sym), fmt.Sprintf("GET %s by %s: got notice ids %v, expected %v (visible to the effective user filter, matching types/keys/after, ordered by last-repeated)", req.URL, c.Name, ids, exp.list), cas)
	}
	if len(ids) > 0 {
		cnt.nonEmpty++
		if len(ids) < len(f.notices) {
			cnt.nontrivial++
		}
	} else if _, ok := q["timeout"]; ok {
		cnt.emptyWaits++
	}
	r.Distinct("result", strings.Join(ids, ","))
}

const c08rRule = "every combination of caller (snapd socket uid 0/1000/1001; snap socket x uid x connections none/observe/control/both; missing credentials; forged iface field) x user-id x users x types x keys x after x timeout (value lists in coverage.dimensions), one GET /v2/notices each through the real router and access check into the real getNotices over a state with 18 notices (4 owners x 2 types x 2 keys + 2 warnings, 3 repeated). distinct_nontrivial = requests answered 200 with a non-empty proper subset of the notices, compared id by id and in order with the reference"

func TestVerifC08rest(t *testing.T) {
	r := eng.Start("C08", "exploration", 100*time.Second, 10*time.Minute)
	r.Assume(
		"REST part of C08: the state-level semantics of Notices/WaitNotices are checked by the state part; here the handler's choice of user filter, its refusals and its parameter handling are checked end to end (router, access check, handler, JSON)",
		"reference written from the statement and the handler documentation: default filter = own + public; user-id / users only for uid 0 (403 otherwise, whatever else is wrong); users must be 'all' and excludes user-id (400); user-id one integer in uint32 range (400); only-unknown types -> empty list; over the snap socket only types granted by the connected interfaces (403 otherwise; default = the granted types); after is exclusive on last-repeated; invalid after/timeout -> 400; with several faults any of their statuses is accepted",
		"admin = uid 0; cgroup lookup and the connection table are models; notice times are set with AddNoticeOptions.Time two hours in the past (inside the 7-day expiry)",
	)
	f := c08rSetup(t, r)

	if rc := r.ReplayCase(); rc != nil {
		var c c08rCase
		if err := json.Unmarshal(rc, &c); err != nil {
			eng.HarnessError("bad replay case: %v", err)
		}
		f.setConns(c.Caller.Conns)
		var cnt c08rCounters
		f.checkOne(c.Caller, c.Query, &cnt, true)
		r.Finish("replay")
	}
	if r.Sharded(16) {
		r.Finish(c08rRule)
	}

	var callers []c08rCaller
	for _, uid := range []uint32{0, 1000, 1001} {
		callers = append(callers, c08rCaller{Name: fmt.Sprintf("snapd-uid%d", uid), Addr: "wf", Socket: "snapd", Uid: uid, Conns: "none"})
	}
	for _, uid := range []uint32{0, 1000, 1001} {
		for _, conns := range []string{"none", "observe", "control", "both"} {
			callers = append(callers, c08rCaller{Name: fmt.Sprintf("snap-uid%d-%s", uid, conns), Addr: "wf", Socket: "snap", Uid: uid, Conns: conns})
		}
	}
	callers = append(callers,
		c08rCaller{Name: "no-credentials", Addr: "nil-ucred", Socket: "snapd", Uid: 0, Conns: "none"},
		c08rCaller{Name: "snap-uid1000-forged-iface-field", Addr: "wf+iface", Socket: "snap", Uid: 1000, Conns: "none"},
	)
	absent := "\x00absent"
	userIDs := []string{absent, "0", "1000", "1001", "garbage", "-1", "4294967296", "", "1000,1001"}
	users := []string{absent, "all", "admins", ""}
	types := []string{absent, c08rT1, c08rT2, c08rT1 + "," + c08rT2, "xyz", "xyz," + c08rT1, c08rTW}
	keys := []string{absent, "k1", "k1,k2", "nokey"}
	afters := []string{absent, "@mid", "@equal", "garbage"}
	timeouts := []string{absent, "1ms", "garbage"}
	if r.Thorough() {
		userIDs = append(userIDs, "4294967295", "0x3e8", "1e3", "1000;1001")
		users = append(users, "ALL")
		types = append(types, c08rT2+","+c08rT1+","+c08rT1, "refresh-inhibit", c08rTW+","+c08rT1)
		keys = append(keys, "k2", "w1")
		afters = append(afters, "@late", "@early")
		timeouts = append(timeouts, "0s")
	}
	r.Info("dimensions", map[string]interface{}{"callers": len(callers), "user-id": userIDs[1:], "users": users[1:], "types": types[1:], "keys": keys[1:],
		"after": []string{"between notices 9 and 10", "equal to a last-repeated time", "garbage", "(thorough) after all but two repeats, before all"}, "timeout": timeouts[1:], "each_also": "absent"})

	var cnt c08rCounters
	item := 0
	for _, c := range callers {
		for _, uidp := range userIDs {
			item++
			if !r.Mine(item) {
				continue
			}
			if r.TimeUp() {
				r.Cap("time", "stopped before caller "+c.Name+" user-id "+uidp)
				continue
			}
			r.NoteCurrent(c.Name + " user-id=" + uidp)
			f.setConns(c.Conns)
			for _, us := range users {
				for _, ty := range types {
					for _, ke := range keys {
						for _, af := range afters {
							for _, to := range timeouts {
								q := map[string][]string{}
								for k, v := range map[string]string{"user-id": uidp, "users": us, "types": ty, "keys": ke, "after": af, "timeout": to} {
									if v != absent {
										q[k] = []string{v}
									}
								}
								f.checkOne(c, q, &cnt, false)
								if cnt.evals%40009 == 7 {
									r.Sample(c08rCase{Caller: c, Query: q})
								}
							}
						}
					}
				}
			}
		}
	}
	r.Add("evaluations", cnt.evals)
	r.Add("distinct_nontrivial", cnt.nontrivial)
	r.Add("answered_200", cnt.ok200)
	r.Add("answered_200_nonempty", cnt.nonEmpty)
	r.Add("answered_403", cnt.refused403)
	r.Add("answered_400", cnt.bad400)
	r.Add("empty_waits_with_timeout", cnt.emptyWaits)
	r.Add("user_specific_notices_returned", cnt.userSpecificReturned)
	r.Info("notices_in_state", len(f.notices))
	r.Finish(c08rRule)
}
